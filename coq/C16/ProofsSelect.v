(** C16.ProofsSelect — path selection: the model of [VersionHistory::select_path] equals the
    documented contract on every history [VersionHistory::new] accepts. *)
From Base Require Import Prelude.
From C16 Require Import Model Spec.
From Coq Require Import ZifyBool ZifyNat ZifyN.

(** What the proof needs from [VersionHistory::new]: in the order [is_superset_of] uses,
    stable versions strictly ascend, a deprecation is not before the last stable path, a removal
    is after the deprecation and only exists with one. *)
Fixpoint strictly_ascending (prev : option N) (l : list (N * str)) : Prop :=
  match l with
  | [] => True
  | (v, _) :: l' => match prev with Some p => p < v | None => True end /\ strictly_ascending (Some v) l'
  end.

Record ordered_history (h : history) : Prop := {
  oh_asc : strictly_ascending None (stable h);
  oh_dep : forall d, deprecated h = Some d -> exists p path, last_opt (stable h) = Some (p, path) /\ p <= d;
  oh_rem : forall r, removed h = Some r -> exists d, deprecated h = Some d /\ d < r }.

Definition outcome_of_selection (s : selection) : outcome str :=
  match s with
  | SelPath p => Ok p
  | SelRemoved => Err E_REMOVED
  | SelNoPath => Err E_NO_UNSTABLE
  end.

Definition spec_select_h (h : history) (vs : list N) : selection :=
  spec_select (unstable h) (stable h) (removed h) vs.

(* ---- small facts ---- *)
Lemma reaches_ge_any vs x : reaches vs x = ge_any vs x.
Proof. reflexivity. Qed.
Lemma all_reach_ge_all vs x : all_reach vs x = ge_all vs x.
Proof. reflexivity. Qed.

Lemma ge_any_mono vs a b : a <= b -> ge_any vs b = true -> ge_any vs a = true.
Proof.
  unfold ge_any. intros Hab H. apply existsb_exists in H as [v [Hin Hv]].
  apply existsb_exists. exists v. split; [exact Hin|]. lia.
Qed.

Lemma final_last_opt {A} (l : list A) : final l = last_opt l.
Proof.
  induction l as [|x l IH]; [reflexivity|].
  cbn [final last_opt]. rewrite IH. destruct l as [|y l]; [reflexivity|].
  destruct (last_opt (y :: l)) eqn:E; [reflexivity|].
  exfalso. clear -E. revert y E. induction l as [|z l IH]; intros y E; cbn in E; [discriminate|].
  eapply IH; exact E.
Qed.

(** All entries of [l] have versions above [lo]. *)
Definition all_above (lo : N) (l : list (N * str)) : Prop := forall v p, In (v, p) l -> lo < v.

Lemma asc_all_above p l : strictly_ascending (Some p) l -> all_above p l.
Proof.
  revert p; induction l as [|[v q] l IH]; intros p H v' p' Hin; [destruct Hin|].
  cbn in H. destruct H as [Hlt Hrest]. destruct Hin as [E|Hin].
  - inversion E; subst; exact Hlt.
  - specialize (IH v Hrest v' p' Hin). lia.
Qed.

Lemma asc_tail prev v q l : strictly_ascending prev ((v, q) :: l) -> strictly_ascending (Some v) l.
Proof. cbn. tauto. Qed.

(** Scanning an ascending list with [newest_reachable] keeps the last reachable entry. *)
Lemma newest_reachable_asc vs l : forall prev best,
  strictly_ascending prev l ->
  (forall bv bp, best = Some (bv, bp) -> match prev with Some p => bv <= p | None => False end) ->
  newest_reachable vs l best =
    match List.find (fun vp => ge_any vs (fst vp)) (List.rev l) with
    | Some e => Some e
    | None => best
    end.
Proof.
  induction l as [|[v q] l IH]; intros prev best Hasc Hbest; [reflexivity|].
  cbn [newest_reachable List.rev]. change (reaches vs v) with (ge_any vs v).
  pose proof (asc_tail _ _ _ _ Hasc) as Htl.
  assert (Hfind : forall (l1 : list (N * str)) e,
             List.find (fun vp => ge_any vs (fst vp)) (l1 ++ [e]) =
             match List.find (fun vp => ge_any vs (fst vp)) l1 with
             | Some x => Some x
             | None => if ge_any vs (fst e) then Some e else None
             end).
  { induction l1 as [|a l1 IH1]; intros e; cbn [List.find app]; [reflexivity|].
    destruct (ge_any vs (fst a)); [reflexivity|apply IH1]. }
  rewrite Hfind. cbn [fst].
  destruct (ge_any vs v) eqn:Ev.
  - assert (E : newest_reachable vs l (Some (v, q)) =
                match List.find (fun vp => ge_any vs (fst vp)) (List.rev l) with
                | Some e => Some e | None => Some (v, q) end).
    { apply (IH (Some v)); [exact Htl|]. intros bv bp Hb. inversion Hb; subst. lia. }
    destruct best as [[bv bp]|].
    + assert (Hlt : bv <? v = true).
      { specialize (Hbest bv bp eq_refl). destruct prev as [p|]; [|contradiction].
        cbn in Hasc. lia. }
      rewrite Hlt. rewrite E. destruct (List.find _ (List.rev l)); reflexivity.
    + rewrite E. destruct (List.find _ (List.rev l)); reflexivity.
  - rewrite (IH (Some v) best Htl).
    + destruct (List.find _ (List.rev l)); reflexivity.
    + intros bv bp Hb. specialize (Hbest bv bp Hb). destruct prev as [p|]; [|contradiction].
      cbn in Hasc. lia.
Qed.

Lemma find_rev_none_first vs v q l :
  strictly_ascending None ((v, q) :: l) ->
  List.find (fun vp => ge_any vs (fst vp)) (List.rev ((v, q) :: l)) = None ->
  ge_any vs v = false.
Proof.
  intros _ H. destruct (ge_any vs v) eqn:E; [|reflexivity].
  exfalso. pose proof (List.find_none _ _ H (v, q)) as Hn.
  cbn [fst] in Hn. rewrite E in Hn. assert (In (v, q) (List.rev ((v, q) :: l))).
  { apply -> List.in_rev. left; reflexivity. }
  specialize (Hn H0). discriminate.
Qed.

Lemma find_rev_some_first vs v q l e :
  strictly_ascending None ((v, q) :: l) ->
  List.find (fun vp => ge_any vs (fst vp)) (List.rev ((v, q) :: l)) = Some e ->
  ge_any vs v = true.
Proof.
  intros Hasc H. apply List.find_some in H as [Hin He]. apply List.in_rev in Hin.
  destruct Hin as [E|Hin]; [subst e; exact He|].
  destruct e as [v' q']. cbn [fst] in He.
  cbn in Hasc. destruct Hasc as [_ Hasc].
  pose proof (asc_all_above _ _ Hasc v' q' Hin) as Hlt.
  eapply ge_any_mono; [|exact He]. lia.
Qed.

Lemma last_opt_in {A} (l : list A) x : last_opt l = Some x -> In x l.
Proof.
  induction l as [|y l IH]; cbn [last_opt]; [discriminate|].
  destruct l as [|z l]; [intros E; inversion E; left; reflexivity|].
  intros E; right; apply IH; exact E.
Qed.

Lemma asc_first_le_all v q l : strictly_ascending None ((v, q) :: l) ->
  forall v' q', In (v', q') ((v, q) :: l) -> v <= v'.
Proof.
  intros Hasc v' q' [E|Hin]; [inversion E; lia|].
  cbn in Hasc. destruct Hasc as [_ Hasc]. pose proof (asc_all_above _ _ Hasc v' q' Hin). lia.
Qed.

Lemma newest_is_find vs l : strictly_ascending None l ->
  newest_reachable vs l None = List.find (fun vp => ge_any vs (fst vp)) (List.rev l).
Proof.
  intros Hasc. rewrite (newest_reachable_asc vs l None None Hasc).
  - destruct (List.find _ _); reflexivity.
  - intros ? ? E; discriminate.
Qed.

Lemma stable_true h vs : strictly_ascending None (stable h) ->
  is_some_and (added_in h) (ge_any vs) = true ->
  exists v p, newest_reachable vs (stable h) None = Some (v, p) /\ stable_endpoint_for h vs = Some p.
Proof.
  intros Hasc H. rewrite (newest_is_find _ _ Hasc). unfold stable_endpoint_for, added_in in *.
  destruct (stable h) as [|[v q] l]; [discriminate|]. cbn [is_some_and] in H.
  destruct (List.find (fun vp => ge_any vs (fst vp)) (List.rev ((v, q) :: l))) as [[v' q']|] eqn:Ef.
  - exists v', q'. split; reflexivity.
  - rewrite (find_rev_none_first _ _ _ _ Hasc Ef) in H. discriminate.
Qed.

Lemma stable_false h vs : strictly_ascending None (stable h) ->
  is_some_and (added_in h) (ge_any vs) = false ->
  newest_reachable vs (stable h) None = None.
Proof.
  intros Hasc H. rewrite (newest_is_find _ _ Hasc). unfold added_in in *.
  destruct (stable h) as [|[v q] l]; [reflexivity|]. cbn [is_some_and] in H.
  destruct (List.find (fun vp => ge_any vs (fst vp)) (List.rev ((v, q) :: l))) as [e|] eqn:Ef; [|reflexivity].
  rewrite (find_rev_some_first _ _ _ _ _ Hasc Ef) in H. discriminate.
Qed.

(** The theorem, for every history ordered as [VersionHistory::new] demands. *)
Theorem select_path_eq_spec_ordered h :
  ordered_history h -> forall vs, select_path h vs = outcome_of_selection (spec_select_h h vs).
Proof.
  intros [Hasc Hdep Hrem] vs.
  unfold select_path, versioning_decision_for, spec_select_h, spec_select.
  destruct (removed h) as [r|] eqn:Er; cbn [is_some_and].
  - change (all_reach vs r) with (ge_all vs r). destruct (ge_all vs r) eqn:Eall; [reflexivity|].
    destruct (is_some_and (added_in h) (ge_any vs)) eqn:Ea.
    + destruct (stable_true h vs Hasc Ea) as (v & p & E1 & E2). rewrite E1, E2. cbv zeta.
      assert (Hno : ge_any vs r && negb (is_some_and (deprecated h) (ge_all vs))
                    && negb (is_some_and (deprecated h) (ge_all vs) || is_some_and (deprecated h) (ge_any vs))
                    = false).
      { destruct (ge_any vs r) eqn:Ear; [|reflexivity].
        destruct (Hrem r eq_refl) as [d [Ed Hlt]]. rewrite Ed. cbn [is_some_and].
        assert (Hd : ge_any vs d = true) by (eapply ge_any_mono; [|exact Ear]; lia).
        rewrite Hd, orb_true_r. cbn. apply andb_false_r. }
      rewrite Hno. reflexivity.
    + rewrite (stable_false h vs Hasc Ea), final_last_opt.
      destruct (last_opt (unstable h)); reflexivity.
  - destruct (is_some_and (added_in h) (ge_any vs)) eqn:Ea.
    + destruct (stable_true h vs Hasc Ea) as (v & p & E1 & E2). rewrite E1, E2. reflexivity.
    + rewrite (stable_false h vs Hasc Ea), final_last_opt.
      destruct (last_opt (unstable h)); reflexivity.
Qed.

(** ** From what [VersionHistory::new] checks to [ordered_history]. *)
Section FromNew.
Variable parts : N -> N * N.
Variable nver : N.
(** [const_ord] (lexicographic on [into_parts]) agrees with the declaration order on the known
    versions — discharged on the generated table by computation. *)
Hypothesis parts_order : forall a b, a < nver -> b < nver -> const_cmp parts a b = (a ?= b).

Definition typed_history (h : history) : Prop :=
  (forall v p, In (v, p) (stable h) -> v < nver) /\
  (forall d, deprecated h = Some d -> d < nver) /\
  (forall r, removed h = Some r -> r < nver).

Lemma ascending_strict l : forall prev,
  (forall v p, In (v, p) l -> v < nver) -> (forall p, prev = Some p -> p < nver) ->
  ascending parts prev l = true -> strictly_ascending prev l.
Proof.
  induction l as [|[v q] l IH]; intros prev Hty Hprev H; [exact I|].
  cbn [ascending] in H. apply andb_true_iff in H as [H1 H2]. cbn [strictly_ascending].
  assert (Hv : v < nver) by (eapply Hty; left; reflexivity).
  split.
  - destruct prev as [p|]; [|exact I].
    rewrite (parts_order v p Hv (Hprev p eq_refl)) in H1.
    destruct (v ?= p) eqn:E; try discriminate. apply N.compare_gt_iff in E. exact E.
  - apply IH; [intros v' p' Hin; eapply Hty; right; exact Hin| |exact H2].
    intros p E; inversion E; subst; exact Hv.
Qed.

Lemma wf_ordered h : typed_history h -> wf_historyb parts h = true -> ordered_history h.
Proof.
  intros [Hst [Hd Hr]] H. unfold wf_historyb in H.
  destruct (all_paths h) as [|ref paths]; [discriminate|].
  repeat (apply andb_true_iff in H as [H ?]).
  rename H0 into Hrem, H1 into Hdep, H2 into Hasc.
  constructor.
  - apply (ascending_strict _ None); [exact Hst|intros ? E; discriminate|exact Hasc].
  - intros d Ed. rewrite Ed in Hdep.
    destruct (last_opt (stable h)) as [[p path]|] eqn:El; [|discriminate].
    exists p, path. split; [reflexivity|].
    assert (Hp : p < nver) by (eapply Hst; apply last_opt_in; exact El).
    rewrite (parts_order p d Hp (Hd d Ed)) in Hdep.
    destruct (p ?= d) eqn:E; try discriminate.
    + apply N.compare_eq_iff in E. subst p. apply N.le_refl.
    + apply N.compare_lt_iff in E. apply N.lt_le_incl. exact E.
  - intros r Er. rewrite Er in Hrem.
    destruct (deprecated h) as [d|] eqn:Ed; [|discriminate].
    exists d. split; [reflexivity|].
    rewrite (parts_order d r (Hd d eq_refl) (Hr r Er)) in Hrem.
    destruct (d ?= r) eqn:E; try discriminate. apply N.compare_lt_iff in E. exact E.
Qed.
End FromNew.
