(** C16.ProofsXMatrix — [XMatrix::parse (x.to_string()) = Ok x], and the authorization header.

    The parser is the transliterated http-auth state machine of Model.v; the proof runs it over
    the text [Display] writes: scheme, one space, then `name=value` parameters separated by
    commas, each value either a token or a quoted string with backslash and double quote escaped. *)
From Base Require Import Prelude.
From C16 Require Import Model Spec.
From Coq Require Import ZifyBool ZifyNat ZifyN.

(* ------------------------------------------------------------------------------------- *)
(** * Authorization header *)

Definition scheme_index (a : auth_scheme) : N :=
  match a with
  | ANone => 0 | AAccessToken => 1 | AAccessTokenOptional => 2 | AAppserviceToken => 3
  | AAppserviceTokenOptional => 4 | AServerSignatures => 5
  end.
Definition given_index (s : send_token) : N :=
  match s with TIfRequired _ => 0 | TAlways _ => 1 | TAppservice _ => 2 | TNone => 3 end.
Definition token_of (s : send_token) : str :=
  match s with TIfRequired t | TAlways t | TAppservice t => t | TNone => [] end.

Definition outcome_of_req (r : header_req) : outcome (option str) :=
  match r with
  | MustSend t => if field_value_ok (s!"Bearer " ++ t) then Ok (Some (s!"Bearer " ++ t)) else Err E_HEADER
  | MustNotSend => Ok None
  | MustFail => Err E_NEEDS_AUTH
  end.

Lemma header_value_ok_eq s : header_value_ok s = field_value_ok s.
Proof.
  unfold header_value_ok, field_value_ok, header_byte_ok.
  induction s as [|b s IH]; [reflexivity|]. cbn [forallb]. rewrite IH. f_equal. apply orb_comm.
Qed.

Theorem authorization_header_eq_spec a s :
  authorization_header a s = outcome_of_req (spec_auth (scheme_index a) (given_index s) (token_of s)).
Proof.
  destruct a, s; cbn [authorization_header get_required_for_endpoint get_not_required_for_endpoint
                      get_required_for_appservice scheme_index given_index token_of];
    unfold bearer; rewrite ?header_value_ok_eq; reflexivity.
Qed.

(* ------------------------------------------------------------------------------------- *)
(** * Character classes *)

(** HTAB, SP and the visible ASCII characters: what a quoted string can carry. *)
Definition quotable (b : N) : bool := (b =? 9) || ((32 <=? b) && (b <=? 126)).

Lemma tchar_cases b : is_tchar b = true ->
  is_alnum b = true \/ In b [33; 35; 36; 37; 38; 39; 42; 43; 45; 46; 94; 95; 96; 124; 126].
Proof.
  unfold is_tchar. intros H. apply orb_true_iff in H as [H|H]; [left; exact H|right].
  apply existsb_exists in H as [x [Hin Hx]]. apply N.eqb_eq in Hx. subst x. exact Hin.
Qed.

Lemma tchar_range b : is_tchar b = true ->
  33 <= b <= 126 /\ b <> 34 /\ b <> 44 /\ b <> 61 /\ b <> 92 /\ b <> 32 /\ b <> 9.
Proof.
  intros H. destruct (tchar_cases b H) as [Ha|Hin].
  - unfold is_alnum, is_digit, is_upper, is_lower in Ha. lia.
  - cbn [In] in Hin. lia.
Qed.

Lemma tchar_quotable b : is_tchar b = true -> quotable b = true.
Proof. intros H. apply tchar_range in H. unfold quotable. lia. Qed.

Lemma tchar_not_ows b : is_tchar b = true -> is_ows b = false.
Proof. intros H. apply tchar_range in H. unfold is_ows. change SPACE with 32. change HTAB with 9. lia. Qed.

Lemma neqb b c : b <> c -> (b =? c) = false.
Proof. apply N.eqb_neq. Qed.

(* ------------------------------------------------------------------------------------- *)
(** * Runs of the state machine *)

Lemma token_run ch cs ck t : forall tok rest,
  forallb is_tchar t = true ->
  next_item (SToken ch tok [] cs ck) (t ++ rest) = next_item (SToken ch (tok ++ t) [] cs ck) rest.
Proof.
  induction t as [|b t IH]; intros tok rest H; cbn [app].
  - rewrite app_nil_r. reflexivity.
  - cbn [forallb] in H. apply andb_true_iff in H as [Hb Ht].
    cbn [next_item step is_nil]. rewrite Hb. cbn [is_nil].
    rewrite (IH (tok ++ [b]) rest Ht), <- app_assoc. reflexivity.
Qed.

Lemma unquoted_run c k t : forall val rest,
  forallb is_tchar t = true ->
  next_item (SUnquoted c k val) (t ++ rest) = next_item (SUnquoted c k (val ++ t)) rest.
Proof.
  induction t as [|b t IH]; intros val rest H; cbn [app].
  - rewrite app_nil_r. reflexivity.
  - cbn [forallb] in H. apply andb_true_iff in H as [Hb Ht].
    cbn [next_item step]. rewrite Hb.
    rewrite (IH (val ++ [b]) rest Ht), <- app_assoc. reflexivity.
Qed.

Definition escape (v : str) : str :=
  List.flat_map (fun b => if (b =? BACKSLASH) || (b =? DQUOTE) then [BACKSLASH; b] else [b]) v.

Fixpoint count_escapes (v : str) : N :=
  match v with
  | [] => 0
  | b :: v' => (if (b =? BACKSLASH) || (b =? DQUOTE) then 1 else 0) + count_escapes v'
  end.

Lemma quoted_run c k v : forall val esc rest,
  forallb quotable v = true ->
  next_item (SQuoted c k val esc false) (escape v ++ rest) =
  next_item (SQuoted c k (val ++ escape v) (esc + count_escapes v) false) rest.
Proof.
  induction v as [|b v IH]; intros val esc rest H.
  - cbn [escape List.flat_map app count_escapes]. rewrite app_nil_r, N.add_0_r. reflexivity.
  - cbn [forallb] in H. apply andb_true_iff in H as [Hb Hv].
    unfold escape. cbn [List.flat_map]. fold (escape v). cbn [count_escapes].
    unfold quotable in Hb.
    destruct ((b =? BACKSLASH) || (b =? DQUOTE)) eqn:E.
    + (* `\` b : backslash state, then an escapable byte *)
      cbn [app next_item step]. rewrite N.eqb_refl.
      assert (He : is_escapable b = true).
      { unfold is_escapable. change BACKSLASH with 92 in E. change DQUOTE with 34 in E.
        change HTAB with 9. change SPACE with 32. lia. }
      cbn [next_item step]. rewrite He.
      rewrite (IH _ _ rest Hv). rewrite <- !app_assoc. cbn [app].
      first [reflexivity | f_equal; f_equal; lia].
    + apply orb_false_iff in E as [E1 E2].
      cbn [app next_item step]. rewrite E1, E2.
      assert (Hq : is_qdtext b = true).
      { unfold is_qdtext. change BACKSLASH with 92 in E1. change DQUOTE with 34 in E2.
        change HTAB with 9. change SPACE with 32. lia. }
      rewrite Hq. rewrite (IH _ _ rest Hv). rewrite <- !app_assoc. cbn [app].
      first [reflexivity | f_equal; f_equal; lia].
Qed.

Lemma unescape_escape v : unescape (escape v) = v.
Proof.
  induction v as [|b v IH]; [reflexivity|].
  unfold escape. cbn [List.flat_map]. fold (escape v).
  destruct ((b =? BACKSLASH) || (b =? DQUOTE)) eqn:E.
  - cbn [app unescape]. rewrite N.eqb_refl. rewrite IH. reflexivity.
  - apply orb_false_iff in E as [E1 _]. cbn [app unescape]. rewrite E1, IH. reflexivity.
Qed.

Lemma unescape_tchars v : forallb is_tchar v = true -> unescape v = v.
Proof.
  induction v as [|b v IH]; intros H; [reflexivity|].
  cbn [forallb] in H. apply andb_true_iff in H as [Hb Hv]. cbn [unescape].
  destruct (tchar_range b Hb) as (_ & _ & _ & _ & Hn & _).
  change BACKSLASH with 92. rewrite (neqb _ _ Hn), (IH Hv). reflexivity.
Qed.

(** The raw parameter value (still escaped, with its escape count) the parser records for the
    value [v] as [quote_ascii_string_if_required] wrote it. *)
Definition raw_of (v : str) : pvalue :=
  if negb (is_nil v) && forallb is_tchar v then (v, 0) else (escape v, count_escapes v).

Lemma unescape_raw_of v : unescape (fst (raw_of v)) = v.
Proof.
  unfold raw_of. destruct (negb (is_nil v) && forallb is_tchar v) eqn:E; cbn [fst].
  - apply andb_true_iff in E as [_ E]. apply unescape_tchars. exact E.
  - apply unescape_escape.
Qed.

Lemma quote_if_required_eq v :
  quote_if_required v = if negb (is_nil v) && forallb is_tchar v then v else DQUOTE :: escape v ++ [DQUOTE].
Proof. reflexivity. Qed.

(** After `=`: the value, then either the end of the input ... *)
Lemma value_end c k v : forallb quotable v = true ->
  next_item (SPostEquals c k) (quote_if_required v) = ItemOk (push_param c k (raw_of v)) SDone [].
Proof.
  intros Hq. rewrite quote_if_required_eq. unfold raw_of.
  destruct (negb (is_nil v) && forallb is_tchar v) eqn:E.
  - apply andb_true_iff in E as [Hne Ht]. destruct v as [|b v]; [discriminate|].
    cbn [forallb] in Ht. apply andb_true_iff in Ht as [Hb Hv].
    destruct (tchar_range b Hb) as (_ & Hn34 & _).
    cbn [next_item step]. rewrite (tchar_not_ows b Hb). change DQUOTE with 34. rewrite (neqb _ _ Hn34), Hb.
    pose proof (unquoted_run c k v [b] [] Hv) as R. rewrite app_nil_r in R. rewrite R. reflexivity.
  - cbn [next_item step]. replace (is_ows DQUOTE) with false by reflexivity. rewrite N.eqb_refl.
    rewrite (quoted_run c k v [] 0 [DQUOTE] Hq). cbn [app next_item step at_eof].
    replace (DQUOTE =? BACKSLASH) with false by reflexivity. rewrite N.eqb_refl.
    cbn [at_eof p_eof mkposs negb]. rewrite N.add_0_l. reflexivity.
Qed.

(** ... or a comma and the first byte of the next parameter name. *)
Lemma value_comma c k v t rest : forallb quotable v = true -> is_tchar t = true ->
  next_item (SPostEquals c k) (quote_if_required v ++ COMMA :: t :: rest) =
  next_item (SToken (Some (push_param c k (raw_of v))) [t] [] true true) rest.
Proof.
  intros Hq Htc. rewrite quote_if_required_eq. unfold raw_of.
  destruct (tchar_range t Htc) as (_ & _ & Hn44 & _).
  destruct (negb (is_nil v) && forallb is_tchar v) eqn:E.
  - apply andb_true_iff in E as [Hne Ht]. destruct v as [|b v]; [discriminate|].
    cbn [forallb] in Ht. apply andb_true_iff in Ht as [Hb Hv].
    destruct (tchar_range b Hb) as (_ & Hn34 & _).
    cbn [app next_item step]. rewrite (tchar_not_ows b Hb). change DQUOTE with 34. rewrite (neqb _ _ Hn34), Hb.
    rewrite (unquoted_run c k v [b] _ Hv). cbn [next_item step app].
    replace (is_tchar COMMA) with false by reflexivity. replace (is_ows COMMA) with false by reflexivity.
    rewrite N.eqb_refl. cbn [next_item step p_ws mkposs].
    rewrite (tchar_not_ows t Htc). cbn [andb]. change COMMA with 44. rewrite (neqb _ _ Hn44), Htc.
    reflexivity.
  - cbn [app next_item step]. replace (is_ows DQUOTE) with false by reflexivity. rewrite N.eqb_refl.
    rewrite <- app_assoc. rewrite (quoted_run c k v [] 0 _ Hq). cbn [app next_item step].
    replace (DQUOTE =? BACKSLASH) with false by reflexivity. rewrite N.eqb_refl.
    cbn [next_item step p_ws mkposs].
    replace (is_ows COMMA) with false by reflexivity. cbn [andb]. rewrite N.eqb_refl.
    cbn [next_item step p_ws p_scheme p_param_key p_comma_key p_eof p_comma_eof mkposs orb].
    rewrite (tchar_not_ows t Htc). cbn [andb]. change COMMA with 44. rewrite (neqb _ _ Hn44), Htc.
    rewrite N.add_0_l. reflexivity.
Qed.

(** From the first byte of a parameter name to the state after `=`. *)
Lemma key_run c t kt cs rest : forallb is_tchar kt = true ->
  next_item (SToken (Some c) [t] [] cs true) (kt ++ EQUALS :: rest) =
  next_item (SPostEquals c (t :: kt)) rest.
Proof.
  intros Hk. rewrite (token_run (Some c) cs true kt [t] _ Hk). cbn [next_item step app].
  replace (is_tchar EQUALS) with false by reflexivity.
  replace (EQUALS =? COMMA) with false by reflexivity. cbn [andb]. rewrite N.eqb_refl. reflexivity.
Qed.

Definition token_str (k : str) : Prop := k <> [] /\ forallb is_tchar k = true.
Definition param_ok (kv : str * str) : Prop := token_str (fst kv) /\ forallb quotable (snd kv) = true.

Definition push_all (c : challenge) (ps : list (str * str)) : challenge :=
  List.fold_left (fun c kv => push_param c (fst kv) (raw_of (snd kv))) ps c.

Lemma params_run : forall r c t kt v cs,
  forallb is_tchar kt = true -> forallb quotable v = true -> (forall kv, In kv r -> param_ok kv) ->
  next_item (SToken (Some c) [t] [] cs true) (kt ++ EQUALS :: quote_if_required v ++ render_rest r) =
  ItemOk (push_all c ((t :: kt, v) :: r)) SDone [].
Proof.
  induction r as [|[k2 v2] r IH]; intros c t kt v cs Hk Hv Hr.
  - cbn [render_rest]. rewrite app_nil_r, (key_run c t kt cs _ Hk), (value_end c (t :: kt) v Hv). reflexivity.
  - destruct (Hr (k2, v2) (or_introl eq_refl)) as [[Hne Hk2] Hv2]. cbn [fst snd] in Hne, Hk2, Hv2.
    destruct k2 as [|t2 kt2]; [congruence|]. cbn [forallb] in Hk2. apply andb_true_iff in Hk2 as [Ht2 Hkt2].
    cbn [render_rest]. unfold render_param. cbn [fst snd app].
    rewrite (key_run c t kt cs _ Hk).
    rewrite (value_comma c (t :: kt) v t2 _ Hv Ht2).
    rewrite <- app_assoc. cbn [app].
    rewrite (IH _ t2 kt2 v2 true Hkt2 Hv2) by (intros kv Hin; apply Hr; right; exact Hin).
    reflexivity.
Qed.

(** The first item the iterator yields on `X-Matrix name=value,...`. *)
Lemma show_first_item k v r :
  param_ok (k, v) -> (forall kv, In kv r -> param_ok kv) ->
  next_item initial_state (s!"X-Matrix " ++ render_params ((k, v) :: r)) =
  ItemOk (push_all (new_challenge s!"X-Matrix") ((k, v) :: r)) SDone [].
Proof.
  intros [[Hne Hk] Hv] Hr. cbn [fst snd] in Hne, Hk, Hv.
  destruct k as [|t kt]; [congruence|]. cbn [forallb] in Hk. apply andb_true_iff in Hk as [Ht Hkt].
  destruct (tchar_range t Ht) as (_ & _ & Hn44 & Hn61 & _ & Hn32 & Hn9).
  cbn [render_params]. unfold render_param. cbn [fst snd].
  change (s!"X-Matrix " ++ ((t :: kt) ++ EQUALS :: quote_if_required v) ++ render_rest r)
    with (88 :: (s!"-Matrix" ++ SPACE :: t :: (kt ++ EQUALS :: quote_if_required v) ++ render_rest r)).
  unfold initial_state. cbn [next_item step p_ws p_scheme p_param_key mkposs].
  replace (is_ows 88) with false by reflexivity. replace (88 =? COMMA) with false by reflexivity.
  replace (is_tchar 88) with true by reflexivity. cbn [andb].
  rewrite (token_run None true false s!"-Matrix" [88] _ eq_refl).
  cbn [next_item step app is_nil].
  replace (is_tchar SPACE) with false by reflexivity.
  replace (SPACE =? COMMA) with false by reflexivity. replace (SPACE =? EQUALS) with false by reflexivity.
  cbn [andb orb]. rewrite N.eqb_refl. cbn [orb].
  cbn [next_item step app is_nil]. rewrite Ht. cbn [is_nil negb orb yield_or_next].
  rewrite str_eqb_refl. cbn [negb orb yield_or_next].
  rewrite <- app_assoc. cbn [app].
  rewrite (params_run r _ t kt v false Hkt Hv Hr). reflexivity.
Qed.

Lemma push_all_scheme ps : forall c, c_scheme (push_all c ps) = c_scheme c.
Proof.
  induction ps as [|kv ps IH]; intros c; [reflexivity|].
  unfold push_all in *. cbn [List.fold_left]. rewrite IH. reflexivity.
Qed.

Lemma push_all_params ps : forall c,
  unescaped_params (push_all c ps) = unescaped_params c ++ ps.
Proof.
  induction ps as [|[k v] ps IH]; intros c.
  - rewrite app_nil_r. reflexivity.
  - unfold push_all in *. cbn [List.fold_left fst snd]. rewrite IH.
    unfold unescaped_params, push_param. cbn [c_params]. rewrite List.map_app. cbn [List.map fst snd].
    rewrite unescape_raw_of, <- app_assoc. reflexivity.
Qed.

(* ------------------------------------------------------------------------------------- *)
(** * base64 text is quotable *)

Lemma b64_char_quotable n : quotable (b64_char n) = true.
Proof.
  unfold b64_char, quotable.
  destruct (n <? 26) eqn:E1; [lia|]. destruct (n <? 52) eqn:E2; [lia|].
  destruct (n <? 62) eqn:E3; [lia|]. destruct (n =? 62); reflexivity.
Qed.

Lemma b64_encode_quotable_len n : forall s, (List.length s <= n)%nat -> forallb quotable (b64_encode s) = true.
Proof.
  induction n as [|n IH]; intros s Hlen.
  - destruct s; [reflexivity|cbn in Hlen; lia].
  - destruct s as [|a [|b [|c r]]]; cbn [b64_encode forallb]; rewrite ?b64_char_quotable; try reflexivity.
    cbn [andb]. apply IH. cbn [List.length] in Hlen. lia.
Qed.

Lemma b64_encode_quotable s : forallb quotable (b64_encode s) = true.
Proof. apply (b64_encode_quotable_len (List.length s)). apply le_n. Qed.

(* ------------------------------------------------------------------------------------- *)
(** * The round trip *)

Section RoundTrip.
Variable valid_server_name : str -> bool.
Variable valid_key_id : str -> bool.
Variable b64_decode : str -> option str.

(** Field contents [Display] is meant for: valid identifiers made of characters a quoted string
    can carry (every server name and, since the key-version fix, every key id is), and a
    signature the base64 decoder reads back. *)
Record wf_xmatrix (x : xmatrix) : Prop := {
  wf_origin : valid_server_name (xm_origin x) = true /\ forallb quotable (xm_origin x) = true;
  wf_dest : forall d, xm_destination x = Some d -> valid_server_name d = true /\ forallb quotable d = true;
  wf_key : valid_key_id (xm_key x) = true /\ forallb quotable (xm_key x) = true;
  wf_sig : b64_decode (b64_encode (xm_sig x)) = Some (xm_sig x) }.

Lemma params_of_ok x : wf_xmatrix x -> forall kv, In kv (xm_params_of b64_encode x) -> param_ok kv.
Proof.
  intros [[_ Ho] Hd [_ Hk] _] kv Hin. unfold xm_params_of in Hin.
  apply in_app_or in Hin as [Hin|Hin].
  - destruct (xm_destination x) as [d|] eqn:Ed; [|destruct Hin].
    destruct Hin as [<-|[]]. split; [split; [discriminate|reflexivity]|]. exact (proj2 (Hd d eq_refl)).
  - destruct Hin as [<-|[<-|[<-|[]]]]; (split; [split; [discriminate|reflexivity]|]); cbn [snd];
      [exact Hk|exact Ho|apply b64_encode_quotable].
Qed.

Theorem xmatrix_roundtrip x :
  wf_xmatrix x ->
  xm_parse valid_server_name valid_key_id b64_decode (xm_show b64_encode x) = Ok x.
Proof.
  intros Hwf. pose proof (params_of_ok x Hwf) as Hok.
  destruct Hwf as [[Hvo _] Hd [Hvk _] Hsig].
  unfold xm_parse, xm_show.
  set (ps := xm_params_of b64_encode x) in *.
  assert (Hps : exists k v r, ps = (k, v) :: r).
  { subst ps. unfold xm_params_of. destruct (xm_destination x); cbn [app]; eauto. }
  destruct Hps as (k & v & r & Eps). rewrite Eps in Hok |- *.
  cbn [find_scheme].
  rewrite (show_first_item k v r (Hok _ (or_introl eq_refl)) (fun kv H => Hok kv (or_intror H))).
  rewrite push_all_scheme. cbn [c_scheme new_challenge].
  replace (eq_ignore_case s!"X-Matrix" s!"X-Matrix") with true by reflexivity.
  cbn [obind]. rewrite push_all_params. cbn [unescaped_params new_challenge c_params List.map app].
  rewrite <- Eps. subst ps. unfold xm_params_of.
  destruct x as [o d kk sg]. cbn [xm_origin xm_destination xm_key xm_sig] in *.
  destruct d as [d|]; cbn [app xm_fields].
  - destruct (Hd d eq_refl) as [Hvd _].
    replace (field_tag s!"destination") with 2 by reflexivity.
    replace (field_tag s!"key") with 3 by reflexivity.
    replace (field_tag s!"origin") with 1 by reflexivity.
    replace (field_tag s!"sig") with 4 by reflexivity.
    cbn [a_origin a_destination a_key a_sig].
    replace (2 =? 1) with false by reflexivity. replace (2 =? 2) with true by reflexivity.
    replace (3 =? 1) with false by reflexivity. replace (3 =? 2) with false by reflexivity.
    replace (3 =? 3) with true by reflexivity. replace (1 =? 1) with true by reflexivity.
    replace (4 =? 1) with false by reflexivity. replace (4 =? 2) with false by reflexivity.
    replace (4 =? 3) with false by reflexivity. replace (4 =? 4) with true by reflexivity.
    rewrite Hvd, Hvk, Hvo, Hsig. reflexivity.
  - replace (field_tag s!"key") with 3 by reflexivity.
    replace (field_tag s!"origin") with 1 by reflexivity.
    replace (field_tag s!"sig") with 4 by reflexivity.
    cbn [a_origin a_destination a_key a_sig].
    replace (3 =? 1) with false by reflexivity. replace (3 =? 2) with false by reflexivity.
    replace (3 =? 3) with true by reflexivity. replace (1 =? 1) with true by reflexivity.
    replace (4 =? 1) with false by reflexivity. replace (4 =? 2) with false by reflexivity.
    replace (4 =? 3) with false by reflexivity. replace (4 =? 4) with true by reflexivity.
    rewrite Hvk, Hvo, Hsig. reflexivity.
Qed.
End RoundTrip.
