(** C16.Model — executable models of the code paths that put a request on the HTTP wire.

    Strings are byte strings (UTF-8).  A Matrix version is its position in the declaration of
    [enum MatrixVersion] (derived [Ord] = declaration order; [is_superset_of] is [>=],
    metadata.rs:611).  No proofs here.

    1. [VersionHistory::new] well-formedness, [versioning_decision_for], [stable_endpoint_for],
       [select_path]                                   (ruma-common/src/api/metadata.rs)
    2. [percent_encode]/[percent_decode] (crate percent-encoding 2.3), [make_endpoint_url]
    3. the key/value layer of serde_html_form = form_urlencoded 1.2 serializer and parser
    4. [Metadata::authorization_header]
    5. [quote_ascii_string_if_required], [XMatrix] Display and parse, the http-auth 0.1.10
       challenge parser (state machine transliterated). *)
From Base Require Import Prelude.

(* ------------------------------------------------------------------------------------- *)
(** * 1. Version histories *)

Record history := {
  unstable : list str;                 (* unstable_paths, in declaration order *)
  stable : list (N * str);             (* stable_paths: (version, path) *)
  deprecated : option N;
  removed : option N }.

Definition is_some_and {A} (o : option A) (f : A -> bool) : bool :=
  match o with Some a => f a | None => false end.

(** [versions.iter().any(|v| v.is_superset_of(x))], [..all(..)]  (metadata.rs:367-370) *)
Definition ge_any (vs : list N) (x : N) : bool := existsb (fun v => x <=? v) vs.
Definition ge_all (vs : list N) (x : N) : bool := forallb (fun v => x <=? v) vs.

Inductive decision :=
| DUnstable
| DStable (any_deprecated all_deprecated any_removed : bool)
| DRemoved.

(** metadata.rs:392 *)
Definition added_in (h : history) : option N :=
  match stable h with [] => None | (v, _) :: _ => Some v end.

(** metadata.rs:366-389 *)
Definition versioning_decision_for (h : history) (vs : list N) : decision :=
  if is_some_and (removed h) (ge_all vs) then DRemoved
  else if is_some_and (added_in h) (ge_any vs) then
    let all_dep := is_some_and (deprecated h) (ge_all vs) in
    DStable (all_dep || is_some_and (deprecated h) (ge_any vs)) all_dep
            (is_some_and (removed h) (ge_any vs))
  else DUnstable.

(** metadata.rs:441-452: reverse scan, first entry some version reaches. *)
Definition stable_endpoint_for (h : history) (vs : list N) : option str :=
  match List.find (fun vp => ge_any vs (fst vp)) (List.rev (stable h)) with
  | Some (_, p) => Some p
  | None => None
  end.

Fixpoint last_opt {A} (l : list A) : option A :=
  match l with [] => None | [x] => Some x | _ :: l' => last_opt l' end.

(** [IntoHttpError] kinds the property speaks of. *)
Definition E_REMOVED : N := 1.
Definition E_NO_UNSTABLE : N := 2.
Definition E_NEEDS_AUTH : N := 3.
Definition E_HEADER : N := 4.

(** metadata.rs:323-363.  The [warn!] calls have no effect on the result; the
    [unreachable!] and the two [expect]s are explicit panics. *)
Definition select_path (h : history) (vs : list N) : outcome str :=
  match versioning_decision_for h vs with
  | DRemoved => match removed h with Some _ => Err E_REMOVED | None => Panic 1 end
  | DStable any_dep all_dep any_rem =>
      if any_rem && negb all_dep && negb any_dep then Panic 2
      else match stable_endpoint_for h vs with Some p => Ok p | None => Panic 3 end
  | DUnstable => match last_opt (unstable h) with Some p => Ok p | None => Err E_NO_UNSTABLE end
  end.

(** ** What [VersionHistory::new] enforces (metadata.rs:195-320). *)

Fixpoint split_on (c : N) (s : str) : list str :=
  match s with
  | [] => [[]]
  | x :: t =>
      if x =? c then [] :: split_on c t
      else match split_on c t with
           | seg :: rest => (x :: seg) :: rest
           | [] => [[x]]
           end
  end.

Definition SLASH : N := 47.
Definition COLON : N := 58.
Definition PERCENT : N := 37.
Definition QMARK : N := 63.
Definition HASH : N := 35.

Definition is_placeholder (seg : str) : bool :=
  match seg with c :: _ => c =? COLON | [] => false end.

(** The placeholder names of a path, in order ([check_path_args_equal] compares exactly these
    two lists: same names, same order, same number). *)
Definition path_args (p : str) : list str :=
  List.map (fun seg => List.tl seg) (List.filter is_placeholder (split_on SLASH p)).

Fixpoint list_eqb {A} (eqb : A -> A -> bool) (a b : list A) : bool :=
  match a, b with
  | [], [] => true
  | x :: a', y :: b' => eqb x y && list_eqb eqb a' b'
  | _, _ => false
  end.

(** [check_path_is_valid]: every byte in 0x21..=0x7E. *)
Definition path_chars_ok (p : str) : bool := forallb (fun b => (33 <=? b) && (b <=? 126)) p.

Definition all_paths (h : history) : list str := unstable h ++ List.map snd (stable h).

Section WithParts.
(** [into_parts] of a version: (major, minor); [const_ord] compares these pairs
    lexicographically (metadata.rs:756-769). *)
Variable parts : N -> N * N.

Definition const_cmp (a b : N) : comparison :=
  let '(a1, a2) := parts a in let '(b1, b2) := parts b in
  match a1 ?= b1 with Eq => a2 ?= b2 | c => c end.

Definition is_legacy (v : N) : bool :=
  let '(a1, a2) := parts v in (a1 =? 1) && (a2 =? 0).

Fixpoint ascending (prev : option N) (l : list (N * str)) : bool :=
  match l with
  | [] => true
  | (v, _) :: l' =>
      match prev with
      | Some p => match const_cmp v p with Gt => true | _ => false end
      | None => true
      end && ascending (Some v) l'
  end.

Definition wf_historyb (h : history) : bool :=
  match all_paths h with
  | [] => false                                                   (* "No paths supplied" *)
  | ref :: _ =>
      forallb (fun p => path_chars_ok p && list_eqb str_eqb (path_args ref) (path_args p)) (all_paths h)
      && ascending None (stable h)
      && match deprecated h with
         | None => true
         | Some d =>
             match last_opt (stable h) with
             | None => false                                      (* deprecated without stable path *)
             | Some (p, _) =>
                 match const_cmp p d with
                 | Eq => is_legacy d
                 | Gt => false
                 | Lt => true
                 end
             end
         end
      && match removed h with
         | None => true
         | Some r =>
             match deprecated h with
             | None => false
             | Some d => match const_cmp d r with Lt => true | _ => false end
             end
         end
  end.
End WithParts.

(* ------------------------------------------------------------------------------------- *)
(** * 2. Percent-encoding and URL construction *)

Definition hex_digit (n : N) : N := if n <? 10 then 48 + n else 55 + n.
Definition pct_byte (b : N) : str := [PERCENT; hex_digit (b / 16); hex_digit (b mod 16)].

(** [utf8_percent_encode(s, set)]: a byte is escaped when it is not ASCII or is in the set. *)
Definition must_encode (inset : N -> bool) (b : N) : bool := (128 <=? b) || inset b.
Definition percent_encode (inset : N -> bool) (s : str) : str :=
  List.flat_map (fun b => if must_encode inset b then pct_byte b else [b]) s.

Definition hex_val (c : N) : option N :=
  if (48 <=? c) && (c <=? 57) then Some (c - 48)
  else if (65 <=? c) && (c <=? 70) then Some (c - 55)
  else if (97 <=? c) && (c <=? 102) then Some (c - 87)
  else None.

(** [percent_decode]: `%` followed by two hex digits is one byte, anything else is literal. *)
Fixpoint percent_decode (s : str) : str :=
  match s with
  | [] => []
  | c :: t =>
      if c =? PERCENT then
        match t with
        | h :: l :: r =>
            match hex_val h, hex_val l with
            | Some a, Some b => (a * 16 + b) :: percent_decode r
            | _, _ => c :: percent_decode t
            end
        | _ => c :: percent_decode t
        end
      else c :: percent_decode t
  end.

(** [base_url.strip_suffix('/').unwrap_or(base_url)] *)
Fixpoint strip_slash (s : str) : str :=
  match s with
  | [] => []
  | [c] => if c =? SLASH then [] else [c]
  | c :: t => c :: strip_slash t
  end.

(** metadata.rs:116-133 *)
Fixpoint subst_segments (inset : N -> bool) (segs : list str) (args : list str) : outcome str :=
  match segs with
  | [] => Ok []
  | seg :: rest =>
      if is_placeholder seg then
        match args with
        | [] => Panic 5                               (* "number of placeholders must match" *)
        | a :: args' =>
            obind (subst_segments inset rest args')
                  (fun r => Ok (SLASH :: percent_encode inset a ++ r))
        end
      else obind (subst_segments inset rest args) (fun r => Ok (SLASH :: seg ++ r))
  end.

Definition make_url (inset : N -> bool) (path base : str) (args : list str) (query : str) : outcome str :=
  match split_on SLASH path with
  | [] :: segs =>
      obind (subst_segments inset segs args)
            (fun p => Ok (strip_slash base ++ p ++ match query with [] => [] | _ => QMARK :: query end))
  | _ => Panic 4                                      (* "endpoint paths must start with '/'" *)
  end.

(** metadata.rs:101-141 *)
Definition make_endpoint_url (inset : N -> bool) (h : history) (vs : list N) (base : str)
           (args : list str) (query : str) : outcome str :=
  obind (select_path h vs) (fun p => make_url inset p base args query).

(* ------------------------------------------------------------------------------------- *)
(** * 3. application/x-www-form-urlencoded key/value layer (form_urlencoded 1.2) *)

Definition is_digit (b : N) : bool := (48 <=? b) && (b <=? 57).
Definition is_upper (b : N) : bool := (65 <=? b) && (b <=? 90).
Definition is_lower (b : N) : bool := (97 <=? b) && (b <=? 122).
Definition is_alnum (b : N) : bool := is_digit b || is_upper b || is_lower b.

(** [byte_serialized_unchanged]: `*` `-` `.` `_` and ASCII alphanumerics. *)
Definition form_unchanged (b : N) : bool :=
  is_alnum b || (b =? 42) || (b =? 45) || (b =? 46) || (b =? 95).

Definition PLUS : N := 43.
Definition SPACE : N := 32.
Definition AMP : N := 38.
Definition EQUALS : N := 61.

Definition form_encode (s : str) : str :=
  List.flat_map (fun b => if form_unchanged b then [b] else if b =? SPACE then [PLUS] else pct_byte b) s.

Definition ser_pair (kv : str * str) : str := form_encode (fst kv) ++ EQUALS :: form_encode (snd kv).

(** [Serializer::append_pair]: `&` between pairs. *)
Fixpoint ser_qs (l : list (str * str)) : str :=
  match l with
  | [] => []
  | [kv] => ser_pair kv
  | kv :: r => ser_pair kv ++ AMP :: ser_qs r
  end.

Definition form_decode (s : str) : str :=
  percent_decode (List.map (fun b => if b =? PLUS then SPACE else b) s).

(** [splitn(2, c)]: the part before the first [c], and the rest (empty if there is none). *)
Fixpoint split_first (c : N) (s : str) : str * str :=
  match s with
  | [] => ([], [])
  | x :: t => if x =? c then ([], t) else let '(a, b) := split_first c t in (x :: a, b)
  end.

Definition is_nil {A} (l : list A) : bool := match l with [] => true | _ => false end.

(** [form_urlencoded::parse]: pieces between `&`, empty pieces skipped, split at the first `=`,
    `+` is a space, then percent-decoding.  (The final [from_utf8_lossy] is the identity on
    valid UTF-8 and is not modelled.) *)
Definition parse_qs (q : str) : list (str * str) :=
  List.map (fun piece => let '(k, v) := split_first EQUALS piece in (form_decode k, form_decode v))
           (List.filter (fun p => negb (is_nil p)) (split_on AMP q)).

(* ------------------------------------------------------------------------------------- *)
(** * 4. Authorization header (metadata.rs:57-98, api.rs:340-380) *)

Inductive auth_scheme :=
| ANone | AAccessToken | AAccessTokenOptional | AAppserviceToken | AAppserviceTokenOptional
| AServerSignatures.

Inductive send_token :=
| TIfRequired (t : str) | TAlways (t : str) | TAppservice (t : str) | TNone.

Definition get_required_for_endpoint (s : send_token) : option str :=
  match s with TIfRequired t | TAppservice t | TAlways t => Some t | TNone => None end.
Definition get_not_required_for_endpoint (s : send_token) : option str :=
  match s with TAlways t => Some t | _ => None end.
Definition get_required_for_appservice (s : send_token) : option str :=
  match s with TAppservice t | TAlways t => Some t | _ => None end.

(** [HeaderValue::try_from(String)] (http 1.x): every byte is HTAB or >= 0x20 and not DEL. *)
Definition header_byte_ok (b : N) : bool := ((32 <=? b) && negb (b =? 127)) || (b =? 9).
Definition header_value_ok (s : str) : bool := forallb header_byte_ok s.

Definition bearer (t : str) : outcome (option str) :=
  let v := s!"Bearer " ++ t in
  if header_value_ok v then Ok (Some v) else Err E_HEADER.

Definition authorization_header (a : auth_scheme) (s : send_token) : outcome (option str) :=
  match a with
  | ANone => match get_not_required_for_endpoint s with Some t => bearer t | None => Ok None end
  | AAccessToken =>
      match get_required_for_endpoint s with Some t => bearer t | None => Err E_NEEDS_AUTH end
  | AAccessTokenOptional =>
      match get_required_for_endpoint s with Some t => bearer t | None => Ok None end
  | AAppserviceToken =>
      match get_required_for_appservice s with Some t => bearer t | None => Err E_NEEDS_AUTH end
  | AAppserviceTokenOptional =>
      match get_required_for_appservice s with Some t => bearer t | None => Ok None end
  | AServerSignatures => Ok None
  end.

(* ------------------------------------------------------------------------------------- *)
(** * 5. X-Matrix *)

(** [is_tchar] (http_headers.rs:17 and http-auth table.rs:58 — the same set). *)
Definition is_tchar (b : N) : bool :=
  is_alnum b ||
  existsb (N.eqb b) [33; 35; 36; 37; 38; 39; 42; 43; 45; 46; 94; 95; 96; 124; 126].

Definition DQUOTE : N := 34.
Definition BACKSLASH : N := 92.
Definition COMMA : N := 44.
Definition HTAB : N := 9.

(** http_headers.rs:85-92 *)
Definition quote_if_required (v : str) : str :=
  if negb (is_nil v) && forallb is_tchar v then v
  else
    DQUOTE :: List.flat_map (fun b => if (b =? BACKSLASH) || (b =? DQUOTE) then [BACKSLASH; b] else [b]) v
      ++ [DQUOTE].

Record xmatrix := {
  xm_origin : str;
  xm_destination : option str;
  xm_key : str;
  xm_sig : str }.                                         (* the signature's bytes *)

(** One `name=value` auth-param as [Display] writes it, and the `,`-separated rest. *)
Definition render_param (kv : str * str) : str := fst kv ++ EQUALS :: quote_if_required (snd kv).
Fixpoint render_rest (ps : list (str * str)) : str :=
  match ps with
  | [] => []
  | kv :: r => COMMA :: render_param kv ++ render_rest r
  end.
Definition render_params (ps : list (str * str)) : str :=
  match ps with
  | [] => []
  | kv :: r => render_param kv ++ render_rest r
  end.

Section WithBase64.
Variable b64_encode : str -> str.                          (* unpadded standard base64 *)

(** authentication.rs:121-139: `X-Matrix `, then `destination=..,` if there is one, then
    `key=..,origin=..,sig=..`, every value through [quote_ascii_string_if_required]. *)
Definition xm_params_of (x : xmatrix) : list (str * str) :=
  match xm_destination x with Some d => [(s!"destination", d)] | None => [] end ++
  [(s!"key", xm_key x); (s!"origin", xm_origin x); (s!"sig", b64_encode (xm_sig x))].

Definition xm_show (x : xmatrix) : str := s!"X-Matrix " ++ render_params (xm_params_of x).
End WithBase64.

(** ** http-auth 0.1.10 [ChallengeParser] (parser.rs), transliterated.
    Positions into the input are replaced by the slices they delimit. *)

Definition is_ows (b : N) : bool := (b =? SPACE) || (b =? HTAB).
(** table.rs: the table has 128 entries; bytes >= 128 have no class. *)
Definition is_qdtext (b : N) : bool :=
  (b =? HTAB) || (b =? SPACE) || (b =? 33) || ((35 <=? b) && (b <=? 91)) || ((93 <=? b) && (b <=? 126)).
Definition is_escapable (b : N) : bool := (b =? HTAB) || (b =? SPACE) || ((33 <=? b) && (b <=? 126)).

Record poss := {
  p_scheme : bool; p_param_key : bool; p_eof : bool; p_ws : bool; p_comma_key : bool; p_comma_eof : bool }.

Definition mkposs a b c d e f := Build_poss a b c d e f.

(** A parameter value: the raw (still escaped) text and the number of escapes. *)
Definition pvalue := (str * N)%type.
Record challenge := { c_scheme : str; c_params : list (str * pvalue) }.

Definition push_param (c : challenge) (k : str) (v : pvalue) : challenge :=
  {| c_scheme := c_scheme c; c_params := c_params c ++ [(k, v)] |}.
Definition new_challenge (scheme : str) : challenge := {| c_scheme := scheme; c_params := [] |}.

Inductive pstate :=
| SDone
| SPreToken (ch : option challenge) (next : poss)
| SToken (ch : option challenge) (tok ws : str) (cur_scheme cur_key : bool)
      (* [ws] = input[token_pos.end .. pos] *)
| SPostEquals (ch : challenge) (key : str)
| SUnquoted (ch : challenge) (key val : str)
| SQuoted (ch : challenge) (key val : str) (escapes : N) (in_backslash : bool).

Inductive step_result :=
| Next (s : pstate)
| Yield (c : challenge) (s : pstate)       (* [self.pos += 1; return Some(Ok(c))] *)
| Fail                                      (* [return Some(Err(..))]; the state is [Done] *)
| Stop.                                     (* [State::Done => return None] *)

Definition yield_or_next (old : option challenge) (s : pstate) : step_result :=
  match old with Some c => Yield c s | None => Next s end.

(** One iteration of the [while] loop (parser.rs:219-468). *)
Definition step (s : pstate) (b : N) : step_result :=
  match s with
  | SDone => Stop
  | SPreToken ch next =>
      if is_ows b && p_ws next then
        Next (SPreToken ch (mkposs (p_scheme next) (p_param_key next) false (p_ws next)
                                   (p_comma_key next) (p_comma_eof next)))
      else if b =? COMMA then
        Next (SPreToken ch (mkposs true (p_param_key next || p_comma_key next)
                                   (p_eof next || p_comma_eof next) true
                                   (p_comma_key next) (p_comma_eof next)))
      else if is_tchar b then Next (SToken ch [b] [] (p_scheme next) (p_param_key next))
      else Fail
  | SToken ch tok ws cs ck =>
      if is_tchar b then
        if is_nil ws then Next (SToken ch (tok ++ [b]) [] cs ck)
        else if negb cs || negb (str_eqb ws [SPACE]) then Fail
        else yield_or_next ch (SToken (Some (new_challenge tok)) [b] [] false true)
      else if (b =? COMMA) && cs then
        yield_or_next ch (SPreToken (Some (new_challenge tok)) (mkposs true false true true false true))
      else if (b =? EQUALS) && ck then
        match ch with
        | Some c => Next (SPostEquals c tok)
        | None => Fail                                     (* "= without existing challenge" *)
        end
      else if (b =? SPACE) || (b =? HTAB) then Next (SToken ch tok (ws ++ [b]) cs ck)
      else Fail
  | SPostEquals ch key =>
      if is_ows b then Next (SPostEquals ch key)
      else if b =? DQUOTE then Next (SQuoted ch key [] 0 false)
      else if is_tchar b then Next (SUnquoted ch key [b])
      else Fail
  | SUnquoted ch key val =>
      if is_tchar b then Next (SUnquoted ch key (val ++ [b]))
      else if is_ows b then
        Next (SPreToken (Some (push_param ch key (val, 0))) (mkposs false false false true true true))
      else if b =? COMMA then
        Next (SPreToken (Some (push_param ch key (val, 0))) (mkposs true true true true true true))
      else Fail
  | SQuoted ch key val esc in_bs =>
      if in_bs then
        if is_escapable b then Next (SQuoted ch key (val ++ [b]) (esc + 1) false) else Fail
      else if b =? BACKSLASH then Next (SQuoted ch key (val ++ [b]) esc true)
      else if b =? DQUOTE then
        Next (SPreToken (Some (push_param ch key (val, esc))) (mkposs false false true true true true))
      else if is_qdtext b then Next (SQuoted ch key (val ++ [b]) esc false)
      else Fail
  end.

(** What one call of [Iterator::next] returns. *)
Inductive item :=
| ItemOk (c : challenge) (s : pstate) (rest : str)   (* a challenge; the parser continues *)
| ItemErr                                            (* a syntax error; fused *)
| ItemEnd.                                           (* [None] *)

(** After the loop (parser.rs:470-551). *)
Definition at_eof (s : pstate) : item :=
  match s with
  | SDone => ItemEnd
  | SPreToken ch next =>
      if negb (p_eof next) then ItemErr
      else match ch with Some c => ItemOk c SDone [] | None => ItemEnd end
  | SToken ch tok ws cs ck =>
      if negb cs then ItemErr
      else if negb (is_nil ws) && negb (str_eqb ws [SPACE]) then ItemErr
      else match ch with
           | Some c => ItemOk c (SToken None tok ws cs ck) []
           | None => ItemOk (new_challenge tok) SDone []
           end
  | SPostEquals _ _ => ItemErr
  | SUnquoted ch key val => ItemOk (push_param ch key (val, 0)) SDone []
  | SQuoted _ _ _ _ _ => ItemErr
  end.

Fixpoint next_item (s : pstate) (input : str) : item :=
  match input with
  | [] => at_eof s
  | b :: rest =>
      match step s b with
      | Next s' => next_item s' rest
      | Yield c s' => ItemOk c s' rest
      | Fail => ItemErr
      | Stop => ItemEnd
      end
  end.

Definition initial_state : pstate := SPreToken None (mkposs true false false false false false).

(** [ParamValue::append_unescaped]: every backslash is dropped and the byte after it kept
    (the parser has counted exactly these backslashes). *)
Fixpoint unescape (s : str) : str :=
  match s with
  | [] => []
  | c :: t =>
      if c =? BACKSLASH then match t with [] => [] | d :: r => d :: unescape r end
      else c :: unescape t
  end.

Definition to_lower (b : N) : N := if is_upper b then b + 32 else b.
Definition eq_ignore_case (a b : str) : bool := str_eqb (List.map to_lower a) (List.map to_lower b).

(** The iterator driven by [for challenge in parser] in [XMatrix::parse]
    (authentication.rs:52-66): the first challenge whose scheme is X-Matrix; a syntax error
    met before it is the result.  [fuel] bounds the number of items (each item but the last
    two consumes input, so [length input + 2] is enough — see [find_xmatrix_fuel]). *)
Fixpoint find_scheme (fuel : nat) (s : pstate) (input : str) : outcome challenge :=
  match fuel with
  | O => Panic 99
  | S fuel' =>
      match next_item s input with
      | ItemOk c s' rest =>
          if eq_ignore_case (c_scheme c) s!"X-Matrix" then Ok c else find_scheme fuel' s' rest
      | ItemErr => Err 1                                  (* ParseStr *)
      | ItemEnd => Err 2                                  (* NotFound *)
      end
  end.

Definition X_PARSE_STR : N := 1.
Definition X_NOT_FOUND : N := 2.
Definition X_PARSE_ID : N := 3.
Definition X_PARSE_B64 : N := 4.
Definition X_MISSING : N := 5.
Definition X_DUPLICATE : N := 6.

(** The `if name.eq_ignore_ascii_case("origin") .. else if ..` chain of authentication.rs:74-104:
    1 origin, 2 destination, 3 key, 4 sig, 0 anything else (ignored). *)
Definition field_tag (name : str) : N :=
  if eq_ignore_case name s!"origin" then 1
  else if eq_ignore_case name s!"destination" then 2
  else if eq_ignore_case name s!"key" then 3
  else if eq_ignore_case name s!"sig" then 4
  else 0.

(** The parameters with [to_unescaped] applied to the values. *)
Definition unescaped_params (c : challenge) : list (str * str) :=
  List.map (fun kv => (fst kv, unescape (fst (snd kv)))) (c_params c).

Section WithValidators.
(** Identifier validation and base64 decoding are not part of this property (C10 covers the
    identifier grammar); they are parameters.  In [Run.v] they are instantiated by what the
    real validators answered for the values of the case. *)
Variable valid_server_name : str -> bool.
Variable valid_key_id : str -> bool.
Variable b64_decode : str -> option str.

Record xacc := {
  a_origin : option str; a_destination : option str; a_key : option str; a_sig : option str }.

(** authentication.rs:73-105: one parameter, its value already unescaped. *)
Fixpoint xm_fields (ps : list (str * str)) (a : xacc) : outcome xacc :=
  match ps with
  | [] => Ok a
  | (name, v) :: rest =>
      let tag := field_tag name in
      if tag =? 1 then
        match a_origin a with
        | Some _ => Err X_DUPLICATE
        | None => if valid_server_name v
                  then xm_fields rest {| a_origin := Some v; a_destination := a_destination a;
                                         a_key := a_key a; a_sig := a_sig a |}
                  else Err X_PARSE_ID
        end
      else if tag =? 2 then
        match a_destination a with
        | Some _ => Err X_DUPLICATE
        | None => if valid_server_name v
                  then xm_fields rest {| a_origin := a_origin a; a_destination := Some v;
                                         a_key := a_key a; a_sig := a_sig a |}
                  else Err X_PARSE_ID
        end
      else if tag =? 3 then
        match a_key a with
        | Some _ => Err X_DUPLICATE
        | None => if valid_key_id v
                  then xm_fields rest {| a_origin := a_origin a; a_destination := a_destination a;
                                         a_key := Some v; a_sig := a_sig a |}
                  else Err X_PARSE_ID
        end
      else if tag =? 4 then
        match a_sig a with
        | Some _ => Err X_DUPLICATE
        | None => match b64_decode v with
                  | Some bytes => xm_fields rest {| a_origin := a_origin a; a_destination := a_destination a;
                                                    a_key := a_key a; a_sig := Some bytes |}
                  | None => Err X_PARSE_B64
                  end
        end
      else xm_fields rest a
  end.

(** authentication.rs:50-113 *)
Definition xm_parse (input : str) : outcome xmatrix :=
  obind (find_scheme (S (S (List.length input))) initial_state input) (fun c =>
  obind (xm_fields (unescaped_params c)
                   {| a_origin := None; a_destination := None; a_key := None; a_sig := None |})
        (fun a =>
  match a_origin a with
  | None => Err X_MISSING
  | Some o =>
      match a_key a with
      | None => Err X_MISSING
      | Some k =>
          match a_sig a with
          | None => Err X_MISSING
          | Some sg => Ok {| xm_origin := o; xm_destination := a_destination a; xm_key := k; xm_sig := sg |}
          end
      end
  end)).
End WithValidators.

(** Unpadded base64, standard alphabet (what [Base64::encode] produces). *)
Definition b64_char (n : N) : N :=
  if n <? 26 then 65 + n else if n <? 52 then 71 + n else if n <? 62 then n - 4
  else if n =? 62 then 43 else 47.

Fixpoint b64_encode (s : str) : str :=
  match s with
  | [] => []
  | [a] => [b64_char (a / 4); b64_char ((a mod 4) * 16)]
  | [a; b] => [b64_char (a / 4); b64_char ((a mod 4) * 16 + b / 16); b64_char ((b mod 16) * 4)]
  | a :: b :: c :: r =>
      b64_char (a / 4) :: b64_char ((a mod 4) * 16 + b / 16) :: b64_char ((b mod 16) * 4 + c / 64)
        :: b64_char (c mod 64) :: b64_encode r
  end.
