(** C16.Properties — the theorems that decide C16, and nothing else.
    Each is closed by [exact] and followed by [Print Assumptions]. *)
From Base Require Import Prelude Sx.
From Gen Require Import Versions PercentSet.
From C16 Require Import Model Spec Run ProofsSelect ProofsUrl ProofsXMatrix ProofsTables.

(** For every history [VersionHistory::new] accepts (versions of the generated
    [MatrixVersion] table, [const_ord] on the generated [into_parts]) and every list of supported
    versions, the model of [select_path] gives what the contract prescribes: an error when every
    supported version is at or after the removal, else the stable path introduced last among
    those some supported version reaches, else the last unstable path, else an error. *)
Theorem C16_select_path_eq_spec :
  forall h, wf_history h -> forall vs,
  select_path h vs = outcome_of_selection (spec_select (unstable h) (stable h) (removed h) vs).
Proof. exact select_path_eq_spec. Qed.
Eval compute in "PA:C16_select_path_eq_spec"%string.
Print Assumptions C16_select_path_eq_spec.

(** The empty version list (no premise needed): removed endpoints give [EndpointRemoved] —
    "every supported version" holds vacuously — all others use their unstable path. *)
Theorem C16_select_path_nil :
  forall h, select_path h [] =
  match removed h with
  | Some _ => Err E_REMOVED
  | None => match last_opt (unstable h) with Some p => Ok p | None => Err E_NO_UNSTABLE end
  end.
Proof. exact select_path_nil. Qed.
Eval compute in "PA:C16_select_path_nil"%string.
Print Assumptions C16_select_path_nil.

(** None of the [expect]/[unreachable!] sites of [select_path] is reachable. *)
Theorem C16_select_path_no_panic :
  forall h, wf_history h -> forall vs, is_panic (select_path h vs) = false.
Proof. exact select_path_no_panic. Qed.
Eval compute in "PA:C16_select_path_no_panic"%string.
Print Assumptions C16_select_path_no_panic.

(** Every endpoint history of the client, federation, appservice, identity-service and
    push-gateway crates (regenerated from the compiled METADATA on every run) is well-formed. *)
Theorem C16_all_histories_wf :
  forallb (fun e => hist_ok (hist_of_tuple (snd e))) all_histories = true.
Proof. exact all_histories_wf. Qed.
Eval compute in "PA:C16_all_histories_wf"%string.
Print Assumptions C16_all_histories_wf.

(** Percent-decoding undoes the path encoding, for every byte string; this needs `%` in the
    generated encode set (checked by computation on it). *)
Theorem C16_percent_decode_encode :
  forall s, is_bytes s -> pct_decode (percent_encode in_path_set s) = s.
Proof. exact percent_decode_encode_gen. Qed.
Eval compute in "PA:C16_percent_decode_encode"%string.
Print Assumptions C16_percent_decode_encode.

(** An encoded argument contains no `/`, `?` or `#`. *)
Theorem C16_segments_no_separator :
  forall a, is_bytes a -> forall c, In c (percent_encode in_path_set a) -> c <> 47 /\ c <> 63 /\ c <> 35.
Proof. exact segments_no_separator_gen. Qed.
Eval compute in "PA:C16_segments_no_separator"%string.
Print Assumptions C16_segments_no_separator.

(** Routing the URL built from a template and arbitrary argument byte strings (and any query
    string) gives exactly the arguments back. *)
Theorem C16_path_roundtrip :
  forall tmpl args q,
  routableb tmpl = true -> (forall a, In a args -> is_bytes a) ->
  List.length args = count_placeholders tmpl ->
  exists u, make_url in_path_set tmpl [] args q = Ok u /\ route tmpl u = Some args.
Proof. exact path_roundtrip_gen. Qed.
Eval compute in "PA:C16_path_roundtrip"%string.
Print Assumptions C16_path_roundtrip.

(** The same end to end for every generated endpoint and every list of supported versions:
    the URL is built on the path the contract selects, and routes back to the arguments. *)
Theorem C16_endpoint_url_roundtrip :
  forall name t vs args q p,
  In (name, t) all_histories ->
  spec_select (unstable (hist_of_tuple t)) (stable (hist_of_tuple t)) (removed (hist_of_tuple t)) vs = SelPath p ->
  (forall a, In a args -> is_bytes a) ->
  List.length args = count_placeholders p ->
  exists u, make_endpoint_url in_path_set (hist_of_tuple t) vs [] args q = Ok u /\ route p u = Some args.
Proof. exact endpoint_url_roundtrip. Qed.
Eval compute in "PA:C16_endpoint_url_roundtrip"%string.
Print Assumptions C16_endpoint_url_roundtrip.

(** The urlencoded key/value layer: any list of byte-string pairs (empty keys and values,
    repeated keys, `+ & = %`, spaces, non-ASCII) is read back unchanged. *)
Theorem C16_query_roundtrip :
  forall l, (forall kv, In kv l -> is_bytes (fst kv) /\ is_bytes (snd kv)) -> parse_qs (ser_qs l) = l.
Proof. exact query_roundtrip. Qed.
Eval compute in "PA:C16_query_roundtrip"%string.
Print Assumptions C16_query_roundtrip.

(** The Authorization header is the one the endpoint's scheme prescribes, for all six schemes,
    all four kinds of token hand-over and every token string (a token that is not a legal
    header value gives an error, never a panic). *)
Theorem C16_authorization_header_eq_spec :
  forall a s,
  authorization_header a s = outcome_of_req (spec_auth (scheme_index a) (given_index s) (token_of s)).
Proof. exact authorization_header_eq_spec. Qed.
Eval compute in "PA:C16_authorization_header_eq_spec"%string.
Print Assumptions C16_authorization_header_eq_spec.

(** Parsing what [Display] writes gives the X-Matrix value back, whatever the validators of
    the identifier types and the base64 decoder are, for every value whose fields they accept. *)
Theorem C16_xmatrix_roundtrip :
  forall valid_server_name valid_key_id b64_decode x,
  wf_xmatrix valid_server_name valid_key_id b64_decode x ->
  xm_parse valid_server_name valid_key_id b64_decode (xm_show b64_encode x) = Ok x.
Proof. exact xmatrix_roundtrip. Qed.
Eval compute in "PA:C16_xmatrix_roundtrip"%string.
Print Assumptions C16_xmatrix_roundtrip.

(** * JSON bodies, through the derive model *)
From Base Require Json.
From Gen Require EndpointBodies.
From C18 Require Serde SerdeProofs SerdeBridge.
From C16 Require BodyProofs.

(** The per-endpoint obligation, on the body schemas regenerated from the source of all endpoint
    modules (the fields the #[request] / #[response] macros put into the generated body struct): member
    names pairwise distinct; every member that can be left out when encoding ([skip_serializing_if])
    is re-created when decoding by the missing-member rule, with the very value that was skipped. *)
Theorem C16_body_schemas_wf : SerdeBridge.all_wf EndpointBodies.endpoint_bodies = true.
Proof. exact BodyProofs.body_schemas_wf. Qed.
Eval compute in "PA:C16_body_schemas_wf"%string.
Print Assumptions C16_body_schemas_wf.

(** Encode a body value, decode the JSON: the same value; the JSON has no duplicate keys. *)
Theorem C16_body_roundtrip :
  forall valid ep w t v,
  In (ep, w, t) EndpointBodies.endpoint_bodies -> SerdeProofs.ok valid t v ->
  exists j, Serde.ser t v = Some j /\ Serde.deser valid t j = Some v /\ Serde.nodup_deep j = true.
Proof. exact BodyProofs.body_roundtrip. Qed.
Eval compute in "PA:C16_body_roundtrip"%string.
Print Assumptions C16_body_roundtrip.

(** Whatever body was accepted, re-encoding it and decoding again gives the same value. *)
Theorem C16_body_reencode_stable :
  forall valid ep w t j v,
  In (ep, w, t) EndpointBodies.endpoint_bodies -> Serde.nodup_deep j = true -> Serde.deser valid t j = Some v ->
  exists j', Serde.ser t v = Some j' /\ Serde.deser valid t j' = Some v /\ Serde.nodup_deep j' = true.
Proof. exact BodyProofs.body_fixpoint. Qed.
Eval compute in "PA:C16_body_reencode_stable"%string.
Print Assumptions C16_body_reencode_stable.

(** * Typed query strings, through the derive model *)
From C16 Require Query QueryProofs.

(** The per-endpoint obligation on the query structs regenerated from the source (the
    #[ruma_api(query)] members; 43 endpoints whose members are leaves, Option<leaf> or Vec<leaf>):
    member names distinct, and every member that may be left out is re-created by the missing-member rule. *)
Theorem C16_query_schemas_wf : forallb BodyProofs.query_ok EndpointBodies.endpoint_queries = true.
Proof. exact BodyProofs.query_schemas_wf. Qed.
Eval compute in "PA:C16_query_schemas_wf"%string.
Print Assumptions C16_query_schemas_wf.

(** Writing the query members as key / value pairs and reading them back gives the same values, for
    every identifier validator, given that Rust's integer parser reads what its formatter writes - for
    every value outside two stated classes ([QueryProofs.ok_q]): [Some] of a value that prints as the empty
    string (it reads back as [None]: the open finding C16-optional-query-empty, witness below) and an empty
    list for a required repeated parameter. *)
Theorem C16_typed_query_roundtrip :
  forall valid parse_int,
  (forall lo hi z, (lo <= z <= hi)%Z -> parse_int (lo <? 0)%Z (JsonText.print_Z z) = Some z) ->
  forall ep fs vs, In (ep, Serde.TStruct fs) EndpointBodies.endpoint_queries -> QueryProofs.ok_q_fields valid fs vs ->
  exists q, Query.qser fs vs = Some q /\ Query.qdeser valid parse_int fs q = Some vs.
Proof. exact BodyProofs.typed_query_roundtrip. Qed.
Eval compute in "PA:C16_typed_query_roundtrip"%string.
Print Assumptions C16_typed_query_roundtrip.

(** The class is not vacuous: GET /publicRooms with [since: Some("")] is written as `since=` and read
    back as [since: None]. *)
Theorem C16_optional_query_empty_witness :
  exists fs, Run.find_query s!"ruma_client_api::directory::get_public_rooms::v3" EndpointBodies.endpoint_queries = Some fs /\
  exists vs vs' q,
    Query.qdeser SerdeBridge.id_valid Run.rust_parse_int fs [(s!"limit", s!"5"); (s!"since", s!"x")] = Some vs /\
    Query.qser fs (List.map (fun v => match v with Serde.VSome (Serde.VStr _) => Serde.VSome (Serde.VStr []) | _ => v end) vs) = Some q /\
    Query.qdeser SerdeBridge.id_valid Run.rust_parse_int fs q = Some vs' /\
    In (Serde.VSome (Serde.VStr [])) (List.map (fun v => match v with Serde.VSome (Serde.VStr _) => Serde.VSome (Serde.VStr []) | _ => v end) vs) /\
    ~ In (Serde.VSome (Serde.VStr [])) vs'.
Proof.
  eexists. split; [vm_compute; reflexivity|]. do 3 eexists. repeat split; try (vm_compute; reflexivity).
  - vm_compute. tauto.
  - vm_compute. intros H. repeat (destruct H as [H|H]; [discriminate|]). exact H.
Qed.
Eval compute in "PA:C16_optional_query_empty_witness"%string.
Print Assumptions C16_optional_query_empty_witness.
