(** C16.QueryProofs — the typed query string survives: reading what [qser] wrote gives the member
    values back, for every query struct satisfying the decidable side condition [wf_q], and every
    value except the class of the open finding C16-optional-query-empty ([Some] of a value that prints
    as the empty string reads back as [None]).  The decimal text codec of Rust's integers enters as a
    hypothesis ([parse_print]). *)
From Base Require Import Prelude Sx Json JsonText.
From C18 Require Import Serde SerdeProofs.
From C16 Require Import Query.
Require Import Lia ZifyBool.

Definition default_kind_simple (fm : fmeta) : bool :=
  match f_default fm with DRequired | DDefault => true | _ => false end.

Definition q_field_ok (fm : fmeta) (ft : ty) : bool :=
  query_ty_ok ft && wf_ty ft && field_ok fm ft && nodup_strs (f_name fm :: f_aliases fm)
  && match ft with
     | TVec _ | TOpt _ => default_kind_simple fm
     | _ => true
     end.

Fixpoint q_fields_ok (fs : list (fmeta * ty)) : bool :=
  match fs with [] => true | (fm, ft) :: r => q_field_ok fm ft && q_fields_ok r end.

Definition wf_q (fs : list (fmeta * ty)) : bool :=
  nodup_strs (List.map (fun f => f_name (fst f)) fs) && q_fields_ok fs.

Section QP.
  Variable valid : N -> str -> bool.
  Variable parse_int : bool -> str -> option Z.
  (** Rust: [u64::from_str] / [i64::from_str] read back what [Display] writes *)
  Hypothesis parse_print : forall lo hi z, (lo <= z <= hi)%Z -> parse_int (lo <? 0)%Z (print_Z z) = Some z.

  Notation leaf_of := (leaf_of valid parse_int).
  Notation qdeser := (qdeser valid parse_int).

  Lemma leaf_rt t v : is_leaf t = true -> wf_ty t = true -> ok valid t v ->
    exists s, leaf_to t v = Some s /\ leaf_of t s = Some v.
  Proof.
    destruct t; try discriminate; intros _ Hwf Hok; destruct v; cbn in Hok; try contradiction; cbn [leaf_to Query.leaf_of].
    - eexists; split; reflexivity.
    - eexists; split; [reflexivity|]. now rewrite Hok.
    - eexists; split; [reflexivity|]. now rewrite Hok.
    - destruct b; eexists; split; reflexivity.
    - eexists; split; [reflexivity|]. rewrite (parse_print lo hi z Hok).
      replace ((lo <=? z)%Z && (z <=? hi)%Z) with true by lia. reflexivity.
  Qed.

  (** member values a query struct can carry and give back *)
  Definition ok_q (fm : fmeta) (ft : ty) (x : val) : Prop :=
    ok valid ft x /\
    match ft, x with
    | TOpt t', VSome v => leaf_to t' v <> Some []        (* not the class of C16-optional-query-empty *)
    | TVec _, VVec [] => f_default fm = DDefault         (* a required repeated parameter is not empty *)
    | _, _ => True
    end.

  Fixpoint ok_q_fields (fs : list (fmeta * ty)) (vs : list val) : Prop :=
    match fs, vs with
    | [], [] => True
    | (fm, ft) :: r, x :: xs => ok_q fm ft x /\ ok_q_fields r xs
    | _, _ => False
    end.

  Lemma values_of_app k a b : values_of k (a ++ b) = values_of k a ++ values_of k b.
  Proof.
    induction a as [|[k' v] a IH]; cbn [values_of app]; [reflexivity|].
    destruct (str_eqb k k'); cbn [app]; now rewrite IH.
  Qed.

  Lemma values_of_own k l : values_of k (List.map (fun s => (k, s)) l) = l.
  Proof. induction l as [|s l IH]; cbn [List.map values_of]; [reflexivity|]. now rewrite str_eqb_refl, IH. Qed.

  Lemma values_of_other k k' l : k <> k' -> values_of k (List.map (fun s : str => (k', s)) l) = [].
  Proof.
    intros H. induction l as [|s l IH]; cbn [List.map values_of]; [reflexivity|].
    destruct (str_eqb_spec k k'); [contradiction|exact IH].
  Qed.

  Lemma all_leaf_rt t l : is_leaf t = true -> wf_ty t = true ->
    (fix go (l : list val) : Prop := match l with [] => True | x :: r => ok valid t x /\ go r end) l ->
    exists ss, all_leaf_to t l = Some ss /\ all_leaf_of valid parse_int t ss = Some l /\ List.length ss = List.length l.
  Proof.
    intros Hl Hwf. induction l as [|x l IH]; intros Hok; [exists []; repeat split|].
    destruct Hok as [Hx Hr]. destruct (leaf_rt t x Hl Hwf Hx) as (s & E1 & E2). destruct (IH Hr) as (ss & F1 & F2 & F3).
    exists (s :: ss). cbn [all_leaf_to all_leaf_of List.length]. now rewrite E1, F1, E2, F2, F3.
  Qed.

  (** the pairs one member writes all carry its name *)
  Lemma field_pairs_shape fm ft x ps : q_field_pairs fm ft x = Some ps ->
    exists l, ps = List.map (fun s => (f_name fm, s)) l.
  Proof.
    intros H. unfold q_field_pairs in H.
    assert (G : forall o, option_map (fun s : str => [(f_name fm, s)]) o = Some ps ->
                          exists l, ps = List.map (fun s => (f_name fm, s)) l).
    { intros [s|] E; [|discriminate]. injection E as <-. now exists [s]. }
    destruct ft; destruct x; cbv beta iota in H; try (now apply G in H).
    all: try (injection H as <-; now exists []).
    all: match type of H with option_map _ ?o = _ => destruct o as [ss|]; [|discriminate] end;
         injection H as <-; now exists ss.
  Qed.

  Lemma field_pairs_keys fm ft x ps : q_field_pairs fm ft x = Some ps -> forall k, k <> f_name fm -> values_of k ps = [].
  Proof.
    intros H k Hk. destruct (field_pairs_shape _ _ _ _ H) as [l ->]. now apply values_of_other.
  Qed.

  Lemma qser_keys fs : forall vs q, qser fs vs = Some q ->
    forall k, ~ In k (List.map (fun f => f_name (fst f)) fs) -> values_of k q = [].
  Proof.
    induction fs as [|[fm ft] r IH]; intros [|x xs] q H k Hk; cbn [qser] in H; try discriminate.
    - now injection H as <-.
    - destruct (q_field_pairs fm ft x) as [ps|] eqn:Ep; [|discriminate].
      destruct (qser r xs) as [rest|] eqn:Er; [|discriminate]. injection H as <-.
      assert (Hrest : values_of k rest = []).
      { eapply IH; eauto. intros Hin. apply Hk. now right. }
      destruct (q_skipped fm ft x); [exact Hrest|].
      rewrite values_of_app, Hrest, app_nil_r. eapply field_pairs_keys; eauto.
      intros ->. apply Hk. now left.
  Qed.

  Theorem q_roundtrip fs : wf_q fs = true -> forall vs, ok_q_fields fs vs ->
    exists q, qser fs vs = Some q /\ qdeser fs q = Some vs.
  Proof.
    unfold wf_q. intros Hwf. apply andb_true_iff in Hwf as [Hnd Hfs]. apply nodup_strs_NoDup in Hnd.
    (* generalise: any query [Q] that agrees with what the suffix wrote on the suffix's names *)
    enough (G : forall vs, ok_q_fields fs vs ->
              exists q, qser fs vs = Some q /\
                forall Q, (forall k, In k (List.map (fun f => f_name (fst f)) fs) -> values_of k Q = values_of k q) ->
                          qdeser fs Q = Some vs).
    { intros vs Hok. destruct (G vs Hok) as (q & E & D). exists q. split; [exact E|]. apply D. reflexivity. }
    induction fs as [|[fm ft] r IH]; intros [|x xs] Hok; try destruct Hok.
    - exists []. split; [reflexivity|]. intros; reflexivity.
    - cbn [List.map fst] in Hnd. apply NoDup_cons_iff in Hnd as [Hname Hndr].
      cbn [q_fields_ok] in Hfs. apply andb_true_iff in Hfs as [Hf Hr].
      destruct (IH Hndr Hr xs H0) as (rest & Erest & Drest).
      unfold q_field_ok in Hf. apply andb_true_iff in Hf as [Hf Hshape]. apply andb_true_iff in Hf as [Hf _].
      apply andb_true_iff in Hf as [Hf Hfo]. apply andb_true_iff in Hf as [Hqt Hwt].
      destruct H as [Hx Hcls].
      assert (Hrest_name : values_of (f_name fm) rest = []) by (eapply qser_keys; eauto).
      (* the pairs of this member *)
      assert (P : exists ps, q_field_pairs fm ft x = Some ps /\
                    (q_skipped fm ft x = false -> q_field_value valid parse_int fm ft (ps ++ rest) = Some x) /\
                    (q_skipped fm ft x = true -> q_missing valid fm ft = Some x)).
      { unfold field_ok in Hfo. apply andb_true_iff in Hfo as [Hdo Hso].
        assert (Hmiss : q_skipped fm ft x = true -> q_missing valid fm ft = Some x).
        { unfold q_skipped, q_missing, skip_ok in *. intros Esk.
          destruct (f_skip fm) as [| | | |c]; [discriminate| | | |].
          - destruct x; try discriminate. apply andb_true_iff in Hso as [Ho Hd]. destruct ft; try discriminate.
            destruct (f_default fm); try discriminate; reflexivity.
          - destruct (f_default fm); try discriminate.
            destruct ft; try discriminate; destruct x; cbn in Hx; try contradiction; cbn [is_empty_val] in Esk.
            all: try (destruct s; [reflexivity|discriminate]).
            all: try (destruct l; [reflexivity|discriminate]).
            all: try (destruct m; [reflexivity|discriminate]).
            all: try (destruct Hx as [[m' ->] _]; destruct m'; [reflexivity|discriminate]).
          - destruct (f_default fm); try discriminate. destruct (default_of ft) as [d|]; [|discriminate].
            apply val_eqb_eq in Esk. now subst.
          - destruct (f_default fm) as [| |c'|]; try discriminate. apply json_eqb_eq in Hso. subst c'.
            destruct (roundtrip valid ft Hwt x Hx) as (y & Ey & Dy). rewrite Ey in Esk. apply json_eqb_eq in Esk. now subst. }
        unfold q_field_pairs, q_field_value.
        destruct ft; try discriminate; cbn [query_ty_ok] in Hqt.
        - (* TStr *) destruct (leaf_rt TStr x Hqt Hwt Hx) as (s & E1 & E2). rewrite E1. eexists. split; [destruct x; reflexivity|].
          split; [|exact Hmiss]. intros _. cbn [app values_of]. rewrite str_eqb_refl, Hrest_name. exact E2.
        - destruct (leaf_rt (TId c) x Hqt Hwt Hx) as (s & E1 & E2). rewrite E1. eexists. split; [destruct x; reflexivity|].
          split; [|exact Hmiss]. intros _. cbn [app values_of]. rewrite str_eqb_refl, Hrest_name. exact E2.
        - destruct (leaf_rt (TEnum aliases) x Hqt Hwt Hx) as (s & E1 & E2). rewrite E1. eexists. split; [destruct x; reflexivity|].
          split; [|exact Hmiss]. intros _. cbn [app values_of]. rewrite str_eqb_refl, Hrest_name. exact E2.
        - destruct (leaf_rt TBool x Hqt Hwt Hx) as (s & E1 & E2). rewrite E1. eexists. split; [destruct x; reflexivity|].
          split; [|exact Hmiss]. intros _. cbn [app values_of]. rewrite str_eqb_refl, Hrest_name. exact E2.
        - destruct (leaf_rt (TInt lo hi) x Hqt Hwt Hx) as (s & E1 & E2). rewrite E1. eexists. split; [destruct x; reflexivity|].
          split; [|exact Hmiss]. intros _. cbn [app values_of]. rewrite str_eqb_refl, Hrest_name. exact E2.
        - (* TOpt *) cbn [wf_ty] in Hwt. destruct x; cbn in Hx; try contradiction.
          + eexists. split; [reflexivity|]. split; [|exact Hmiss]. intros _. cbn [app]. rewrite Hrest_name.
            unfold q_missing. unfold default_kind_simple in Hshape. destruct (f_default fm); try discriminate; reflexivity.
          + destruct Hx as [Hx _]. destruct (leaf_rt ft x Hqt Hwt Hx) as (s & E1 & E2). rewrite E1. eexists. split; [reflexivity|].
            split; [|exact Hmiss]. intros _. cbn [app values_of]. rewrite str_eqb_refl, Hrest_name.
            cbv beta iota in Hcls. destruct s as [|b s]; [exfalso; apply Hcls; exact E1|]. cbn [str_eqb]. now rewrite E2.
        - (* TVec *) cbn [wf_ty] in Hwt. destruct x; cbn in Hx; try contradiction.
          destruct (all_leaf_rt ft l Hqt Hwt Hx) as (ss & F1 & F2 & F3). rewrite F1. eexists. split; [reflexivity|].
          split; [|exact Hmiss]. intros _. cbn [option_map]. rewrite values_of_app, values_of_own, Hrest_name, app_nil_r.
          destruct ss as [|s ss].
          + destruct l; [|discriminate]. cbv beta iota in Hcls. unfold q_missing. rewrite Hcls. reflexivity.
          + now rewrite F2. }
      destruct P as (ps & Eps & Dns & Dsk).
      eexists. split; [cbn [qser]; rewrite Eps, Erest; reflexivity|].
      intros Q HQ. cbn [Query.qdeser].
      assert (Hr' : qdeser r Q = Some xs).
      { apply Drest. intros k Hk. rewrite HQ by (now right).
        destruct (q_skipped fm ft x); [reflexivity|]. rewrite values_of_app.
        rewrite (field_pairs_keys _ _ _ _ Eps k); [reflexivity|]. intros ->. contradiction. }
      rewrite Hr'.
      assert (Hv : q_field_value valid parse_int fm ft Q = Some x); [|now rewrite Hv].
      (* [q_field_value] looks at [values_of (f_name fm)] only *)
      assert (Hdep : forall Q1 Q2, values_of (f_name fm) Q1 = values_of (f_name fm) Q2 ->
                                   q_field_value valid parse_int fm ft Q1 = q_field_value valid parse_int fm ft Q2).
      { intros Q1 Q2 E. unfold q_field_value. now rewrite E. }
      destruct (q_skipped fm ft x) eqn:Esk.
      + rewrite (Hdep Q rest) by (apply HQ; now left).
        specialize (Dsk eq_refl). unfold q_field_value. rewrite Hrest_name. destruct ft; exact Dsk.
      + rewrite (Hdep Q (ps ++ rest)) by (apply HQ; now left). now apply Dns.
  Qed.
End QP.
