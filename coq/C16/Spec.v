(** C16.Spec — what the property demands, written without reference to the code's structure,
    to the model or to the generated tables.

    1. Path selection: ruma's documented contract (DESIGN.md A.10).
    2. "Standard path routing and percent-decoding" on the receiving side: the URL path is cut
       at `/`; a template segment `:name` captures the percent-decoded (RFC 3986 2.1) segment,
       any other template segment must be matched literally.
    3. Which Authorization header an endpoint's authentication scheme prescribes. *)
From Base Require Import Prelude.

(* ------------------------------------------------------------------------------------- *)
(** * 1. Path selection *)

Inductive selection :=
| SelPath (p : str)
| SelRemoved            (* every advertised version is at or after the removal *)
| SelNoPath.            (* nothing stable is reachable and there is no unstable path *)

(** "some advertised version is at or after [x]" / "every advertised version is ..." *)
Definition reaches (advertised : list N) (x : N) : bool := existsb (fun v => x <=? v) advertised.
Definition all_reach (advertised : list N) (x : N) : bool := forallb (fun v => x <=? v) advertised.

(** Among the stable paths some advertised version reaches, the one introduced last
    (greatest introduction version; position in the list plays no role). *)
Fixpoint newest_reachable (advertised : list N) (stable : list (N * str)) (best : option (N * str))
  : option (N * str) :=
  match stable with
  | [] => best
  | (v, p) :: rest =>
      if reaches advertised v then
        match best with
        | Some (bv, _) => if bv <? v then newest_reachable advertised rest (Some (v, p))
                          else newest_reachable advertised rest best
        | None => newest_reachable advertised rest (Some (v, p))
        end
      else newest_reachable advertised rest best
  end.

Fixpoint final {A} (l : list A) : option A :=
  match l with [] => None | x :: l' => match final l' with Some y => Some y | None => Some x end end.

Definition spec_select (unstable : list str) (stable : list (N * str)) (removed : option N)
           (advertised : list N) : selection :=
  match removed with
  | Some r => if all_reach advertised r then SelRemoved else
      match newest_reachable advertised stable None with
      | Some (_, p) => SelPath p
      | None => match final unstable with Some p => SelPath p | None => SelNoPath end
      end
  | None =>
      match newest_reachable advertised stable None with
      | Some (_, p) => SelPath p
      | None => match final unstable with Some p => SelPath p | None => SelNoPath end
      end
  end.

(* ------------------------------------------------------------------------------------- *)
(** * 2. Routing and percent-decoding *)

Definition hexdig (c : N) : option N :=
  if (48 <=? c) && (c <=? 57) then Some (c - 48)          (* 0-9 *)
  else if (65 <=? c) && (c <=? 70) then Some (c - 55)     (* A-F *)
  else if (97 <=? c) && (c <=? 102) then Some (c - 87)    (* a-f *)
  else None.

(** pct-encoded = "%" HEXDIG HEXDIG; everything else stands for itself. *)
Fixpoint pct_decode (s : str) : str :=
  match s with
  | [] => []
  | c :: t =>
      match t with
      | h :: l :: r =>
          if c =? 37 then
            match hexdig h, hexdig l with
            | Some a, Some b => (a * 16 + b) :: pct_decode r
            | _, _ => c :: pct_decode t
            end
          else c :: pct_decode t
      | _ => c :: pct_decode t
      end
  end.

(** The pieces of [s] between occurrences of [c] (at least one piece). *)
Fixpoint pieces (c : N) (s : str) : list str :=
  match s with
  | [] => [[]]
  | x :: t =>
      if x =? c then [] :: pieces c t
      else match pieces c t with
           | seg :: rest => (x :: seg) :: rest
           | [] => [[x]]
           end
  end.

(** The path of a URL reference: up to the first `?` or `#`. *)
Fixpoint url_path (u : str) : str :=
  match u with
  | [] => []
  | c :: t => if (c =? 63) || (c =? 35) then [] else c :: url_path t
  end.

Definition captures (seg : str) : bool := match seg with c :: _ => c =? 58 | [] => false end.

Fixpoint match_segments (template url : list str) : option (list str) :=
  match template, url with
  | [], [] => Some []
  | t :: template', s :: url' =>
      if captures t then
        match match_segments template' url' with
        | Some args => Some (pct_decode s :: args)
        | None => None
        end
      else if str_eqb t s then match_segments template' url' else None
  | _, _ => None
  end.

(** [route template u]: the path arguments the receiving side extracts from the URL
    reference [u] (path, optional query) for the route [template]. *)
Definition route (template u : str) : option (list str) :=
  match_segments (pieces 47 template) (pieces 47 (url_path u)).

(* ------------------------------------------------------------------------------------- *)
(** * 3. Authorization header per authentication scheme *)

(** The six schemes, and what the caller hands over: a user access token to be sent only when
    required (0), always (1), an appservice token (2), or nothing (3). *)
Inductive header_req := MustSend (t : str) | MustNotSend | MustFail.

(** scheme: 0 None, 1 AccessToken, 2 AccessTokenOptional, 3 AppserviceToken,
    4 AppserviceTokenOptional, 5 ServerSignatures. *)
Definition spec_auth (scheme : N) (given : N) (t : str) : header_req :=
  if scheme =? 0 then if given =? 1 then MustSend t else MustNotSend
  else if scheme =? 1 then if given =? 3 then MustFail else MustSend t
  else if scheme =? 2 then if given =? 3 then MustNotSend else MustSend t
  else if scheme =? 3 then if (given =? 1) || (given =? 2) then MustSend t else MustFail
  else if scheme =? 4 then if (given =? 1) || (given =? 2) then MustSend t else MustNotSend
  else MustNotSend.

(** A header value: no control characters except HTAB (RFC 9110 5.5). *)
Definition field_value_ok (s : str) : bool :=
  forallb (fun b => (b =? 9) || ((32 <=? b) && negb (b =? 127))) s.
