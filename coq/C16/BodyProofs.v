(** C16.BodyProofs — the generic derive theorems (C18.SerdeProofs) applied to the table of endpoint
    body schemas the translator regenerates from ruma's source ([Gen.EndpointBodies]). *)
From Base Require Import Prelude Sx Json.
From Gen Require Import EndpointBodies.
From C18 Require Import Serde SerdeProofs SerdeBridge.

Lemma body_schemas_wf : all_wf endpoint_bodies = true.
Proof. vm_compute. reflexivity. Qed.

Lemma body_wf ep w t : In (ep, w, t) endpoint_bodies -> wf_ty t = true.
Proof.
  intros H. pose proof body_schemas_wf as W. unfold all_wf in W. rewrite forallb_forall in W.
  exact (W _ H).
Qed.

Lemma body_roundtrip valid ep w t v :
  In (ep, w, t) endpoint_bodies -> ok valid t v ->
  exists j, ser t v = Some j /\ deser valid t j = Some v /\ nodup_deep j = true.
Proof.
  intros Hin Hok. pose proof (body_wf _ _ _ Hin) as W.
  destruct (roundtrip valid t W v Hok) as (j & E & D). exists j. repeat split; auto.
  eapply ser_nodup; eauto.
Qed.

Lemma body_fixpoint valid ep w t j v :
  In (ep, w, t) endpoint_bodies -> nodup_deep j = true -> deser valid t j = Some v ->
  exists j', ser t v = Some j' /\ deser valid t j' = Some v /\ nodup_deep j' = true.
Proof.
  intros Hin Hj H. apply (body_roundtrip valid ep w t v Hin).
  eapply deser_ok; eauto using body_wf.
Qed.

(** * Typed query strings *)
From C16 Require Import Query QueryProofs.

Definition query_ok (e : str * ty) : bool := match snd e with TStruct fs => wf_q fs | _ => false end.

Lemma query_schemas_wf : forallb query_ok endpoint_queries = true.
Proof. vm_compute. reflexivity. Qed.

Lemma typed_query_roundtrip valid parse_int :
  (forall lo hi z, (lo <= z <= hi)%Z -> parse_int (lo <? 0)%Z (JsonText.print_Z z) = Some z) ->
  forall ep fs vs, In (ep, TStruct fs) endpoint_queries -> ok_q_fields valid fs vs ->
  exists q, qser fs vs = Some q /\ qdeser valid parse_int fs q = Some vs.
Proof.
  intros Hpp ep fs vs Hin Hok. pose proof query_schemas_wf as W. rewrite forallb_forall in W.
  specialize (W _ Hin). cbn in W. eapply q_roundtrip; eauto.
Qed.
