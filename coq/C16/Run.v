(** C16.Run — case decoding, model run, and the spec predicates evaluated on the
    implementation's outcome (the failing-input search).  Case layout: harness/src/c16.rs. *)
From Base Require Import Prelude Sx Json.
From Gen Require Import Versions PercentSet.
From Gen Require EndpointBodies.
From C18 Require Serde SerdeBridge.
From C08 Require Model.
From C16 Require Query.
From C16 Require Import Model Spec.

(** [u64::from_str] / [i64::from_str] as modelled for C08's string power levels *)
Definition rust_parse_int (signed : bool) (s : str) : option Z :=
  if signed then C08.Model.parse_signed s else C08.Model.parse_unsigned s.

Fixpoint find_query (ep : str) (l : list (str * Serde.ty)) : option (list (Serde.fmeta * Serde.ty)) :=
  match l with
  | [] => None
  | (e, t) :: r => if str_eqb ep e then match t with Serde.TStruct fs => Some fs | _ => None end else find_query ep r
  end.

Definition sx_qpairs (l : list (str * str)) : sx := SL (List.map (fun kv => SL [SS (fst kv); SS (snd kv)]) l).

Definition model_query (fs : list (Serde.fmeta * Serde.ty)) (q : list (str * str)) : sx :=
  match Query.qdeser SerdeBridge.id_valid rust_parse_int fs q with
  | Some vs => match Query.qser fs vs with
               | Some out => SL [SN 0; sx_qpairs out]
               | None => sx_bad
               end
  | None => SL [SN 1; SN 0]
  end.

(* ---- decoding ------------------------------------------------------------------------- *)
Definition as_pair_NS (x : sx) : option (N * str) :=
  match x with SL [a; b] => match as_N a, as_str b with Some n, Some s => Some (n, s) | _, _ => None end | _ => None end.
Definition as_pair_SS (x : sx) : option (str * str) :=
  match x with SL [a; b] => match as_str a, as_str b with Some k, Some v => Some (k, v) | _, _ => None end | _ => None end.

Definition hist_of_sx (x : sx) : option history :=
  match x with
  | SL [u; s; d; r] =>
      match as_list_of as_str u, as_list_of as_pair_NS s, as_opt as_N d, as_opt as_N r with
      | Some u, Some s, Some d, Some r => Some {| unstable := u; stable := s; deprecated := d; removed := r |}
      | _, _, _, _ => None
      end
  | _ => None
  end.

Definition sx_str (s : str) : sx := SS s.
Definition sx_pairs (l : list (str * str)) : sx := sx_list (fun kv => SL [SS (fst kv); SS (snd kv)]) l.

(* ---- versions ------------------------------------------------------------------------- *)
Definition vparts (v : N) : N * N :=
  match List.nth_error version_table (N.to_nat v) with Some (_, p) => p | None => (0, 0) end.

Definition hist_typed (n : N) (h : history) : bool :=
  forallb (fun vp => fst vp <? n) (stable h)
  && match deprecated h with Some d => d <? n | None => true end
  && match removed h with Some r => r <? n | None => true end.

(** What [VersionHistory::new] accepts. *)
Definition hist_ok (h : history) : bool := hist_typed nversions h && wf_historyb vparts h.

Fixpoint index_of (p : str) (l : list str) (i : N) : option N :=
  match l with [] => None | q :: l' => if str_eqb p q then Some i else index_of p l' (i + 1) end.

Definition code_of_outcome (h : history) (o : outcome str) : N :=
  match o with
  | Ok p => match index_of p (all_paths h) 0 with Some i => i | None => 252 end
  | Err e => if e =? E_REMOVED then 254 else if e =? E_NO_UNSTABLE then 255 else 252
  | Panic _ => 253
  end.

Definition code_of_selection (h : history) (s : selection) : N :=
  match s with
  | SelPath p => match index_of p (all_paths h) 0 with Some i => i | None => 252 end
  | SelRemoved => 254
  | SelNoPath => 255
  end.

Fixpoint nseq (start : N) (len : nat) : list N :=
  match len with O => [] | S k => start :: nseq (start + 1) k end.

Definition subset_of_mask (nver : N) (mask : N) : list N :=
  List.filter (fun b => N.testbit mask b) (nseq 0 (N.to_nat nver)).

Definition spec_sel (h : history) (vs : list N) : selection :=
  spec_select (unstable h) (stable h) (removed h) vs.

Definition chunk_codes (f : list N -> N) (nver chunk : N) : str :=
  List.map (fun i => f (subset_of_mask nver (chunk * 1024 + i))) (nseq 0 1024).

(* ---- the spec predicates ------------------------------------------------------------- *)
Fixpoint strip_prefix (p s : str) : option str :=
  match p, s with
  | [], _ => Some s
  | x :: p', y :: s' => if x =? y then strip_prefix p' s' else None
  | _ :: _, [] => None
  end.

Fixpoint drop_last_slash (s : str) : str :=
  match s with [] => [] | [c] => if c =? 47 then [] else [c] | c :: t => c :: drop_last_slash t end.

Definition count_captures (template : str) : nat :=
  List.length (List.filter captures (pieces 47 template)).

Definition strs_eqb (a b : list str) : bool := list_eqb str_eqb a b.
Definition opt_strs_eqb (a : option (list str)) (b : list str) : bool :=
  match a with Some a => strs_eqb a b | None => false end.

(** URL construction: the selection the metadata prescribes, and — when the caller gave as many
    arguments as the path has placeholders — routing the URL gives the arguments back. *)
Definition url_spec_ok (h : history) (vs : list N) (base : str) (args : list str) (impl : sx) : bool :=
  match spec_sel h vs with
  | SelRemoved => match impl with SL [SN 1; SN 1] => true | _ => false end
  | SelNoPath => match impl with SL [SN 1; SN 2] => true | _ => false end
  | SelPath t =>
      if Nat.eqb (count_captures t) (List.length args) then
        match impl with
        | SL [SN 0; SS url] =>
            match strip_prefix (drop_last_slash base) url with
            | Some rest => opt_strs_eqb (route t rest) args
            | None => false
            end
        | _ => false
        end
      else true
  end.

Definition auth_spec_ok (scheme given : N) (t : str) (impl : sx) : bool :=
  match spec_auth scheme given t with
  | MustSend t =>
      if field_value_ok (s!"Bearer " ++ t)
      then match impl with SL [SN 0; SL [SS v]] => str_eqb v (s!"Bearer " ++ t) | _ => false end
      else match impl with SL [SN 1; _] => true | _ => false end
  | MustNotSend => match impl with SL [SN 0; SL []] => true | _ => false end
  | MustFail => match impl with SL [SN 1; _] => true | _ => false end
  end.

(* ---- X-Matrix -------------------------------------------------------------------------- *)
Definition oracle_row := (str * (bool * bool * option str))%type.

Definition oracle_of_sx (x : sx) : option (list oracle_row) :=
  as_list_of (fun r =>
    match r with
    | SL [v; a; b; c] =>
        match as_str v, as_bool a, as_bool b, as_opt as_str c with
        | Some v, Some a, Some b, Some c => Some (v, (a, b, c))
        | _, _, _, _ => None
        end
    | _ => None
    end) x.

Fixpoint olookup (v : str) (o : list oracle_row) : option (bool * bool * option str) :=
  match o with [] => None | (k, r) :: o' => if str_eqb v k then Some r else olookup v o' end.

Definition o_sn (o : list oracle_row) (v : str) : bool :=
  match olookup v o with Some (a, _, _) => a | None => false end.
Definition o_key (o : list oracle_row) (v : str) : bool :=
  match olookup v o with Some (_, b, _) => b | None => false end.
Definition o_b64 (o : list oracle_row) (v : str) : option str :=
  match olookup v o with Some (_, _, c) => c | None => None end.

Definition sx_xm (x : xmatrix) : sx :=
  SL [SS (xm_origin x); sx_opt sx_str (xm_destination x); SS (xm_key x); SS (xm_sig x)].

(** [xm_parse] with the validators read from the oracle; a parameter value the oracle does
    not cover is reported as an outcome of its own (Panic), never guessed. *)
Definition xm_parse_oracle (o : list oracle_row) (input : str) : outcome xmatrix :=
  match find_scheme (S (S (List.length input))) initial_state input with
  | Ok c =>
      if forallb (fun kv => match olookup (unescape (fst (snd kv))) o with Some _ => true | None => false end)
                 (c_params c)
      then xm_parse (o_sn o) (o_key o) (o_b64 o) input
      else Panic 98
  | _ => xm_parse (o_sn o) (o_key o) (o_b64 o) input
  end.

Fixpoint all_items (fuel : nat) (s : pstate) (input : str) (acc : list challenge) : list challenge * bool :=
  match fuel with
  | O => (List.rev acc, true)
  | S k =>
      match next_item s input with
      | ItemOk c s' rest => all_items k s' rest (c :: acc)
      | ItemErr => (List.rev acc, true)
      | ItemEnd => (List.rev acc, false)
      end
  end.

Definition sx_challenge (c : challenge) : sx :=
  SL [SS (c_scheme c); sx_list (fun kv => SL [SS (fst kv); SS (unescape (fst (snd kv)))]) (c_params c)].

(* ---- run ------------------------------------------------------------------------------ *)
Definition sx_ostr (o : outcome str) : sx := sx_outcome sx_str o.

Definition flag_true (x : sx) : bool := match x with SN 1 => true | _ => false end.

Definition run (x : sx) : sx :=
  match x with
  | SL [SL (SN op :: rest); impl] =>
      match op, rest with
      | 1%Z, [h; nver; chunk] =>
          match hist_of_sx h, as_N nver, as_N chunk with
          | Some h, Some nver, Some chunk =>
              let model :=
                if hist_ok h && (nver =? nversions)
                then SL [SN 0; SS (chunk_codes (fun vs => code_of_outcome h (select_path h vs)) nver chunk)]
                else SL [SN 2] in
              let ok :=
                if hist_ok h
                then match impl with
                     | SL [SN 0; SS codes] =>
                         str_eqb codes (chunk_codes (fun vs => code_of_selection h (spec_sel h vs)) nver chunk)
                     | _ => false
                     end
                else true in
              SL [model; sx_bool ok]
          | _, _, _ => sx_bad
          end
      | 13%Z, [SS ep; SS which; body] =>
          (* JSON body through the generated conversions and back, against the derive interpreters run
             on the body schema regenerated from the endpoint's source *)
          match json_of_sx body, SerdeBridge.find_schema ep which EndpointBodies.endpoint_bodies with
          | Some j, Some t =>
              SL [SerdeBridge.model_schema_case t j;
                  sx_bool (match impl with
                           | SL [SN 0; SS text] => SerdeBridge.reread_ok t j text
                           | SL [SN 1; SN 0] => true
                           | _ => false       (* accepted but not re-encodable, or a panic *)
                           end)]
          | _, _ => sx_bad
          end
      | 14%Z, [SS ep; q] =>
          (* typed query string through the generated conversions and back *)
          match as_list_of as_pair_SS q, find_query ep EndpointBodies.endpoint_queries with
          | Some q, Some fs =>
              SL [model_query fs q;
                  sx_bool (match impl with
                           | SL [SN 0; out] =>
                               (* what came out reads back as the typed value the input read as *)
                               match as_list_of as_pair_SS out with
                               | Some out =>
                                   match Query.qdeser SerdeBridge.id_valid rust_parse_int fs q,
                                         Query.qdeser SerdeBridge.id_valid rust_parse_int fs out with
                                   | Some a, Some b => Serde.val_eqb (Serde.VStruct a) (Serde.VStruct b)
                                   | None, _ => true
                                   | Some _, None => false
                                   end
                               | None => false
                               end
                           | SL [SN 1; SN 0] => true
                           | _ => false
                           end)]
          | _, _ => sx_bad
          end
      | 2%Z, [h; vs] =>
          match hist_of_sx h, as_list_of as_N vs with
          | Some h, Some vs =>
              let model := if hist_ok h then sx_ostr (select_path h vs) else SL [SN 2] in
              let ok :=
                if hist_ok h
                then match spec_sel h vs, impl with
                     | SelPath p, SL [SN 0; SS q] => str_eqb p q
                     | SelRemoved, SL [SN 1; SN 1] => true
                     | SelNoPath, SL [SN 1; SN 2] => true
                     | _, _ => false
                     end
                else true in
              SL [model; sx_bool ok]
          | _, _ => sx_bad
          end
      | 3%Z, [h; vs; base; args; query] =>
          match hist_of_sx h, as_list_of as_N vs, as_str base, as_list_of as_str args, as_str query with
          | Some h, Some vs, Some base, Some args, Some query =>
              let model :=
                if hist_ok h then sx_ostr (make_endpoint_url in_path_set h vs base args query) else SL [SN 2] in
              SL [model; sx_bool (if hist_ok h then url_spec_ok h vs base args impl else true)]
          | _, _, _, _, _ => sx_bad
          end
      | 5%Z, [pairs] =>
          match as_list_of as_pair_SS pairs with
          | Some l =>
              let qs := ser_qs l in
              let ok := match impl with
                        | SL [SN 0; SL [SS _; back]] =>
                            match as_list_of as_pair_SS back with
                            | Some b => list_eqb (fun a b => str_eqb (fst a) (fst b) && str_eqb (snd a) (snd b)) b l
                            | None => false
                            end
                        | SL [SN 1; _] => true
                        | _ => false
                        end in
              SL [SL [SN 0; SL [SS qs; sx_pairs (parse_qs qs)]]; sx_bool ok]
          | None => sx_bad
          end
      | 6%Z, [q] =>
          match as_str q with
          | Some q => SL [SL [SN 0; sx_pairs (parse_qs q)]; sx_bool true]
          | None => sx_bad
          end
      | 7%Z, [scheme; given; tok] =>
          match as_N scheme, as_N given, as_str tok with
          | Some scheme, Some given, Some tok =>
              let a := if scheme =? 0 then ANone else if scheme =? 1 then AAccessToken
                       else if scheme =? 2 then AAccessTokenOptional else if scheme =? 3 then AAppserviceToken
                       else if scheme =? 4 then AAppserviceTokenOptional else AServerSignatures in
              let s := if given =? 0 then TIfRequired tok else if given =? 1 then TAlways tok
                       else if given =? 2 then TAppservice tok else TNone in
              SL [sx_outcome (sx_opt sx_str) (authorization_header a s); sx_bool (auth_spec_ok scheme given tok impl)]
          | _, _, _ => sx_bad
          end
      | 8%Z, [o; d; k; sg; oracle] =>
          match as_str o, as_opt as_str d, as_str k, as_str sg, oracle_of_sx oracle with
          | Some o, Some d, Some k, Some sg, Some oracle =>
              let x := {| xm_origin := o; xm_destination := d; xm_key := k; xm_sig := sg |} in
              let header := xm_show b64_encode x in
              let ok := match impl with
                        | SL [SN 0; SL [SS _; SL [SN 0; back]]] =>
                            match back with
                            | SL [SS o'; d'; SS k'; SS sg'] =>
                                str_eqb o o' && str_eqb k k' && str_eqb sg sg'
                                && match d, as_opt as_str d' with
                                   | Some a, Some (Some b) => str_eqb a b
                                   | None, Some None => true
                                   | _, _ => false
                                   end
                            | _ => false
                            end
                        | _ => false
                        end in
              SL [SL [SN 0; SL [SS header; sx_outcome sx_xm (xm_parse_oracle oracle header)]]; sx_bool ok]
          | _, _, _, _, _ => sx_bad
          end
      | 9%Z, [hd; oracle] =>
          match as_str hd, oracle_of_sx oracle with
          | Some hd, Some oracle => SL [sx_outcome sx_xm (xm_parse_oracle oracle hd); sx_bool true]
          | _, _ => sx_bad
          end
      | 10%Z, [hd] =>
          match as_str hd with
          | Some hd =>
              let '(cs, err) := all_items (S (S (List.length hd))) initial_state hd [] in
              SL [SL [SN 0; SL [sx_list sx_challenge cs; sx_bool err]]; sx_bool true]
          | None => sx_bad
          end
      | 11%Z, [name; dir; vals; h; vs; scheme; given; tok] =>
          (* No model of the generated conversions: the implementation's outcome is echoed and only
             the spec predicate is evaluated on it. *)
          match as_N dir, hist_of_sx h, as_list_of as_N vs, as_N scheme, as_N given, as_str tok with
          | Some dir, Some h, Some vs, Some scheme, Some given, Some tok =>
              let ok :=
                if dir =? 0 then
                  match impl with
                  | SL [SN 0; SL [SS m_meta; SS m_http; SS path; args; auth; eq; re]] =>
                      str_eqb m_meta m_http
                      && flag_true eq && flag_true re
                      && match spec_sel h vs, as_list_of as_str args with
                         | SelPath t, Some args => opt_strs_eqb (route t path) args
                         | _, _ => false
                         end
                      && match spec_auth scheme given tok, auth with
                         | MustSend t, SL [SS v] => str_eqb v (s!"Bearer " ++ t)
                         | MustNotSend, SL [] => true
                         | _, _ => false
                         end
                  | SL [SN 1; SN e] =>
                      (* the encoder refused: must be for a reason the metadata prescribes, or an
                         encoder-side rejection of the field values (code 4/9) *)
                      match spec_sel h vs with
                      | SelRemoved => (e =? 1)%Z
                      | SelNoPath => (e =? 2)%Z || (e =? 3)%Z
                      | SelPath _ =>
                          match spec_auth scheme given tok with
                          | MustFail => (e =? 3)%Z || (e =? 4)%Z || (e =? 9)%Z
                          | _ => (e =? 4)%Z || (e =? 9)%Z
                          end
                      end
                  | _ => false
                  end
                else
                  match impl with
                  | SL [SN 0; SL [eq; re]] => flag_true eq && flag_true re
                  | SL [SN 1; _] => true
                  | _ => false
                  end in
              SL [impl; sx_bool ok]
          | _, _, _, _, _, _ => sx_bad
          end
      | 12%Z, [h] =>
          match hist_of_sx h with
          | Some h => SL [if hist_ok h then SL [SN 0; SN 1] else SL [SN 2]; sx_bool true]
          | None => sx_bad
          end
      | _, _ => sx_bad
      end
  | _ => sx_bad
  end.
