(** C16.NonVacuity — the hypotheses of the theorems are satisfiable by non-trivial inputs. *)
From Base Require Import Prelude Sx.
From Gen Require Import Versions PercentSet.
From C16 Require Import Model Spec Run ProofsSelect ProofsUrl ProofsXMatrix ProofsTables.

(** A history with two unstable paths, three stable ones, a deprecation and a removal. *)
Definition h1 : history :=
  {| unstable := [s!"/_m/unstable/a/:x"; s!"/_m/unstable/b/:x"];
     stable := [(0, s!"/_m/r0/:x"); (1, s!"/_m/v3/:x"); (5, s!"/_m/v4/:x")];
     deprecated := Some 9; removed := Some 11 |}.

Example h1_wf : wf_history h1.
Proof. vm_compute. reflexivity. Qed.

Example h1_newest : select_path h1 [0; 7; 2] = Ok s!"/_m/v4/:x".
Proof. vm_compute. reflexivity. Qed.
Example h1_older : select_path h1 [3] = Ok s!"/_m/v3/:x".
Proof. vm_compute. reflexivity. Qed.
Example h1_removed : select_path h1 [11; 14] = Err E_REMOVED.
Proof. vm_compute. reflexivity. Qed.
Example h1_some_removed : select_path h1 [14; 4] = Ok s!"/_m/v4/:x".
Proof. vm_compute. reflexivity. Qed.

(** Only stable from 1.3 on, nothing unstable: older servers get [NoUnstablePath]. *)
Definition h2 : history :=
  {| unstable := []; stable := [(3, s!"/_m/v1/get/:p")]; deprecated := None; removed := None |}.
Example h2_wf : wf_history h2.
Proof. vm_compute. reflexivity. Qed.
Example h2_none : select_path h2 [1; 2] = Err E_NO_UNSTABLE.
Proof. vm_compute. reflexivity. Qed.

(** The generated table is not empty and contains histories with several stable paths. *)
Example some_histories : (200 <? N.of_nat (List.length all_histories)) = true.
Proof. vm_compute. reflexivity. Qed.

(** A path argument with every hostile character, the one of DESIGN.md section 11 included. *)
Example hostile_arg :
  let a := s!"@a%41:x.y/?#+&= " ++ [195; 169] in
  make_url in_path_set s!"/_m/v3/profile/:user_id/x" [] [a] s!"k=v" =
    Ok (s!"/_m/v3/profile/@a%2541:x.y%2F%3F%23+&=%20%C3%A9/x?k=v")
  /\ route s!"/_m/v3/profile/:user_id/x" (s!"/_m/v3/profile/@a%2541:x.y%2F%3F%23+&=%20%C3%A9/x?k=v") = Some [a].
Proof. vm_compute. split; reflexivity. Qed.

Example hostile_query :
  parse_qs (ser_qs [(s!"k", s!"a+b&c=d e%"); ([], []); (s!"k", [195; 169])]) =
  [(s!"k", s!"a+b&c=d e%"); ([], []); (s!"k", [195; 169])].
Proof. vm_compute. reflexivity. Qed.

(** An X-Matrix value with a quoted key and signature (`:` and `/` are not token characters). *)
Definition x1 : xmatrix :=
  {| xm_origin := s!"origin.hs.example.com"; xm_destination := Some s!"[::1]:8448";
     xm_key := s!"ed25519:key1"; xm_sig := [1; 2; 255; 254; 253] |}.

Example x1_wf :
  wf_xmatrix (fun _ => true) (fun _ => true)
             (fun s => if str_eqb s (b64_encode [1; 2; 255; 254; 253]) then Some [1; 2; 255; 254; 253] else None) x1.
Proof. constructor; vm_compute; try (split; reflexivity); try reflexivity. intros d E; inversion E; subst; split; reflexivity. Qed.

Example x1_text :
  xm_show b64_encode x1 =
  s!"X-Matrix destination=" ++ [34] ++ s!"[::1]:8448" ++ [34] ++ s!",key=" ++ [34] ++ s!"ed25519:key1" ++ [34]
  ++ s!",origin=origin.hs.example.com,sig=" ++ [34] ++ s!"AQL//v0" ++ [34].
Proof. vm_compute. reflexivity. Qed.

(** * JSON bodies through the derive model *)
From Base Require Json JsonText.
From Gen Require EndpointBodies.
From C18 Require Serde SerdeBridge.

(** GET /account/whoami response: `is_guest: false` is left out when encoding and re-created when
    decoding; the unknown member is dropped; the re-encoded body decodes to the same value. *)
Example whoami_response_reencode :
  exists t v j',
    SerdeBridge.find_schema s!"ruma_client_api::account::whoami::v3" s!"Response" EndpointBodies.endpoint_bodies = Some t /\
    Serde.deser SerdeBridge.id_valid t
      (Json.JObj [ (s!"device_id", Json.JStr s!"DEV"); (s!"is_guest", Json.JBool false);
                   (s!"user_id", Json.JStr s!"@a:x.org"); (s!"zzz", Json.JInt 1) ]) = Some v /\
    Serde.ser t v = Some j' /\
    JsonText.print j' = s!"{""user_id"":""@a:x.org"",""device_id"":""DEV""}" /\
    Serde.deser SerdeBridge.id_valid t j' = Some v.
Proof. do 3 eexists. repeat split; vm_compute; reflexivity. Qed.

Example whoami_bad_user_id_rejected :
  forall t, SerdeBridge.find_schema s!"ruma_client_api::account::whoami::v3" s!"Response" EndpointBodies.endpoint_bodies = Some t ->
  Serde.deser SerdeBridge.id_valid t (Json.JObj [ (s!"user_id", Json.JStr s!"not a user id") ]) = None.
Proof. intros t H. vm_compute in H. injection H as <-. vm_compute. reflexivity. Qed.
