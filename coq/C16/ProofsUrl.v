(** C16.ProofsUrl — path arguments and query pairs survive the URL.
    [path_roundtrip]: routing the URL built by [make_url] gives the arguments back, for all
    argument byte strings, provided `%` `/` `?` `#` are in the encode set.
    [query_roundtrip]: [parse_qs (ser_qs l) = l] for all lists of byte-string pairs. *)
From Base Require Import Prelude.
From C16 Require Import Model Spec.
From Coq Require Import ZifyBool ZifyNat ZifyN.
Ltac Zify.zify_post_hook ::= Z.div_mod_to_equations.

Definition is_bytes (s : str) : Prop := forall b, In b s -> b < 256.

(* ------------------------------------------------------------------------------------- *)
(** * Hex digits *)

Lemma hexdig_hex_digit n : n < 16 -> hexdig (hex_digit n) = Some n.
Proof.
  intros H. unfold hex_digit, hexdig.
  destruct (N.ltb_spec n 10).
  - replace ((48 <=? 48 + n) && (48 + n <=? 57)) with true by lia. f_equal. lia.
  - replace ((48 <=? 55 + n) && (55 + n <=? 57)) with false by lia.
    replace ((65 <=? 55 + n) && (55 + n <=? 70)) with true by lia. f_equal; lia.
Qed.

Lemma hex_val_hex_digit n : n < 16 -> hex_val (hex_digit n) = Some n.
Proof. exact (hexdig_hex_digit n). Qed.

Lemma hex_digit_range n : n < 16 ->
  (48 <= hex_digit n <= 57) \/ (65 <= hex_digit n <= 70).
Proof. intros H. unfold hex_digit. destruct (N.ltb_spec n 10); lia. Qed.

Lemma byte_split b : b < 256 -> b / 16 < 16 /\ b mod 16 < 16 /\ b / 16 * 16 + b mod 16 = b.
Proof. intros H. lia. Qed.

(* ------------------------------------------------------------------------------------- *)
(** * Percent-decoding after percent-encoding *)

Lemma pct_decode_lit c t : c <> 37 -> pct_decode (c :: t) = c :: pct_decode t.
Proof.
  intros H. cbn [pct_decode]. destruct t as [|h [|l r]]; try reflexivity.
  rewrite (proj2 (N.eqb_neq c 37) H). reflexivity.
Qed.

Lemma pct_decode_pct b r : b < 256 -> pct_decode (pct_byte b ++ r) = b :: pct_decode r.
Proof.
  intros H. destruct (byte_split b H) as (H1 & H2 & H3).
  unfold pct_byte. cbn [app]. change PERCENT with 37. cbn [pct_decode].
  rewrite N.eqb_refl, (hexdig_hex_digit _ H1), (hexdig_hex_digit _ H2). f_equal. exact H3.
Qed.

Lemma percent_decode_lit c t : c <> 37 -> percent_decode (c :: t) = c :: percent_decode t.
Proof.
  intros H. cbn [percent_decode]. change PERCENT with 37.
  rewrite (proj2 (N.eqb_neq c 37) H). reflexivity.
Qed.

Lemma percent_decode_pct b r : b < 256 -> percent_decode (pct_byte b ++ r) = b :: percent_decode r.
Proof.
  intros H. destruct (byte_split b H) as (H1 & H2 & H3).
  unfold pct_byte. cbn [app]. cbn [percent_decode]. change PERCENT with 37.
  rewrite N.eqb_refl, (hex_val_hex_digit _ H1), (hex_val_hex_digit _ H2). f_equal. exact H3.
Qed.

Lemma is_bytes_cons b s : is_bytes (b :: s) -> b < 256 /\ is_bytes s.
Proof. intros H. split; [apply H; left; reflexivity|intros c Hc; apply H; right; exact Hc]. Qed.

(** [percent_decode (percent_encode set s) = s] needs exactly that `%` itself is encoded. *)
Lemma pct_decode_encode inset s : inset 37 = true -> is_bytes s -> pct_decode (percent_encode inset s) = s.
Proof.
  intros Hp. induction s as [|b s IH]; intros Hb; [reflexivity|].
  apply is_bytes_cons in Hb as [Hb Hs]. cbn [percent_encode List.flat_map].
  fold (percent_encode inset s).
  destruct (must_encode inset b) eqn:E.
  - rewrite (pct_decode_pct b _ Hb), (IH Hs). reflexivity.
  - cbn [app]. rewrite pct_decode_lit, (IH Hs); [reflexivity|].
    intros ->. unfold must_encode in E. rewrite Hp, orb_true_r in E. discriminate.
Qed.

(* ------------------------------------------------------------------------------------- *)
(** * Splitting and joining *)

Lemma pieces_split_on c s : pieces c s = split_on c s.
Proof. induction s as [|x t IH]; cbn [pieces split_on]; [reflexivity|]. rewrite IH. reflexivity. Qed.

Lemma split_on_nonempty c s : exists seg rest, split_on c s = seg :: rest.
Proof.
  induction s as [|x t [seg [rest IH]]]; cbn [split_on]; [eauto|].
  destruct (x =? c); [eauto|]. rewrite IH. eauto.
Qed.

Lemma split_on_no_sep c s seg : In seg (split_on c s) -> ~ In c seg.
Proof.
  revert seg; induction s as [|x t IH]; intros seg Hin; cbn [split_on] in Hin.
  - destruct Hin as [<-|[]]. intros [].
  - destruct (N.eqb_spec x c) as [->|Hne].
    + destruct Hin as [<-|Hin]; [intros []|apply IH; exact Hin].
    + destruct (split_on_nonempty c t) as [sg [rest E]]. rewrite E in Hin, IH.
      destruct Hin as [<-|Hin].
      * intros [Hx|Hx]; [congruence|]. eapply IH; [left; reflexivity|exact Hx].
      * apply IH; right; exact Hin.
Qed.

Lemma split_on_app_nosep c s Y : ~ In c s ->
  split_on c (s ++ Y) = match split_on c Y with seg :: rest => (s ++ seg) :: rest | [] => [s] end.
Proof.
  induction s as [|x s IH]; intros Hn; cbn [app].
  - destruct (split_on_nonempty c Y) as [sg [rest E]]. rewrite E. reflexivity.
  - cbn [split_on]. rewrite (proj2 (N.eqb_neq x c)) by (intros ->; apply Hn; left; reflexivity).
    rewrite IH by (intros H; apply Hn; right; exact H).
    destruct (split_on c Y); reflexivity.
Qed.

Definition join (c : N) (l : list str) : str := List.flat_map (fun s => c :: s) l.

Lemma split_join c l : (forall s, In s l -> ~ In c s) -> split_on c (join c l) = [] :: l.
Proof.
  induction l as [|s l IH]; intros H; [reflexivity|].
  unfold join in *. cbn [List.flat_map app]. cbn [split_on]. rewrite N.eqb_refl.
  rewrite split_on_app_nosep by (apply H; left; reflexivity).
  rewrite IH by (intros s' Hs'; apply H; right; exact Hs'). rewrite app_nil_r. reflexivity.
Qed.

(* ------------------------------------------------------------------------------------- *)
(** * Path round trip *)

(** The encode set must contain `%` (decoding), `/` (segment boundaries), `?` and `#` (end of
    the path). *)
Definition set_okb (inset : N -> bool) : bool := inset 37 && inset 47 && inset 63 && inset 35.

(** A template a router can be given: starts with `/`, contains no `?` or `#`. *)
Definition routableb (t : str) : bool :=
  match t with c :: _ => c =? 47 | [] => false end
  && forallb (fun c => negb (c =? 63) && negb (c =? 35)) t.

Definition count_placeholders (t : str) : nat :=
  List.length (List.filter is_placeholder (split_on 47 t)).

Definition no_sep (s : str) : Prop := forall c, In c s -> c <> 47 /\ c <> 63 /\ c <> 35.

(** [segments_no_separator]: an encoded argument contains no `/`, `?`, `#`. *)
Lemma segments_no_separator inset a : set_okb inset = true -> is_bytes a -> no_sep (percent_encode inset a).
Proof.
  unfold set_okb. intros Hs. repeat (apply andb_true_iff in Hs as [Hs ?]).
  intros Hb c Hin. unfold percent_encode in Hin. apply in_flat_map in Hin as [b [Hb' Hc]].
  specialize (Hb b Hb'). destruct (must_encode inset b) eqn:E.
  - destruct (byte_split b Hb) as (H2 & H3 & _).
    pose proof (hex_digit_range _ H2). pose proof (hex_digit_range _ H3).
    unfold pct_byte in Hc. change PERCENT with 37 in Hc.
    destruct Hc as [<-|[<-|[<-|[]]]]; lia.
  - destruct Hc as [<-|[]]. unfold must_encode in E. apply orb_false_iff in E as [_ E].
    repeat split; intros ->; congruence.
Qed.

Fixpoint out_segs (inset : N -> bool) (tsegs : list str) (args : list str) : list str :=
  match tsegs with
  | [] => []
  | t :: ts =>
      if is_placeholder t then
        match args with
        | a :: args' => percent_encode inset a :: out_segs inset ts args'
        | [] => []
        end
      else t :: out_segs inset ts args
  end.

Lemma subst_segments_ok inset tsegs : forall args,
  List.length args = List.length (List.filter is_placeholder tsegs) ->
  subst_segments inset tsegs args = Ok (join 47 (out_segs inset tsegs args)).
Proof.
  induction tsegs as [|t ts IH]; intros args Hlen; [reflexivity|].
  cbn [subst_segments out_segs List.filter] in *. destruct (is_placeholder t).
  - destruct args as [|a args]; [discriminate|]. cbn [List.length] in Hlen.
    rewrite IH by lia. reflexivity.
  - rewrite IH by exact Hlen. reflexivity.
Qed.

Lemma match_segments_ok inset tsegs : forall args,
  inset 37 = true -> (forall a, In a args -> is_bytes a) ->
  List.length args = List.length (List.filter is_placeholder tsegs) ->
  match_segments tsegs (out_segs inset tsegs args) = Some args.
Proof.
  intros args Hp. revert args.
  induction tsegs as [|t ts IH]; intros args Hb Hlen.
  - destruct args; [reflexivity|discriminate].
  - cbn [out_segs List.filter] in *. change (captures t) with (is_placeholder t) in *.
    destruct (is_placeholder t) eqn:Et.
    + destruct args as [|a args]; [discriminate|]. cbn [List.length] in Hlen.
      cbn [match_segments]. change (captures t) with (is_placeholder t). rewrite Et.
      rewrite IH; [|intros a' Ha'; apply Hb; right; exact Ha'|lia].
      rewrite (pct_decode_encode inset a Hp) by (apply Hb; left; reflexivity). reflexivity.
    + cbn [match_segments]. change (captures t) with (is_placeholder t). rewrite Et.
      rewrite str_eqb_refl. apply IH; assumption.
Qed.

Lemma out_segs_no_sep inset tsegs : forall args,
  set_okb inset = true -> (forall a, In a args -> is_bytes a) ->
  (forall t, In t tsegs -> no_sep t) ->
  forall s, In s (out_segs inset tsegs args) -> no_sep s.
Proof.
  induction tsegs as [|t ts IH]; intros args Hs Hb Ht s Hin; [destruct Hin|].
  cbn [out_segs] in Hin. destruct (is_placeholder t).
  - destruct args as [|a args]; [destruct Hin|]. destruct Hin as [<-|Hin].
    + apply segments_no_separator; [exact Hs|apply Hb; left; reflexivity].
    + eapply IH; [exact Hs| |intros t' Ht'; apply Ht; right; exact Ht'|exact Hin].
      intros a' Ha'; apply Hb; right; exact Ha'.
  - destruct Hin as [<-|Hin]; [apply Ht; left; reflexivity|].
    eapply IH; [exact Hs|exact Hb|intros t' Ht'; apply Ht; right; exact Ht'|exact Hin].
Qed.

Lemma url_path_stop p q : (forall c, In c p -> c <> 63 /\ c <> 35) ->
  url_path (p ++ match q with [] => [] | _ => 63 :: q end) = p.
Proof.
  induction p as [|c p IH]; intros H; cbn [app].
  - destruct q; reflexivity.
  - cbn [url_path]. destruct (H c (or_introl eq_refl)) as [H1 H2].
    rewrite (proj2 (N.eqb_neq c 63) H1), (proj2 (N.eqb_neq c 35) H2). cbn [orb].
    rewrite IH by (intros c' Hc'; apply H; right; exact Hc'). reflexivity.
Qed.

Theorem path_roundtrip inset tmpl args q :
  set_okb inset = true -> routableb tmpl = true ->
  (forall a, In a args -> is_bytes a) ->
  List.length args = count_placeholders tmpl ->
  exists u, make_url inset tmpl [] args q = Ok u /\ route tmpl u = Some args.
Proof.
  intros Hs Hr Hb Hlen. unfold routableb in Hr. apply andb_true_iff in Hr as [Hr1 Hr2].
  destruct tmpl as [|c0 tmpl']; [discriminate|]. apply N.eqb_eq in Hr1. subst c0.
  unfold make_url, route, count_placeholders in *. change pieces with split_on.
  change SLASH with 47 in *.
  cbn [split_on] in *. rewrite N.eqb_refl in *. cbn [List.filter is_placeholder] in Hlen.
  set (tsegs := split_on 47 tmpl') in *.
  rewrite (subst_segments_ok inset tsegs args Hlen). cbn [obind strip_slash app].
  eexists. split; [reflexivity|].
  assert (Hts : forall t, In t tsegs -> no_sep t).
  { intros t Ht c Hc. repeat split.
    - intros ->. exact (split_on_no_sep 47 tmpl' t Ht Hc).
    - intros ->. assert (Hin : In 63 (47 :: tmpl')).
      { right. clear -Ht Hc. subst tsegs. revert t Ht Hc.
        induction tmpl' as [|x r IH]; intros t Ht Hc; cbn [split_on] in Ht.
        - destruct Ht as [<-|[]]. destruct Hc.
        - destruct (N.eqb_spec x 47) as [->|Hne].
          + destruct Ht as [<-|Ht]; [destruct Hc|right; eapply IH; eassumption].
          + destruct (split_on_nonempty 47 r) as [sg [rest E]]. rewrite E in Ht, IH.
            destruct Ht as [<-|Ht].
            * destruct Hc as [->|Hc]; [left; reflexivity|right; eapply IH; [left; reflexivity|exact Hc]].
            * right; eapply IH; [right; exact Ht|exact Hc]. }
      rewrite forallb_forall in Hr2. specialize (Hr2 _ Hin). rewrite N.eqb_refl in Hr2. discriminate.
    - intros ->. assert (Hin : In 35 (47 :: tmpl')).
      { right. clear -Ht Hc. subst tsegs. revert t Ht Hc.
        induction tmpl' as [|x r IH]; intros t Ht Hc; cbn [split_on] in Ht.
        - destruct Ht as [<-|[]]. destruct Hc.
        - destruct (N.eqb_spec x 47) as [->|Hne].
          + destruct Ht as [<-|Ht]; [destruct Hc|right; eapply IH; eassumption].
          + destruct (split_on_nonempty 47 r) as [sg [rest E]]. rewrite E in Ht, IH.
            destruct Ht as [<-|Ht].
            * destruct Hc as [->|Hc]; [left; reflexivity|right; eapply IH; [left; reflexivity|exact Hc]].
            * right; eapply IH; [right; exact Ht|exact Hc]. }
      rewrite forallb_forall in Hr2. specialize (Hr2 _ Hin). rewrite N.eqb_refl in Hr2.
      rewrite andb_false_r in Hr2. discriminate. }
  pose proof (out_segs_no_sep inset tsegs args Hs Hb Hts) as Hout.
  change QMARK with 63.
  rewrite url_path_stop.
  - change pieces with split_on. rewrite split_join.
    + cbn [match_segments captures]. rewrite str_eqb_refl.
      unfold set_okb in Hs. repeat (apply andb_true_iff in Hs as [Hs ?]).
      apply match_segments_ok; assumption.
    + intros s Hin Hc. destruct (Hout s Hin 47 Hc) as [H _]. congruence.
  - intros c Hc. unfold join in Hc. apply in_flat_map in Hc as [s [Hin Hc]].
    destruct Hc as [<-|Hc]; [split; discriminate|].
    destruct (Hout s Hin c Hc) as (_ & H2 & H3). split; assumption.
Qed.

(* ------------------------------------------------------------------------------------- *)
(** * Query round trip *)

Definition form_safe (c : N) : Prop := c <> AMP /\ c <> EQUALS.

Lemma form_unchanged_facts b : form_unchanged b = true -> b <> 37 /\ b <> 43 /\ b <> 38 /\ b <> 61.
Proof.
  unfold form_unchanged, is_alnum, is_digit, is_upper, is_lower. intros H. lia.
Qed.

Lemma form_encode_chars s c : is_bytes s -> In c (form_encode s) -> c <> 38 /\ c <> 61.
Proof.
  intros Hb Hin. unfold form_encode in Hin. apply in_flat_map in Hin as [b [Hb' Hc]].
  specialize (Hb b Hb'). destruct (form_unchanged b) eqn:E.
  - destruct Hc as [<-|[]]. apply form_unchanged_facts in E. lia.
  - destruct (b =? SPACE).
    + destruct Hc as [<-|[]]. change PLUS with 43. lia.
    + destruct (byte_split b Hb) as (H2 & H3 & _).
      pose proof (hex_digit_range _ H2). pose proof (hex_digit_range _ H3).
      unfold pct_byte in Hc. change PERCENT with 37 in Hc.
      destruct Hc as [<-|[<-|[<-|[]]]]; lia.
Qed.

Definition plus_to_space (s : str) : str := List.map (fun b => if b =? PLUS then SPACE else b) s.

Lemma plus_to_space_pct b r :
  b < 256 -> plus_to_space (pct_byte b ++ r) = pct_byte b ++ plus_to_space r.
Proof.
  intros Hb. destruct (byte_split b Hb) as (H2 & H3 & _).
  pose proof (hex_digit_range _ H2). pose proof (hex_digit_range _ H3).
  unfold pct_byte, plus_to_space. cbn [app List.map]. change PERCENT with 37. change PLUS with 43.
  replace (37 =? 43) with false by reflexivity.
  rewrite (proj2 (N.eqb_neq (hex_digit (b / 16)) 43)) by lia.
  rewrite (proj2 (N.eqb_neq (hex_digit (b mod 16)) 43)) by lia. reflexivity.
Qed.

Lemma plus_to_space_cons b s : plus_to_space (b :: s) = (if b =? PLUS then SPACE else b) :: plus_to_space s.
Proof. reflexivity. Qed.

Lemma form_decode_encode_aux s : is_bytes s -> percent_decode (plus_to_space (form_encode s)) = s.
Proof.
  induction s as [|b s IH]; intros Hb; [reflexivity|].
  apply is_bytes_cons in Hb as [Hb Hs]. unfold form_encode. cbn [List.flat_map].
  fold (form_encode s).
  destruct (form_unchanged b) eqn:E.
  - apply form_unchanged_facts in E. cbn [app]. rewrite plus_to_space_cons. change PLUS with 43.
    rewrite (proj2 (N.eqb_neq b 43)) by lia.
    rewrite percent_decode_lit by lia. rewrite (IH Hs). reflexivity.
  - destruct (N.eqb_spec b SPACE) as [->|Hne].
    + cbn [app]. rewrite plus_to_space_cons.
      rewrite N.eqb_refl. rewrite percent_decode_lit by (change SPACE with 32; lia).
      rewrite (IH Hs). reflexivity.
    + rewrite (plus_to_space_pct b _ Hb), (percent_decode_pct b _ Hb), (IH Hs). reflexivity.
Qed.

Lemma form_decode_encode s : is_bytes s -> form_decode (form_encode s) = s.
Proof. exact (form_decode_encode_aux s). Qed.

Lemma split_first_app a b : ~ In EQUALS a -> split_first EQUALS (a ++ EQUALS :: b) = (a, b).
Proof.
  induction a as [|x a IH]; intros Hn; cbn [app split_first].
  - rewrite N.eqb_refl. reflexivity.
  - rewrite (proj2 (N.eqb_neq x EQUALS)) by (intros ->; apply Hn; left; reflexivity).
    rewrite IH by (intros H; apply Hn; right; exact H). reflexivity.
Qed.

Definition pair_bytes (kv : str * str) : Prop := is_bytes (fst kv) /\ is_bytes (snd kv).

Lemma ser_pair_no_amp kv : pair_bytes kv -> ~ In AMP (ser_pair kv).
Proof.
  intros [Hk Hv] Hin. unfold ser_pair in Hin. apply in_app_or in Hin as [Hin|[Hin|Hin]].
  - destruct (form_encode_chars _ _ Hk Hin) as [H _]. apply H. reflexivity.
  - discriminate.
  - destruct (form_encode_chars _ _ Hv Hin) as [H _]. apply H. reflexivity.
Qed.

Lemma split_ser_qs l : (forall kv, In kv l -> pair_bytes kv) -> l <> [] ->
  split_on AMP (ser_qs l) = List.map ser_pair l.
Proof.
  induction l as [|kv l IH]; intros Hb Hne; [congruence|].
  destruct l as [|kv2 l].
  - cbn [ser_qs List.map]. rewrite <- (app_nil_r (ser_pair kv)).
    rewrite split_on_app_nosep by (apply ser_pair_no_amp; apply Hb; left; reflexivity).
    cbn [split_on]. rewrite app_nil_r. reflexivity.
  - change (ser_qs (kv :: kv2 :: l)) with (ser_pair kv ++ AMP :: ser_qs (kv2 :: l)).
    rewrite split_on_app_nosep by (apply ser_pair_no_amp; apply Hb; left; reflexivity).
    cbn [split_on]. rewrite N.eqb_refl.
    rewrite IH; [|intros kv' H'; apply Hb; right; exact H'|discriminate].
    rewrite app_nil_r. reflexivity.
Qed.

Lemma ser_pair_nonempty kv : is_nil (ser_pair kv) = false.
Proof. unfold ser_pair. destruct (form_encode (fst kv)); reflexivity. Qed.

Definition decode_piece (piece : str) : str * str :=
  let '(k, v) := split_first EQUALS piece in (form_decode k, form_decode v).

Lemma decode_piece_ser kv : pair_bytes kv -> decode_piece (ser_pair kv) = kv.
Proof.
  destruct kv as [k v]. intros [Hk Hv]. cbn [fst snd] in Hk, Hv.
  unfold decode_piece, ser_pair. cbn [fst snd]. rewrite split_first_app.
  - rewrite (form_decode_encode k Hk), (form_decode_encode v Hv). reflexivity.
  - intros Hin. destruct (form_encode_chars _ _ Hk Hin) as [_ H]. apply H. reflexivity.
Qed.

Theorem query_roundtrip l : (forall kv, In kv l -> pair_bytes kv) -> parse_qs (ser_qs l) = l.
Proof.
  intros Hb. unfold parse_qs. fold decode_piece.
  change (fun piece : str => let '(k, v) := split_first EQUALS piece in (form_decode k, form_decode v))
    with decode_piece.
  destruct l as [|kv0 l0] eqn:El; [reflexivity|].
  rewrite <- El in *. rewrite split_ser_qs; [|exact Hb|rewrite El; discriminate].
  clear El kv0 l0.
  induction l as [|kv l IH]; [reflexivity|].
  cbn [List.map List.filter]. rewrite ser_pair_nonempty. cbn [negb List.map].
  rewrite decode_piece_ser by (apply Hb; left; reflexivity).
  f_equal. apply IH. intros kv' H'; apply Hb; right; exact H'.
Qed.
