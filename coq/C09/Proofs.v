(** C09.Proofs — selection = specification; the reads of [auth_check] stay inside the
    selection; non-interference. *)
From Base Require Import Prelude Sx Json Rules.
From Gen Require Import RoomRules.
From C08 Require Import Types Model Proofs1 Proofs4.
From C09 Require Import Model Spec.

(** ** Programs only depend on what they read *)
Lemma run_agree sel p st1 st2 :
  reads_in sel p -> (forall k, In k sel -> st1 k = st2 k) -> run p st1 = run p st2.
Proof.
  intros Hr Hs. induction p as [b|k c IH]; cbn [run]; [reflexivity|].
  destruct Hr as [Hk Hc]. rewrite (Hs k Hk). apply IH, Hc.
Qed.

Lemma trace_in sel p st : reads_in sel p -> forall k, In k (trace p st) -> In k sel.
Proof.
  induction p as [b|k c IH]; cbn [trace reads_in]; [intros _ ? []|].
  intros [Hk Hc] k' [<-|Hin]; [exact Hk|]. eapply IH; [apply Hc|exact Hin].
Qed.

Lemma restrict_agree sel st k : In k sel -> restrict sel st k = st k.
Proof. intros H. unfold restrict. apply mem_key_In in H. now rewrite H. Qed.

(** ** [push] *)
Lemma In_push k x l : In k (push x l) <-> k = x \/ In k l.
Proof.
  unfold push. destruct (mem_key x l) eqn:E.
  - apply mem_key_In in E. split; [auto|]. intros [->|H]; assumption.
  - rewrite in_app_iff. cbn [In]. split; [intros [H|[H|[]]]; auto|intros [H|H]; auto].
Qed.

Lemma NoDup_push x l : NoDup l -> NoDup (push x l).
Proof.
  intros H. unfold push. destruct (mem_key x l) eqn:E; [exact H|].
  assert (~ In x l) by (intros Hin; apply mem_key_In in Hin; congruence).
  clear E. induction H as [|y l Hy Hl IH]; cbn [app].
  - constructor; [intros []|constructor].
  - constructor.
    + rewrite in_app_iff. cbn [In]. intros [Hin|[<-|[]]]; [auto|]. apply H0. now left.
    + apply IH. intros Hin. apply H0. now right.
Qed.

Section Sel.
Variable uid_ok : str -> bool.
Variable sn_ok : str -> bool.
Variable verify : str -> str -> str -> obj -> bool.

Lemma base_nodup ev : NoDup (base_types ev).
Proof.
  unfold base_types. repeat constructor; cbn [In]; intros H;
    repeat (destruct H as [H|H]; [inversion H|]); try destruct H.
Qed.

Lemma auth_types_nodup r ev l : auth_types uid_ok r ev = Some l -> NoDup l.
Proof.
  unfold auth_types.
  destruct (str_eqb (e_type ev) t_create); [intros [= <-]; constructor|].
  destruct (str_eqb (e_type ev) t_member); [|intros [= <-]; apply base_nodup].
  destruct (e_skey ev) as [sk|]; [|discriminate].
  destruct (ev_membership ev) as [m|]; [|discriminate].
  set (l1 := push (k_member sk) (base_types ev)).
  assert (N1 : NoDup l1) by apply NoDup_push, base_nodup.
  set (l2 := if wants_join_rules m then push k_join_rules l1 else l1).
  assert (N2 : NoDup l2) by (unfold l2; destruct (wants_join_rules m); [apply NoDup_push|]; exact N1).
  clearbody l2. clear N1.
  match goal with |- match ?x with _ => _ end = _ -> _ => destruct x as [l3|] eqn:E3 end; [|discriminate].
  assert (N3 : NoDup l3).
  { destruct (str_eqb m s!"invite"); [|now injection E3 as <-].
    destruct (third_party_invite ev) as [[signed|]|]; try discriminate; [|now injection E3 as <-].
    destruct (get_str signed s!"token"); [|discriminate]. injection E3 as <-. now apply NoDup_push. }
  destruct (_ && _); [|now intros [= <-]].
  destruct (join_authorised uid_ok ev) as [[u|]|]; try discriminate; intros [= <-]; [now apply NoDup_push|exact N3].
Qed.

(** The [Vec] the code returns has the keys of the total [selection]. *)
Lemma auth_types_selection r ev l :
  auth_types uid_ok r ev = Some l -> forall k, In k l <-> In k (selection uid_ok r ev).
Proof.
  unfold auth_types, selection.
  destruct (str_eqb (e_type ev) t_create); [intros [= <-]; tauto|].
  destruct (str_eqb (e_type ev) t_member); [|intros [= <-] k; rewrite in_app_iff; split; [auto|intros [H|[]]; exact H]].
  destruct (e_skey ev) as [sk|]; [|discriminate].
  destruct (ev_membership ev) as [m|]; [|discriminate].
  destruct (str_eqb m s!"invite") eqn:Ei.
  - destruct (third_party_invite ev) as [[signed|]|]; try discriminate.
    + destruct (get_str signed s!"token") as [token|]; [|discriminate].
      destruct (str_eqb m s!"join" && restricted_join_rule r).
      * destruct (join_authorised uid_ok ev) as [[u|]|]; try discriminate; intros [= <-] k;
          destruct (wants_join_rules m); rewrite ?In_push, !in_app_iff; cbn [In app]; rewrite ?In_push; intuition congruence.
      * intros [= <-] k. destruct (wants_join_rules m); rewrite ?In_push, !in_app_iff; cbn [In app]; rewrite ?In_push; intuition congruence.
    + destruct (str_eqb m s!"join" && restricted_join_rule r).
      * destruct (join_authorised uid_ok ev) as [[u|]|]; try discriminate; intros [= <-] k;
          destruct (wants_join_rules m); rewrite ?In_push, !in_app_iff; cbn [In app]; rewrite ?In_push; intuition congruence.
      * intros [= <-] k. destruct (wants_join_rules m); rewrite ?In_push, !in_app_iff; cbn [In app]; rewrite ?In_push; intuition congruence.
  - destruct (str_eqb m s!"join" && restricted_join_rule r).
    + destruct (join_authorised uid_ok ev) as [[u|]|]; try discriminate; intros [= <-] k;
        destruct (wants_join_rules m); rewrite ?In_push, !in_app_iff; cbn [In app]; rewrite ?In_push; intuition congruence.
    + intros [= <-] k. destruct (wants_join_rules m); rewrite ?In_push, !in_app_iff; cbn [In app]; rewrite ?In_push; intuition congruence.
Qed.

(** ** Selection = specification *)
Lemma auth_types_spec v r ev :
  restricted_join_rule r = (8 <=? v) -> tpi_sequence_form ev = false ->
  same_selection (auth_types uid_ok r ev) (spec_selection uid_ok v ev).
Proof.
  intros Hr Hseq. unfold tpi_sequence_form in Hseq.
  unfold auth_types, spec_selection, base_types, same_selection.
  destruct (str_eqb (e_type ev) t_create); [tauto|].
  destruct (str_eqb (e_type ev) t_member).
  2:{ intros k. cbn [In]. unfold k_power, k_member, k_create. tauto. }
  cbn [andb] in Hseq.
  destruct (e_skey ev) as [sk|]; [|exact I].
  unfold ev_membership, get_str. fold (sprop (e_content ev) s!"membership").
  destruct (sprop (e_content ev) s!"membership") as [m|]; [|exact I].
  unfold wants_join_rules, third_party_invite, join_authorised, oprop. rewrite Hr.
  fold (sprop).
  destruct (str_eqb m s!"invite"); destruct (str_eqb m s!"join"); cbn [andb orb];
  destruct (8 <=? v); cbn [andb];
  repeat match goal with
  | |- context [match lookup ?k ?c with _ => _ end] => destruct (lookup k c) as [[]|] eqn:?
  | |- context [match get_str ?a ?b with _ => _ end] => unfold get_str
  | |- context [match sprop ?a ?b with _ => _ end] => unfold sprop
  | |- context [match ?l with [] => _ | _ :: _ => _ end] => destruct l
  | |- context [if uid_ok ?u then _ else _] => destruct (uid_ok u)
  | |- context [if str_eqb ?a ?b then _ else _] => destruct (str_eqb a b)
  end; try exact I; try discriminate;
  try (intros k; rewrite ?In_push, ?in_app_iff; cbn [In app]; rewrite ?In_push, ?in_app_iff; cbn [In];
       unfold k_power, k_member, k_create, k_join_rules, k_tpi; intuition congruence).
Qed.

(** ** Every [fetch_state] call of [auth_check] asks for a selected key *)
Definition coherent (r : auth_rules) : Prop :=
  knock_restricted_join_rule r = true -> restricted_join_rule r = true.

Ltac facts :=
  repeat match goal with
  | H : _ && _ = true |- _ => apply andb_true_iff in H as [? ?]
  | H : negb _ = false |- _ => apply negb_false_iff in H
  | H : is _ _ = _ |- _ => unfold is in H
  end.

Ltac in_sel :=
  facts; unfold selection, base_types, wants_join_rules;
  repeat match goal with
  | H : ?x = _ |- context [?x] => rewrite H
  end;
  cbn [app In orb andb]; rewrite ?in_app_iff; cbn [In]; auto 12.

Ltac rd :=
  repeat match goal with
  | |- reads_in _ (Ret _) => exact I
  | |- reads_in _ (Read _ _) => cbn [reads_in]; split; [try solve [in_sel]|intros ?]
  | |- In _ _ /\ _ => split; [try solve [in_sel]|intros ?]
  | |- reads_in _ (read_membership _ _) => unfold read_membership
  | |- reads_in _ (read_join_rule _) => unfold read_join_rule
  | |- reads_in _ (match ?x with _ => _ end) => destruct x eqn:?
  end.

Lemma reads_in_auth r ev :
  coherent r -> reads_in (selection uid_ok r ev) (auth_prog uid_ok sn_ok verify r ev).
Proof.
  intros Hc. unfold auth_prog.
  destruct (str_eqb (e_type ev) t_create) eqn:Ecreate; [exact I|].
  cbn [reads_in]. split; [in_sel|]. intros oc. destruct oc as [ce|]; [|exact I].
  destruct (negb (existsb _ _)); [exact I|].
  destruct (federate ce) as [fed|]; [|exact I].
  destruct (negb fed && _); [exact I|].
  destruct (special_case_room_aliases r && _); [exact I|].
  destruct (str_eqb (e_type ev) t_member) eqn:Emember.
  2:{ rd. }
  unfold check_room_member.
  destruct (e_skey ev) as [target|] eqn:Eskey; [|exact I].
  destruct (negb (uid_ok target)); [exact I|].
  destruct (ev_membership ev) as [m|] eqn:Em; [|exact I].
  destruct (is m s!"join") eqn:Ejoin.
  { unfold check_room_member_join.
    destruct (creator uid_ok r ce); [|exact I].
    destruct (_ && str_eqb target s); [exact I|].
    destruct (negb (str_eqb (e_sender ev) target)); [exact I|].
    unfold read_membership. cbn [reads_in]. split; [in_sel|]. intros o1.
    assert (K : forall k, reads_in (selection uid_ok r ev)
                (if is k s!"ban" then Ret false else
                 read_join_rule (fun jr =>
                   if (is jr s!"invite" || knocking r && is jr s!"knock") && (is k s!"invite" || is k s!"join")
                   then Ret true else
                   if restricted_join_rule r && is jr s!"restricted"
                      || knock_restricted_join_rule r && is jr s!"knock_restricted" then
                     if is k s!"join" || is k s!"invite" then Ret true else
                     match join_authorised uid_ok ev with
                     | Some (Some au) =>
                         read_membership au (fun am =>
                           if negb (is am s!"join") then Ret false else
                           Read k_power (fun pl =>
                             match user_power_level uid_ok r pl au s with
                             | Some al => match int_or_default r pl FInvite with
                                          | Some il => Ret (al >=? il)%Z | None => Ret false end
                             | None => Ret false end))
                     | Some None => Ret false
                     | None => Ret false
                     end
                   else Ret (is jr s!"public")))).
    { intros k. destruct (is k s!"ban"); [exact I|].
      unfold read_join_rule. cbn [reads_in]. split; [in_sel|]. intros o2.
      destruct o2 as [je|]; [|exact I]. destruct (get_str _ _) as [jr|]; [|exact I].
      destruct (_ && (is k s!"invite" || is k s!"join")); [exact I|].
      destruct (restricted_join_rule r && is jr s!"restricted"
                || knock_restricted_join_rule r && is jr s!"knock_restricted") eqn:Er; [|exact I].
      assert (Hres : restricted_join_rule r = true).
      { destruct (restricted_join_rule r) eqn:E0; [reflexivity|]. cbn [andb orb] in Er.
        apply andb_true_iff in Er as [Hk _]. pose proof (Hc Hk). congruence. }
      destruct (is k s!"join" || is k s!"invite"); [exact I|].
      destruct (join_authorised uid_ok ev) as [[au|]|] eqn:Eau; try exact I.
      rd. }
    destruct o1 as [me|]; [|apply K].
    destruct (ev_membership me) as [cm|]; [apply K|exact I]. }
  destruct (is m s!"invite") eqn:Einvite.
  { unfold check_room_member_invite.
    destruct (third_party_invite ev) as [[signed|]|] eqn:Etpi; [| |exact I].
    - unfold check_third_party_invite. unfold read_membership. cbn [reads_in]. split; [in_sel|].
      intros o1.
      assert (K : forall tm, reads_in (selection uid_ok r ev)
                (if is tm s!"ban" then Ret false else
                 match get_str signed s!"token" with
                 | Some token =>
                     match get_str signed s!"mxid" with
                     | Some mxid =>
                         if negb (str_eqb target mxid) then Ret false else
                         Read (k_tpi token) (fun ot =>
                           match ot with
                           | None => Ret false
                           | Some te =>
                               if negb (str_eqb (e_sender ev) (e_sender te)) then Ret false else
                               match public_keys te with
                               | Some keys =>
                                   match match lookup s!"signatures" signed with
                                         | Some (JObj m0) => Some m0 | _ => None end with
                                   | Some sigs => Ret (verify_entities verify sigs keys signed)
                                   | None => Ret false
                                   end
                               | None => Ret false
                               end
                           end)
                     | None => Ret false
                     end
                 | None => Ret false
                 end)).
      { intros tm. destruct (is tm s!"ban"); [exact I|].
        destruct (get_str signed s!"token") as [token|] eqn:Etok; [|exact I].
        destruct (get_str signed s!"mxid"); [|exact I].
        destruct (negb _); [exact I|]. cbn [reads_in]. split; [in_sel|].
        intros ot. destruct ot as [te|]; [|exact I]. destruct (negb _); [exact I|].
        destruct (public_keys te); [|exact I].
        destruct (match lookup s!"signatures" signed with Some (JObj m0) => Some m0 | _ => None end); exact I. }
      destruct o1 as [me|]; [|apply K]. destruct (ev_membership me); [apply K|exact I].
    - rd. }
  destruct (is m s!"leave") eqn:Eleave.
  { unfold check_room_member_leave. rd. }
  destruct (is m s!"ban") eqn:Eban.
  { unfold check_room_member_ban. rd. }
  destruct (is m s!"knock" && knocking r) eqn:Eknock; [|exact I].
  unfold check_room_member_knock. rd.
Qed.

(** ** Non-interference *)
Theorem auth_reads_only_selection r ev st1 st2 :
  coherent r ->
  (forall k, In k (selection uid_ok r ev) -> st1 k = st2 k) ->
  auth_check uid_ok sn_ok verify r ev st1 = auth_check uid_ok sn_ok verify r ev st2.
Proof. intros Hc Hs. unfold auth_check. eapply run_agree; [apply reads_in_auth, Hc|exact Hs]. Qed.

Theorem auth_reads_only_auth_types r ev l st1 st2 :
  coherent r -> auth_types uid_ok r ev = Some l ->
  (forall k, In k l -> st1 k = st2 k) ->
  auth_check uid_ok sn_ok verify r ev st1 = auth_check uid_ok sn_ok verify r ev st2.
Proof.
  intros Hc Hl Hs. apply auth_reads_only_selection; [exact Hc|].
  intros k Hk. apply Hs. now apply (auth_types_selection r ev l Hl).
Qed.

Theorem auth_queries_in_selection r ev st k :
  coherent r -> In k (trace (auth_prog uid_ok sn_ok verify r ev) st) -> In k (selection uid_ok r ev).
Proof. intros Hc. apply trace_in, reads_in_auth, Hc. Qed.

Theorem auth_on_restricted_state r ev st :
  coherent r ->
  auth_check uid_ok sn_ok verify r ev (restrict (selection uid_ok r ev) st)
  = auth_check uid_ok sn_ok verify r ev st.
Proof.
  intros Hc. apply auth_reads_only_selection; [exact Hc|]. intros k Hk. now apply restrict_agree.
Qed.

End Sel.

Lemma all_versions_coherent v R : rules_of v = Some R -> coherent (authorization R).
Proof.
  intros H. pose proof (rules_table _ _ H) as A. unfold coherent.
  rewrite (ra_knock_restricted _ _ A), (ra_restricted _ _ A).
  destruct (N.leb_spec 10 v), (N.leb_spec 8 v); try reflexivity; try discriminate; lia.
Qed.

Lemma auth_types_spec_versions (uid_ok : str -> bool) v R ev :
  rules_of v = Some R -> tpi_sequence_form ev = false ->
  same_selection (auth_types uid_ok (authorization R) ev) (spec_selection uid_ok v ev).
Proof.
  intros H Hs.
  exact (auth_types_spec uid_ok uid_ok (fun _ _ _ _ => true) v (authorization R) ev
           (ra_restricted _ _ (rules_table _ _ H)) Hs).
Qed.
