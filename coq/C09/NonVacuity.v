(** C09.NonVacuity — the selection is not trivially everything, and the hypotheses of the
    non-interference theorem are met by states that really differ. *)
From Base Require Import Prelude Sx Json Rules.
From Gen Require Import RoomRules.
From C08 Require Import Types Ids Model Proofs4.
From C09 Require Import Model Spec Proofs.

Definition nv_verify (_ _ _ : str) (_ : obj) : bool := false.

(** A v9 restricted join authorised by @dave:s1: five selected keys, in the order of the code's Vec. *)
Definition nv_join : event :=
  {| e_id := s!"$j"; e_room := s!"!room:s1"; e_sender := s!"@bob:s1"; e_type := t_member;
     e_skey := Some s!"@bob:s1";
     e_content := [(s!"join_authorised_via_users_server", JStr s!"@dave:s1"); (s!"membership", JStr s!"join")];
     e_prev := [s!"$m"]; e_auth := [s!"$create"]; e_redacts := None |}.

Example selection_restricted_join :
  auth_types uid_ok (authorization rules_v9) nv_join
  = Some [k_power; k_member s!"@bob:s1"; k_create; k_join_rules; k_member s!"@dave:s1"]
  /\ same_selectionb (auth_types uid_ok (authorization rules_v9) nv_join)
                     (spec_selection uid_ok 9 nv_join) = true
  /\ auth_types uid_ok (authorization rules_v7) nv_join
     = Some [k_power; k_member s!"@bob:s1"; k_create; k_join_rules].
Proof. vm_compute. repeat split; reflexivity. Qed.

(** Two states that agree on the selection of a message event but differ elsewhere (a ban of
    somebody else, other join rules): same verdict, here accepted. *)
Definition nv_msg : event :=
  {| e_id := s!"$msg"; e_room := s!"!room:s1"; e_sender := s!"@alice:s1"; e_type := s!"m.room.message";
     e_skey := None; e_content := []; e_prev := [s!"$m"]; e_auth := [s!"$create"]; e_redacts := None |}.
Definition nv_ban : event :=
  {| e_id := s!"$b"; e_room := s!"!room:s1"; e_sender := s!"@alice:s1"; e_type := t_member;
     e_skey := Some s!"@bob:s1"; e_content := [(s!"membership", JStr s!"ban")]; e_prev := [];
     e_auth := []; e_redacts := None |}.

Example states_differ_outside_selection :
  let st1 := w_state [] in
  let st2 := w_state [(k_member s!"@bob:s1", nv_ban)] in
  st1 (k_member s!"@bob:s1") <> st2 (k_member s!"@bob:s1")
  /\ forallb (fun k => match st1 k, st2 k with
                       | Some a, Some b => str_eqb (e_id a) (e_id b)
                       | None, None => true
                       | _, _ => false end)
       (selection uid_ok (authorization rules_v9) nv_msg) = true
  /\ auth_check uid_ok sn_ok nv_verify (authorization rules_v9) nv_msg st1 = true
  /\ auth_check uid_ok sn_ok nv_verify (authorization rules_v9) nv_msg st2 = true.
Proof. vm_compute. repeat split; try reflexivity. discriminate. Qed.
