(** C09.Properties — the theorems that decide C09, and nothing else. *)
From Base Require Import Prelude Sx Json Rules.
From Gen Require Import RoomRules.
From C08 Require Import Types Model.
From C09 Require Import Model Spec Proofs.

(** The pairs [auth_types_for_event] returns are, as a set, those the specification's
    auth-events selection names for the room version, and the call fails exactly when the
    specification's selection is undefined (malformed member content) — outside the known
    sequence-form class of third_party_invite (open finding C08-serde-shapes). *)
Theorem C09_auth_types_eq_spec :
  forall (uid_ok : str -> bool) v R ev,
  rules_of v = Some R -> tpi_sequence_form ev = false ->
  same_selection (auth_types uid_ok (authorization R) ev) (spec_selection uid_ok v ev).
Proof. exact auth_types_spec_versions. Qed.
Eval compute in "PA:C09_auth_types_eq_spec"%string.
Print Assumptions C09_auth_types_eq_spec.

(** The returned [Vec] has no duplicates. *)
Theorem C09_auth_types_nodup :
  forall (uid_ok : str -> bool) r ev l, auth_types uid_ok r ev = Some l -> NoDup l.
Proof. exact auth_types_nodup. Qed.
Eval compute in "PA:C09_auth_types_nodup"%string.
Print Assumptions C09_auth_types_nodup.

(** Non-interference, for every rules record in which knock_restricted implies restricted
    (all of v1-v11, next theorem): two states that agree on the selected keys give the same
    verdict, whatever else they contain. *)
Theorem C09_auth_reads_only_selection :
  forall (uid_ok sn_ok : str -> bool) (verify : str -> str -> str -> obj -> bool) r ev st1 st2,
  coherent r ->
  (forall k, In k (selection uid_ok r ev) -> st1 k = st2 k) ->
  auth_check uid_ok sn_ok verify r ev st1 = auth_check uid_ok sn_ok verify r ev st2.
Proof. exact auth_reads_only_selection. Qed.
Eval compute in "PA:C09_auth_reads_only_selection"%string.
Print Assumptions C09_auth_reads_only_selection.

(** The same, stated with the list [auth_types_for_event] returns. *)
Theorem C09_auth_reads_only_auth_types :
  forall (uid_ok sn_ok : str -> bool) (verify : str -> str -> str -> obj -> bool) r ev l st1 st2,
  coherent r -> auth_types uid_ok r ev = Some l ->
  (forall k, In k l -> st1 k = st2 k) ->
  auth_check uid_ok sn_ok verify r ev st1 = auth_check uid_ok sn_ok verify r ev st2.
Proof. exact auth_reads_only_auth_types. Qed.
Eval compute in "PA:C09_auth_reads_only_auth_types"%string.
Print Assumptions C09_auth_reads_only_auth_types.

Theorem C09_versions_coherent : forall v R, rules_of v = Some R -> coherent (authorization R).
Proof. exact all_versions_coherent. Qed.
Eval compute in "PA:C09_versions_coherent"%string.
Print Assumptions C09_versions_coherent.

(** Every key the [fetch_state] closure is asked for is a selected key. *)
Theorem C09_auth_queries_in_selection :
  forall (uid_ok sn_ok : str -> bool) (verify : str -> str -> str -> obj -> bool) r ev st k,
  coherent r -> In k (trace (auth_prog uid_ok sn_ok verify r ev) st) -> In k (selection uid_ok r ev).
Proof. exact auth_queries_in_selection. Qed.
Eval compute in "PA:C09_auth_queries_in_selection"%string.
Print Assumptions C09_auth_queries_in_selection.

(** Authorising against the state cut down to the selection (what iterative_auth_check builds,
    lib.rs:460-497) gives the verdict of authorising against the full state. *)
Theorem C09_auth_on_restricted_state :
  forall (uid_ok sn_ok : str -> bool) (verify : str -> str -> str -> obj -> bool) r ev st,
  coherent r ->
  auth_check uid_ok sn_ok verify r ev (restrict (selection uid_ok r ev) st)
  = auth_check uid_ok sn_ok verify r ev st.
Proof. exact auth_on_restricted_state. Qed.
Eval compute in "PA:C09_auth_on_restricted_state"%string.
Print Assumptions C09_auth_on_restricted_state.
