(** C09.Run — case decoding, model run, and the specification evaluated on the implementation's
    outcome.
    case    = ( version event state oracle ( perturbed-state .. ) )
      perturbed-state : overrides of the base state, ( ( type key event? ) .. )
    outcome = (0 ( selection? ( read .. ) verdict ( verdict .. ) ))
      selection? : ( ) when auth_types_for_event failed, ( ( key .. ) ) otherwise
      read       : the (type, state_key) pairs fetch_state was asked for, in call order
      verdict    : 0 accepted, 1 rejected; one per perturbed state after the base state's *)
From Base Require Import Prelude Sx Json Rules.
From Gen Require Import RoomRules.
From C08 Require Import Types Ids Codec Model.
From C09 Require Import Model Spec.

Definition sx_keys (l : list key) : sx := SL (List.map sx_key l).
Definition sx_verdict (b : bool) : sx := SN (if b then 0 else 1)%Z.

Definition key_of_sx (x : sx) : option key :=
  match x with
  | SL [SS a; SS b] => Some (a, b)
  | _ => None
  end.

Definition agree_on (l : list key) (a b : state) : bool :=
  forallb (fun k => oevent_eqb (a k) (b k)) l.

Definition spec_ok (v : N) (ev : event) (st : state) (pst : list state) (impl : sx) : bool :=
  match impl with
  | SL [SN 0; SL [sel; reads; verdict; pverdicts]] =>
      match as_opt (as_list_of key_of_sx) sel, as_list_of key_of_sx reads, as_list pverdicts with
      | Some sel, Some reads, Some pv =>
          let spec := spec_selection uid_ok v ev in
          (* the selection is the specification's *)
          (tpi_sequence_form ev || same_selectionb sel spec)
          (* nothing else is asked for *)
          && (match sel with Some l => subset_keys reads l | None => true end)
          (* states that agree on the specification's selection get the same verdict *)
          && (N.of_nat (List.length pv) =? N.of_nat (List.length pst))
          && forallb (fun sv =>
               match spec with
               | Some l => negb (agree_on l st (fst sv))
                           || (match snd sv, verdict with
                               | SN a, SN b => (a =? b)%Z
                               | _, _ => false
                               end)
               | None => true
               end) (List.combine pst pv)
      | _, _, _ => false
      end
  | _ => false
  end.

Definition run (x : sx) : sx :=
  match x with
  | SL [SL [v; ev; st; orc; psts]; impl] =>
      match as_N v, event_of_sx ev, state_of_sx st, oracle_of_sx orc, as_list_of overrides_of_sx psts with
      | Some v, Some ev, Some st, Some orc, Some psts =>
          match rules_of v with
          | Some R =>
              let r := authorization R in
              let state := state_lookup st in
              let pst := List.map (fun ov => override_lookup ov state) psts in
              let vf := oracle_verify orc in
              let p := auth_prog uid_ok sn_ok vf r ev in
              let out :=
                SL [SN 0; SL [sx_opt sx_keys (auth_types uid_ok r ev);
                              sx_keys (trace p state);
                              sx_verdict (run p state);
                              SL (List.map (fun s => sx_verdict (run p s)) pst)]] in
              SL [out; sx_bool (spec_ok v ev state pst impl)]
          | None => sx_bad
          end
      | _, _, _, _, _ => sx_bad
      end
  | _ => sx_bad
  end.
