(** C09.Spec — auth-events selection as the specification states it (DESIGN.md Appendix A.5),
    per room version number.  No reference to the model.

    [m.room.create]: none.  Otherwise: (m.room.create, ""), (m.room.power_levels, ""),
    (m.room.member, sender); for m.room.member also (m.room.member, state_key); if membership is
    join, invite or knock: (m.room.join_rules, ""); if membership is invite and
    content.third_party_invite is present: (m.room.third_party_invite, signed.token); if the room
    version supports restricted joins (v8+), membership is join and
    content.join_authorised_via_users_server is present: (m.room.member, that user).

    The selection is a set; it is undefined ([None]) for a member event whose content cannot
    be read as far as the selection needs it (no state_key, no string membership, a
    third_party_invite without signed.token, an authorising user that is not a user id).
    As in C08: a [null] optional property counts as absent. *)
From Base Require Import Prelude Sx Json.
From C08 Require Import Types.

Notation "'get' x '<-' e ';;' k" :=
  (match e with Some x => k | None => None end) (at level 200, x pattern, right associativity).

Section Spec.
Variable uid_ok : str -> bool.

Definition sprop (c : obj) (k : str) : option str :=
  match lookup k c with Some (JStr s) => Some s | _ => None end.
Definition oprop (c : obj) (k : str) : option json :=
  match lookup k c with Some JNull => None | x => x end.

Definition spec_selection (v : N) (ev : event) : option (list key) :=
  if str_eqb (e_type ev) t_create then Some [] else
  let always := [(t_create, []); (t_power, []); (t_member, e_sender ev)] in
  if str_eqb (e_type ev) t_member then
    get target <- e_skey ev ;;
    get m <- sprop (e_content ev) s!"membership" ;;
    get join_rules <-
      Some (if str_eqb m s!"join" || str_eqb m s!"invite" || str_eqb m s!"knock"
            then [(t_join_rules, [])] else []) ;;
    get third_party <-
      (if str_eqb m s!"invite" then
         match oprop (e_content ev) s!"third_party_invite" with
         | None => Some []
         | Some (JObj t) =>
             match lookup s!"signed" t with
             | Some (JObj signed) => get token <- sprop signed s!"token" ;; Some [(t_tpi, token)]
             | _ => None
             end
         | Some _ => None
         end
       else Some []) ;;
    get authoriser <-
      (if str_eqb m s!"join" && (8 <=? v) then
         match oprop (e_content ev) s!"join_authorised_via_users_server" with
         | None => Some []
         | Some (JStr u) => if uid_ok u then Some [(t_member, u)] else None
         | Some _ => None
         end
       else Some []) ;;
    Some (always ++ [(t_member, target)] ++ join_rules ++ third_party ++ authoriser)
  else Some always.

(** Known deviation (open finding C08-serde-shapes): a third_party_invite in sequence form. *)
Definition tpi_sequence_form (ev : event) : bool :=
  str_eqb (e_type ev) t_member &&
  match lookup s!"third_party_invite" (e_content ev) with Some (JArr _) => true | _ => false end.

(** Two selections agree: both undefined, or the same set of keys. *)
Definition same_selection (a b : option (list key)) : Prop :=
  match a, b with
  | None, None => True
  | Some x, Some y => forall k, In k x <-> In k y
  | _, _ => False
  end.

Definition subset_keys (x y : list key) : bool := forallb (fun k => mem_key k y) x.
Definition same_selectionb (a b : option (list key)) : bool :=
  match a, b with
  | None, None => true
  | Some x, Some y => subset_keys x y && subset_keys y x
  | _, _ => false
  end.

End Spec.
