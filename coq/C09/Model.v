(** C09.Model — model of [auth_types_for_event] (event_auth.rs:49-130) over the event model of
    C08, and the keys that selection would reach when its content reads fail half-way
    ([selection], total).  The model of [auth_check] is C08's program [auth_prog]: its [Read]
    nodes are the only calls of the [fetch_state] closure (event_auth.rs:564-605). *)
From Base Require Import Prelude Sx Json Rules.
From C08 Require Import Types Model.

Notation "'let*' x ':=' e 'in' k" :=
  (match e with Some x => k | None => None end) (at level 200, x pattern, right associativity).

(** [if !auth_types.contains(&key) { auth_types.push(key) }] *)
Definition push (k : key) (l : list key) : list key := if mem_key k l then l else l ++ [k].

Section Model.
Variable uid_ok : str -> bool.

Definition base_types (ev : event) : list key :=
  [k_power; k_member (e_sender ev); k_create].                       (* :66-70 *)

Definition wants_join_rules (m : str) : bool :=
  str_eqb m s!"join" || str_eqb m s!"invite" || str_eqb m s!"knock". (* :88-91 *)

Definition auth_types (r : auth_rules) (ev : event) : option (list key) :=
  if str_eqb (e_type ev) t_create then Some [] else                  (* :57 *)
  let l0 := base_types ev in
  if str_eqb (e_type ev) t_member then                               (* :73 *)
    match e_skey ev with
    | None => None                                                   (* :75 *)
    | Some sk =>
        let l1 := push (k_member sk) l0 in                           (* :78-81 *)
        let* m := ev_membership ev in                                (* :84 *)
        let l2 := if wants_join_rules m then push k_join_rules l1 else l1 in   (* :88-96 *)
        let* l3 :=
          if str_eqb m s!"invite" then                               (* :101 *)
            let* otpi := third_party_invite ev in                    (* :102 *)
            match otpi with
            | Some signed =>
                let* token := get_str signed s!"token" in            (* :105 *)
                Some (push (k_tpi token) l2)
            | None => Some l2
            end
          else Some l2 in
        if str_eqb m s!"join" && restricted_join_rule r then         (* :118 *)
          let* oa := join_authorised uid_ok ev in                    (* :119 *)
          match oa with
          | Some u => Some (push (k_member u) l3)
          | None => Some l3
          end
        else Some l3
    end
  else Some l0.

(** The keys the selection names as far as the content can be read (total). *)
Definition selection (r : auth_rules) (ev : event) : list key :=
  if str_eqb (e_type ev) t_create then [] else
  base_types ev ++
  if str_eqb (e_type ev) t_member then
    match e_skey ev with
    | None => []
    | Some sk =>
        k_member sk ::
        match ev_membership ev with
        | None => []
        | Some m =>
            (if wants_join_rules m then [k_join_rules] else []) ++
            (if str_eqb m s!"invite" then
               match third_party_invite ev with
               | Some (Some signed) =>
                   match get_str signed s!"token" with Some token => [k_tpi token] | None => [] end
               | _ => []
               end
             else []) ++
            (if str_eqb m s!"join" && restricted_join_rule r then
               match join_authorised uid_ok ev with
               | Some (Some u) => [k_member u]
               | _ => []
               end
             else [])
        end
    end
  else [].

End Model.

(** ** Which keys a program may read *)
Fixpoint reads_in (sel : list key) (p : prog) : Prop :=
  match p with
  | Ret _ => True
  | Read k c => In k sel /\ forall o, reads_in sel (c o)
  end.

(** The state cut down to a set of keys (what [iterative_auth_check] builds, lib.rs:460-497). *)
Definition restrict (sel : list key) (st : state) : state :=
  fun k => if mem_key k sel then st k else None.
