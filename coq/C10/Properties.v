(** C10.Properties — the theorems that decide C10, and nothing else.

    Reading: [str] = byte strings; [valid_utf8 s = true] is what a Rust [&str] always satisfies.
    [validate_*], accessors, constructors: Model.v (the repaired code).  Grammar: Spec.v (Appendix A.7,
    RFC 3986).  [kk] maps the model's key-name kinds to the grammar's.  The classes
    [PortAbove65535], [DnsLonger255] and the premises of the constructor theorems are the open known
    findings (known_findings.d/C10.json); their witnesses are in [C10_open_finding_witnesses]. *)
From Base Require Import Prelude.
From C10 Require Import Model Spec Lemmas ProofsServer ProofsIds ProofsIp SpecProofs Proofs.

(** 1. No validator (and no [MxcUri::parts]) panics on any Rust string. *)
Theorem C10_validate_total :
  forall s, valid_utf8 s = true ->
  (forall p, validate_user_id s <> Panic p) /\
  (forall p, validate_room_id s <> Panic p) /\
  (forall p, validate_room_alias_id s <> Panic p) /\
  (forall p, validate_event_id s <> Panic p) /\
  (forall p, validate_room_or_alias_id s <> Panic p) /\
  (forall p, validate_server_name s <> Panic p) /\
  (forall k p, validate_key_id k s <> Panic p) /\
  (forall p, validate_mxc s <> Panic p) /\
  (forall p, mxc_parts s <> Panic p) /\
  (forall p, validate_user_id_strict s <> Panic p) /\
  (forall p, localpart_fully_conforming s <> Panic p) /\
  (forall p, validate_room_version_id s <> Panic p) /\
  (forall p, validate_client_secret s <> Panic p) /\
  (forall k p, validate_key_name k s <> Panic p).
Proof. exact validate_total_all. Qed.
Eval compute in "PA:C10_validate_total"%string.
Print Assumptions C10_validate_total.

(** 2. Whatever is accepted has the structure the specification requires — for ALL byte strings.
    Identifiers with a sigil satisfy the full grammar of A.7; a bare server name (and the one inside
    an MXC URI) satisfies it up to the length bound of the dns-name, which ruma does not check
    (class [DnsLonger255]). *)
Theorem C10_accept_sound :
  forall s,
  (validate_user_id s = Ok tt -> UserId true s) /\
  (validate_room_alias_id s = Ok tt -> RoomAliasId true s) /\
  (validate_room_id s = Ok tt -> RoomId s) /\
  (validate_event_id s = Ok tt -> EventId true s) /\
  (validate_room_or_alias_id s = Ok tt -> RoomOrAliasId true s) /\
  (validate_user_id_strict s = Ok tt -> UserIdStrict true s) /\
  (validate_server_name s = Ok tt -> ServerName false s /\ (~ DnsLonger255 s -> ServerName true s)) /\
  (forall k i, validate_key_id k s = Ok i -> KeyId (kk k) s) /\
  (forall i, validate_mxc s = Ok i ->
     MxcUri false s /\
     ((forall sn m, s = mxc_prefix ++ sn ++ 47 :: m -> ~ DnsLonger255 sn) -> MxcUri true s)) /\
  (validate_room_version_id s = Ok tt -> room_version_b s = true) /\
  (validate_client_secret s = Ok tt -> client_secret_b s = true) /\
  (validate_base64_public_key s = Ok tt -> key_name_b Base64Key s = true) /\
  (validate_signing_key_version s = Ok tt -> key_name_b SigningVersion s = true).
Proof. exact accept_sound_all. Qed.
Eval compute in "PA:C10_accept_sound"%string.
Print Assumptions C10_accept_sound.

(** 3. Every string of the grammar is accepted (the grammar tolerated over federation, which contains
    the recommended one), except server names whose port exceeds 65535 (class [PortAbove65535]:
    ruma parses a [u16]).  [b] is either strength of the server-name grammar. *)
Theorem C10_accept_complete :
  forall b s, valid_utf8 s = true -> ~ PortAbove65535 s ->
  (UserId b s -> validate_user_id s = Ok tt) /\
  (RoomAliasId b s -> validate_room_alias_id s = Ok tt) /\
  (RoomId s -> validate_room_id s = Ok tt) /\
  (EventId b s -> validate_event_id s = Ok tt) /\
  (RoomOrAliasId b s -> validate_room_or_alias_id s = Ok tt) /\
  (UserIdStrict b s -> validate_user_id_strict s = Ok tt) /\
  (ServerName b s -> validate_server_name s = Ok tt) /\
  (forall k, KeyId (kk k) s -> exists i, validate_key_id k s = Ok i) /\
  (room_version_b s = true -> validate_room_version_id s = Ok tt) /\
  (client_secret_b s = true -> validate_client_secret s = Ok tt) /\
  (key_name_b Base64Key s = true -> validate_base64_public_key s = Ok tt) /\
  (key_name_b SigningVersion s = true -> validate_signing_key_version s = Ok tt).
Proof. exact accept_complete_all. Qed.
Eval compute in "PA:C10_accept_complete"%string.
Print Assumptions C10_accept_complete.

(** 3'. MXC URIs: every "mxc://" server_name "/" media_id of the grammar is valid and [parts()] returns
    its components, except for a port above 65535. *)
Theorem C10_accept_complete_mxc :
  forall b sn m, ServerName b sn -> ~ PortAbove65535 sn -> m <> [] -> all_in media_char m ->
  validate_mxc (mxc_prefix ++ sn ++ 47 :: m) = Ok (len sn + 6) /\
  mxc_parts (mxc_prefix ++ sn ++ 47 :: m) = Ok (sn, m).
Proof. exact mxc_complete. Qed.
Eval compute in "PA:C10_accept_complete_mxc"%string.
Print Assumptions C10_accept_complete_mxc.

(** 4. On an accepted identifier every accessor returns (no panic) and the components recompose to
    the identifier byte for byte; the server-name component is itself an accepted server name. *)
Theorem C10_accessors_recompose :
  forall s, valid_utf8 s = true ->
  (* user ids ([localpart], [server_name], the historical/strict classification) *)
  (validate_user_id s = Ok tt ->
     exists l sn, id_localpart s = Ok l /\ id_server_name s = Ok sn /\ s = 64 :: l ++ 58 :: sn /\
                  validate_server_name sn = Ok tt /\
                  user_fully_conforming s = localpart_fully_conforming l /\
                  localpart_fully_conforming l =
                    match classify_local l with
                    | 0 => Ok true | 1 => Ok false | 2 => Err E_InvalidCharacters | _ => Err E_Empty
                    end) /\
  (* room aliases ([alias], [server_name]) *)
  (validate_room_alias_id s = Ok tt ->
     exists l sn, id_localpart s = Ok l /\ id_server_name s = Ok sn /\ s = 35 :: l ++ 58 :: sn /\
                  validate_server_name sn = Ok tt) /\
  (* event ids ([localpart], [server_name]) *)
  (validate_event_id s = Ok tt ->
     exists l, event_localpart s = Ok l /\
       ((event_server_name s = Ok None /\ s = 36 :: l) \/
        (exists sn, event_server_name s = Ok (Some sn) /\ s = 36 :: l ++ 58 :: sn /\
                    validate_server_name sn = Ok tt))) /\
  (* room ids and room-or-alias ids ([server_name]): the part after the first colon, when valid *)
  (roa_server_name s = Ok None \/
   exists l sn, roa_server_name s = Ok (Some sn) /\ s = l ++ 58 :: sn /\ ~ In 58 l /\
                validate_server_name sn = Ok tt) /\
  (* server names ([host], [port], [is_ip_literal]) *)
  (validate_server_name s = Ok tt ->
     exists h po, sn_host s = Ok h /\ sn_port s = Ok po /\ sn_is_ip_literal s = Ok (ip_literal_b h) /\
                  server_parts_ok s h po /\ Hostname false h) /\
  (* key ids ([algorithm], [key_name]) *)
  (forall k i, validate_key_id k s = Ok i ->
     exists a n, key_algorithm s = Ok a /\ key_name k s = Ok n /\ s = a ++ 58 :: n /\ i = len a) /\
  (* MXC URIs ([parts], hence [server_name] and [media_id]) *)
  (forall i, validate_mxc s = Ok i ->
     exists sn m, mxc_parts s = Ok (sn, m) /\ s = mxc_prefix ++ sn ++ 47 :: m /\
                  validate_server_name sn = Ok tt).
Proof. exact accessors_recompose_all. Qed.
Eval compute in "PA:C10_accessors_recompose"%string.
Print Assumptions C10_accessors_recompose.

(** 5. Constructors.  [UserId::parse_with_server_name] never panics, returns only identifiers the
    parser accepts, and completes every localpart for which the completed id fits.  The unchecked
    constructors ([KeyId::from_parts], [UserId::new], [EventId::new], [RoomId::new]) build an accepted
    identifier exactly under the stated premises (non-empty colon-free algorithm; result of at most
    255 bytes) — outside them they do not: open findings. *)
Theorem C10_constructors_accepted :
  (forall id sn built, parse_with_server_name id sn = Ok built -> validate_user_id built = Ok tt) /\
  (forall id sn, valid_utf8 id = true -> valid_utf8 sn = true ->
     forall p, parse_with_server_name id sn <> Panic p) /\
  (forall id sn, valid_utf8 id = true -> validate_server_name sn = Ok tt ->
     head_is 64 id = false -> ~ In 58 id -> ~ In 0 id -> len (64 :: id ++ 58 :: sn) <= 255 ->
     parse_with_server_name id sn = Ok (64 :: id ++ 58 :: sn)) /\
  (forall k alg name, valid_utf8 alg = true -> valid_utf8 name = true ->
     alg <> [] -> ~ In 58 alg -> validate_key_name k name = Ok tt ->
     validate_key_id k (key_from_parts alg name) = Ok (len alg)) /\
  (forall lp sn, Forall (fun c => is_alnum c = true) lp -> validate_server_name sn = Ok tt ->
     len (id_new 64 lp sn) <= 255 -> validate_user_id (id_new 64 lp sn) = Ok tt) /\
  (forall lp sn, Forall (fun c => is_alnum c = true) lp -> validate_server_name sn = Ok tt ->
     len (id_new 36 lp sn) <= 255 -> validate_event_id (id_new 36 lp sn) = Ok tt) /\
  (forall lp sn, Forall (fun c => is_alnum c = true) lp -> validate_server_name sn = Ok tt ->
     len (id_new 33 lp sn) <= 255 -> validate_room_id (id_new 33 lp sn) = Ok tt).
Proof. exact constructors_all. Qed.
Eval compute in "PA:C10_constructors_accepted"%string.
Print Assumptions C10_constructors_accepted.

(** 6. The boolean recognisers of Spec.v (the ones the check evaluates on the implementation's
    outcomes) decide the inductive grammar. *)
Theorem C10_recognisers_decide_grammar :
  (forall s, ipv4_b s = true <-> IPv4 s) /\
  (forall s, ipv6_b s = true <-> IPv6 s) /\
  (forall b s, hostname_b b s = true <-> Hostname b s) /\
  (forall b s, server_name_b b s = true <-> ServerName b s) /\
  (forall s, port_above_b s = true <-> PortAbove65535 s) /\
  (forall b s, user_id_b b s = true <-> UserId b s) /\
  (forall b s, room_alias_id_b b s = true <-> RoomAliasId b s) /\
  (forall s, room_id_b s = true <-> RoomId s) /\
  (forall b s, event_id_b b s = true <-> EventId b s) /\
  (forall b s, user_id_strict_b b s = true <-> UserIdStrict b s) /\
  (forall k s, key_id_b k s = true <-> KeyId k s) /\
  (forall b s, mxc_uri_b b s = true <-> MxcUri b s) /\
  (forall s h po, server_parts_b s h po = true <-> server_parts_ok s h po).
Proof. exact recognisers_decide_grammar_all. Qed.
Eval compute in "PA:C10_recognisers_decide_grammar"%string.
Print Assumptions C10_recognisers_decide_grammar.

(** 7. The model of Rust's [Ipv4Addr::from_str] / [Ipv6Addr::from_str] accepts exactly the
    IPv4address / IPv6address of RFC 3986 — for all byte strings. *)
Theorem C10_std_ip_parsers_meet_rfc3986 :
  (forall s, ipv4_from_str s = true <-> IPv4 s) /\ (forall s, ipv6_from_str s = true <-> IPv6 s).
Proof. exact std_ip_parsers_meet_rfc3986_all. Qed.
Eval compute in "PA:C10_std_ip_parsers_meet_rfc3986"%string.
Print Assumptions C10_std_ip_parsers_meet_rfc3986.

(** 8. The record of the refutations: on the model of the code as it was before the [fix:] commits
    ([Model.Legacy]) theorems 1, 2 and 5 fail on these inputs, and the repaired model behaves. *)
Theorem C10_legacy_code_refuted :
  (let w := mxc_prefix ++ pad 97 250 ++ s!"/x" in
   valid_utf8 w = true /\ Legacy.validate_mxc w = Panic 3 /\ validate_mxc w = Ok 256) /\
  (let w := mxc_prefix ++ pad 97 251 ++ s!"/x" in
   valid_utf8 w = true /\ Legacy.validate_mxc w = Ok 1 /\ is_panic (Legacy.mxc_parts w) = true /\
   mxc_parts w = Ok (pad 97 251, s!"x")) /\
  (let w := 97 :: 195 :: 169 :: pad 97 254 ++ s!":x" in
   valid_utf8 w = true /\ Legacy.validate_key_id KAny w = Panic 1 /\ validate_key_id KAny w = Ok 257) /\
  (let w := pad 97 256 ++ s!":x" in
   Legacy.validate_key_id KAny w = Err E_MissingColon /\ validate_key_id KAny w = Ok 256) /\
  (Legacy.validate_server_name s!":80" = Ok tt /\ server_name_b false s!":80" = false /\
   Legacy.validate_server_name s!"example.com:+80" = Ok tt /\ server_name_b false s!"example.com:+80" = false /\
   Legacy.validate_server_name s!"example.com:000080" = Ok tt /\ server_name_b false s!"example.com:000080" = false /\
   validate_server_name s!":80" = Err E_InvalidServerName /\
   validate_server_name s!"example.com:+80" = Err E_InvalidServerName /\
   validate_server_name s!"example.com:000080" = Err E_InvalidServerName) /\
  (let w := 36 :: pad 97 300 in
   Legacy.validate_event_id w = Ok tt /\ event_id_b true w = false /\
   Legacy.validate_event_id [36; 0] = Ok tt /\ event_id_b true [36; 0] = false) /\
  (let built := 64 :: pad 120 300 ++ s!":a.b" in
   Legacy.parse_with_server_name (pad 120 300) s!"a.b" = Ok built /\
   validate_user_id built = Err E_MaximumLengthExceeded /\
   parse_with_server_name (pad 120 300) s!"a.b" = Err E_MaximumLengthExceeded).
Proof. exact legacy_code_refuted_all. Qed.
Eval compute in "PA:C10_legacy_code_refuted"%string.
Print Assumptions C10_legacy_code_refuted.

(** 9. The open findings are real: each class is inhabited by an input on which the repaired model
    (= the current code) departs from the property. *)
Theorem C10_open_finding_witnesses :
  (let w := s!"example.com:65536" in
   ServerName true w /\ PortAbove65535 w /\ validate_server_name w = Err E_InvalidServerName) /\
  (let w := pad 97 256 in validate_server_name w = Ok tt /\ DnsLonger255 w /\ ~ ServerName true w) /\
  (validate_key_id KAny (key_from_parts [] s!"DEVICE") = Err E_MissingColon /\
   validate_key_id KSigningVersion (key_from_parts s!"a:b" s!"1") = Err E_InvalidCharacters) /\
  (let sn := pad 97 242 in
   validate_server_name sn = Ok tt /\
   validate_user_id (id_new 64 (pad 97 12) sn) = Err E_MaximumLengthExceeded).
Proof. exact open_finding_witnesses_all. Qed.
Eval compute in "PA:C10_open_finding_witnesses"%string.
Print Assumptions C10_open_finding_witnesses.
