(** C10.Properties — provisional. *)
From Base Require Import Prelude.
