(** C10.Proofs — the model of ruma's validators meets the grammar of Spec.v. *)
From Base Require Import Prelude.
From C10 Require Import Model Spec Lemmas ProofsServer ProofsIds ProofsIp SpecProofs.
From Coq Require Import ZifyBool ZifyNat ZifyN.
Ltac Zify.zify_post_hook ::= Z.div_mod_to_equations.

(** * Character classes: the model's byte tests are the grammar's classes *)
Lemma host_byte_dns b : host_byte_ok b = dns_char b.
Proof. unfold host_byte_ok, dns_char, is_alnum, is_digit, is_lower, is_upper, ALPHA, UPALPHA, LOALPHA, DIGIT. lia. Qed.
Lemma strict_byte_char b : strict_byte b = strict_char b.
Proof. unfold strict_byte, strict_char, is_digit, is_lower, LOALPHA, DIGIT. lia. Qed.
Lemma hist_byte_char b : hist_byte b = historical_char b.
Proof. unfold hist_byte, historical_char. lia. Qed.
Lemma media_byte_char b : media_byte_ok b = media_char b.
Proof. unfold media_byte_ok, media_char, is_alnum, is_digit, is_lower, is_upper, ALPHA, UPALPHA, LOALPHA, DIGIT. lia. Qed.
Lemma is_digit_DIGIT b : is_digit b = DIGIT b.
Proof. reflexivity. Qed.

Lemma forallb_ext_eq {A} (f g : A -> bool) l : (forall x, f x = g x) -> forallb f l = forallb g l.
Proof. intros H. induction l as [|x l IH]; cbn; [reflexivity|]. now rewrite H, IH. Qed.

Lemma len_le (s : str) (n : nat) : len s <= N.of_nat n <-> (List.length s <= n)%nat.
Proof. unfold len. lia. Qed.

(** * Ports *)
Lemma port_value_ge r x : x <= fold_left (fun a c => a * 10 + (c - 48)) r x.
Proof.
  revert x; induction r as [|c r IH]; intros x; cbn [fold_left]; [lia|].
  eapply N.le_trans; [|apply IH]. lia.
Qed.

Lemma u16_digits_value p : forall acc,
  forallb is_digit p = true -> acc <= 65535 ->
  u16_digits acc p =
  let v := fold_left (fun a c => a * 10 + (c - 48)) p acc in if v <=? 65535 then Some v else None.
Proof.
  induction p as [|c r IH]; intros acc Hd Ha; cbn [u16_digits fold_left]; cbv zeta.
  - replace (acc <=? 65535) with true by lia. reflexivity.
  - cbn [forallb] in Hd. apply andb_true_iff in Hd as [Hc Hr]. rewrite Hc.
    pose proof (port_value_ge r (acc * 10 + (c - 48))) as Hge.
    destruct (N.ltb_spec 65535 (acc * 10)).
    + replace (_ <=? 65535) with false by lia. reflexivity.
    + destruct (N.ltb_spec 65535 (acc * 10 + (c - 48))).
      * replace (_ <=? 65535) with false by lia. reflexivity.
      * now rewrite IH.
Qed.

Lemma u16_from_str_digits p :
  forallb is_digit p = true -> p <> [] ->
  u16_from_str p = if port_value p <=? 65535 then Some (port_value p) else None.
Proof.
  intros Hd Hne. unfold port_value.
  assert (E : u16_from_str p = u16_digits 0 p).
  { destruct p as [|c r]; [congruence|]. cbn [forallb] in Hd. apply andb_true_iff in Hd as [Hc _].
    unfold is_digit in Hc. unfold u16_from_str. destruct r.
    - replace ((c =? 43) || (c =? 45)) with false by lia. reflexivity.
    - replace (c =? 43) with false by lia. reflexivity. }
  rewrite E, u16_digits_value by (auto; lia). reflexivity.
Qed.

Lemma valid_port_iff p : is_valid_port p = true <-> Port p /\ port_value p <= 65535.
Proof.
  unfold is_valid_port, Port. split.
  - intros H. apply andb_true_iff in H as [H Hu]. apply andb_true_iff in H as [H Hd].
    apply andb_true_iff in H as [H1 H5].
    assert (Hne : p <> []) by (intros ->; cbn in H1; discriminate).
    rewrite u16_from_str_digits in Hu by assumption.
    destruct (N.leb_spec (port_value p) 65535); [|discriminate].
    repeat split; try (unfold len in *; lia). now apply forallb_all_in.
  - intros [[[H1 H5] Hd] Hv]. apply forallb_all_in in Hd.
    assert (Hne : p <> []) by (intros ->; cbn in H1; lia).
    change (forallb DIGIT p) with (forallb is_digit p) in Hd.
    rewrite Hd, u16_from_str_digits by assumption.
    replace (port_value p <=? 65535) with true by lia.
    unfold len. replace (1 <=? _) with true by lia. replace (_ <=? 5) with true by lia. reflexivity.
Qed.

(** * Hosts and server names *)
Lemma IPv6_no_rbracket a : IPv6 a -> ~ In 93 a.
Proof.
  intros H Hin. apply IPv6_chars in H. rewrite Forall_forall in H. specialize (H _ Hin). discriminate.
Qed.

Lemma IPv4_dns v : IPv4 v -> v <> [] /\ forallb host_byte_ok v = true.
Proof.
  intros H. split.
  - destruct H as [a b c d Ha _ _ _]. destruct Ha; discriminate.
  - pose proof (IPv4_no_colon _ H) as Hn. apply IPv4_chars in H. apply forallb_forall. intros x Hx.
    rewrite Forall_forall in H. specialize (H _ Hx). rewrite host_byte_dns.
    assert (x <> 58) by (intros ->; contradiction).
    unfold ip_char, HEXDIG, dns_char, ALPHA, UPALPHA, LOALPHA, DIGIT in *. lia.
Qed.

Lemma forallb_host_dns h : forallb host_byte_ok h = forallb dns_char h.
Proof. apply forallb_ext_eq, host_byte_dns. Qed.

Lemma ruma_host_spec h : RumaHost h -> Hostname false h.
Proof.
  intros [a H6 _|h0 Hne Hf].
  - apply Host_v6. now apply ipv6_from_str_iff.
  - apply Host_dns. repeat split; [exact Hne| |discriminate].
    apply forallb_all_in. now rewrite <- forallb_host_dns.
Qed.

Lemma spec_host_ruma b h : Hostname b h -> RumaHost h.
Proof.
  intros [h0 H4|a H6|h0 (Hne & Hc & _)].
  - destruct (IPv4_dns _ H4). now apply RH_dns.
  - apply RH_v6; [now apply ipv6_from_str_iff|now apply IPv6_no_rbracket].
  - apply RH_dns; [exact Hne|]. rewrite forallb_host_dns. now apply forallb_all_in.
Qed.

Lemma ruma_sn_spec s : RumaSN s -> ServerName false s.
Proof.
  intros [h Hh|h p Hh Hp].
  - apply SN_bare. now apply ruma_host_spec.
  - apply SN_port; [now apply ruma_host_spec|]. now apply valid_port_iff in Hp as [Hp _].
Qed.

Lemma spec_sn_ruma b s : ServerName b s -> ~ PortAbove65535 s -> RumaSN s.
Proof.
  intros [h Hh|h p Hh Hp] Hn.
  - apply RSN_bare. now apply (spec_host_ruma b).
  - apply RSN_port; [now apply (spec_host_ruma b)|]. apply valid_port_iff. split; [exact Hp|].
    destruct (N.le_gt_cases (port_value p) 65535) as [|Hgt]; [assumption|].
    exfalso. apply Hn. exists h, p. repeat split; try apply Hp. lia.
Qed.

(** The characters of a server name: ASCII, no NUL, no slash. *)
Definition sn_char (c : N) : bool := dns_char c || ip_char c || (c =? 91) || (c =? 93).

Lemma sn_char_facts c : sn_char c = true -> c < 128 /\ c <> 0 /\ c <> 47.
Proof.
  unfold sn_char, dns_char, ip_char, HEXDIG, ALPHA, UPALPHA, LOALPHA, DIGIT. lia.
Qed.

Lemma Forall_sn_char_weaken (p : N -> bool) s :
  (forall c, p c = true -> sn_char c = true) -> Forall (fun c => p c = true) s -> Forall (fun c => sn_char c = true) s.
Proof. intros H. apply Forall_impl. exact H. Qed.

Lemma Hostname_chars b h : Hostname b h -> Forall (fun c => sn_char c = true) h.
Proof.
  intros [h0 H4|a H6|h0 (_ & Hc & _)].
  - apply IPv4_chars in H4. eapply Forall_sn_char_weaken; [|exact H4].
    intros c Hc. unfold sn_char. rewrite Hc. now rewrite orb_true_r.
  - apply IPv6_chars in H6. apply Forall_cons; [reflexivity|]. apply Forall_app. split.
    + eapply Forall_sn_char_weaken; [|exact H6]. intros c Hc. unfold sn_char. rewrite Hc. now rewrite orb_true_r.
    + repeat constructor.
  - eapply Forall_sn_char_weaken; [|exact Hc]. intros c Hd. unfold sn_char. now rewrite Hd.
Qed.

Lemma ServerName_chars b s : ServerName b s -> Forall (fun c => sn_char c = true) s.
Proof.
  intros [h Hh|h p Hh [_ Hp]]; [now apply (Hostname_chars b)|].
  apply Forall_app. split; [now apply (Hostname_chars b)|]. apply Forall_cons; [reflexivity|].
  eapply Forall_sn_char_weaken; [|exact Hp]. intros c Hc.
  unfold sn_char, dns_char. rewrite Hc. now rewrite !orb_true_r.
Qed.

Lemma ServerName_ascii b s : ServerName b s -> Forall (fun c => c < 128) s.
Proof. intros H. apply ServerName_chars in H. eapply Forall_impl; [|exact H]. intros c Hc. now apply sn_char_facts. Qed.

Lemma ServerName_no b s c : ServerName b s -> (c = 0 \/ c = 47) -> ~ In c s.
Proof.
  intros H Hc Hin. apply ServerName_chars in H. rewrite Forall_forall in H. specialize (H _ Hin).
  apply sn_char_facts in H. lia.
Qed.

(** Within 255 bytes the unbounded and the bounded server-name grammar coincide. *)
Lemma Hostname_upgrade h : Hostname false h -> (List.length h <= 255)%nat -> Hostname true h.
Proof.
  intros [h0 H4|a H6|h0 (Hne & Hc & _)] Hl; [now apply Host_v4|now apply Host_v6|].
  apply Host_dns. repeat split; auto.
Qed.

Lemma ServerName_upgrade s : ServerName false s -> (List.length s <= 255)%nat -> ServerName true s.
Proof.
  intros [h Hh|h p Hh Hp] Hl.
  - apply SN_bare. now apply Hostname_upgrade.
  - rewrite app_length in Hl. apply SN_port; [apply Hostname_upgrade; [exact Hh|lia]|exact Hp].
Qed.

Lemma ServerName_weaken b s : ServerName b s -> ServerName false s.
Proof.
  assert (Hh : forall h, Hostname b h -> Hostname false h).
  { intros h [h0 H4|a H6|h0 (Hne & Hc & _)]; [now apply Host_v4|now apply Host_v6|].
    apply Host_dns. repeat split; auto. discriminate. }
  intros [h H|h p H Hp]; [apply SN_bare|apply SN_port]; auto.
Qed.

(** ** Server names: sound and complete *)
Theorem sn_sound s : validate_server_name s = Ok tt -> ServerName false s.
Proof. intros H. now apply ruma_sn_spec, sn_ok_ruma. Qed.

Theorem sn_sound_bounded s : validate_server_name s = Ok tt -> ~ DnsLonger255 s -> ServerName true s.
Proof.
  intros H Hn. apply sn_ok_ruma in H.
  assert (Hh : forall h, RumaHost h -> forall r, s = h ++ r -> Hostname true h).
  { intros h [a H6 _|h0 Hne Hf] r E.
    - apply Host_v6. now apply ipv6_from_str_iff.
    - apply Host_dns. rewrite forallb_host_dns in Hf. apply forallb_all_in in Hf. repeat split; auto.
      intros _. unfold fits255. destruct (Nat.le_gt_cases (List.length h0) 255) as [|Hgt]; [assumption|].
      exfalso. apply Hn. exists h0, r. split; [exact E|]. split; [exact Hf|exact Hgt]. }
  destruct H as [h Hr|h p Hr Hp].
  - apply SN_bare. apply (Hh h Hr []). now rewrite app_nil_r.
  - apply SN_port; [now apply (Hh h Hr (58 :: p))|]. now apply valid_port_iff in Hp as [Hp _].
Qed.

Theorem sn_complete b s : ServerName b s -> ~ PortAbove65535 s -> validate_server_name s = Ok tt.
Proof.
  intros H Hn. apply ruma_sn_ok; [apply ascii_Utf8; now apply (ServerName_ascii b)|now apply (spec_sn_ruma b)].
Qed.

(** ** sigil localpart ":" server name *)
Lemma local_ok_iff l : local_ok l = true <-> ~ In 58 l /\ ~ In 0 l.
Proof.
  unfold local_ok. rewrite forallb_forall. split.
  - intros H. split; intros Hin; specialize (H _ Hin); discriminate.
  - intros [H58 H0] x Hx. destruct (N.eqb_spec x 58) as [->|]; [contradiction|].
    destruct (N.eqb_spec x 0) as [->|]; [contradiction|reflexivity].
Qed.

Lemma PortAbove_suffix a s : PortAbove65535 s -> PortAbove65535 (a ++ s).
Proof. intros (h & p & -> & Hp & Hv). exists (a ++ h), p. now rewrite <- app_assoc. Qed.

Section LocalServerSpec.
  Variable sigil : N.
  Hypothesis sigil_ascii : sigil < 128.
  Hypothesis sigil_not_colon : sigil <> 58.

  Theorem sls_sound s : validate_sigil_local_server sigil s = Ok tt -> LocalServerId true sigil s.
  Proof.
    intros H. apply (sls_ok_shape sigil sigil_ascii sigil_not_colon) in H as (l & r & -> & H58 & H0 & Hr & Hl).
    assert (Hlen : fits255 (sigil :: l ++ 58 :: r)) by (apply len_le; exact Hl).
    constructor; [now apply local_ok_iff| |exact Hlen].
    apply ServerName_upgrade; [now apply ruma_sn_spec|].
    unfold fits255 in Hlen. cbn [List.length] in Hlen. rewrite app_length in Hlen. cbn [List.length] in Hlen. lia.
  Qed.

  Theorem sls_complete b s :
    valid_utf8 s = true -> LocalServerId b sigil s -> ~ PortAbove65535 s ->
    validate_sigil_local_server sigil s = Ok tt.
  Proof.
    intros Hu H. revert Hu. destruct H as [l sn Hl Hsn Hf]. intros Hu Hn.
    apply valid_utf8_Utf8 in Hu. apply local_ok_iff in Hl as [H58 H0].
    apply (shape_sls_ok sigil sigil_ascii sigil_not_colon); auto.
    - apply (spec_sn_ruma b); [exact Hsn|]. intros Hp. apply Hn.
      replace (sigil :: l ++ 58 :: sn) with ((sigil :: l ++ [58]) ++ sn) by (cbn [app]; now rewrite <- app_assoc).
      now apply PortAbove_suffix.
    - apply (len_le _ 255). exact Hf.
  Qed.
End LocalServerSpec.

Definition lt64 : 64 < 128 := eq_refl.
Definition lt35 : 35 < 128 := eq_refl.
Definition lt36 : 36 < 128 := eq_refl.
Lemma ne64 : 64 <> 58. Proof. discriminate. Qed.
Lemma ne35 : 35 <> 58. Proof. discriminate. Qed.
Lemma ne36 : 36 <> 58. Proof. discriminate. Qed.

(** ** User ids and room aliases *)
Theorem user_id_sound s : validate_user_id s = Ok tt -> UserId true s.
Proof. apply (sls_sound 64 lt64 ne64). Qed.
Theorem user_id_complete b s :
  valid_utf8 s = true -> UserId b s -> ~ PortAbove65535 s -> validate_user_id s = Ok tt.
Proof. apply (sls_complete 64 lt64 ne64). Qed.
Theorem room_alias_sound s : validate_room_alias_id s = Ok tt -> RoomAliasId true s.
Proof. apply (sls_sound 35 lt35 ne35). Qed.
Theorem room_alias_complete b s :
  valid_utf8 s = true -> RoomAliasId b s -> ~ PortAbove65535 s -> validate_room_alias_id s = Ok tt.
Proof. apply (sls_complete 35 lt35 ne35). Qed.

(** ** Room ids *)
Lemma no_nul_iff r : no_nul r = true <-> ~ In 0 r.
Proof.
  unfold no_nul. rewrite forallb_forall. split.
  - intros H Hin. specialize (H _ Hin). discriminate.
  - intros H x Hx. destruct (N.eqb_spec x 0) as [->|]; [contradiction|reflexivity].
Qed.

Theorem room_id_iff s : validate_room_id s = Ok tt <-> RoomId s.
Proof.
  rewrite room_id_ok. unfold RoomId. split.
  - intros ((t & ->) & Hl & H0). exists t. split; [reflexivity|]. split.
    + apply no_nul_iff. intros Hin. apply H0. now right.
    + now apply (len_le _ 255).
  - intros (r & -> & Hn & Hl). split; [eauto|]. split; [now apply (len_le _ 255)|].
    apply no_nul_iff in Hn. intros [E|Hin]; [discriminate|auto].
Qed.

(** ** Event ids *)
Theorem event_id_sound s : validate_event_id s = Ok tt -> EventId true s.
Proof.
  intros H. apply event_id_ok_shape in H as (H0 & Hl & [[H58 (t & ->)]|(l & r & -> & H58 & Hr)]).
  - apply EI_opaque.
    + apply local_ok_iff. split; intros Hin; [apply H58|apply H0]; now right.
    + now apply (len_le _ 255).
  - apply EI_server. constructor.
    + apply local_ok_iff. split; [exact H58|]. intros Hin. apply H0. right. apply in_or_app. now left.
    + apply ServerName_upgrade; [now apply ruma_sn_spec|].
      apply (len_le _ 255) in Hl. cbn [List.length] in Hl. rewrite app_length in Hl. cbn [List.length] in Hl. lia.
    + now apply (len_le _ 255).
Qed.

Theorem event_id_complete b s :
  valid_utf8 s = true -> EventId b s -> ~ PortAbove65535 s -> validate_event_id s = Ok tt.
Proof.
  intros Hu H. revert Hu. destruct H as [r Hl Hf|s0 [l sn Hl Hsn Hf]]; intros Hu Hn.
  - apply local_ok_iff in Hl as [H58 H0]. apply shape_event_id_opaque.
    + intros [E|Hin]; [discriminate|auto].
    + intros [E|Hin]; [discriminate|auto].
    + now apply (len_le _ 255).
  - apply valid_utf8_Utf8 in Hu. apply local_ok_iff in Hl as [H58 H0]. apply shape_event_id_server; auto.
    + intros [E|Hin]; [discriminate|]. apply in_app_or in Hin as [Hin|[E|Hin]]; [auto|discriminate|].
      revert Hin. apply (ServerName_no b); auto.
    + apply (spec_sn_ruma b); [exact Hsn|]. intros Hp. apply Hn.
      replace (36 :: l ++ 58 :: sn) with ((36 :: l ++ [58]) ++ sn) by (cbn [app]; now rewrite <- app_assoc).
      now apply PortAbove_suffix.
    + now apply (len_le _ 255).
Qed.

(** ** Room id or alias *)
Theorem room_or_alias_sound s : validate_room_or_alias_id s = Ok tt -> RoomOrAliasId true s.
Proof.
  intros H. apply room_or_alias_ok in H as [H|H]; [left; now apply room_id_iff|right; now apply room_alias_sound].
Qed.

Theorem room_or_alias_complete b s :
  valid_utf8 s = true -> RoomOrAliasId b s -> ~ PortAbove65535 s -> validate_room_or_alias_id s = Ok tt.
Proof.
  intros Hu [H|H] Hn; apply room_or_alias_ok; [left; now apply room_id_iff|right; now apply (room_alias_complete b)].
Qed.

(** ** Strict user ids *)
Lemma forallb_strict l : forallb strict_byte l = forallb strict_char l.
Proof. apply forallb_ext_eq, strict_byte_char. Qed.

Theorem strict_sound s : validate_user_id_strict s = Ok tt -> UserIdStrict true s.
Proof.
  intros H. apply strict_ok_shape in H as (l & r & -> & Hne & Hf & Hr & Hl).
  assert (Hlen : fits255 (64 :: l ++ 58 :: r)) by (now apply (len_le _ 255)).
  constructor; [exact Hne| | |exact Hlen].
  - apply forallb_all_in. now rewrite <- forallb_strict.
  - apply ServerName_upgrade; [now apply ruma_sn_spec|].
    unfold fits255 in Hlen. cbn [List.length] in Hlen. rewrite app_length in Hlen. cbn [List.length] in Hlen. lia.
Qed.

Theorem strict_complete b s :
  UserIdStrict b s -> ~ PortAbove65535 s -> validate_user_id_strict s = Ok tt.
Proof.
  intros [l sn Hne Hst Hsn Hf] Hn. apply forallb_all_in in Hst. rewrite <- forallb_strict in Hst.
  apply shape_strict_ok; auto.
  - apply U_1; [lia|]. apply Utf8_app.
    + apply ascii_Utf8. rewrite forallb_forall in Hst. apply Forall_forall. intros x Hx. specialize (Hst _ Hx).
      unfold strict_byte, is_digit, is_lower in Hst. lia.
    + apply U_1; [lia|]. apply ascii_Utf8. now apply (ServerName_ascii b).
  - apply (spec_sn_ruma b); [exact Hsn|]. intros Hp. apply Hn.
    replace (64 :: l ++ 58 :: sn) with ((64 :: l ++ [58]) ++ sn) by (cbn [app]; now rewrite <- app_assoc).
    now apply PortAbove_suffix.
  - now apply (len_le _ 255).
Qed.

(** ** Key ids *)
Definition kk (k : key_name_kind) : key_kind :=
  match k with KAny => AnyName | KSigningVersion => SigningVersion | KBase64 => Base64Key end.

Lemma key_name_iff k n : validate_key_name k n = Ok tt <-> key_name_b (kk k) n = true.
Proof.
  destruct k; cbn [validate_key_name kk key_name_b].
  - split; reflexivity.
  - rewrite signing_version_ok, andb_true_iff, nonempty_ne.
    replace (forallb version_char n) with (forallb (fun b => is_alnum b || (b =? 95)) n); [tauto|].
    apply forallb_ext_eq. intros x.
    unfold version_char, is_alnum, is_digit, is_lower, is_upper, ALPHA, UPALPHA, LOALPHA, DIGIT. lia.
  - rewrite base64_key_ok, andb_true_iff, nonempty_ne.
    replace (forallb base64_char n) with (forallb (fun b => is_alnum b || (b =? 43) || (b =? 47) || (b =? 61)) n); [tauto|].
    apply forallb_ext_eq. intros x.
    unfold base64_char, is_alnum, is_digit, is_lower, is_upper, ALPHA, UPALPHA, LOALPHA, DIGIT. lia.
Qed.

Lemma no_colon_iff a : no_colon a = true <-> ~ In 58 a.
Proof.
  unfold no_colon. rewrite forallb_forall. split.
  - intros H Hin. specialize (H _ Hin). discriminate.
  - intros H x Hx. destruct (N.eqb_spec x 58) as [->|]; [contradiction|reflexivity].
Qed.

Theorem key_id_sound k s i : validate_key_id k s = Ok i -> KeyId (kk k) s.
Proof.
  intros H. apply key_id_ok_shape in H as (a & n & -> & Hne & H58 & Hk & _).
  constructor; [exact Hne|now apply no_colon_iff|now apply key_name_iff].
Qed.

Theorem key_id_complete k s : valid_utf8 s = true -> KeyId (kk k) s -> exists i, validate_key_id k s = Ok i.
Proof.
  intros Hu H. revert Hu. destruct H as [a n Hne Hc Hk]. intros Hu. apply valid_utf8_Utf8 in Hu.
  exists (len a). apply shape_key_id_ok; auto; [now apply no_colon_iff|now apply key_name_iff].
Qed.

(** ** MXC URIs *)
Lemma forallb_media m : forallb media_byte_ok m = forallb media_char m.
Proof. apply forallb_ext_eq, media_byte_char. Qed.

Theorem mxc_sound s idx : validate_mxc s = Ok idx -> MxcUri false s.
Proof.
  intros H. apply mxc_ok_shape in H as (sn & m & -> & _ & Hne & Hf & Hr & _).
  constructor; [now apply ruma_sn_spec|exact Hne|]. apply forallb_all_in. now rewrite <- forallb_media.
Qed.

Theorem mxc_sound_bounded s idx :
  validate_mxc s = Ok idx -> (forall sn m, s = mxc_prefix ++ sn ++ 47 :: m -> ~ DnsLonger255 sn) -> MxcUri true s.
Proof.
  intros H Hn. apply mxc_ok_shape in H as (sn & m & -> & _ & Hne & Hf & Hr & _).
  constructor; [|exact Hne|apply forallb_all_in; now rewrite <- forallb_media].
  apply sn_sound_bounded; [|now apply (Hn sn m)].
  apply ruma_sn_ok; [|exact Hr]. apply ascii_Utf8. apply (ServerName_ascii false). now apply ruma_sn_spec.
Qed.

Theorem mxc_complete b sn m :
  ServerName b sn -> ~ PortAbove65535 sn -> m <> [] -> all_in media_char m ->
  validate_mxc (mxc_prefix ++ sn ++ 47 :: m) = Ok (len sn + 6) /\
  mxc_parts (mxc_prefix ++ sn ++ 47 :: m) = Ok (sn, m).
Proof.
  intros Hsn Hn Hne Hm. apply forallb_all_in in Hm. rewrite <- forallb_media in Hm.
  assert (Hu : Utf8 (mxc_prefix ++ sn ++ 47 :: m)).
  { apply Utf8_app; [apply ascii_Utf8; repeat constructor|]. apply Utf8_app.
    - apply ascii_Utf8. now apply (ServerName_ascii b).
    - apply U_1; [lia|]. apply ascii_Utf8. rewrite forallb_forall in Hm. apply Forall_forall. intros x Hx.
      specialize (Hm _ Hx). unfold media_byte_ok, is_alnum, is_digit, is_lower, is_upper in Hm. lia. }
  assert (H47 : ~ In 47 sn) by (apply (ServerName_no b); auto).
  assert (Hr : RumaSN sn) by (now apply (spec_sn_ruma b)).
  split; [now apply shape_mxc_ok|now apply mxc_parts_ok].
Qed.

(** ** Room versions, client secrets, key names *)
Lemma alnum_ascii (p : N -> bool) s :
  (forall c, p c = true -> c < 128) -> forallb p s = true -> Forall (fun c => c < 128) s.
Proof. intros Hp H. rewrite forallb_forall in H. apply Forall_forall. intros x Hx. now apply Hp, H. Qed.

Theorem room_version_iff s : validate_room_version_id s = Ok tt <-> room_version_b s = true.
Proof.
  rewrite room_version_ok. unfold room_version_b. rewrite !andb_true_iff, nonempty_ne, Nat.leb_le.
  replace (forallb version_id_char s) with (forallb (fun b => is_alnum b || (b =? 46) || (b =? 45)) s).
  2:{ apply forallb_ext_eq. intros x.
      unfold version_id_char, is_alnum, is_digit, is_lower, is_upper, ALPHA, UPALPHA, LOALPHA, DIGIT. lia. }
  assert (Hc : forallb (fun b => is_alnum b || (b =? 46) || (b =? 45)) s = true -> char_count s = len s).
  { intros H. apply char_count_ascii. eapply alnum_ascii; [|exact H].
    intros c Hc. unfold is_alnum, is_digit, is_lower, is_upper in Hc. lia. }
  split.
  - intros (Hne & Hl & Hf). rewrite (Hc Hf) in Hl. repeat split; auto. now apply (len_le _ 32).
  - intros [[Hne Hl] Hf]. rewrite (Hc Hf). repeat split; auto. now apply (len_le _ 32).
Qed.

Theorem client_secret_iff s : validate_client_secret s = Ok tt <-> client_secret_b s = true.
Proof.
  rewrite client_secret_ok. unfold client_secret_b, fits255_b. rewrite !andb_true_iff, nonempty_ne, Nat.leb_le.
  replace (forallb secret_char s) with (forallb (fun b => is_alnum b || (b =? 46) || (b =? 61) || (b =? 95) || (b =? 45)) s).
  2:{ apply forallb_ext_eq. intros x.
      unfold secret_char, is_alnum, is_digit, is_lower, is_upper, ALPHA, UPALPHA, LOALPHA, DIGIT. lia. }
  rewrite (len_le s 255). tauto.
Qed.

Theorem base64_key_iff s : validate_base64_public_key s = Ok tt <-> key_name_b Base64Key s = true.
Proof. exact (key_name_iff KBase64 s). Qed.
Theorem signing_version_iff s : validate_signing_key_version s = Ok tt <-> key_name_b SigningVersion s = true.
Proof. exact (key_name_iff KSigningVersion s). Qed.

(** User-id localparts: the classification of Spec.v. *)
Theorem lfc_classify l :
  localpart_fully_conforming l =
  match classify_local l with
  | 0 => Ok true | 1 => Ok false | 2 => Err E_InvalidCharacters | _ => Err E_Empty
  end.
Proof.
  rewrite lfc_eq. unfold classify_local. destruct l as [|x l]; [reflexivity|]. cbn [is_empty nonempty negb].
  rewrite forallb_strict. destruct (forallb strict_char (x :: l)); [reflexivity|].
  replace (forallb hist_byte (x :: l)) with (forallb historical_char (x :: l))
    by (symmetry; apply forallb_ext_eq, hist_byte_char).
  destruct (forallb historical_char (x :: l)); reflexivity.
Qed.

(** * Accessors: total on accepted identifiers, and they recompose to the identifier *)
Theorem user_accessors sigil s :
  sigil < 128 -> sigil <> 58 -> valid_utf8 s = true -> validate_sigil_local_server sigil s = Ok tt ->
  exists l sn, id_localpart s = Ok l /\ id_server_name s = Ok sn /\ s = sigil :: l ++ 58 :: sn /\
               validate_server_name sn = Ok tt.
Proof.
  intros Ha Hc Hu H. apply valid_utf8_Utf8 in Hu.
  apply (sls_ok_shape sigil Ha Hc) in H as (l & r & -> & H58 & H0 & Hr & Hl).
  destruct (sls_accessors sigil Ha Hc l r Hu H58) as [E1 E2]. exists l, r. repeat split; auto.
  apply ruma_sn_ok; [|exact Hr].
  apply (Utf8_tail _ _ Hu) in Ha. now destruct (Utf8_split _ Ha l 58 r eq_refl); [lia|].
Qed.

Theorem user_historical_flags s :
  valid_utf8 s = true -> validate_user_id s = Ok tt ->
  exists l, id_localpart s = Ok l /\ user_fully_conforming s = localpart_fully_conforming l /\
            forall p, user_fully_conforming s <> Panic p.
Proof.
  intros Hu H. apply valid_utf8_Utf8 in Hu.
  apply (sls_ok_shape 64 lt64 ne64) in H as (l & r & -> & H58 & H0 & Hr & Hl).
  destruct (sls_accessors 64 lt64 ne64 l r Hu H58) as [E1 _]. exists l. split; [exact E1|].
  rewrite (user_fully_conforming_ok l r Hu H58 Hl). split; [reflexivity|]. intros p. apply lfc_total.
Qed.

Theorem event_accessors s :
  valid_utf8 s = true -> validate_event_id s = Ok tt ->
  exists l, event_localpart s = Ok l /\
    ((event_server_name s = Ok None /\ s = 36 :: l) \/
     (exists sn, event_server_name s = Ok (Some sn) /\ s = 36 :: l ++ 58 :: sn /\ validate_server_name sn = Ok tt)).
Proof.
  intros Hu H. apply valid_utf8_Utf8 in Hu.
  apply event_id_ok_shape in H as (H0 & Hl & [[H58 (t & ->)]|(l & r & -> & H58 & Hr)]).
  - destruct (event_accessors_opaque t Hu H58) as [E1 E2]. exists t. split; [exact E1|]. left. auto.
  - destruct (event_accessors_server l r Hu H58) as [E1 E2]. exists l. split; [exact E1|]. right.
    exists r. repeat split; auto. apply ruma_sn_ok; [|exact Hr].
    assert (Hu' : Utf8 (l ++ 58 :: r)) by (apply (Utf8_tail 36); [exact Hu|lia]).
    now destruct (Utf8_split _ Hu' l 58 r eq_refl); [lia|].
Qed.

Theorem roa_accessor s :
  valid_utf8 s = true ->
  roa_server_name s = Ok None \/
  exists l sn, roa_server_name s = Ok (Some sn) /\ s = l ++ 58 :: sn /\ ~ In 58 l /\ validate_server_name sn = Ok tt.
Proof.
  intros Hu. apply valid_utf8_Utf8 in Hu.
  destruct (roa_server_name_spec s Hu) as [[_ E]|(l & r & -> & H58 & [[Hv E]|[_ E]])]; auto.
  right. exists l, r. auto.
Qed.

Lemma bool_eq_iff (a b : bool) : (a = true <-> b = true) -> a = b.
Proof.
  destruct a, b; intros [H1 H2]; try reflexivity.
  - symmetry. now apply H1.
  - now apply H2.
Qed.

Lemma ip_literal_model h : ipv4_from_str h || head_is 91 h = ip_literal_b h.
Proof.
  unfold ip_literal_b. f_equal.
  - apply bool_eq_iff. rewrite ipv4_from_str_iff, ipv4_b_iff. tauto.
  - unfold head_is, strip. destruct h as [|x h]; [reflexivity|]. destruct (x =? 91); reflexivity.
Qed.

Theorem server_accessors s :
  validate_server_name s = Ok tt ->
  exists h po, sn_host s = Ok h /\ sn_port s = Ok po /\ sn_is_ip_literal s = Ok (ip_literal_b h) /\
               server_parts_ok s h po /\ Hostname false h.
Proof.
  intros H. apply sn_ok_ruma in H. destruct (ruma_sn_parts _ H) as (h & p & Hp).
  destruct (sn_port_ok _ _ _ Hp) as [Eport Hsome].
  exists h, (match p with None => None | Some t => u16_from_str t end).
  split; [now apply (sn_host_ok s h p)|]. split; [exact Eport|].
  split; [rewrite (sn_is_ip_literal_ok _ _ _ Hp); now rewrite ip_literal_model|].
  destruct Hp as [h Hh|h t Hh Ht].
  - split; [reflexivity|now apply ruma_host_spec].
  - split; [|now apply ruma_host_spec].
    pose proof Ht as Hv. apply valid_port_iff in Hv as [HP Hle].
    apply valid_port_inv in Ht as (Hd & _ & Hlen).
    rewrite u16_from_str_digits by (auto; intros ->; cbn in Hlen; lia).
    replace (port_value t <=? 65535) with true by lia. cbn [server_parts_ok].
    exists t. auto.
Qed.

Theorem key_accessors_thm k s i :
  valid_utf8 s = true -> validate_key_id k s = Ok i ->
  exists a n, key_algorithm s = Ok a /\ key_name k s = Ok n /\ s = a ++ 58 :: n /\ i = len a.
Proof.
  intros Hu H. apply valid_utf8_Utf8 in Hu.
  apply key_id_ok_shape in H as (a & n & -> & Hne & H58 & Hk & ->).
  destruct (key_accessors k a n Hu H58 Hk) as [E1 E2]. exists a, n. auto.
Qed.

Theorem mxc_accessors s idx :
  valid_utf8 s = true -> validate_mxc s = Ok idx ->
  exists sn m, mxc_parts s = Ok (sn, m) /\ s = mxc_prefix ++ sn ++ 47 :: m /\ validate_server_name sn = Ok tt.
Proof.
  intros Hu H. apply valid_utf8_Utf8 in Hu.
  apply mxc_ok_shape in H as (sn & m & -> & H47 & Hne & Hf & Hr & _).
  exists sn, m. split; [now apply mxc_parts_ok|]. split; [reflexivity|].
  apply ruma_sn_ok; [|exact Hr]. apply ascii_Utf8. apply (ServerName_ascii false). now apply ruma_sn_spec.
Qed.

Theorem mxc_parts_total s : valid_utf8 s = true -> forall p, mxc_parts s <> Panic p.
Proof.
  intros Hu p. destruct (validate_mxc s) as [idx|e|q] eqn:E.
  - destruct (mxc_accessors s idx Hu E) as (sn & m & E' & _). rewrite E'. discriminate.
  - unfold mxc_parts. rewrite E. discriminate.
  - exfalso. apply valid_utf8_Utf8 in Hu. exact (mxc_total s Hu _ E).
Qed.

(** * Totality of every validator on every Rust string *)
Theorem validate_total_all s :
  valid_utf8 s = true ->
  (forall p, validate_user_id s <> Panic p) /\
  (forall p, validate_room_id s <> Panic p) /\
  (forall p, validate_room_alias_id s <> Panic p) /\
  (forall p, validate_event_id s <> Panic p) /\
  (forall p, validate_room_or_alias_id s <> Panic p) /\
  (forall p, validate_server_name s <> Panic p) /\
  (forall k p, validate_key_id k s <> Panic p) /\
  (forall p, validate_mxc s <> Panic p) /\
  (forall p, mxc_parts s <> Panic p) /\
  (forall p, validate_user_id_strict s <> Panic p) /\
  (forall p, localpart_fully_conforming s <> Panic p) /\
  (forall p, validate_room_version_id s <> Panic p) /\
  (forall p, validate_client_secret s <> Panic p) /\
  (forall k p, validate_key_name k s <> Panic p).
Proof.
  intros Hv. pose proof (valid_utf8_Utf8 s Hv) as Hu. repeat split.
  - apply (sls_total 64 lt64 ne64 s Hu).
  - intros p. apply room_id_total.
  - apply (sls_total 35 lt35 ne35 s Hu).
  - apply (event_id_total s Hu).
  - apply (room_or_alias_total s Hu).
  - apply (sn_total s Hu).
  - intros k. apply (key_id_total k s Hu).
  - apply (mxc_total s Hu).
  - apply (mxc_parts_total s Hv).
  - apply (strict_total s Hu).
  - intros p. apply lfc_total.
  - intros p. apply room_version_total.
  - intros p. apply client_secret_total.
  - intros k p. apply key_name_total.
Qed.

(** * The record of what was refuted before the repairs, and the witnesses of the open findings *)
Definition pad (c : N) (n : nat) : str := repeat c n.

Lemma legacy_mxc_panics :
  let w := mxc_prefix ++ pad 97 250 ++ s!"/x" in
  valid_utf8 w = true /\ Legacy.validate_mxc w = Panic 3 /\ validate_mxc w = Ok 256.
Proof. vm_compute. repeat split. Qed.

Lemma legacy_mxc_parts_panics :
  let w := mxc_prefix ++ pad 97 251 ++ s!"/x" in
  valid_utf8 w = true /\ Legacy.validate_mxc w = Ok 1 /\ is_panic (Legacy.mxc_parts w) = true /\
  mxc_parts w = Ok (pad 97 251, s!"x").
Proof. vm_compute. repeat split. Qed.

Lemma legacy_key_id_panics :
  let w := 97 :: 195 :: 169 :: pad 97 254 ++ s!":x" in
  valid_utf8 w = true /\ Legacy.validate_key_id KAny w = Panic 1 /\ validate_key_id KAny w = Ok 257.
Proof. vm_compute. repeat split. Qed.

Lemma legacy_key_id_missing_colon :
  let w := pad 97 256 ++ s!":x" in
  Legacy.validate_key_id KAny w = Err E_MissingColon /\ validate_key_id KAny w = Ok 256.
Proof. vm_compute. repeat split. Qed.

Lemma legacy_server_name_unsound :
  Legacy.validate_server_name s!":80" = Ok tt /\ server_name_b false s!":80" = false /\
  Legacy.validate_server_name s!"example.com:+80" = Ok tt /\ server_name_b false s!"example.com:+80" = false /\
  Legacy.validate_server_name s!"example.com:000080" = Ok tt /\ server_name_b false s!"example.com:000080" = false /\
  validate_server_name s!":80" = Err E_InvalidServerName /\
  validate_server_name s!"example.com:+80" = Err E_InvalidServerName /\
  validate_server_name s!"example.com:000080" = Err E_InvalidServerName.
Proof. vm_compute. repeat split. Qed.

Lemma legacy_event_id_unsound :
  let w := 36 :: pad 97 300 in
  Legacy.validate_event_id w = Ok tt /\ event_id_b true w = false /\
  Legacy.validate_event_id [36; 0] = Ok tt /\ event_id_b true [36; 0] = false.
Proof. vm_compute. repeat split. Qed.

Lemma legacy_parse_with_server_name_unaccepted :
  let built := 64 :: pad 120 300 ++ s!":a.b" in
  Legacy.parse_with_server_name (pad 120 300) s!"a.b" = Ok built /\
  validate_user_id built = Err E_MaximumLengthExceeded /\
  parse_with_server_name (pad 120 300) s!"a.b" = Err E_MaximumLengthExceeded.
Proof. vm_compute. repeat split. Qed.

(** Open findings: the classes the theorems are stated modulo, each with a witness. *)
Lemma finding_port_above_65535 :
  let w := s!"example.com:65536" in
  ServerName true w /\ PortAbove65535 w /\ validate_server_name w = Err E_InvalidServerName.
Proof.
  cbv zeta. split; [apply server_name_b_iff; vm_compute; reflexivity|].
  split; [apply port_above_b_iff; vm_compute; reflexivity|vm_compute; reflexivity].
Qed.

Lemma finding_dns_longer_255 :
  let w := pad 97 256 in
  validate_server_name w = Ok tt /\ DnsLonger255 w /\ ~ ServerName true w.
Proof.
  cbv zeta. split; [vm_compute; reflexivity|]. split.
  - exists (pad 97 256), []. split; [now rewrite app_nil_r|]. split.
    + apply forallb_all_in. vm_compute. reflexivity.
    + unfold pad. rewrite repeat_length. lia.
  - intros H. apply server_name_b_iff in H. vm_compute in H. discriminate.
Qed.

Lemma finding_from_parts_algorithm :
  validate_key_id KAny (key_from_parts [] s!"DEVICE") = Err E_MissingColon /\
  validate_key_id KSigningVersion (key_from_parts s!"a:b" s!"1") = Err E_InvalidCharacters.
Proof. vm_compute. split; reflexivity. Qed.

Lemma finding_new_long_server_name :
  let sn := pad 97 242 in
  validate_server_name sn = Ok tt /\
  validate_user_id (id_new 64 (pad 97 12) sn) = Err E_MaximumLengthExceeded.
Proof. vm_compute. split; reflexivity. Qed.

(** * Constructors, in the form of Properties.v *)
Theorem constructors_all :
  (forall id sn built, parse_with_server_name id sn = Ok built -> validate_user_id built = Ok tt) /\
  (forall id sn, valid_utf8 id = true -> valid_utf8 sn = true ->
     forall p, parse_with_server_name id sn <> Panic p) /\
  (forall id sn, valid_utf8 id = true -> validate_server_name sn = Ok tt ->
     head_is 64 id = false -> ~ In 58 id -> ~ In 0 id -> len (64 :: id ++ 58 :: sn) <= 255 ->
     parse_with_server_name id sn = Ok (64 :: id ++ 58 :: sn)) /\
  (forall k alg name, valid_utf8 alg = true -> valid_utf8 name = true ->
     alg <> [] -> ~ In 58 alg -> validate_key_name k name = Ok tt ->
     validate_key_id k (key_from_parts alg name) = Ok (len alg)) /\
  (forall lp sn, Forall (fun c => is_alnum c = true) lp -> validate_server_name sn = Ok tt ->
     len (id_new 64 lp sn) <= 255 -> validate_user_id (id_new 64 lp sn) = Ok tt) /\
  (forall lp sn, Forall (fun c => is_alnum c = true) lp -> validate_server_name sn = Ok tt ->
     len (id_new 36 lp sn) <= 255 -> validate_event_id (id_new 36 lp sn) = Ok tt) /\
  (forall lp sn, Forall (fun c => is_alnum c = true) lp -> validate_server_name sn = Ok tt ->
     len (id_new 33 lp sn) <= 255 -> validate_room_id (id_new 33 lp sn) = Ok tt).
Proof.
  assert (Hsn : forall sn, validate_server_name sn = Ok tt -> RumaSN sn /\ Utf8 sn /\ ~ In 0 sn).
  { intros sn H. pose proof (sn_sound sn H) as Hs. split; [now apply sn_ok_ruma|].
    split; [apply ascii_Utf8; now apply (ServerName_ascii false)|apply (ServerName_no false); auto]. }
  repeat split.
  - apply pwsn_accepted.
  - intros id sn Hi Hs. apply pwsn_total; now apply valid_utf8_Utf8.
  - intros id sn Hi Hs Hh H58 H0 Hl. destruct (Hsn sn Hs) as (Hr & Hu & _).
    apply pwsn_complete; auto. now apply valid_utf8_Utf8.
  - intros k alg name Ha Hn Hne H58 Hk. apply from_parts_accepted; auto; now apply valid_utf8_Utf8.
  - intros lp sn Hlp Hs Hl. destruct (Hsn sn Hs) as (Hr & Hu & _). now apply new_user_accepted.
  - intros lp sn Hlp Hs Hl. destruct (Hsn sn Hs) as (Hr & Hu & H0). now apply new_event_accepted.
  - intros lp sn Hlp Hs Hl. destruct (Hsn sn Hs) as (_ & _ & H0). apply new_room_accepted; auto.
    intros Hin. rewrite Forall_forall in Hlp. specialize (Hlp _ Hin). discriminate.
Qed.

(** * The bundled statements of Properties.v *)
Theorem accept_sound_all :
  forall s,
  (validate_user_id s = Ok tt -> UserId true s) /\
  (validate_room_alias_id s = Ok tt -> RoomAliasId true s) /\
  (validate_room_id s = Ok tt -> RoomId s) /\
  (validate_event_id s = Ok tt -> EventId true s) /\
  (validate_room_or_alias_id s = Ok tt -> RoomOrAliasId true s) /\
  (validate_user_id_strict s = Ok tt -> UserIdStrict true s) /\
  (validate_server_name s = Ok tt -> ServerName false s /\ (~ DnsLonger255 s -> ServerName true s)) /\
  (forall k i, validate_key_id k s = Ok i -> KeyId (kk k) s) /\
  (forall i, validate_mxc s = Ok i ->
     MxcUri false s /\
     ((forall sn m, s = mxc_prefix ++ sn ++ 47 :: m -> ~ DnsLonger255 sn) -> MxcUri true s)) /\
  (validate_room_version_id s = Ok tt -> room_version_b s = true) /\
  (validate_client_secret s = Ok tt -> client_secret_b s = true) /\
  (validate_base64_public_key s = Ok tt -> key_name_b Base64Key s = true) /\
  (validate_signing_key_version s = Ok tt -> key_name_b SigningVersion s = true).
Proof.
  intros s. repeat split.
  - apply user_id_sound. - apply room_alias_sound. - apply room_id_iff. - apply event_id_sound.
  - apply room_or_alias_sound. - apply strict_sound. - now apply sn_sound. - now apply sn_sound_bounded.
  - intros k i. apply key_id_sound. - eapply mxc_sound; eassumption. - eapply mxc_sound_bounded; eassumption.
  - apply room_version_iff. - apply client_secret_iff. - apply base64_key_iff. - apply signing_version_iff.
Qed.

Theorem accept_complete_all :
  forall b s, valid_utf8 s = true -> ~ PortAbove65535 s ->
  (UserId b s -> validate_user_id s = Ok tt) /\
  (RoomAliasId b s -> validate_room_alias_id s = Ok tt) /\
  (RoomId s -> validate_room_id s = Ok tt) /\
  (EventId b s -> validate_event_id s = Ok tt) /\
  (RoomOrAliasId b s -> validate_room_or_alias_id s = Ok tt) /\
  (UserIdStrict b s -> validate_user_id_strict s = Ok tt) /\
  (ServerName b s -> validate_server_name s = Ok tt) /\
  (forall k, KeyId (kk k) s -> exists i, validate_key_id k s = Ok i) /\
  (room_version_b s = true -> validate_room_version_id s = Ok tt) /\
  (client_secret_b s = true -> validate_client_secret s = Ok tt) /\
  (key_name_b Base64Key s = true -> validate_base64_public_key s = Ok tt) /\
  (key_name_b SigningVersion s = true -> validate_signing_key_version s = Ok tt).
Proof.
  intros b s Hu Hn. repeat split.
  - intros H. now apply (user_id_complete b). - intros H. now apply (room_alias_complete b).
  - apply room_id_iff. - intros H. now apply (event_id_complete b).
  - intros H. now apply (room_or_alias_complete b). - intros H. now apply (strict_complete b).
  - intros H. now apply (sn_complete b). - intros k H. now apply key_id_complete.
  - apply room_version_iff. - apply client_secret_iff. - apply base64_key_iff. - apply signing_version_iff.
Qed.

Theorem accessors_recompose_all :
  forall s, valid_utf8 s = true ->
  (* user ids ([localpart], [server_name], the historical/strict classification) *)
  (validate_user_id s = Ok tt ->
     exists l sn, id_localpart s = Ok l /\ id_server_name s = Ok sn /\ s = 64 :: l ++ 58 :: sn /\
                  validate_server_name sn = Ok tt /\
                  user_fully_conforming s = localpart_fully_conforming l /\
                  localpart_fully_conforming l =
                    match classify_local l with
                    | 0 => Ok true | 1 => Ok false | 2 => Err E_InvalidCharacters | _ => Err E_Empty
                    end) /\
  (* room aliases ([alias], [server_name]) *)
  (validate_room_alias_id s = Ok tt ->
     exists l sn, id_localpart s = Ok l /\ id_server_name s = Ok sn /\ s = 35 :: l ++ 58 :: sn /\
                  validate_server_name sn = Ok tt) /\
  (* event ids ([localpart], [server_name]) *)
  (validate_event_id s = Ok tt ->
     exists l, event_localpart s = Ok l /\
       ((event_server_name s = Ok None /\ s = 36 :: l) \/
        (exists sn, event_server_name s = Ok (Some sn) /\ s = 36 :: l ++ 58 :: sn /\
                    validate_server_name sn = Ok tt))) /\
  (* room ids and room-or-alias ids ([server_name]): the part after the first colon, when valid *)
  (roa_server_name s = Ok None \/
   exists l sn, roa_server_name s = Ok (Some sn) /\ s = l ++ 58 :: sn /\ ~ In 58 l /\
                validate_server_name sn = Ok tt) /\
  (* server names ([host], [port], [is_ip_literal]) *)
  (validate_server_name s = Ok tt ->
     exists h po, sn_host s = Ok h /\ sn_port s = Ok po /\ sn_is_ip_literal s = Ok (ip_literal_b h) /\
                  server_parts_ok s h po /\ Hostname false h) /\
  (* key ids ([algorithm], [key_name]) *)
  (forall k i, validate_key_id k s = Ok i ->
     exists a n, key_algorithm s = Ok a /\ key_name k s = Ok n /\ s = a ++ 58 :: n /\ i = len a) /\
  (* MXC URIs ([parts], hence [server_name] and [media_id]) *)
  (forall i, validate_mxc s = Ok i ->
     exists sn m, mxc_parts s = Ok (sn, m) /\ s = mxc_prefix ++ sn ++ 47 :: m /\
                  validate_server_name sn = Ok tt).
Proof.
  intros s Hu. repeat split.
  - intros H. destruct (user_accessors 64 s lt64 ne64 Hu H) as (l & sn & E1 & E2 & E3 & E4).
    exists l, sn. repeat split; auto.
    + destruct (user_historical_flags s Hu H) as (l' & El & Ef & _). congruence.
    + apply lfc_classify.
  - intros H. exact (user_accessors 35 s lt35 ne35 Hu H).
  - intros H. exact (event_accessors s Hu H).
  - exact (roa_accessor s Hu).
  - intros H. exact (server_accessors s H).
  - intros k i H. exact (key_accessors_thm k s i Hu H).
  - intros i H. exact (mxc_accessors s i Hu H).
Qed.

Theorem recognisers_decide_grammar_all :
  (forall s, ipv4_b s = true <-> IPv4 s) /\
  (forall s, ipv6_b s = true <-> IPv6 s) /\
  (forall b s, hostname_b b s = true <-> Hostname b s) /\
  (forall b s, server_name_b b s = true <-> ServerName b s) /\
  (forall s, port_above_b s = true <-> PortAbove65535 s) /\
  (forall b s, user_id_b b s = true <-> UserId b s) /\
  (forall b s, room_alias_id_b b s = true <-> RoomAliasId b s) /\
  (forall s, room_id_b s = true <-> RoomId s) /\
  (forall b s, event_id_b b s = true <-> EventId b s) /\
  (forall b s, user_id_strict_b b s = true <-> UserIdStrict b s) /\
  (forall k s, key_id_b k s = true <-> KeyId k s) /\
  (forall b s, mxc_uri_b b s = true <-> MxcUri b s) /\
  (forall s h po, server_parts_b s h po = true <-> server_parts_ok s h po).
Proof.
  repeat split; try apply ipv4_b_iff; try apply ipv6_b_iff; try apply hostname_b_iff;
    try apply server_name_b_iff; try apply port_above_b_iff; try apply local_server_id_b_iff;
    try apply room_id_b_iff; try apply event_id_b_iff; try apply user_id_strict_b_iff;
    try apply key_id_b_iff; try apply mxc_uri_b_iff; try apply server_parts_b_iff.
Qed.

Theorem std_ip_parsers_meet_rfc3986_all :
  (forall s, ipv4_from_str s = true <-> IPv4 s) /\ (forall s, ipv6_from_str s = true <-> IPv6 s).
Proof. split; [exact ipv4_from_str_iff|exact ipv6_from_str_iff]. Qed.

Theorem legacy_code_refuted_all :
  (let w := mxc_prefix ++ pad 97 250 ++ s!"/x" in
   valid_utf8 w = true /\ Legacy.validate_mxc w = Panic 3 /\ validate_mxc w = Ok 256) /\
  (let w := mxc_prefix ++ pad 97 251 ++ s!"/x" in
   valid_utf8 w = true /\ Legacy.validate_mxc w = Ok 1 /\ is_panic (Legacy.mxc_parts w) = true /\
   mxc_parts w = Ok (pad 97 251, s!"x")) /\
  (let w := 97 :: 195 :: 169 :: pad 97 254 ++ s!":x" in
   valid_utf8 w = true /\ Legacy.validate_key_id KAny w = Panic 1 /\ validate_key_id KAny w = Ok 257) /\
  (let w := pad 97 256 ++ s!":x" in
   Legacy.validate_key_id KAny w = Err E_MissingColon /\ validate_key_id KAny w = Ok 256) /\
  (Legacy.validate_server_name s!":80" = Ok tt /\ server_name_b false s!":80" = false /\
   Legacy.validate_server_name s!"example.com:+80" = Ok tt /\ server_name_b false s!"example.com:+80" = false /\
   Legacy.validate_server_name s!"example.com:000080" = Ok tt /\ server_name_b false s!"example.com:000080" = false /\
   validate_server_name s!":80" = Err E_InvalidServerName /\
   validate_server_name s!"example.com:+80" = Err E_InvalidServerName /\
   validate_server_name s!"example.com:000080" = Err E_InvalidServerName) /\
  (let w := 36 :: pad 97 300 in
   Legacy.validate_event_id w = Ok tt /\ event_id_b true w = false /\
   Legacy.validate_event_id [36; 0] = Ok tt /\ event_id_b true [36; 0] = false) /\
  (let built := 64 :: pad 120 300 ++ s!":a.b" in
   Legacy.parse_with_server_name (pad 120 300) s!"a.b" = Ok built /\
   validate_user_id built = Err E_MaximumLengthExceeded /\
   parse_with_server_name (pad 120 300) s!"a.b" = Err E_MaximumLengthExceeded).
Proof.
  exact (conj legacy_mxc_panics (conj legacy_mxc_parts_panics (conj legacy_key_id_panics
        (conj legacy_key_id_missing_colon (conj legacy_server_name_unsound
        (conj legacy_event_id_unsound legacy_parse_with_server_name_unaccepted)))))).
Qed.

Theorem open_finding_witnesses_all :
  (let w := s!"example.com:65536" in
   ServerName true w /\ PortAbove65535 w /\ validate_server_name w = Err E_InvalidServerName) /\
  (let w := pad 97 256 in validate_server_name w = Ok tt /\ DnsLonger255 w /\ ~ ServerName true w) /\
  (validate_key_id KAny (key_from_parts [] s!"DEVICE") = Err E_MissingColon /\
   validate_key_id KSigningVersion (key_from_parts s!"a:b" s!"1") = Err E_InvalidCharacters) /\
  (let sn := pad 97 242 in
   validate_server_name sn = Ok tt /\
   validate_user_id (id_new 64 (pad 97 12) sn) = Err E_MaximumLengthExceeded).
Proof.
  exact (conj finding_port_above_65535 (conj finding_dns_longer_255
        (conj finding_from_parts_algorithm finding_new_long_server_name))).
Qed.
