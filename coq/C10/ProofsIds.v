(** C10.ProofsIds — the sigil identifiers (user, alias, room, event, room-or-alias), key ids,
    MXC URIs and the plain validators: acceptance characterised on the shape of the input,
    totality, accessors. *)
From Base Require Import Prelude.
From C10 Require Import Model Lemmas ProofsServer.
From Coq Require Import ZifyBool ZifyNat ZifyN.
Ltac Zify.zify_post_hook ::= Z.div_mod_to_equations.

(** ** [validate_id], [parse_id] *)
Lemma validate_id_ok s sigil :
  validate_id s sigil = Ok tt <-> (exists t, s = sigil :: t) /\ len s <= 255.
Proof.
  unfold validate_id. destruct (N.ltb_spec 255 (len s)).
  - split; [discriminate|intros [_ H']; lia].
  - destruct (head_is sigil s) eqn:E.
    + apply head_is_cons in E. split; [intros _; split; [exact E|lia]|reflexivity].
    + split; [discriminate|]. intros [H' _]. apply head_is_cons in H'. congruence.
Qed.

Lemma validate_id_total s sigil p : validate_id s sigil <> Panic p.
Proof. unfold validate_id. destruct (255 <? len s); [discriminate|]. destruct (head_is sigil s); discriminate. Qed.

Lemma parse_id_colon sigil l r :
  sigil <> 58 -> ~ In 58 l ->
  parse_id (sigil :: l ++ 58 :: r) sigil =
  if 255 <? len (sigil :: l ++ 58 :: r) then Err E_MaximumLengthExceeded
  else if bdry r then obind (validate_server_name r) (fun _ => Ok (len (sigil :: l))) else Panic 1.
Proof.
  intros Hs Hn. unfold parse_id, validate_id.
  destruct (255 <? len (sigil :: l ++ 58 :: r)); [reflexivity|].
  cbn [head_is]. rewrite N.eqb_refl. cbn [obind].
  change (sigil :: l ++ 58 :: r) with ((sigil :: l) ++ 58 :: r).
  rewrite find_app by (intros [E|E]; [congruence|auto]).
  replace ((sigil :: l) ++ 58 :: r) with (((sigil :: l) ++ [58]) ++ r) by (now rewrite <- app_assoc).
  replace (len (sigil :: l) + 1) with (len ((sigil :: l) ++ [58])) by (rewrite len_app; reflexivity).
  rewrite slice_from_app. cbn [app is_empty orb].
  destruct (bdry r); reflexivity.
Qed.

Lemma parse_id_nocolon sigil s i : ~ In 58 s -> parse_id s sigil <> Ok i.
Proof.
  intros Hn. unfold parse_id. destruct (validate_id s sigil); cbn [obind]; try discriminate.
  rewrite find_not_in by exact Hn. discriminate.
Qed.

Lemma parse_id_nocolon_total sigil s p : ~ In 58 s -> parse_id s sigil <> Panic p.
Proof.
  intros Hn. unfold parse_id. destruct (validate_id s sigil) eqn:E; cbn [obind]; try discriminate.
  - rewrite find_not_in by exact Hn. discriminate.
  - exfalso. exact (validate_id_total _ _ _ E).
Qed.

(** A string whose head is [sigil] splits at its first colon, if it has one. *)
Lemma sigil_split sigil t :
  sigil <> 58 ->
  ~ In 58 (sigil :: t) \/ exists l r, sigil :: t = sigil :: l ++ 58 :: r /\ ~ In 58 l.
Proof.
  intros Hs. destruct (split_first 58 t) as [Hn|(l & r & -> & Hn)].
  - left. intros [E|E]; [congruence|auto].
  - right. now exists l, r.
Qed.

(** ** sigil localpart ":" server_name *)
Section LocalServer.
  Variable sigil : N.
  Hypothesis sigil_ascii : sigil < 128.
  Hypothesis sigil_not_colon : sigil <> 58.

  Lemma local_bc_ok l : localpart_bc l = Ok tt <-> ~ In 58 l /\ ~ In 0 l.
  Proof.
    unfold localpart_bc. destruct (contains 58 l) eqn:E1; cbn [orb].
    - apply contains_In in E1. split; [discriminate|tauto].
    - apply contains_false in E1. destruct (contains 0 l) eqn:E2.
      + apply contains_In in E2. split; [discriminate|tauto].
      + apply contains_false in E2. tauto.
  Qed.

  Lemma local_bc_total l p : localpart_bc l <> Panic p.
  Proof. unfold localpart_bc. destruct (_ || _); discriminate. Qed.

  Lemma sls_eq l r :
    ~ In 58 l ->
    validate_sigil_local_server sigil (sigil :: l ++ 58 :: r) =
    if 255 <? len (sigil :: l ++ 58 :: r) then Err E_MaximumLengthExceeded
    else if bdry r then
      obind (validate_server_name r) (fun _ =>
      if bdry (l ++ 58 :: r) then localpart_bc l else Panic 1)
    else Panic 1.
  Proof.
    intros Hn. unfold validate_sigil_local_server. rewrite parse_id_colon by assumption.
    destruct (255 <? _); [reflexivity|]. destruct (bdry r); [|reflexivity].
    destruct (validate_server_name r) as [[]|e|p]; cbn [obind]; try reflexivity.
    pose proof (slice_mid [sigil] l (58 :: r)) as H.
    change ([sigil] ++ l ++ 58 :: r) with (sigil :: l ++ 58 :: r) in H. change (len [sigil]) with 1 in H.
    replace (len (sigil :: l)) with (1 + len l) by (rewrite len_cons; lia). rewrite H.
    cbn [is_empty orb app]. rewrite (bdry_ascii 58) by lia. rewrite andb_true_r.
    destruct (bdry (l ++ 58 :: r)); reflexivity.
  Qed.

  Theorem sls_ok_shape s :
    validate_sigil_local_server sigil s = Ok tt ->
    exists l r, s = sigil :: l ++ 58 :: r /\ ~ In 58 l /\ ~ In 0 l /\ RumaSN r /\ len s <= 255.
  Proof.
    intros H.
    assert (Hv : exists t, s = sigil :: t).
    { unfold validate_sigil_local_server, parse_id in H.
      destruct (validate_id s sigil) as [[]|e|p] eqn:E; cbn [obind] in H; try discriminate.
      apply validate_id_ok in E. tauto. }
    destruct Hv as (t & ->).
    destruct (sigil_split sigil t sigil_not_colon) as [Hn|(l & r & E & Hn)].
    - exfalso. unfold validate_sigil_local_server in H.
      destruct (parse_id (sigil :: t) sigil) eqn:E; cbn [obind] in H; try discriminate.
      exact (parse_id_nocolon _ _ _ Hn E).
    - rewrite E in *. rewrite sls_eq in H by exact Hn.
      destruct (N.ltb_spec 255 (len (sigil :: l ++ 58 :: r))) as [|Hlen]; [discriminate|].
      destruct (bdry r); [|discriminate].
      destruct (validate_server_name r) as [[]|e|p] eqn:Es; cbn [obind] in H; try discriminate.
      destruct (bdry (l ++ 58 :: r)); [|discriminate].
      apply local_bc_ok in H as [H58 Hnul].
      exists l, r. repeat split; auto. now apply sn_ok_ruma.
  Qed.

  Theorem shape_sls_ok l r :
    Utf8 (sigil :: l ++ 58 :: r) -> ~ In 58 l -> ~ In 0 l -> RumaSN r -> len (sigil :: l ++ 58 :: r) <= 255 ->
    validate_sigil_local_server sigil (sigil :: l ++ 58 :: r) = Ok tt.
  Proof.
    intros Hu H58 H0 Hr Hl. rewrite sls_eq by exact H58.
    replace (255 <? _) with false by lia.
    pose proof (Utf8_tail _ _ Hu sigil_ascii) as Hu'.
    destruct (Utf8_split _ Hu' l 58 r eq_refl) as [_ Hur]; [lia|].
    rewrite (Utf8_bdry _ Hur), (ruma_sn_ok _ Hur Hr). cbn [obind].
    rewrite (Utf8_bdry _ Hu'). apply local_bc_ok. tauto.
  Qed.

  Theorem sls_total s : Utf8 s -> forall p, validate_sigil_local_server sigil s <> Panic p.
  Proof.
    intros Hu p. unfold validate_sigil_local_server.
    destruct (head_is sigil s) eqn:Hh.
    - apply head_is_cons in Hh as (t & ->).
      destruct (sigil_split sigil t sigil_not_colon) as [Hn|(l & r & E & Hn)].
      + destruct (parse_id (sigil :: t) sigil) eqn:E; cbn [obind]; try discriminate.
        * exfalso. exact (parse_id_nocolon _ _ _ Hn E).
        * exfalso. exact (parse_id_nocolon_total _ _ _ Hn E).
      + fold (validate_sigil_local_server sigil (sigil :: t)). rewrite E in *. rewrite sls_eq by exact Hn.
        destruct (255 <? _); [discriminate|].
        pose proof (Utf8_tail _ _ Hu sigil_ascii) as Hu'.
        destruct (Utf8_split _ Hu' l 58 r eq_refl) as [_ Hur]; [lia|].
        rewrite (Utf8_bdry _ Hur).
        destruct (validate_server_name r) as [[]|e|q] eqn:Es; cbn [obind]; try discriminate.
        * rewrite (Utf8_bdry _ Hu'). apply local_bc_total.
        * exfalso. exact (sn_total _ Hur _ Es).
    - unfold parse_id, validate_id. destruct (255 <? len s); [discriminate|]. rewrite Hh. discriminate.
  Qed.

  (** Accessors on the accepted shape: [localpart()]/[alias()] and [server_name()]. *)
  Theorem sls_accessors l r :
    Utf8 (sigil :: l ++ 58 :: r) -> ~ In 58 l ->
    id_localpart (sigil :: l ++ 58 :: r) = Ok l /\ id_server_name (sigil :: l ++ 58 :: r) = Ok r.
  Proof.
    intros Hu Hn. unfold id_localpart, id_server_name, colon_idx.
    change (sigil :: l ++ 58 :: r) with ((sigil :: l) ++ 58 :: r).
    rewrite find_app by (intros [E|E]; [congruence|auto]). cbn [obind].
    pose proof (Utf8_tail _ _ Hu sigil_ascii) as Hu'.
    destruct (Utf8_split _ Hu' l 58 r eq_refl) as [_ Hur]; [lia|]. split.
    - pose proof (slice_mid [sigil] l (58 :: r)) as H.
      change ([sigil] ++ l ++ 58 :: r) with ((sigil :: l) ++ 58 :: r) in H. change (len [sigil]) with 1 in H.
      replace (len (sigil :: l)) with (1 + len l) by (rewrite len_cons; lia). rewrite H.
      cbn [is_empty orb app]. rewrite (Utf8_bdry _ Hu'), (bdry_ascii 58) by lia. reflexivity.
    - replace ((sigil :: l) ++ 58 :: r) with (((sigil :: l) ++ [58]) ++ r) by (now rewrite <- app_assoc).
      replace (len (sigil :: l) + 1) with (len ((sigil :: l) ++ [58])) by (rewrite len_app; reflexivity).
      rewrite slice_from_app, (Utf8_bdry _ Hur), orb_true_r. reflexivity.
  Qed.
End LocalServer.

(** ** Room ids *)
Theorem room_id_ok s :
  validate_room_id s = Ok tt <-> (exists t, s = 33 :: t) /\ len s <= 255 /\ ~ In 0 s.
Proof.
  unfold validate_room_id. destruct (validate_id s 33) as [[]|e|p] eqn:E; cbn [obind].
  - apply validate_id_ok in E as [Ht Hl]. destruct (contains 0 s) eqn:E0.
    + apply contains_In in E0. split; [discriminate|tauto].
    + apply contains_false in E0. tauto.
  - split; [discriminate|]. intros (Ht & Hl & _).
    assert (validate_id s 33 = Ok tt) by (apply validate_id_ok; tauto). congruence.
  - exfalso. exact (validate_id_total _ _ _ E).
Qed.

Theorem room_id_total s p : validate_room_id s <> Panic p.
Proof.
  unfold validate_room_id. destruct (validate_id s 33) as [[]|e|q] eqn:E; cbn [obind]; try discriminate.
  - destruct (contains 0 s); discriminate.
  - exfalso. exact (validate_id_total _ _ _ E).
Qed.

(** ** Event ids *)
Lemma nul_check_ok s : (if contains 0 s then Err E_InvalidCharacters else Ok tt) = Ok tt <-> ~ In 0 s.
Proof.
  destruct (contains 0 s) eqn:E.
  - apply contains_In in E. split; [discriminate|tauto].
  - apply contains_false in E. tauto.
Qed.

Theorem event_id_ok_shape s :
  validate_event_id s = Ok tt ->
  ~ In 0 s /\ len s <= 255 /\
  ((~ In 58 s /\ exists t, s = 36 :: t) \/
   (exists l r, s = 36 :: l ++ 58 :: r /\ ~ In 58 l /\ RumaSN r)).
Proof.
  unfold validate_event_id. destruct (contains 58 s) eqn:Ec.
  - destruct (parse_id s 36) as [i|e|p] eqn:E; cbn [obind]; try discriminate.
    intros H0. apply nul_check_ok in H0.
    assert (Hv : exists t, s = 36 :: t).
    { unfold parse_id in E. destruct (validate_id s 36) as [[]|e|p] eqn:Ev; cbn [obind] in E; try discriminate.
      apply validate_id_ok in Ev. tauto. }
    destruct Hv as (t & ->).
    destruct (sigil_split 36 t) as [Hn|(l & r & Es & Hn)]; [discriminate| |].
    + exfalso. exact (parse_id_nocolon _ _ _ Hn E).
    + rewrite Es in *. rewrite parse_id_colon in E by (auto; discriminate).
      destruct (N.ltb_spec 255 (len (36 :: l ++ 58 :: r))) as [|Hl]; [discriminate|].
      destruct (bdry r); [|discriminate].
      destruct (validate_server_name r) as [[]|e|p] eqn:Er; cbn [obind] in E; try discriminate.
      split; [exact H0|]. split; [exact Hl|]. right. exists l, r. repeat split; auto. now apply sn_ok_ruma.
  - apply contains_false in Ec.
    destruct (validate_id s 36) as [[]|e|p] eqn:E; cbn [obind]; try discriminate.
    intros H0. apply nul_check_ok in H0. apply validate_id_ok in E as [Ht Hl]. tauto.
Qed.

Theorem shape_event_id_opaque t :
  ~ In 58 (36 :: t) -> ~ In 0 (36 :: t) -> len (36 :: t) <= 255 -> validate_event_id (36 :: t) = Ok tt.
Proof.
  intros H58 H0 Hl. unfold validate_event_id.
  apply contains_false in H58. rewrite H58.
  assert (E : validate_id (36 :: t) 36 = Ok tt) by (apply validate_id_ok; eauto). rewrite E. cbn [obind].
  now apply nul_check_ok.
Qed.

Theorem shape_event_id_server l r :
  Utf8 (36 :: l ++ 58 :: r) -> ~ In 58 l -> ~ In 0 (36 :: l ++ 58 :: r) -> RumaSN r ->
  len (36 :: l ++ 58 :: r) <= 255 -> validate_event_id (36 :: l ++ 58 :: r) = Ok tt.
Proof.
  intros Hu H58 H0 Hr Hl. unfold validate_event_id.
  assert (Hc : contains 58 (36 :: l ++ 58 :: r) = true).
  { apply contains_In. right. apply in_or_app. right. left. reflexivity. }
  rewrite Hc. rewrite parse_id_colon by (auto; discriminate).
  replace (255 <? _) with false by lia.
  assert (Hu' : Utf8 (l ++ 58 :: r)) by (apply (Utf8_tail 36); [exact Hu|lia]).
  destruct (Utf8_split _ Hu' l 58 r eq_refl) as [_ Hur]; [lia|].
  rewrite (Utf8_bdry _ Hur), (ruma_sn_ok _ Hur Hr). cbn [obind]. now apply nul_check_ok.
Qed.

Theorem event_id_total s : Utf8 s -> forall p, validate_event_id s <> Panic p.
Proof.
  intros Hu p. unfold validate_event_id. destruct (contains 58 s) eqn:Ec.
  - destruct (head_is 36 s) eqn:Hh.
    + apply head_is_cons in Hh as (t & ->).
      destruct (sigil_split 36 t) as [Hn|(l & r & Es & Hn)]; [discriminate| |].
      * apply contains_In in Ec. contradiction.
      * rewrite Es in *. rewrite parse_id_colon by (auto; discriminate).
        destruct (255 <? _); [discriminate|].
        assert (Hu' : Utf8 (l ++ 58 :: r)) by (apply (Utf8_tail 36); [exact Hu|lia]).
        destruct (Utf8_split _ Hu' l 58 r eq_refl) as [_ Hur]; [lia|].
        rewrite (Utf8_bdry _ Hur).
        destruct (validate_server_name r) as [[]|e|q] eqn:Es'; cbn [obind]; try discriminate.
        -- destruct (contains 0 _); discriminate.
        -- exfalso. exact (sn_total _ Hur _ Es').
    + unfold parse_id, validate_id. destruct (255 <? len s); [discriminate|]. rewrite Hh. discriminate.
  - destruct (validate_id s 36) as [[]|e|q] eqn:E; cbn [obind]; try discriminate.
    + destruct (contains 0 s); discriminate.
    + exfalso. exact (validate_id_total _ _ _ E).
Qed.

(** [EventId::localpart()] and [server_name()]. *)
Theorem event_accessors_opaque t :
  Utf8 (36 :: t) -> ~ In 58 (36 :: t) ->
  event_localpart (36 :: t) = Ok t /\ event_server_name (36 :: t) = Ok None.
Proof.
  intros Hu Hn. unfold event_localpart, event_server_name. rewrite find_not_in by exact Hn. split; [|reflexivity].
  pose proof (slice_mid [36] t []) as H. rewrite app_nil_r in H. cbn [app] in H. change (len [36]) with 1 in H.
  replace (len (36 :: t)) with (1 + len t) by (rewrite len_cons; lia). rewrite H.
  cbn [is_empty orb bdry]. rewrite andb_true_r.
  rewrite (Utf8_bdry t) by (apply (Utf8_tail 36); [exact Hu|lia]). reflexivity.
Qed.

Theorem event_accessors_server l r :
  Utf8 (36 :: l ++ 58 :: r) -> ~ In 58 l ->
  event_localpart (36 :: l ++ 58 :: r) = Ok l /\ event_server_name (36 :: l ++ 58 :: r) = Ok (Some r).
Proof.
  intros Hu Hn.
  destruct (sls_accessors 36 ltac:(lia) ltac:(discriminate) l r Hu Hn) as [Hl Hs].
  unfold id_localpart, id_server_name, colon_idx in *. unfold event_localpart, event_server_name.
  destruct (find 58 (36 :: l ++ 58 :: r)); [|discriminate]. cbn [obind] in *.
  rewrite Hl, Hs. split; reflexivity.
Qed.

(** ** Room id or alias *)
Theorem room_or_alias_ok s :
  validate_room_or_alias_id s = Ok tt <-> validate_room_id s = Ok tt \/ validate_room_alias_id s = Ok tt.
Proof.
  unfold validate_room_or_alias_id.
  destruct s as [|x t].
  - split; [discriminate|]. intros [H|H].
    + apply room_id_ok in H as ((t & E) & _). discriminate.
    + apply (sls_ok_shape 35 ltac:(lia) ltac:(discriminate)) in H as (l & r & E & _); discriminate.
  - destruct (N.eq_dec x 35) as [->|H35]; [|destruct (N.eq_dec x 33) as [->|H33]].
    + split; [tauto|]. intros [H|H]; [|exact H].
      apply room_id_ok in H as ((t' & E) & _). discriminate.
    + split; [tauto|]. intros [H|H]; [exact H|].
      apply (sls_ok_shape 35 ltac:(lia) ltac:(discriminate)) in H as (l & r & E & _); discriminate.
    + assert (E : match x with 35 => validate_room_alias_id (x :: t) | 33 => validate_room_id (x :: t)
                               | _ => Err E_MissingLeadingSigil end = Err E_MissingLeadingSigil).
      { destruct x as [|p]; [reflexivity|].
        do 6 (destruct p as [p|p|]; try reflexivity); congruence. }
      rewrite E. split; [discriminate|]. intros [H|H].
      * apply room_id_ok in H as ((t' & E') & _). congruence.
      * apply (sls_ok_shape 35 ltac:(lia) ltac:(discriminate)) in H as (l & r & E' & _); congruence.
Qed.

Theorem room_or_alias_total s : Utf8 s -> forall p, validate_room_or_alias_id s <> Panic p.
Proof.
  intros Hu p. unfold validate_room_or_alias_id. destruct s as [|x t]; [discriminate|].
  destruct x as [|q]; [discriminate|].
  do 6 (destruct q as [q|q|]; try discriminate);
    first [apply room_id_total | apply (sls_total 35); [lia|discriminate|exact Hu]].
Qed.

(** [RoomOrAliasId::server_name()] / [RoomId::server_name()]. *)
Theorem roa_server_name_spec s :
  Utf8 s ->
  (~ In 58 s /\ roa_server_name s = Ok None) \/
  (exists l r, s = l ++ 58 :: r /\ ~ In 58 l /\
     ((validate_server_name r = Ok tt /\ roa_server_name s = Ok (Some r)) \/
      ((exists e, validate_server_name r = Err e) /\ roa_server_name s = Ok None))).
Proof.
  intros Hu. unfold roa_server_name.
  destruct (split_first 58 s) as [Hn|(l & r & -> & Hn)].
  - left. rewrite find_not_in by exact Hn. tauto.
  - right. exists l, r. split; [reflexivity|]. split; [exact Hn|].
    rewrite find_app by exact Hn.
    replace (l ++ 58 :: r) with ((l ++ [58]) ++ r) by (now rewrite <- app_assoc).
    replace (len l + 1) with (len (l ++ [58])) by (rewrite len_app; reflexivity).
    rewrite slice_from_app.
    destruct (Utf8_split _ Hu l 58 r) as [_ Hur]; [reflexivity|lia|].
    rewrite (Utf8_bdry _ Hur), orb_true_r. cbn [obind].
    destruct (validate_server_name r) as [[]|e|p] eqn:E.
    + left. tauto.
    + right. split; [now exists e|reflexivity].
    + exfalso. exact (sn_total _ Hur _ E).
Qed.

(** ** User-id localparts: strict and historical grammar *)
Definition hist_byte (b : N) : bool := negb ((b <? 33) || (b =? 58) || (126 <? b)).

Lemma lfc_eq l :
  localpart_fully_conforming l =
  if is_empty l then Err E_Empty
  else if forallb strict_byte l then Ok true
  else if forallb hist_byte l then Ok false else Err E_InvalidCharacters.
Proof.
  unfold localpart_fully_conforming. destruct (is_empty l); [reflexivity|].
  destruct (forallb strict_byte l); [reflexivity|].
  assert (E : forall f (l : str), existsb f l = negb (forallb (fun b => negb (f b)) l)).
  { intros f l0. induction l0 as [|x l0 IH]; cbn; [reflexivity|]. rewrite IH. now destruct (f x). }
  rewrite E. fold hist_byte. unfold hist_byte at 1.
  change (fun b : N => negb ((b <? 33) || (b =? 58) || (126 <? b))) with hist_byte.
  destruct (forallb hist_byte l); reflexivity.
Qed.

Lemma lfc_total l p : localpart_fully_conforming l <> Panic p.
Proof.
  rewrite lfc_eq. destruct (is_empty l); [discriminate|]. destruct (forallb strict_byte l); [discriminate|].
  destruct (forallb hist_byte l); discriminate.
Qed.

Lemma strict_no_colon l : forallb strict_byte l = true -> ~ In 58 l /\ ~ In 0 l.
Proof.
  intros H. rewrite forallb_forall in H. split; intros Hin; specialize (H _ Hin); discriminate.
Qed.

Theorem strict_ok_shape s :
  validate_user_id_strict s = Ok tt ->
  exists l r, s = 64 :: l ++ 58 :: r /\ l <> [] /\ forallb strict_byte l = true /\ RumaSN r /\ len s <= 255.
Proof.
  unfold validate_user_id_strict. destruct (N.ltb_spec 255 (len s)) as [|Hl]; [discriminate|].
  destruct (parse_id s 64) as [i|e|p] eqn:E; cbn [obind]; try discriminate.
  assert (Hv : exists t, s = 64 :: t).
  { unfold parse_id in E. destruct (validate_id s 64) as [[]|e|p] eqn:Ev; cbn [obind] in E; try discriminate.
    apply validate_id_ok in Ev. tauto. }
  destruct Hv as (t & ->).
  destruct (sigil_split 64 t) as [Hn|(l & r & Es & Hn)]; [discriminate| |].
  - exfalso. exact (parse_id_nocolon _ _ _ Hn E).
  - rewrite Es in *. rewrite parse_id_colon in E by (auto; discriminate).
    replace (255 <? len (64 :: l ++ 58 :: r)) with false in E by lia.
    destruct (bdry r); [|discriminate].
    destruct (validate_server_name r) as [[]|e|p] eqn:Er; cbn [obind] in E; try discriminate.
    injection E as <-.
    pose proof (slice_mid [64] l (58 :: r)) as H.
    change ([64] ++ l ++ 58 :: r) with (64 :: l ++ 58 :: r) in H. change (len [64]) with 1 in H.
    replace (len (64 :: l)) with (1 + len l) by (rewrite len_cons; lia). rewrite H.
    cbn [is_empty orb app]. destruct (bdry (l ++ 58 :: r) && bdry (58 :: r)); cbn [obind]; [|discriminate].
    rewrite lfc_eq. destruct (is_empty l) eqn:El; cbn [obind]; [discriminate|].
    destruct (forallb strict_byte l) eqn:Ef; cbn [obind].
    + intros _. exists l, r. repeat split; auto. * now apply is_empty_false. * now apply sn_ok_ruma.
    + destruct (forallb hist_byte l); cbn [obind]; discriminate.
Qed.

Theorem shape_strict_ok l r :
  Utf8 (64 :: l ++ 58 :: r) -> l <> [] -> forallb strict_byte l = true -> RumaSN r ->
  len (64 :: l ++ 58 :: r) <= 255 -> validate_user_id_strict (64 :: l ++ 58 :: r) = Ok tt.
Proof.
  intros Hu Hne Hf Hr Hl. unfold validate_user_id_strict.
  replace (255 <? _) with false by lia.
  destruct (strict_no_colon _ Hf) as [H58 H0].
  rewrite parse_id_colon by (auto; discriminate). replace (255 <? _) with false by lia.
  assert (Hu' : Utf8 (l ++ 58 :: r)) by (apply (Utf8_tail 64); [exact Hu|lia]).
  destruct (Utf8_split _ Hu' l 58 r eq_refl) as [_ Hur]; [lia|].
  rewrite (Utf8_bdry _ Hur), (ruma_sn_ok _ Hur Hr). cbn [obind].
  pose proof (slice_mid [64] l (58 :: r)) as H.
  change ([64] ++ l ++ 58 :: r) with (64 :: l ++ 58 :: r) in H. change (len [64]) with 1 in H.
  replace (len (64 :: l)) with (1 + len l) by (rewrite len_cons; lia). rewrite H.
  cbn [is_empty orb app]. rewrite (Utf8_bdry _ Hu'), (bdry_ascii 58) by lia. cbn [andb obind].
  rewrite lfc_eq, Hf. destruct l; [congruence|reflexivity].
Qed.

Theorem strict_total s : Utf8 s -> forall p, validate_user_id_strict s <> Panic p.
Proof.
  intros Hu p. unfold validate_user_id_strict. destruct (255 <? len s); [discriminate|].
  destruct (head_is 64 s) eqn:Hh.
  - apply head_is_cons in Hh as (t & ->).
    destruct (sigil_split 64 t) as [Hn|(l & r & Es & Hn)]; [discriminate| |].
    + destruct (parse_id (64 :: t) 64) eqn:E; cbn [obind]; try discriminate.
      * exfalso. exact (parse_id_nocolon _ _ _ Hn E).
      * exfalso. exact (parse_id_nocolon_total _ _ _ Hn E).
    + rewrite Es in *. rewrite parse_id_colon by (auto; discriminate).
      destruct (255 <? _); [discriminate|].
      assert (Hu' : Utf8 (l ++ 58 :: r)) by (apply (Utf8_tail 64); [exact Hu|lia]).
      destruct (Utf8_split _ Hu' l 58 r eq_refl) as [_ Hur]; [lia|].
      rewrite (Utf8_bdry _ Hur).
      destruct (validate_server_name r) as [[]|e|q] eqn:Es'; cbn [obind]; try discriminate.
      * pose proof (slice_mid [64] l (58 :: r)) as H.
        change ([64] ++ l ++ 58 :: r) with (64 :: l ++ 58 :: r) in H. change (len [64]) with 1 in H.
        replace (len (64 :: l)) with (1 + len l) by (rewrite len_cons; lia). rewrite H.
        cbn [is_empty orb app]. rewrite (Utf8_bdry _ Hu'), (bdry_ascii 58) by lia. cbn [andb obind].
        destruct (localpart_fully_conforming l) as [[]|e|q] eqn:El; cbn [obind]; try discriminate.
        exfalso. exact (lfc_total _ _ El).
      * exfalso. exact (sn_total _ Hur _ Es').
  - unfold parse_id, validate_id. destruct (255 <? len s); [discriminate|]. rewrite Hh. discriminate.
Qed.

(** [UserId::validate_fully_conforming] on an accepted user id. *)
Theorem user_fully_conforming_ok l r :
  Utf8 (64 :: l ++ 58 :: r) -> ~ In 58 l -> len (64 :: l ++ 58 :: r) <= 255 ->
  user_fully_conforming (64 :: l ++ 58 :: r) = localpart_fully_conforming l.
Proof.
  intros Hu Hn Hl. unfold user_fully_conforming. replace (255 <? _) with false by lia.
  destruct (sls_accessors 64 ltac:(lia) ltac:(discriminate) l r Hu Hn) as [E _]. rewrite E. reflexivity.
Qed.

(** ** Key ids *)
Lemma key_name_total k n p : validate_key_name k n <> Panic p.
Proof.
  destruct k; cbn [validate_key_name]; [discriminate| |].
  - unfold validate_signing_key_version. destruct (is_empty n); [discriminate|]. destruct (forallb _ n); discriminate.
  - unfold validate_base64_public_key. destruct (is_empty n); [discriminate|]. destruct (forallb _ n); discriminate.
Qed.

Lemma key_id_eq k a n :
  ~ In 58 a ->
  validate_key_id k (a ++ 58 :: n) =
  if is_empty a then Err E_MissingColon
  else if bdry n then obind (validate_key_name k n) (fun _ => Ok (len a)) else Panic 1.
Proof.
  intros Hn. unfold validate_key_id. rewrite find_app by exact Hn. rewrite is_empty_len.
  destruct (is_empty a) eqn:Ea; [reflexivity|].
  replace (a ++ 58 :: n) with ((a ++ [58]) ++ n) by (now rewrite <- app_assoc).
  replace (len a + 1) with (len (a ++ [58])) by (rewrite len_app; reflexivity).
  rewrite slice_from_app, is_empty_app_cons. cbn [orb]. destruct (bdry n); reflexivity.
Qed.

Theorem key_id_ok_shape k s i :
  validate_key_id k s = Ok i ->
  exists a n, s = a ++ 58 :: n /\ a <> [] /\ ~ In 58 a /\ validate_key_name k n = Ok tt /\ i = len a.
Proof.
  destruct (split_first 58 s) as [Hn|(a & n & -> & Hn)].
  - unfold validate_key_id. rewrite find_not_in by exact Hn. discriminate.
  - rewrite key_id_eq by exact Hn. destruct (is_empty a) eqn:Ea; [discriminate|].
    destruct (bdry n); [|discriminate].
    destruct (validate_key_name k n) as [[]|e|p] eqn:E; cbn [obind]; try discriminate.
    intros H. injection H as <-. exists a, n. repeat split; auto. now apply is_empty_false.
Qed.

Theorem shape_key_id_ok k a n :
  Utf8 (a ++ 58 :: n) -> a <> [] -> ~ In 58 a -> validate_key_name k n = Ok tt ->
  validate_key_id k (a ++ 58 :: n) = Ok (len a).
Proof.
  intros Hu Hne Hn Hk. rewrite key_id_eq by exact Hn.
  destruct a; [congruence|]. cbn [is_empty].
  rewrite (Utf8_after _ _ 58 n Hu eq_refl) by lia. rewrite Hk. reflexivity.
Qed.

Theorem key_id_total k s : Utf8 s -> forall p, validate_key_id k s <> Panic p.
Proof.
  intros Hu p. destruct (split_first 58 s) as [Hn|(a & n & -> & Hn)].
  - unfold validate_key_id. rewrite find_not_in by exact Hn. discriminate.
  - rewrite key_id_eq by exact Hn. destruct (is_empty a); [discriminate|].
    rewrite (Utf8_after _ _ 58 n Hu eq_refl) by lia.
    destruct (validate_key_name k n) as [[]|e|q] eqn:E; cbn [obind]; try discriminate.
    exfalso. exact (key_name_total _ _ _ E).
Qed.

(** [algorithm()] and [key_name()]. *)
Theorem key_accessors k a n :
  Utf8 (a ++ 58 :: n) -> ~ In 58 a -> validate_key_name k n = Ok tt ->
  key_algorithm (a ++ 58 :: n) = Ok a /\ key_name k (a ++ 58 :: n) = Ok n.
Proof.
  intros Hu Hn Hk. unfold key_algorithm, key_name, colon_idx. rewrite find_app by exact Hn. cbn [obind].
  split.
  - rewrite slice_to_app, (bdry_ascii 58) by lia. now rewrite orb_true_r.
  - replace (a ++ 58 :: n) with ((a ++ [58]) ++ n) by (now rewrite <- app_assoc).
    replace (len a + 1) with (len (a ++ [58])) by (rewrite len_app; reflexivity).
    rewrite slice_from_app, is_empty_app_cons. cbn [orb].
    replace ((a ++ [58]) ++ n) with (a ++ 58 :: n) in Hu |- * by (now rewrite <- app_assoc).
    rewrite (Utf8_after _ _ 58 n Hu eq_refl) by lia. cbn [obind]. rewrite Hk. reflexivity.
Qed.

(** ** MXC URIs *)
Lemma strip_prefix_some p s u : strip_prefix p s = Some u <-> s = p ++ u.
Proof.
  revert s; induction p as [|x p IH]; intros s; cbn [strip_prefix app].
  - split; intros H; [now injection H as ->|now subst].
  - destruct s as [|y s]; [split; discriminate|].
    destruct (N.eqb_spec x y) as [->|Hne].
    + rewrite IH. split; intros H; [now subst|now injection H].
    + split; [discriminate|]. intros H. injection H as -> _. congruence.
Qed.

Lemma strip_prefix_none p s : strip_prefix p s = None -> forall u, s <> p ++ u.
Proof. intros H u E. apply strip_prefix_some in E. congruence. Qed.

Definition mxc_result (sn m : str) : outcome N :=
  if negb (negb (is_empty m) && forallb media_byte_ok m) then Err E_MediaIdMalformed
  else match validate_server_name sn with
       | Ok _ => Ok (len sn + 6)
       | Err _ => Err E_ServerNameMalformed
       | Panic p => Panic p
       end.

Lemma mxc_eq sn m :
  ~ In 47 sn ->
  validate_mxc (mxc_prefix ++ sn ++ 47 :: m) = if bdry m then mxc_result sn m else Panic 1.
Proof.
  intros Hn. unfold validate_mxc.
  assert (E : strip_prefix mxc_prefix (mxc_prefix ++ sn ++ 47 :: m) = Some (sn ++ 47 :: m))
    by now apply strip_prefix_some.
  rewrite E, find_app by exact Hn.
  rewrite slice_to_app, (bdry_ascii 47) by lia. rewrite orb_true_r. cbn [obind].
  replace (sn ++ 47 :: m) with ((sn ++ [47]) ++ m) by (now rewrite <- app_assoc).
  replace (len sn + 1) with (len (sn ++ [47])) by (rewrite len_app; reflexivity).
  rewrite slice_from_app, is_empty_app_cons. cbn [orb]. destruct (bdry m); [|reflexivity]. cbn [obind].
  unfold mxc_result. destruct (negb _); [reflexivity|].
  destruct (validate_server_name sn); try reflexivity.
  replace (len sn + 6 =? 0) with false by lia. reflexivity.
Qed.

Theorem mxc_ok_shape s idx :
  validate_mxc s = Ok idx ->
  exists sn m, s = mxc_prefix ++ sn ++ 47 :: m /\ ~ In 47 sn /\ m <> [] /\ forallb media_byte_ok m = true /\
               RumaSN sn /\ idx = len sn + 6.
Proof.
  destruct (strip_prefix mxc_prefix s) as [u|] eqn:Eu.
  - apply strip_prefix_some in Eu as ->.
    destruct (split_first 47 u) as [Hn|(sn & m & -> & Hn)].
    + unfold validate_mxc.
      assert (E : strip_prefix mxc_prefix (mxc_prefix ++ u) = Some u) by now apply strip_prefix_some.
      rewrite E, find_not_in by exact Hn. discriminate.
    + rewrite mxc_eq by exact Hn. destruct (bdry m); [|discriminate]. unfold mxc_result.
      destruct (is_empty m) eqn:Em; cbn [negb andb]; [discriminate|].
      destruct (forallb media_byte_ok m) eqn:Ef; cbn [negb]; [|discriminate].
      destruct (validate_server_name sn) as [[]|e|p] eqn:Es; try discriminate.
      intros H. injection H as <-. exists sn, m. repeat split; auto.
      * now apply is_empty_false. * now apply sn_ok_ruma.
  - unfold validate_mxc. rewrite Eu. discriminate.
Qed.

Theorem shape_mxc_ok sn m :
  Utf8 (mxc_prefix ++ sn ++ 47 :: m) -> ~ In 47 sn -> m <> [] -> forallb media_byte_ok m = true -> RumaSN sn ->
  validate_mxc (mxc_prefix ++ sn ++ 47 :: m) = Ok (len sn + 6).
Proof.
  intros Hu Hn Hne Hf Hr. rewrite mxc_eq by exact Hn.
  assert (Hu1 : Utf8 (sn ++ 47 :: m)).
  { destruct (Utf8_split _ Hu (s!"mxc:/") 47 (sn ++ 47 :: m) eq_refl) as [_ H]; [lia|exact H]. }
  destruct (Utf8_split _ Hu1 sn 47 m eq_refl) as [Hus Hum]; [lia|].
  rewrite (Utf8_bdry _ Hum). unfold mxc_result. rewrite Hf.
  destruct m; [congruence|]. cbn [is_empty negb andb].
  rewrite (ruma_sn_ok _ Hus Hr). reflexivity.
Qed.

Theorem mxc_total s : Utf8 s -> forall p, validate_mxc s <> Panic p.
Proof.
  intros Hu p. destruct (strip_prefix mxc_prefix s) as [u|] eqn:Eu.
  - apply strip_prefix_some in Eu as ->.
    assert (Hu1 : Utf8 u).
    { destruct (Utf8_split _ Hu (s!"mxc:/") 47 u eq_refl) as [_ H]; [lia|exact H]. }
    destruct (split_first 47 u) as [Hn|(sn & m & -> & Hn)].
    + unfold validate_mxc.
      assert (E : strip_prefix mxc_prefix (mxc_prefix ++ u) = Some u) by now apply strip_prefix_some.
      rewrite E, find_not_in by exact Hn. discriminate.
    + rewrite mxc_eq by exact Hn.
      destruct (Utf8_split _ Hu1 sn 47 m eq_refl) as [Hus Hum]; [lia|].
      rewrite (Utf8_bdry _ Hum). unfold mxc_result. destruct (negb _); [discriminate|].
      destruct (validate_server_name sn) as [[]|e|q] eqn:Es; try discriminate.
      exfalso. exact (sn_total _ Hus _ Es).
  - unfold validate_mxc. rewrite Eu. discriminate.
Qed.

(** [MxcUri::parts()]. *)
Theorem mxc_parts_ok sn m :
  Utf8 (mxc_prefix ++ sn ++ 47 :: m) -> ~ In 47 sn -> m <> [] -> forallb media_byte_ok m = true -> RumaSN sn ->
  mxc_parts (mxc_prefix ++ sn ++ 47 :: m) = Ok (sn, m).
Proof.
  intros Hu Hn Hne Hf Hr. unfold mxc_parts. rewrite (shape_mxc_ok sn m Hu Hn Hne Hf Hr). cbn [obind].
  assert (Hu1 : Utf8 (sn ++ 47 :: m)).
  { destruct (Utf8_split _ Hu (s!"mxc:/") 47 (sn ++ 47 :: m) eq_refl) as [_ H]; [lia|exact H]. }
  destruct (Utf8_split _ Hu1 sn 47 m eq_refl) as [Hus Hum]; [lia|].
  pose proof (slice_mid mxc_prefix sn (47 :: m)) as H. change (len mxc_prefix) with 6 in H.
  replace (len sn + 6) with (6 + len sn) by lia. rewrite H.
  change (is_empty mxc_prefix) with false. cbn [orb].
  rewrite (Utf8_bdry _ Hu1), (bdry_ascii 47) by lia. rewrite orb_true_r. cbn [andb obind].
  replace (mxc_prefix ++ sn ++ 47 :: m) with ((mxc_prefix ++ sn ++ [47]) ++ m)
    by (rewrite <- !app_assoc; reflexivity).
  replace (6 + len sn + 1) with (len (mxc_prefix ++ sn ++ [47]))
    by (rewrite !len_app; change (len mxc_prefix) with 6; change (len [47]) with 1; lia).
  rewrite slice_from_app, (Utf8_bdry _ Hum), orb_true_r. reflexivity.
Qed.

(** ** Plain validators (no slicing: never a panic, for any byte string) *)
Theorem room_version_ok s :
  validate_room_version_id s = Ok tt <->
  s <> [] /\ char_count s <= 32 /\ forallb (fun b => is_alnum b || (b =? 46) || (b =? 45)) s = true.
Proof.
  unfold validate_room_version_id. destruct s as [|x t]; cbn [is_empty].
  - split; [discriminate|]. intros [H _]. congruence.
  - destruct (N.ltb_spec 32 (char_count (x :: t))).
    + split; [discriminate|]. intros (_ & H' & _). lia.
    + destruct (forallb _ (x :: t)).
      * split; intros _; [repeat split; [discriminate|assumption]|reflexivity].
      * split; [discriminate|]. intros (_ & _ & H'). discriminate.
Qed.

(** For ASCII strings the number of code points is the number of bytes. *)
Lemma char_count_ascii s : Forall (fun c => c < 128) s -> char_count s = len s.
Proof.
  unfold char_count. induction 1 as [|c r Hc _ IH]; [reflexivity|]. cbn [filter].
  replace (negb (is_cont c)) with true by (unfold is_cont; lia). rewrite !len_cons, IH. reflexivity.
Qed.

Theorem room_version_total s p : validate_room_version_id s <> Panic p.
Proof.
  unfold validate_room_version_id. destruct (is_empty s); [discriminate|].
  destruct (32 <? char_count s); [discriminate|]. destruct (forallb _ s); discriminate.
Qed.

Theorem client_secret_ok s :
  validate_client_secret s = Ok tt <->
  s <> [] /\ len s <= 255 /\
  forallb (fun b => is_alnum b || (b =? 46) || (b =? 61) || (b =? 95) || (b =? 45)) s = true.
Proof.
  unfold validate_client_secret. destruct (N.ltb_spec 255 (len s)).
  - split; [discriminate|]. intros (_ & H' & _). lia.
  - destruct (forallb _ s); cbn [negb].
    + destruct s; cbn [is_empty].
      * split; [discriminate|]. intros [H' _]. congruence.
      * split; intros _; [repeat split; [discriminate|assumption]|reflexivity].
    + split; [discriminate|]. intros (_ & _ & H'). discriminate.
Qed.

Theorem client_secret_total s p : validate_client_secret s <> Panic p.
Proof.
  unfold validate_client_secret. destruct (255 <? len s); [discriminate|].
  destruct (negb _); [discriminate|]. destruct (is_empty s); discriminate.
Qed.

Theorem signing_version_ok s :
  validate_signing_key_version s = Ok tt <-> s <> [] /\ forallb (fun b => is_alnum b || (b =? 95)) s = true.
Proof.
  unfold validate_signing_key_version. destruct s; cbn [is_empty].
  - split; [discriminate|]. intros [H _]. congruence.
  - destruct (forallb _ (n :: s)).
    + split; intros _; [split; [discriminate|reflexivity]|reflexivity].
    + split; [discriminate|]. intros [_ H]. discriminate.
Qed.

Theorem base64_key_ok s :
  validate_base64_public_key s = Ok tt <->
  s <> [] /\ forallb (fun b => is_alnum b || (b =? 43) || (b =? 47) || (b =? 61)) s = true.
Proof.
  unfold validate_base64_public_key. destruct s; cbn [is_empty].
  - split; [discriminate|]. intros [H _]. congruence.
  - destruct (forallb _ (n :: s)).
    + split; intros _; [split; [discriminate|reflexivity]|reflexivity].
    + split; [discriminate|]. intros [_ H]. discriminate.
Qed.

(** ** Constructors *)
(** [UserId::parse_with_server_name]: whatever it returns is accepted by the parser ... *)
Theorem pwsn_accepted id sn built :
  parse_with_server_name id sn = Ok built -> validate_user_id built = Ok tt.
Proof.
  unfold parse_with_server_name. destruct (head_is 64 id).
  - destruct (validate_user_id id) as [[]|e|p] eqn:E; cbn [obind]; try discriminate.
    intros H. injection H as <-. exact E.
  - destruct (localpart_bc id) as [[]|e|p]; cbn [obind]; try discriminate.
    destruct (validate_user_id (64 :: id ++ 58 :: sn)) as [[]|e|p] eqn:E; cbn [obind]; try discriminate.
    intros H. injection H as <-. exact E.
Qed.

(** ... and it does complete every localpart that fits. *)
Theorem pwsn_complete id sn :
  Utf8 id -> Utf8 sn -> head_is 64 id = false -> ~ In 58 id -> ~ In 0 id -> RumaSN sn ->
  len (64 :: id ++ 58 :: sn) <= 255 ->
  parse_with_server_name id sn = Ok (64 :: id ++ 58 :: sn).
Proof.
  intros Hi Hs Hh H58 H0 Hr Hl. unfold parse_with_server_name. rewrite Hh.
  assert (E : localpart_bc id = Ok tt) by (apply local_bc_ok; tauto). rewrite E. cbn [obind].
  unfold validate_user_id. rewrite shape_sls_ok; auto; try lia; try discriminate.
  apply U_1; [lia|]. apply Utf8_app; [exact Hi|]. apply U_1; [lia|exact Hs].
Qed.

Theorem pwsn_total id sn : Utf8 id -> Utf8 sn -> forall p, parse_with_server_name id sn <> Panic p.
Proof.
  intros Hi Hs p. unfold parse_with_server_name. destruct (head_is 64 id).
  - destruct (validate_user_id id) as [[]|e|q] eqn:E; cbn [obind]; try discriminate.
    exfalso. exact (sls_total 64 ltac:(lia) ltac:(discriminate) _ Hi _ E).
  - destruct (localpart_bc id) as [[]|e|q] eqn:El; cbn [obind]; try discriminate.
    + destruct (validate_user_id (64 :: id ++ 58 :: sn)) as [[]|e|q] eqn:E; cbn [obind]; try discriminate.
      exfalso. refine (sls_total 64 ltac:(lia) ltac:(discriminate) _ _ _ E).
      apply U_1; [lia|]. apply Utf8_app; [exact Hi|]. apply U_1; [lia|exact Hs].
    + exfalso. exact (local_bc_total _ _ El).
Qed.

(** [KeyId::from_parts]: accepted whenever the algorithm is non-empty and colon-free. *)
Theorem from_parts_accepted k alg name :
  Utf8 alg -> Utf8 name -> alg <> [] -> ~ In 58 alg -> validate_key_name k name = Ok tt ->
  validate_key_id k (key_from_parts alg name) = Ok (len alg).
Proof.
  intros Ha Hn Hne H58 Hk. unfold key_from_parts. apply shape_key_id_ok; auto.
  apply Utf8_app; [exact Ha|]. apply U_1; [lia|exact Hn].
Qed.

(** [UserId::new] / [EventId::new] / [RoomId::new]: accepted whenever the result fits 255 bytes. *)
Theorem new_user_accepted lp sn :
  Forall (fun c => is_alnum c = true) lp -> Utf8 sn -> RumaSN sn -> len (id_new 64 lp sn) <= 255 ->
  validate_user_id (id_new 64 lp sn) = Ok tt.
Proof.
  intros Hlp Hs Hr Hl. unfold id_new, validate_user_id in *.
  assert (Hasc : Forall (fun c => c < 128) lp).
  { eapply Forall_impl; [|exact Hlp]. cbv beta. unfold is_alnum, is_digit, is_lower, is_upper. intros; lia. }
  apply shape_sls_ok; auto; try lia; try discriminate.
  - apply U_1; [lia|]. apply Utf8_app; [now apply ascii_Utf8|]. apply U_1; [lia|exact Hs].
  - intros Hin. rewrite Forall_forall in Hlp. specialize (Hlp _ Hin). discriminate.
  - intros Hin. rewrite Forall_forall in Hlp. specialize (Hlp _ Hin). discriminate.
Qed.

Theorem new_event_accepted lp sn :
  Forall (fun c => is_alnum c = true) lp -> Utf8 sn -> RumaSN sn -> ~ In 0 sn -> len (id_new 36 lp sn) <= 255 ->
  validate_event_id (id_new 36 lp sn) = Ok tt.
Proof.
  intros Hlp Hs Hr H0 Hl. unfold id_new in *.
  assert (Hasc : Forall (fun c => c < 128) lp).
  { eapply Forall_impl; [|exact Hlp]. cbv beta. unfold is_alnum, is_digit, is_lower, is_upper. intros; lia. }
  assert (Hno : forall c, is_alnum c = false -> ~ In c lp).
  { intros c Hc Hin. rewrite Forall_forall in Hlp. specialize (Hlp _ Hin). congruence. }
  apply shape_event_id_server; [| | |exact Hr|exact Hl].
  - apply U_1; [lia|]. apply Utf8_app; [now apply ascii_Utf8|]. apply U_1; [lia|exact Hs].
  - now apply Hno.
  - intros [E|Hin]; [discriminate|]. apply in_app_or in Hin as [Hin|[E|Hin]]; [|discriminate|auto].
    revert Hin. now apply Hno.
Qed.

Theorem new_room_accepted lp sn :
  ~ In 0 lp -> ~ In 0 sn -> len (id_new 33 lp sn) <= 255 -> validate_room_id (id_new 33 lp sn) = Ok tt.
Proof.
  intros Hl Hs Hlen. apply room_id_ok. unfold id_new in *. split; [eauto|]. split; [exact Hlen|].
  intros [E|Hin]; [discriminate|]. apply in_app_or in Hin as [Hin|[E|Hin]]; [auto|discriminate|auto].
Qed.
