(** C10.SpecProofs — the boolean recognisers of Spec.v decide the inductive grammar of Spec.v. *)
From Base Require Import Prelude.
From C10 Require Import Spec.
From Coq Require Import ZifyBool ZifyNat ZifyN.
Ltac Zify.zify_post_hook ::= Z.div_mod_to_equations.

(** * Generic: cuts, split, join *)
Lemma existsb_cuts (f : str * str -> bool) s :
  existsb f (cuts s) = true <-> exists a b, s = a ++ b /\ f (a, b) = true.
Proof.
  unfold cuts. rewrite existsb_exists. split.
  - intros (x & Hin & Hf). apply in_map_iff in Hin as (i & <- & _).
    exists (firstn i s), (skipn i s). split; [symmetry; apply firstn_skipn|exact Hf].
  - intros (a & b & -> & Hf). exists (a, b). split; [|exact Hf].
    apply in_map_iff. exists (List.length a). split.
    + rewrite firstn_app, firstn_all, Nat.sub_diag. cbn [firstn]. rewrite app_nil_r.
      rewrite skipn_app, skipn_all, Nat.sub_diag. reflexivity.
    + apply in_seq. rewrite app_length. lia.
Qed.

Lemma forallb_all_in p s : forallb p s = true <-> all_in p s.
Proof. unfold all_in. rewrite forallb_forall, Forall_forall. tauto. Qed.

Lemma nonempty_ne s : nonempty s = true <-> s <> [].
Proof. destruct s; cbn; split; congruence. Qed.

Lemma strip_some c s r : strip c s = Some r <-> s = c :: r.
Proof.
  unfold strip. destruct s as [|x s]; [split; discriminate|].
  destruct (N.eqb_spec x c) as [->|Hne]; split; intros H; try congruence.
  injection H as ->. reflexivity.
Qed.

Lemma strip_cons c r : strip c (c :: r) = Some r.
Proof. now apply strip_some. Qed.

Lemma strip_pre_some p s r : strip_pre p s = Some r <-> s = p ++ r.
Proof.
  revert s; induction p as [|c p IH]; intros s; cbn [strip_pre app].
  - split; intros H; [now injection H as ->|now subst].
  - destruct (strip c s) as [t|] eqn:E.
    + apply strip_some in E as ->. rewrite IH. split; intros H; [now subst|now injection H].
    + split; [discriminate|]. intros ->. now rewrite strip_cons in E.
Qed.

Lemma split_on_ne c s : split_on c s <> [].
Proof.
  induction s as [|x s IH]; cbn [split_on]; [discriminate|].
  destruct (x =? c); [discriminate|]. destruct (split_on c s); [congruence|discriminate].
Qed.

Lemma split_join c s : join c (split_on c s) = s.
Proof.
  induction s as [|x s IH]; [reflexivity|]. cbn [split_on].
  destruct (N.eqb_spec x c) as [->|Hne].
  - pose proof (split_on_ne c s) as Hn. destruct (split_on c s) as [|f fs] eqn:E; [congruence|].
    cbn [join app]. rewrite <- IH. reflexivity.
  - pose proof (split_on_ne c s) as Hn. destruct (split_on c s) as [|f fs] eqn:E; [congruence|].
    rewrite <- IH. destruct fs; reflexivity.
Qed.

Lemma split_on_none c (a : str) : ~ In c a -> split_on c a = [a].
Proof.
  induction a as [|x a IH]; intros Hn; [reflexivity|]. cbn [split_on].
  destruct (N.eqb_spec x c) as [->|Hne]; [exfalso; apply Hn; now left|].
  rewrite IH by (intros H; apply Hn; now right). reflexivity.
Qed.

Lemma split_on_app c (a r : str) : ~ In c a -> split_on c (a ++ c :: r) = a :: split_on c r.
Proof.
  induction a as [|x a IH]; intros Hn; cbn [app split_on].
  - now rewrite N.eqb_refl.
  - destruct (N.eqb_spec x c) as [->|Hne]; [exfalso; apply Hn; now left|].
    rewrite IH by (intros H; apply Hn; now right). reflexivity.
Qed.

Lemma all_in_no (p : N -> bool) c s : p c = false -> all_in p s -> ~ In c s.
Proof. intros Hc Hs Hin. unfold all_in in Hs. rewrite Forall_forall in Hs. specialize (Hs _ Hin). congruence. Qed.

(** * dec-octet, IPv4 *)
Lemma dec_octet_b_iff f : dec_octet_b f = true <-> DecOctet f.
Proof.
  split.
  - destruct f as [|a [|b [|c [|d f]]]]; cbn [dec_octet_b]; try discriminate.
    + now constructor.
    + intros H. apply andb_true_iff in H as [H Hb]. apply DO_dd; [lia|exact Hb].
    + intros H. apply orb_true_iff in H as [H|H]; [apply orb_true_iff in H as [H|H]|].
      * apply andb_true_iff in H as [H Hc]. apply andb_true_iff in H as [Ha Hb].
        apply N.eqb_eq in Ha as ->. now apply DO_1dd.
      * apply andb_true_iff in H as [H Hc]. apply andb_true_iff in H as [H Hb2].
        apply andb_true_iff in H as [Ha Hb1]. apply N.eqb_eq in Ha as ->. apply DO_2dd; [lia|exact Hc].
      * apply andb_true_iff in H as [H Hc2]. apply andb_true_iff in H as [H Hc1].
        apply andb_true_iff in H as [Ha Hb]. apply N.eqb_eq in Ha as ->. apply N.eqb_eq in Hb as ->.
        apply DO_25d. lia.
  - intros H. destruct H; cbn [dec_octet_b]; unfold DIGIT in *; lia.
Qed.

Lemma DIGIT_not_dot c : DIGIT c = true -> c <> 46 /\ c <> 58.
Proof. unfold DIGIT. lia. Qed.

Lemma DecOctet_no c d : DecOctet d -> DIGIT c = false -> ~ In c d.
Proof.
  intros H Hc Hin. assert (Hd : Forall (fun x => DIGIT x = true) d).
  { destruct H; repeat constructor; auto; unfold DIGIT; lia. }
  rewrite Forall_forall in Hd. specialize (Hd _ Hin). congruence.
Qed.

Lemma ipv4_b_iff s : ipv4_b s = true <-> IPv4 s.
Proof.
  unfold ipv4_b. split.
  - destruct (split_on 46 s) as [|a [|b [|c [|d [|e fs]]]]] eqn:E; try discriminate.
    intros H. apply andb_true_iff in H as [H Hd]. apply andb_true_iff in H as [H Hc].
    apply andb_true_iff in H as [Ha Hb].
    rewrite <- (split_join 46 s), E. cbn [join].
    constructor; now apply dec_octet_b_iff.
  - intros [a b c d Ha Hb Hc Hd].
    rewrite split_on_app by (apply DecOctet_no; auto).
    rewrite split_on_app by (apply DecOctet_no; auto).
    rewrite split_on_app by (apply DecOctet_no; auto).
    rewrite split_on_none by (apply DecOctet_no; auto).
    apply dec_octet_b_iff in Ha, Hb, Hc, Hd. now rewrite Ha, Hb, Hc, Hd.
Qed.

(** * h16, pieces, IPv6 *)
Lemma h16_b_iff f : h16_b f = true <-> H16 f.
Proof.
  unfold h16_b, H16. rewrite !andb_true_iff, nonempty_ne, forallb_all_in, Nat.leb_le. tauto.
Qed.

Lemma H16_no c f : H16 f -> HEXDIG c = false -> ~ In c f.
Proof. intros (_ & _ & H) Hc. now apply (all_in_no HEXDIG). Qed.

Lemma IPv4_has_dot v : IPv4 v -> In 46 v.
Proof. intros [a b c d _ _ _ _]. apply in_or_app. right. now left. Qed.

Lemma IPv4_no_colon v : IPv4 v -> ~ In 58 v.
Proof.
  intros [a b c d Ha Hb Hc Hd] Hin.
  repeat (apply in_app_or in Hin as [Hin|[Hin|Hin]];
          [revert Hin; now apply DecOctet_no|discriminate|]).
  revert Hin. now apply DecOctet_no.
Qed.

Lemma IPv4_not_h16 v : IPv4 v -> h16_b v = false.
Proof.
  intros H. destruct (h16_b v) eqn:E; [|reflexivity]. apply h16_b_iff in E.
  exfalso. apply (H16_no 46 v E eq_refl). now apply IPv4_has_dot.
Qed.

Lemma pieces_of_sound fs n : pieces_of fs = Some n -> Pieces n (join 58 fs).
Proof.
  revert n; induction fs as [|f fs IH]; intros n; [discriminate|].
  destruct fs as [|g fs].
  - cbn [pieces_of join]. destruct (h16_b f) eqn:E6.
    + intros H. injection H as <-. apply P_h16. now apply h16_b_iff.
    + destruct (ipv4_b f) eqn:E4; [|discriminate]. intros H. injection H as <-. apply P_v4. now apply ipv4_b_iff.
  - change (pieces_of (f :: g :: fs)) with (if h16_b f then option_map S (pieces_of (g :: fs)) else None).
    change (join 58 (f :: g :: fs)) with (f ++ 58 :: join 58 (g :: fs)).
    destruct (h16_b f) eqn:E6; [|discriminate].
    destruct (pieces_of (g :: fs)) as [m|]; [|discriminate]. intros H. injection H as <-.
    apply P_cons; [now apply h16_b_iff|now apply IH].
Qed.

Lemma pieces_b_iff s n : pieces_b s = Some n <-> Pieces n s.
Proof.
  unfold pieces_b. split.
  - intros H. apply pieces_of_sound in H. now rewrite split_join in H.
  - induction 1 as [f Hf|v Hv|f k r Hf Hr IH].
    + rewrite split_on_none by (now apply (H16_no 58 f Hf)). cbn [pieces_of].
      apply h16_b_iff in Hf. now rewrite Hf.
    + rewrite split_on_none by (now apply IPv4_no_colon). cbn [pieces_of].
      rewrite IPv4_not_h16 by exact Hv. apply ipv4_b_iff in Hv. now rewrite Hv.
    + rewrite split_on_app by (now apply (H16_no 58 f Hf)).
      pose proof (split_on_ne 58 r) as Hne. destruct (split_on 58 r) as [|g fs]; [congruence|].
      change (pieces_of (f :: g :: fs)) with (if h16_b f then option_map S (pieces_of (g :: fs)) else None).
      apply h16_b_iff in Hf. now rewrite Hf, IH.
Qed.

Lemma h16seq_sound fs : fs <> [] -> forallb h16_b fs = true -> H16Seq (List.length fs) (join 58 fs).
Proof.
  induction fs as [|f fs IH]; [congruence|]. intros _ H. cbn [forallb] in H.
  apply andb_true_iff in H as [Hf Hr]. apply h16_b_iff in Hf.
  destruct fs as [|g fs]; [now apply HS_one|].
  change (join 58 (f :: g :: fs)) with (f ++ 58 :: join 58 (g :: fs)).
  change (List.length (f :: g :: fs)) with (S (List.length (g :: fs))).
  apply HS_cons; [exact Hf|]. apply IH; [discriminate|exact Hr].
Qed.

Lemma h16seq_b_iff s n : h16seq_b s = Some n <-> H16Seq n s.
Proof.
  unfold h16seq_b. split.
  - destruct (forallb h16_b (split_on 58 s)) eqn:E; [|discriminate]. intros H. injection H as <-.
    rewrite <- (split_join 58 s) at 2. apply h16seq_sound; [apply split_on_ne|exact E].
  - induction 1 as [f Hf|f k r Hf Hr IH].
    + rewrite split_on_none by (now apply (H16_no 58 f Hf)). cbn [forallb List.length].
      apply h16_b_iff in Hf. now rewrite Hf.
    + rewrite split_on_app by (now apply (H16_no 58 f Hf)). cbn [forallb List.length].
      apply h16_b_iff in Hf. rewrite Hf. cbn [andb].
      destruct (forallb h16_b (split_on 58 r)); [|discriminate]. now injection IH as ->.
Qed.

Lemma Pieces_ne n s : Pieces n s -> s <> [].
Proof.
  induction 1 as [f (Hne & _)|v [a b c d _ _ _ _]|f k r (Hne & _) _ _]; try assumption.
  - destruct a; discriminate.
  - destruct f; [congruence|discriminate].
Qed.

Lemma H16Seq_ne n s : H16Seq n s -> s <> [].
Proof. induction 1 as [f (Hne & _)|f k r (Hne & _) _ _]; [assumption|destruct f; [congruence|discriminate]]. Qed.

Lemma side_b_iff (f : str -> option nat) (P : nat -> str -> Prop) :
  (forall s n, f s = Some n <-> P n s) -> (forall n s, P n s -> s <> []) ->
  forall s n, side_b f s = Some n <-> Side P n s.
Proof.
  intros Hf Hne s n. destruct s as [|x s]; cbn [side_b].
  - split.
    + intros H. injection H as <-. constructor.
    + intros H. inversion H; subst; [reflexivity|]. exfalso. eapply Hne; eauto.
  - rewrite Hf. split; [now constructor|]. intros H. now inversion H.
Qed.

Theorem ipv6_b_iff s : ipv6_b s = true <-> IPv6 s.
Proof.
  unfold ipv6_b. rewrite orb_true_iff, existsb_cuts. split.
  - intros [H|(h & r & -> & H)].
    + destruct (pieces_b s) as [n|] eqn:E; [|discriminate].
      apply pieces_b_iff in E. apply V6_full.
      do 9 (destruct n as [|n]; try discriminate). exact E.
    + destruct (strip_pre [58; 58] r) as [t|] eqn:Er; [|discriminate].
      apply strip_pre_some in Er as ->. cbn [app].
      destruct (side_b h16seq_b h) as [nh|] eqn:Eh; [|discriminate].
      destruct (side_b pieces_b t) as [nt|] eqn:Et; [|discriminate].
      apply (side_b_iff h16seq_b H16Seq h16seq_b_iff H16Seq_ne) in Eh.
      apply (side_b_iff pieces_b Pieces pieces_b_iff Pieces_ne) in Et.
      apply Nat.leb_le in H. now apply (V6_compressed h t nh nt).
  - intros [s0 Hp|h t nh nt Hh Ht Hn].
    + left. apply pieces_b_iff in Hp. now rewrite Hp.
    + right. exists h, (58 :: 58 :: t). split; [reflexivity|].
      replace (strip_pre [58; 58] (58 :: 58 :: t)) with (Some t) by (symmetry; now apply strip_pre_some).
      apply (side_b_iff h16seq_b H16Seq h16seq_b_iff H16Seq_ne) in Hh.
      apply (side_b_iff pieces_b Pieces pieces_b_iff Pieces_ne) in Ht.
      rewrite Hh, Ht. now apply Nat.leb_le.
Qed.

(** * Server names *)
Lemma dns_name_b_iff bound s : dns_name_b bound s = true <-> DnsName bound s.
Proof.
  unfold dns_name_b, DnsName, fits255, fits255_b.
  rewrite !andb_true_iff, nonempty_ne, forallb_all_in, orb_true_iff, Nat.leb_le. split.
  - intros [[H1 H2] H3]. repeat split; auto. intros ->. destruct H3 as [H3|H3]; [discriminate|exact H3].
  - intros (H1 & H2 & H3). repeat split; auto. destruct bound; [right; now apply H3|now left].
Qed.

Lemma port_b_iff p : port_b p = true <-> Port p.
Proof. unfold port_b, Port. rewrite !andb_true_iff, forallb_all_in, !Nat.leb_le. tauto. Qed.

Lemma bracketed_b_iff h : bracketed_b h = true <-> exists a, h = 91 :: a ++ [93] /\ IPv6 a.
Proof.
  unfold bracketed_b. split.
  - destruct (strip 91 h) as [r|] eqn:E; [|discriminate]. apply strip_some in E as ->.
    destruct (strip 93 (rev r)) as [a'|] eqn:E; [|discriminate]. apply strip_some in E.
    intros H. apply ipv6_b_iff in H. exists (rev a'). split; [|exact H].
    f_equal. rewrite <- (rev_involutive r), E. reflexivity.
  - intros (a & -> & H). rewrite strip_cons, rev_app_distr. cbn [rev app]. rewrite strip_cons, rev_involutive.
    now apply ipv6_b_iff.
Qed.

Lemma hostname_b_iff bound h : hostname_b bound h = true <-> Hostname bound h.
Proof.
  unfold hostname_b. rewrite !orb_true_iff, ipv4_b_iff, bracketed_b_iff, dns_name_b_iff. split.
  - intros [[H|(a & -> & H)]|H]; [now apply Host_v4|now apply Host_v6|now apply Host_dns].
  - intros [h0 H|a H|h0 H]; eauto.
Qed.

Lemma server_name_b_iff bound s : server_name_b bound s = true <-> ServerName bound s.
Proof.
  unfold server_name_b. rewrite existsb_cuts. split.
  - intros (h & r & -> & H). destruct r as [|x r].
    + rewrite app_nil_r. apply SN_bare. now apply hostname_b_iff.
    + destruct (strip 58 (x :: r)) as [p|] eqn:E; [|discriminate]. apply strip_some in E. rewrite E.
      apply andb_true_iff in H as [Hp Hh]. apply SN_port; [now apply hostname_b_iff|now apply port_b_iff].
  - intros [h Hh|h p Hh Hp].
    + exists h, []. rewrite app_nil_r. split; [reflexivity|]. now apply hostname_b_iff.
    + exists h, (58 :: p). split; [reflexivity|]. rewrite strip_cons.
      apply hostname_b_iff in Hh. apply port_b_iff in Hp. now rewrite Hp, Hh.
Qed.

Lemma port_above_b_iff sn : port_above_b sn = true <-> PortAbove65535 sn.
Proof.
  unfold port_above_b, PortAbove65535. rewrite existsb_cuts. split.
  - intros (h & r & -> & H). destruct (strip 58 r) as [p|] eqn:E; [|discriminate].
    apply strip_some in E as ->. apply andb_true_iff in H as [Hp Hv].
    exists h, p. split; [reflexivity|]. split; [now apply port_b_iff|now apply N.ltb_lt].
  - intros (h & p & -> & Hp & Hv). exists h, (58 :: p). split; [reflexivity|].
    rewrite strip_cons. apply port_b_iff in Hp. rewrite Hp. cbn [andb]. now apply N.ltb_lt.
Qed.

(** * Identifiers *)
Lemma fits255_b_iff s : fits255_b s = true <-> fits255 s.
Proof. unfold fits255_b, fits255. apply Nat.leb_le. Qed.

Lemma local_server_id_b_iff bound sigil s :
  local_server_id_b bound sigil s = true <-> LocalServerId bound sigil s.
Proof.
  unfold local_server_id_b. split.
  - destruct s as [|x r]; [discriminate|]. intros H.
    apply andb_true_iff in H as [H He]. apply andb_true_iff in H as [Hx Hl].
    apply N.eqb_eq in Hx as ->. apply existsb_cuts in He as (l & t & -> & He).
    destruct (strip 58 t) as [sn|] eqn:E; [|discriminate]. apply strip_some in E as ->.
    apply andb_true_iff in He as [Hlo Hsn]. apply fits255_b_iff in Hl.
    constructor; [exact Hlo|now apply server_name_b_iff|exact Hl].
  - intros [l sn Hl Hsn Hf]. rewrite N.eqb_refl. apply fits255_b_iff in Hf. rewrite Hf. cbn [andb].
    apply existsb_cuts. exists l, (58 :: sn). split; [reflexivity|]. rewrite strip_cons, Hl.
    now apply server_name_b_iff.
Qed.

Lemma user_id_strict_b_iff bound s : user_id_strict_b bound s = true <-> UserIdStrict bound s.
Proof.
  unfold user_id_strict_b. split.
  - destruct (strip 64 s) as [r|] eqn:E; [|discriminate]. apply strip_some in E as ->. intros H.
    apply andb_true_iff in H as [Hl He]. apply existsb_cuts in He as (l & t & -> & He).
    destruct (strip 58 t) as [sn|] eqn:E; [|discriminate]. apply strip_some in E as ->.
    apply andb_true_iff in He as [He Hsn]. apply andb_true_iff in He as [Hne Hst].
    constructor; [now apply nonempty_ne|now apply forallb_all_in|now apply server_name_b_iff|now apply fits255_b_iff].
  - intros [l sn Hne Hst Hsn Hf]. rewrite strip_cons. apply fits255_b_iff in Hf. rewrite Hf. cbn [andb].
    apply existsb_cuts. exists l, (58 :: sn). split; [reflexivity|]. rewrite strip_cons.
    apply nonempty_ne in Hne. apply forallb_all_in in Hst. apply server_name_b_iff in Hsn.
    now rewrite Hne, Hst, Hsn.
Qed.

Lemma room_id_b_iff s : room_id_b s = true <-> RoomId s.
Proof.
  unfold room_id_b, RoomId. split.
  - destruct (strip 33 s) as [r|] eqn:E; [|discriminate]. apply strip_some in E as ->. intros H.
    apply andb_true_iff in H as [Hn Hl]. exists r. split; [reflexivity|]. split; [exact Hn|now apply fits255_b_iff].
  - intros (r & -> & Hn & Hl). rewrite strip_cons, Hn. now apply fits255_b_iff.
Qed.

Lemma event_id_b_iff bound s : event_id_b bound s = true <-> EventId bound s.
Proof.
  unfold event_id_b. split.
  - destruct (strip 36 s) as [r|] eqn:E; [|discriminate]. apply strip_some in E as ->. intros H.
    apply orb_true_iff in H as [H|H].
    + apply andb_true_iff in H as [Hl Hf]. apply EI_opaque; [exact Hl|now apply fits255_b_iff].
    + apply EI_server. now apply local_server_id_b_iff.
  - intros [r Hl Hf|s0 H].
    + rewrite strip_cons, Hl. apply fits255_b_iff in Hf. now rewrite Hf.
    + pose proof H as H'. destruct H' as [l sn _ _ _]. rewrite strip_cons.
      apply local_server_id_b_iff in H. rewrite H. apply orb_true_r.
Qed.

Lemma key_id_b_iff k s : key_id_b k s = true <-> KeyId k s.
Proof.
  unfold key_id_b. rewrite existsb_cuts. split.
  - intros (a & t & -> & H). destruct (strip 58 t) as [n|] eqn:E; [|discriminate].
    apply strip_some in E as ->. apply andb_true_iff in H as [H Hk]. apply andb_true_iff in H as [Hne Hc].
    constructor; [now apply nonempty_ne|exact Hc|exact Hk].
  - intros [a n Hne Hc Hk]. exists a, (58 :: n). split; [reflexivity|]. rewrite strip_cons.
    apply nonempty_ne in Hne. now rewrite Hne, Hc, Hk.
Qed.

Lemma mxc_uri_b_iff bound s : mxc_uri_b bound s = true <-> MxcUri bound s.
Proof.
  unfold mxc_uri_b. split.
  - destruct (strip_pre s!"mxc://" s) as [r|] eqn:E; [|discriminate]. apply strip_pre_some in E as ->.
    intros H. apply existsb_cuts in H as (sn & t & -> & H).
    destruct (strip 47 t) as [m|] eqn:E; [|discriminate]. apply strip_some in E as ->.
    apply andb_true_iff in H as [H Hsn]. apply andb_true_iff in H as [Hne Hm].
    constructor; [now apply server_name_b_iff|now apply nonempty_ne|now apply forallb_all_in].
  - intros [sn m Hsn Hne Hm].
    replace (strip_pre s!"mxc://" (s!"mxc://" ++ sn ++ 47 :: m)) with (Some (sn ++ 47 :: m))
      by (symmetry; now apply strip_pre_some).
    apply existsb_cuts. exists sn, (47 :: m). split; [reflexivity|]. rewrite strip_cons.
    apply nonempty_ne in Hne. apply forallb_all_in in Hm. apply server_name_b_iff in Hsn. now rewrite Hne, Hm, Hsn.
Qed.

Lemma server_parts_b_iff s host port : server_parts_b s host port = true <-> server_parts_ok s host port.
Proof.
  unfold server_parts_b, server_parts_ok. destruct port as [v|].
  - rewrite existsb_cuts. split.
    + intros (h & r & -> & H). destruct (strip 58 r) as [p|] eqn:E; [|discriminate].
      apply strip_some in E as ->. apply andb_true_iff in H as [H Hh]. apply andb_true_iff in H as [Hp Hv].
      apply str_eqb_eq in Hh as ->. exists p. split; [reflexivity|]. split; [now apply port_b_iff|now apply N.eqb_eq].
    + intros (p & -> & Hp & Hv). exists host, (58 :: p). split; [reflexivity|]. rewrite strip_cons.
      apply port_b_iff in Hp. rewrite Hp, str_eqb_refl. subst v. now rewrite N.eqb_refl.
  - apply str_eqb_eq.
Qed.
