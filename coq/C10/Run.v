(** C10.Run — case decoding, the model run, and the Spec predicates evaluated on the
    implementation's outcome (failing-input search).  Case and outcome shapes: harness/src/c10.rs. *)
From Base Require Import Prelude Sx.
From C10 Require Import Model Spec.

(** ** Model side: outcomes encoded as the harness encodes the implementation's *)
Definition mk (o : outcome sx) : sx := sx_outcome (fun x => x) o.

(** Ok -> 0, Err e -> e; a panic propagates. *)
Definition code_of {A} (o : outcome A) (k : Z -> outcome sx) : outcome sx :=
  match o with Ok _ => k 0%Z | Err e => k (Z.of_N e) | Panic p => Panic p end.

Definition sx_ostr (o : option str) : sx := sx_opt SS o.

Definition out_user (s : str) : outcome sx :=
  obind (validate_user_id s) (fun _ =>
  obind (id_localpart s) (fun lp =>
  obind (id_server_name s) (fun sn =>
  match user_fully_conforming s with
  | Panic p => Panic p
  | Ok b => Ok (SL [SS s; SS lp; SS sn; sx_bool (negb b); SN 0; SN (if b then 0 else 2)])
  | Err e => Ok (SL [SS s; SS lp; SS sn; sx_bool false; sx_N e; sx_N e])
  end))).

Definition out_room (s : str) : outcome sx :=
  obind (validate_room_id s) (fun _ =>
  obind (roa_server_name s) (fun sn => Ok (SL [SS s; sx_ostr sn]))).

Definition out_alias (s : str) : outcome sx :=
  obind (validate_room_alias_id s) (fun _ =>
  obind (id_localpart s) (fun lp =>
  obind (id_server_name s) (fun sn => Ok (SL [SS s; SS lp; SS sn])))).

Definition out_event (s : str) : outcome sx :=
  obind (validate_event_id s) (fun _ =>
  obind (event_localpart s) (fun lp =>
  obind (event_server_name s) (fun sn => Ok (SL [SS s; SS lp; sx_ostr sn])))).

Definition out_roa (s : str) : outcome sx :=
  obind (validate_room_or_alias_id s) (fun _ =>
  obind (roa_server_name s) (fun sn =>
  Ok (SL [SS s; sx_bool (head_is 33 s); sx_bool (head_is 35 s); sx_ostr sn]))).

Definition out_server (s : str) : outcome sx :=
  obind (validate_server_name s) (fun _ =>
  obind (sn_host s) (fun h =>
  obind (sn_port s) (fun p =>
  obind (sn_is_ip_literal s) (fun b =>
  Ok (SL [SS s; SS h; sx_opt sx_N p; sx_bool b]))))).

Definition out_key (k : key_name_kind) (s : str) : outcome sx :=
  obind (validate_key_id k s) (fun _ =>
  obind (key_algorithm s) (fun a =>
  obind (key_name k s) (fun n => Ok (SL [SS s; SS a; SS n])))).

Definition out_mxc (s : str) : outcome sx :=
  obind (mxc_parts s) (fun '(sn, m) => Ok (SL [SS s; SS sn; SS m])).

Definition out_plain (v : str -> outcome unit) (s : str) : outcome sx :=
  obind (v s) (fun _ => Ok (SL [SS s])).

Definition out_strict (s : str) : outcome sx := obind (validate_user_id_strict s) (fun _ => Ok (SL [])).
Definition out_lfc (s : str) : outcome sx := obind (localpart_fully_conforming s) (fun b => Ok (sx_bool b)).

Definition model_parse (kind : N) (s : str) : option sx :=
  match kind with
  | 0 => Some (mk (out_user s))
  | 1 => Some (mk (out_room s))
  | 2 => Some (mk (out_alias s))
  | 3 => Some (mk (out_event s))
  | 4 => Some (mk (out_roa s))
  | 5 => Some (mk (out_server s))
  | 6 => Some (mk (out_key KAny s))
  | 7 => Some (mk (out_key KSigningVersion s))
  | 8 => Some (mk (out_key KBase64 s))
  | 9 => Some (mk (out_key KAny s))
  | 10 => Some (mk (out_mxc s))
  | 11 => Some (mk (out_plain validate_room_version_id s))
  | 12 => Some (mk (out_plain validate_client_secret s))
  | 13 => Some (mk (out_plain validate_base64_public_key s))
  | 14 => Some (mk (out_plain validate_signing_key_version s))
  | 15 => Some (mk (out_strict s))
  | 16 => Some (mk (out_lfc s))
  | _ => None
  end.

Definition out_pwsn (id sn : str) : outcome sx :=
  obind (parse_with_server_name id sn) (fun built =>
  code_of (validate_user_id built) (fun c => Ok (SL [SS built; SN c]))).

Definition out_from_parts (k : key_name_kind) (alg name : str) : outcome sx :=
  let built := key_from_parts alg name in
  code_of (validate_key_id k built) (fun c => Ok (SL [SS built; SN c])).

Definition out_new (which : N) (sn : str) : outcome sx :=
  let '(sigil, n, v) :=
    match which with
    | 0 => (64, 12%nat, validate_user_id)
    | 1 => (33, 18%nat, validate_room_id)
    | _ => (36, 18%nat, validate_event_id)
    end in
  let built := id_new sigil (repeat 97 n) sn in
  code_of (v built) (fun c => Ok (SL [sx_N (len built); SN c; sx_bool true])).

Definition out_conv (s : str) : outcome sx :=
  obind (validate_room_or_alias_id s) (fun _ =>
  let is_room := head_is 33 s in
  code_of (if is_room then validate_room_id s else validate_room_alias_id s) (fun c =>
  Ok (SL [sx_bool is_room; SS s; SN c]))).

(** ** Spec side: predicates on the IMPLEMENTATION's outcome (independent of Model).
    Soundness is judged against the full grammar of A.7 ([bound = true]); completeness demands that
    every string of that grammar is accepted. *)
Definition is_err (x : sx) : bool := match x with SL [SN 1; _] => true | _ => false end.
Definition flag (x : sx) (b : bool) : bool := match x with SN z => Z.eqb z (if b then 1 else 0) | _ => false end.
Definition num (x : sx) (n : Z) : bool := match x with SN z => Z.eqb z n | _ => false end.

(** the part after the first colon, if there is one *)
Definition after_colon_is (s : str) (sn : str) : bool :=
  existsb (fun '(l, t) => match t with 58 :: x => no_colon l && str_eqb x sn | _ => false end) (cuts s).
Definition has_valid_server_part (s : str) : bool :=
  existsb (fun '(l, t) => match t with 58 :: x => no_colon l && server_name_b true x | _ => false end) (cuts s).
Definition server_opt_ok (s : str) (o : sx) : bool :=
  match o with
  | SL [SS sn] => after_colon_is s sn && server_name_b true sn
  | SL [] => negb (has_valid_server_part s)
  | _ => false
  end.

Definition spec_user (s : str) (impl : sx) : bool :=
  match impl with
  | SL [SN 0; SL [SS s'; SS lp; SS sn; h; vh; vs]] =>
      user_id_b true s && str_eqb s' s && str_eqb (64 :: lp ++ 58 :: sn) s && local_ok lp && server_name_b true sn
      && match classify_local lp with
         | 0 => flag h false && num vh 0 && num vs 0
         | 1 => flag h true && num vh 0 && num vs 2
         | 2 => flag h false && num vh 2 && num vs 2
         | _ => flag h false && num vh 1 && num vs 1
         end
  | SL [SN 1; _] => negb (user_id_b true s)
  | _ => false
  end.

Definition spec_alias (s : str) (impl : sx) : bool :=
  match impl with
  | SL [SN 0; SL [SS s'; SS lp; SS sn]] =>
      room_alias_id_b true s && str_eqb s' s && str_eqb (35 :: lp ++ 58 :: sn) s && local_ok lp && server_name_b true sn
  | SL [SN 1; _] => negb (room_alias_id_b true s)
  | _ => false
  end.

Definition spec_room (s : str) (impl : sx) : bool :=
  match impl with
  | SL [SN 0; SL [SS s'; o]] => room_id_b s && str_eqb s' s && server_opt_ok s o
  | SL [SN 1; _] => negb (room_id_b s)
  | _ => false
  end.

Definition spec_event (s : str) (impl : sx) : bool :=
  match impl with
  | SL [SN 0; SL [SS s'; SS lp; o]] =>
      event_id_b true s && str_eqb s' s &&
      match o with
      | SL [SS sn] => str_eqb (36 :: lp ++ 58 :: sn) s && no_colon lp && server_name_b true sn
      | SL [] => str_eqb (36 :: lp) s && no_colon lp
      | _ => false
      end
  | SL [SN 1; _] => negb (event_id_b true s)
  | _ => false
  end.

Definition spec_roa (s : str) (impl : sx) : bool :=
  match impl with
  | SL [SN 0; SL [SS s'; r; a; o]] =>
      room_or_alias_id_b true s && str_eqb s' s && flag r (room_id_b s) && flag a (room_alias_id_b true s)
      && server_opt_ok s o
  | SL [SN 1; _] => negb (room_or_alias_id_b true s)
  | _ => false
  end.

Definition spec_server (s : str) (impl : sx) : bool :=
  match impl with
  | SL [SN 0; SL [SS s'; SS h; p; ip]] =>
      server_name_b true s && str_eqb s' s && hostname_b true h && flag ip (ip_literal_b h) &&
      match p with
      | SL [] => server_parts_b s h None
      | SL [SN v] => (0 <=? v)%Z && server_parts_b s h (Some (Z.to_N v))
      | _ => false
      end
  | SL [SN 1; _] => negb (server_name_b true s)
  | _ => false
  end.

Definition spec_key (k : key_kind) (s : str) (impl : sx) : bool :=
  match impl with
  | SL [SN 0; SL [SS s'; SS a; SS n]] =>
      key_id_b k s && str_eqb s' s && str_eqb (a ++ 58 :: n) s && nonempty a && no_colon a && key_name_b k n
  | SL [SN 1; _] => negb (key_id_b k s)
  | _ => false
  end.

Definition spec_mxc (s : str) (impl : sx) : bool :=
  match impl with
  | SL [SN 0; SL [SS s'; SS sn; SS m]] =>
      mxc_uri_b true s && str_eqb s' s && str_eqb (s!"mxc://" ++ sn ++ 47 :: m) s && server_name_b true sn
      && nonempty m && forallb media_char m
  | SL [SN 1; _] => negb (mxc_uri_b true s)
  | _ => false
  end.

Definition spec_plain (g : str -> bool) (s : str) (impl : sx) : bool :=
  match impl with
  | SL [SN 0; SL [SS s']] => g s && str_eqb s' s
  | SL [SN 1; _] => negb (g s)
  | _ => false
  end.

Definition spec_strict (s : str) (impl : sx) : bool :=
  match impl with
  | SL [SN 0; SL []] => user_id_strict_b true s
  | SL [SN 1; _] => negb (user_id_strict_b true s)
  | _ => false
  end.

Definition spec_lfc (s : str) (impl : sx) : bool :=
  match impl with
  | SL [SN 0; b] => match classify_local s with 0 => flag b true | 1 => flag b false | _ => false end
  | SL [SN 1; _] => match classify_local s with 0 | 1 => false | _ => true end
  | _ => false
  end.

Definition spec_parse (kind : N) (s : str) (impl : sx) : bool :=
  match kind with
  | 0 => spec_user s impl
  | 1 => spec_room s impl
  | 2 => spec_alias s impl
  | 3 => spec_event s impl
  | 4 => spec_roa s impl
  | 5 => spec_server s impl
  | 6 | 9 => spec_key AnyName s impl
  | 7 => spec_key SigningVersion s impl
  | 8 => spec_key Base64Key s impl
  | 10 => spec_mxc s impl
  | 11 => spec_plain room_version_b s impl
  | 12 => spec_plain client_secret_b s impl
  | 13 => spec_plain (key_name_b Base64Key) s impl
  | 14 => spec_plain (key_name_b SigningVersion) s impl
  | 15 => spec_strict s impl
  | 16 => spec_lfc s impl
  | _ => false
  end.

(** Constructors: what is built has the documented shape and is accepted by the parser
    (reparse code 0); the completion succeeds whenever the completed id is in the grammar. *)
Definition spec_pwsn (id sn : str) (impl : sx) : bool :=
  let expected := if match id with 64 :: _ => true | _ => false end then id else 64 :: id ++ 58 :: sn in
  match impl with
  | SL [SN 0; SL [SS built; rp]] => num rp 0 && user_id_b true built && str_eqb built expected
  | SL [SN 1; _] => negb (user_id_b true expected)
  | _ => false
  end.

Definition spec_from_parts (alg name : str) (impl : sx) : bool :=
  match impl with
  | SL [SN 0; SL [SS built; rp]] => num rp 0 && str_eqb built (alg ++ 58 :: name)
  | _ => false
  end.

Definition spec_new (impl : sx) : bool :=
  match impl with
  | SL [SN 0; SL [_; rp; shape]] => num rp 0 && flag shape true
  | _ => false
  end.

Definition spec_conv (s : str) (impl : sx) : bool :=
  match impl with
  | SL [SN 0; SL [r; SS back; rp]] => num rp 0 && str_eqb back s && flag r (room_id_b s) && room_or_alias_id_b true s
  | SL [SN 1; _] => negb (room_or_alias_id_b true s)
  | _ => false
  end.

Definition run (x : sx) : sx :=
  match x with
  | SL [SL [SN k; SS s]; impl] =>
      if (k =? 24)%Z then SL [mk (out_conv s); sx_bool (spec_conv s impl)]
      else if (k <? 0)%Z then sx_bad
      else match model_parse (Z.to_N k) s with
           | Some m => SL [m; sx_bool (spec_parse (Z.to_N k) s impl)]
           | None => sx_bad
           end
  | SL [SL [SN 20; SS id; SS sn]; impl] => SL [mk (out_pwsn id sn); sx_bool (spec_pwsn id sn impl)]
  | SL [SL [SN 21; SS a; SS n]; impl] => SL [mk (out_from_parts KAny a n); sx_bool (spec_from_parts a n impl)]
  | SL [SL [SN 22; SS a; SS n]; impl] => SL [mk (out_from_parts KSigningVersion a n); sx_bool (spec_from_parts a n impl)]
  | SL [SL [SN 23; SN w; SS sn]; impl] =>
      if (w <? 0)%Z then sx_bad else SL [mk (out_new (Z.to_N w) sn); sx_bool (spec_new impl)]
  | _ => sx_bad
  end.
