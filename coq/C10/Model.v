(** C10.Model — executable model of ruma's identifier validators, accessors and constructors.

    Reading of [str]: BYTE strings (UTF-8 bytes of a Rust [&str]).  Rust indexes [&str] by byte
    offsets and panics when a slice bound is not a character boundary; that is [slice] below, so
    every theorem about "never panics" carries the premise [valid_utf8 s] that the Rust type
    guarantees.

    Sources (repaired tree, see known_findings.d/C10.json for the [fix:] commits):
      ruma-identifiers-validation/src/{lib,server_name,user_id,event_id,room_id,room_alias_id,
        room_id_or_alias_id,key_id,mxc_uri,room_version_id,client_secret,base64_public_key,
        server_signing_key_version}.rs
      ruma-common/src/identifiers/{server_name,user_id,event_id,room_id,room_alias_id,
        room_or_alias_id,key_id,mxc_uri}.rs
    Rust std behaviour modelled here (not ruma code; tied by the correspondence run):
      [str::find(char)], [&s[a..b]], [u16::from_str], [Ipv4Addr::from_str], [Ipv6Addr::from_str]
      (core::net::parser, Rust 1.88), [char::is_ascii_alphanumeric], [str::chars().count()].

    The section [Legacy] at the end models the code as it was BEFORE the fixes ([as u8] = mod 256);
    it is used only to record, in Coq, that the natural theorems were refuted there. *)
From Base Require Import Prelude.

(** * Error codes (the harness maps ruma's [Error] enum to the same numbers) *)
Definition E_Empty : N := 1.
Definition E_InvalidCharacters : N := 2.
Definition E_InvalidServerName : N := 3.
Definition E_MaximumLengthExceeded : N := 4.
Definition E_MissingColon : N := 5.
Definition E_MissingLeadingSigil : N := 6.
Definition E_WrongSchema : N := 11.
Definition E_MissingSlash : N := 12.
Definition E_MediaIdMalformed : N := 13.
Definition E_ServerNameMalformed : N := 14.

(** * Rust [&str] primitives *)
Definition len (s : str) : N := N.of_nat (List.length s).

(** [s.find(c)] for an ASCII [c]: byte index of the first occurrence. *)
Fixpoint find (c : N) (s : str) : option N :=
  match s with
  | [] => None
  | x :: r => if x =? c then Some 0 else option_map N.succ (find c r)
  end.

Definition nth (s : str) (i : N) : option N := nth_error s (N.to_nat i).

(** UTF-8 continuation byte 10xxxxxx. *)
Definition is_cont (b : N) : bool := (128 <=? b) && (b <? 192).

(** [str::is_char_boundary]. *)
Definition is_char_boundary (s : str) (i : N) : bool :=
  if i =? 0 then true
  else match nth s i with
       | Some b => negb (is_cont b)
       | None => i =? len s
       end.

(** [&s[a..b]]: panics unless [a <= b <= len] and both are character boundaries. *)
Definition slice (s : str) (a b : N) : outcome str :=
  if (a <=? b) && (b <=? len s) && is_char_boundary s a && is_char_boundary s b
  then Ok (firstn (N.to_nat (b - a)) (skipn (N.to_nat a) s))
  else Panic 1.
Definition slice_from (s : str) (a : N) : outcome str := slice s a (len s).
Definition slice_to (s : str) (b : N) : outcome str := slice s 0 b.

Definition is_digit (b : N) : bool := (48 <=? b) && (b <=? 57).
Definition is_lower (b : N) : bool := (97 <=? b) && (b <=? 122).
Definition is_upper (b : N) : bool := (65 <=? b) && (b <=? 90).
Definition is_alnum (b : N) : bool := is_digit b || is_lower b || is_upper b.
Definition is_empty (s : str) : bool := match s with [] => true | _ => false end.
Definition head_is (c : N) (s : str) : bool := match s with x :: _ => x =? c | [] => false end.
Definition contains (c : N) (s : str) : bool := existsb (fun x => x =? c) s.

(** Well-formed UTF-8 (Unicode table 3-7) — what a Rust [&str] always is. *)
Fixpoint valid_utf8 (s : str) : bool :=
  match s with
  | [] => true
  | b0 :: r0 =>
      if b0 <? 128 then valid_utf8 r0
      else match r0 with
      | [] => false
      | b1 :: r1 =>
          if (194 <=? b0) && (b0 <=? 223) then is_cont b1 && valid_utf8 r1
          else match r1 with
          | [] => false
          | b2 :: r2 =>
              if (224 <=? b0) && (b0 <=? 239) then
                (if b0 =? 224 then (160 <=? b1) && (b1 <? 192)
                 else if b0 =? 237 then (128 <=? b1) && (b1 <? 160)
                 else is_cont b1) && is_cont b2 && valid_utf8 r2
              else match r2 with
              | [] => false
              | b3 :: r3 =>
                  (240 <=? b0) && (b0 <=? 244) &&
                  (if b0 =? 240 then (144 <=? b1) && (b1 <? 192)
                   else if b0 =? 244 then (128 <=? b1) && (b1 <? 144)
                   else is_cont b1) && is_cont b2 && is_cont b3 && valid_utf8 r3
              end
          end
      end
  end.

(** [s.chars().count()]: the bytes that are not continuation bytes. *)
Definition char_count (s : str) : N := len (filter (fun b => negb (is_cont b)) s).

(** * [u16::from_str] (core::num, radix 10): optional [+], at least one digit, overflow = error. *)
Fixpoint u16_digits (acc : N) (s : str) : option N :=
  match s with
  | [] => Some acc
  | c :: r =>
      if is_digit c then
        let a := acc * 10 in                       (* checked_mul *)
        if 65535 <? a then None
        else let a' := a + (c - 48) in             (* checked_add *)
             if 65535 <? a' then None else u16_digits a' r
      else None
  end.

Definition u16_from_str (s : str) : option N :=
  match s with
  | [] => None                                      (* Empty *)
  | [c] => if (c =? 43) || (c =? 45) then None else u16_digits 0 s
  | c :: r => if c =? 43 then u16_digits 0 r else u16_digits 0 s   (* '-' is an invalid digit for unsigned *)
  end.

(** * [core::net::parser] — the parser state is the remaining input. *)
Definition to_digit (radix c : N) : option N :=
  if is_digit c then Some (c - 48)
  else if radix =? 16 then
    if (97 <=? c) && (c <=? 102) then Some (c - 87)
    else if (65 <=? c) && (c <=? 70) then Some (c - 55) else None
  else None.

(** The digit loop of [read_number]: [None] as soon as more than [maxd] digits are seen. *)
Fixpoint read_digits (radix maxd : N) (s : str) (acc count : N) : option (N * N * str) :=
  match s with
  | [] => Some (acc, count, s)
  | c :: r =>
      match to_digit radix c with
      | Some d => if maxd <? count + 1 then None
                  else read_digits radix maxd r (acc * radix + d) (count + 1)
      | None => Some (acc, count, s)
      end
  end.

(** [read_number(radix, Some(maxd), allow_zero_prefix)] into a type whose maximum is [limit]. *)
Definition read_number (radix maxd : N) (allow_zero_prefix : bool) (limit : N) (s : str)
  : option (N * str) :=
  let has_leading_zero := head_is 48 s in
  match read_digits radix maxd s 0 0 with
  | None => None
  | Some (v, count, r) =>
      if count =? 0 then None
      else if negb allow_zero_prefix && has_leading_zero && (1 <? count) then None
      else if limit <? v then None else Some (v, r)
  end.

Definition read_given_char (c : N) (s : str) : option str :=
  match s with x :: r => if x =? c then Some r else None | [] => None end.

Definition read_octet (s : str) : option str :=
  match read_number 10 3 false 255 s with Some (_, r) => Some r | None => None end.
Definition read_h16 (s : str) : option str :=
  match read_number 16 4 true 65535 s with Some (_, r) => Some r | None => None end.

Definition opt_bind {A B} (x : option A) (f : A -> option B) : option B :=
  match x with Some a => f a | None => None end.

(** [read_ipv4_addr]: four octets separated by '.', no leading zeroes. *)
Definition read_ipv4 (s : str) : option str :=
  opt_bind (read_octet s) (fun s =>
  opt_bind (read_given_char 46 s) (fun s =>
  opt_bind (read_octet s) (fun s =>
  opt_bind (read_given_char 46 s) (fun s =>
  opt_bind (read_octet s) (fun s =>
  opt_bind (read_given_char 46 s) (fun s =>
  read_octet s)))))).

(** [Ipv4Addr::from_str]: at most 15 bytes, and the whole input is consumed. *)
Definition ipv4_from_str (s : str) : bool :=
  if 15 <? len s then false
  else match read_ipv4 s with Some [] => true | _ => false end.

(** [read_separator(':', i, inner)]. *)
Definition read_sep (first : bool) (s : str) : option str :=
  if first then Some s else read_given_char 58 s.

(** [read_groups]: [n] slots remain, [i] groups read so far ([first] iff [i = 0]).
    Returns (groups read, embedded IPv4 seen, remaining input). *)
Fixpoint read_groups (n : nat) (first : bool) (s : str) (i : N) : N * bool * str :=
  match n with
  | O => (i, false, s)
  | S n' =>
      let v4 := match n' with
                | O => None                     (* fewer than two slots left *)
                | S _ => opt_bind (read_sep first s) read_ipv4
                end in
      match v4 with
      | Some r => (i + 2, true, r)
      | None =>
          match opt_bind (read_sep first s) read_h16 with
          | Some r => read_groups n' false r (i + 1)
          | None => (i, false, s)
          end
      end
  end.

(** [read_ipv6_addr]. *)
Definition read_ipv6 (s : str) : option str :=
  let '(hs, h4, s1) := read_groups 8 true s 0 in
  if hs =? 8 then Some s1
  else if h4 then None
  else
    opt_bind (read_given_char 58 s1) (fun s2 =>
    opt_bind (read_given_char 58 s2) (fun s3 =>
      let limit := 8 - (hs + 1) in
      let '(_, _, s4) := read_groups (N.to_nat limit) true s3 0 in
      Some s4)).

(** [Ipv6Addr::from_str]: the whole input is consumed. *)
Definition ipv6_from_str (s : str) : bool :=
  match read_ipv6 s with Some [] => true | _ => false end.

(** * ruma-identifiers-validation *)

(** server_name.rs:49-59 [is_valid_port] (added by the fix): 1-5 ASCII digits that fit a u16. *)
Definition is_valid_port (p : str) : bool :=
  (1 <=? len p) && (len p <=? 5) && forallb is_digit p &&
  match u16_from_str p with Some _ => true | None => false end.

Definition host_byte_ok (b : N) : bool := is_alnum b || (b =? 45) || (b =? 46).

(** server_name.rs:37-48: what follows the host is nothing, or ":" and a valid port. *)
Definition sn_after_host (port_ok : str -> bool) (s : str) (e : N) : outcome unit :=
  if negb (len s =? e) then
    match nth s e with
    | None => Panic 2                                   (* as_bytes()[end_of_host] *)
    | Some b =>
        if negb (b =? 58) then Err E_InvalidServerName
        else obind (slice_from s (e + 1)) (fun port =>
             if port_ok port then Ok tt else Err E_InvalidServerName)
    end
  else Ok tt.

(** server_name.rs:10-35: the end of the host ([check_empty]: the empty-host check of the fix). *)
Definition sn_end_of_host (check_empty : bool) (s : str) : outcome N :=
  if head_is 91 s then
    match find 93 s with
    | None => Err E_InvalidServerName
    | Some e =>
        obind (slice s 1 e) (fun lit =>
        if ipv6_from_str lit then Ok (e + 1) else Err E_InvalidServerName)
    end
  else
    let e := match find 58 s with Some i => i | None => len s end in
    if check_empty && (e =? 0) then Err E_InvalidServerName
    else obind (slice_to s e) (fun host =>
         if existsb (fun b => negb (host_byte_ok b)) host then Err E_InvalidServerName
         else Ok e).

(** server_name.rs:3-48 [validate]. *)
Definition validate_server_name (s : str) : outcome unit :=
  if is_empty s then Err E_InvalidServerName
  else obind (sn_end_of_host true s) (sn_after_host is_valid_port s).

(** lib.rs:25-37 [validate_id]. *)
Definition validate_id (s : str) (sigil : N) : outcome unit :=
  if 255 <? len s then Err E_MaximumLengthExceeded
  else if head_is sigil s then Ok tt else Err E_MissingLeadingSigil.

(** lib.rs:40-45 [parse_id]. *)
Definition parse_id (s : str) (sigil : N) : outcome N :=
  obind (validate_id s sigil) (fun _ =>
  match find 58 s with
  | None => Err E_MissingColon
  | Some i =>
      obind (slice_from s (i + 1)) (fun sn =>
      obind (validate_server_name sn) (fun _ => Ok i))
  end).

(** lib.rs:62-69 [localpart_is_backwards_compatible]. *)
Definition localpart_bc (l : str) : outcome unit :=
  if contains 58 l || contains 0 l then Err E_InvalidCharacters else Ok tt.

(** user_id.rs:6-13 / room_alias_id.rs:6-13. *)
Definition validate_sigil_local_server (sigil : N) (s : str) : outcome unit :=
  obind (parse_id s sigil) (fun i =>
  obind (slice s 1 i) (fun l => localpart_bc l)).

Definition validate_user_id : str -> outcome unit := validate_sigil_local_server 64.
Definition validate_room_alias_id : str -> outcome unit := validate_sigil_local_server 35.

(** room_id.rs:6-15. *)
Definition validate_room_id (s : str) : outcome unit :=
  obind (validate_id s 33) (fun _ =>
  if contains 0 s then Err E_InvalidCharacters else Ok tt).

(** event_id.rs:3-17 (repaired: the colon-less form is length-checked too; no NUL anywhere). *)
Definition validate_event_id (s : str) : outcome unit :=
  obind (if contains 58 s then obind (parse_id s 36) (fun _ => Ok tt) else validate_id s 36) (fun _ =>
  if contains 0 s then Err E_InvalidCharacters else Ok tt).

(** room_id_or_alias_id.rs:3-9. *)
Definition validate_room_or_alias_id (s : str) : outcome unit :=
  match s with
  | 35 :: _ => validate_room_alias_id s
  | 33 :: _ => validate_room_id s
  | _ => Err E_MissingLeadingSigil
  end.

(** user_id.rs:41-63 [localpart_is_fully_conforming]. *)
Definition strict_byte (b : N) : bool :=
  is_digit b || is_lower b || (b =? 45) || (b =? 46) || (b =? 61) || (b =? 95) || (b =? 47) || (b =? 43).
Definition localpart_fully_conforming (l : str) : outcome bool :=
  if is_empty l then Err E_Empty
  else if forallb strict_byte l then Ok true
  else if existsb (fun b => (b <? 33) || (b =? 58) || (126 <? b)) l then Err E_InvalidCharacters
  else Ok false.

(** user_id.rs:18-33 [validate_strict]. *)
Definition validate_user_id_strict (s : str) : outcome unit :=
  if 255 <? len s then Err E_MaximumLengthExceeded
  else obind (parse_id s 64) (fun i =>
       obind (slice s 1 i) (fun l =>
       obind (localpart_fully_conforming l) (fun b =>
       if b then Ok tt else Err E_InvalidCharacters))).

(** Key names ([KeyName::validate] implementations). *)
Inductive key_name_kind := KAny | KSigningVersion | KBase64.

(** server_signing_key_version.rs (repaired: ASCII). *)
Definition validate_signing_key_version (s : str) : outcome unit :=
  if is_empty s then Err E_Empty
  else if forallb (fun b => is_alnum b || (b =? 95)) s then Ok tt else Err E_InvalidCharacters.

(** base64_public_key.rs (repaired: ASCII). *)
Definition validate_base64_public_key (s : str) : outcome unit :=
  if is_empty s then Err E_Empty
  else if forallb (fun b => is_alnum b || (b =? 43) || (b =? 47) || (b =? 61)) s then Ok tt
  else Err E_InvalidCharacters.

Definition validate_key_name (k : key_name_kind) (s : str) : outcome unit :=
  match k with
  | KAny => Ok tt
  | KSigningVersion => validate_signing_key_version s
  | KBase64 => validate_base64_public_key s
  end.

(** key_id.rs:5-12 (repaired: the colon index is a [NonZeroUsize]). *)
Definition validate_key_id (k : key_name_kind) (s : str) : outcome N :=
  match find 58 s with
  | None => Err E_MissingColon
  | Some i =>
      if i =? 0 then Err E_MissingColon                       (* NonZeroUsize::new *)
      else obind (slice_from s (i + 1)) (fun name =>
           obind (validate_key_name k name) (fun _ => Ok i))
  end.

Definition mxc_prefix : str := s!"mxc://".

Fixpoint strip_prefix (p s : str) : option str :=
  match p, s with
  | [], _ => Some s
  | x :: p', y :: s' => if x =? y then strip_prefix p' s' else None
  | _ :: _, [] => None
  end.

Definition media_byte_ok (b : N) : bool := is_alnum b || (b =? 45) || (b =? 95).

(** mxc_uri.rs:7-33 (repaired: the index is a [NonZeroUsize]; the media id is not empty). *)
Definition validate_mxc (s : str) : outcome N :=
  match strip_prefix mxc_prefix s with
  | None => Err E_WrongSchema
  | Some u =>
      match find 47 u with
      | None => Err E_MissingSlash
      | Some i =>
          obind (slice_to u i) (fun sn =>
          obind (slice_from u (i + 1)) (fun media =>
          if negb (negb (is_empty media) && forallb media_byte_ok media) then Err E_MediaIdMalformed
          else match validate_server_name sn with
               | Ok _ => if i + 6 =? 0 then Panic 3 else Ok (i + 6)      (* NonZeroUsize::new(..).unwrap() *)
               | Err _ => Err E_ServerNameMalformed
               | Panic p => Panic p
               end))
      end
  end.

(** room_version_id.rs:6-16. *)
Definition validate_room_version_id (s : str) : outcome unit :=
  if is_empty s then Err E_Empty
  else if 32 <? char_count s then Err E_MaximumLengthExceeded
  else if forallb (fun b => is_alnum b || (b =? 46) || (b =? 45)) s then Ok tt
  else Err E_InvalidCharacters.

(** client_secret.rs (repaired: ASCII). *)
Definition validate_client_secret (s : str) : outcome unit :=
  if 255 <? len s then Err E_MaximumLengthExceeded
  else if negb (forallb (fun b => is_alnum b || (b =? 46) || (b =? 61) || (b =? 95) || (b =? 45)) s)
       then Err E_InvalidCharacters
  else if is_empty s then Err E_Empty else Ok tt.

(** * Accessors (ruma-common/src/identifiers) — run on an identifier the validator accepted. *)

(** user_id.rs:198-200 / room_alias_id.rs [colon_idx]: [find(':').unwrap()]. *)
Definition colon_idx (s : str) : outcome N :=
  match find 58 s with Some i => Ok i | None => Panic 4 end.

(** [localpart()] / [alias()]: [&s[1..colon_idx]]. *)
Definition id_localpart (s : str) : outcome str := obind (colon_idx s) (fun i => slice s 1 i).
(** [server_name()]: [&s[colon_idx + 1..]]. *)
Definition id_server_name (s : str) : outcome str := obind (colon_idx s) (fun i => slice_from s (i + 1)).

(** user_id.rs:109-117 [validate_fully_conforming]. *)
Definition user_fully_conforming (s : str) : outcome bool :=
  if 255 <? len s then Err E_MaximumLengthExceeded
  else obind (id_localpart s) localpart_fully_conforming.

(** event_id.rs: [localpart()] and [server_name()]. *)
Definition event_localpart (s : str) : outcome str :=
  slice s 1 (match find 58 s with Some i => i | None => len s end).
Definition event_server_name (s : str) : outcome (option str) :=
  match find 58 s with
  | None => Ok None
  | Some i => obind (slice_from s (i + 1)) (fun x => Ok (Some x))
  end.

(** room_or_alias_id.rs [server_name()] (also behind [RoomId::server_name]): the part after the
    first colon if it is a valid server name. *)
Definition roa_server_name (s : str) : outcome (option str) :=
  match find 58 s with
  | None => Ok None
  | Some i =>
      obind (slice_from s (i + 1)) (fun x =>
      match validate_server_name x with
      | Ok _ => Ok (Some x)
      | Err _ => Ok None
      | Panic p => Panic p
      end)
  end.

(** server_name.rs:21-30 [host()]. *)
Definition sn_host (s : str) : outcome str :=
  match find 93 s with
  | Some e => slice_to s (e + 1)
  | None => slice_to s (match find 58 s with Some i => i | None => len s end)
  end.

(** server_name.rs:33-46 [port()]. *)
Definition sn_port (s : str) : outcome (option N) :=
  let e := match find 93 s with
           | Some i => i + 1
           | None => match find 58 s with Some i => i | None => len s end
           end in
  if negb (len s =? e) then
    match nth s e with
    | Some 58 =>
        obind (slice_from s (e + 1)) (fun p =>
        match u16_from_str p with Some v => Ok (Some v) | None => Panic 6 end)   (* parse().unwrap() *)
    | _ => Panic 5                                                                 (* assert! *)
    end
  else Ok None.

(** server_name.rs:49-51 [is_ip_literal()]. *)
Definition sn_is_ip_literal (s : str) : outcome bool :=
  obind (sn_host s) (fun h => Ok (ipv4_from_str h || head_is 91 s)).

(** key_id.rs [algorithm()], [key_name()]: split at [find(':').unwrap()]; [key_name] re-validates
    the name and treats a failure as unreachable. *)
Definition key_algorithm (s : str) : outcome str := obind (colon_idx s) (fun i => slice_to s i).
Definition key_name (k : key_name_kind) (s : str) : outcome str :=
  obind (colon_idx s) (fun i =>
  obind (slice_from s (i + 1)) (fun n =>
  match validate_key_name k n with Ok _ => Ok n | _ => Panic 7 end)).

(** mxc_uri.rs [parts()]: [(&s[6..idx], &s[idx+1..])]. *)
Definition mxc_parts (s : str) : outcome (str * str) :=
  obind (validate_mxc s) (fun idx =>
  obind (slice s 6 idx) (fun sn =>
  obind (slice_from s (idx + 1)) (fun media => Ok (sn, media)))).

(** * Constructors *)

(** user_id.rs:51-63 [parse_with_server_name] (repaired: the completed id is parsed). *)
Definition parse_with_server_name (id sn : str) : outcome str :=
  if head_is 64 id then obind (validate_user_id id) (fun _ => Ok id)
  else obind (localpart_bc id) (fun _ =>
       let built := 64 :: id ++ 58 :: sn in
       obind (validate_user_id built) (fun _ => Ok built)).

(** key_id.rs [from_parts]: algorithm ++ ":" ++ key name, unchecked. *)
Definition key_from_parts (alg name : str) : str := alg ++ 58 :: name.

(** [UserId::new], [RoomId::new], [EventId::new]: sigil ++ localpart ++ ":" ++ server name, unchecked;
    the localpart is random, the model takes it as an argument. *)
Definition id_new (sigil : N) (localpart sn : str) : str := sigil :: localpart ++ 58 :: sn.

(** * Legacy: the code before the fixes (for the record of refuted theorems only). *)
Module Legacy.
  (** key_id.rs before cd34cc9: [NonZeroU8::new(find(':')? as u8)]. *)
  Definition validate_key_id (k : key_name_kind) (s : str) : outcome N :=
    match find 58 s with
    | None => Err E_MissingColon
    | Some i =>
        let i8 := i mod 256 in
        if i8 =? 0 then Err E_MissingColon
        else obind (slice_from s (i8 + 1)) (fun name =>
             obind (validate_key_name k name) (fun _ => Ok i8))
    end.

  (** server_name.rs before 7b50f76 / 7999f9b: no empty-host check, port = [u16::from_str]. *)
  Definition validate_server_name (s : str) : outcome unit :=
    if is_empty s then Err E_InvalidServerName
    else obind (sn_end_of_host false s)
               (sn_after_host (fun p => match u16_from_str p with Some _ => true | None => false end) s).

  (** mxc_uri.rs before 3cd3b0b: [NonZeroU8::new((index + 6) as u8).unwrap()]. *)
  Definition validate_mxc (s : str) : outcome N :=
    match strip_prefix mxc_prefix s with
    | None => Err E_WrongSchema
    | Some u =>
        match find 47 u with
        | None => Err E_MissingSlash
        | Some i =>
            obind (slice_to u i) (fun sn =>
            obind (slice_from u (i + 1)) (fun media =>
            if negb (forallb media_byte_ok media) then Err E_MediaIdMalformed
            else match validate_server_name sn with
                 | Ok _ => if (i + 6) mod 256 =? 0 then Panic 3 else Ok ((i + 6) mod 256)
                 | Err _ => Err E_ServerNameMalformed
                 | Panic p => Panic p
                 end))
        end
    end.

  Definition mxc_parts (s : str) : outcome (str * str) :=
    obind (validate_mxc s) (fun idx =>
    obind (slice s 6 idx) (fun sn =>
    obind (slice_from s (idx + 1)) (fun media => Ok (sn, media)))).

  (** event_id.rs before 8ec2db7 / 8bb4eda: no length check without a colon, NUL allowed. *)
  Definition validate_event_id (s : str) : outcome unit :=
    if contains 58 s then obind (parse_id s 36) (fun _ => Ok tt)
    else if head_is 36 s then Ok tt else Err E_MissingLeadingSigil.

  (** user_id.rs before dab390a: the completed id was not checked. *)
  Definition parse_with_server_name (id sn : str) : outcome str :=
    if head_is 64 id then obind (validate_user_id id) (fun _ => Ok id)
    else obind (localpart_bc id) (fun _ => Ok (64 :: id ++ 58 :: sn)).
End Legacy.
