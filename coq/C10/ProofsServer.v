(** C10.ProofsServer — [server_name::validate] and the [ServerName] accessors, characterised on the
    shape of the input. *)
From Base Require Import Prelude.
From C10 Require Import Model Lemmas.
From Coq Require Import ZifyBool ZifyNat ZifyN.
Ltac Zify.zify_post_hook ::= Z.div_mod_to_equations.

(** What ruma accepts as a host / as a server name (in the model's own terms; related to the
    specification's grammar in Proofs.v). *)
Inductive RumaHost : str -> Prop :=
| RH_v6 a : ipv6_from_str a = true -> ~ In 93 a -> RumaHost (91 :: a ++ [93])
| RH_dns h : h <> [] -> forallb host_byte_ok h = true -> RumaHost h.

Inductive RumaSN : str -> Prop :=
| RSN_bare h : RumaHost h -> RumaSN h
| RSN_port h p : RumaHost h -> is_valid_port p = true -> RumaSN (h ++ 58 :: p).

Lemma existsb_negb_forallb {A} (f : A -> bool) l : existsb (fun x => negb (f x)) l = negb (forallb f l).
Proof. induction l as [|x l IH]; cbn; [reflexivity|]. rewrite IH. now destruct (f x). Qed.

Lemma forallb_host_no c h : host_byte_ok c = false -> forallb host_byte_ok h = true -> ~ In c h.
Proof.
  intros Hc Hh Hin. rewrite forallb_forall in Hh. specialize (Hh _ Hin). congruence.
Qed.

Lemma is_empty_app_cons a x : is_empty (a ++ [x]) = false.
Proof. destruct a; reflexivity. Qed.

(** ** The part after the host *)
Lemma sn_after_host_eq ok h r :
  sn_after_host ok (h ++ r) (len h) =
  match r with
  | [] => Ok tt
  | b :: r' =>
      if negb (b =? 58) then Err E_InvalidServerName
      else if bdry r' then (if ok r' then Ok tt else Err E_InvalidServerName) else Panic 1
  end.
Proof.
  unfold sn_after_host. destruct r as [|b r'].
  - rewrite app_nil_r, N.eqb_refl. reflexivity.
  - replace (len (h ++ b :: r') =? len h) with false by (rewrite len_app, len_cons; lia).
    cbn [negb]. rewrite nth_app. destruct (N.eqb_spec b 58) as [->|Hb]; cbn [negb]; [|reflexivity].
    replace (h ++ 58 :: r') with ((h ++ [58]) ++ r') by (now rewrite <- app_assoc).
    replace (len h + 1) with (len (h ++ [58])) by (rewrite len_app; reflexivity).
    rewrite slice_from_app, is_empty_app_cons. cbn [orb].
    destruct (bdry r'); reflexivity.
Qed.

(** ** The end of the host *)
Lemma sn_end_of_host_v6 ce a r :
  ~ In 93 a ->
  sn_end_of_host ce (91 :: a ++ 93 :: r) =
  if bdry (a ++ 93 :: r) then
    (if ipv6_from_str a then Ok (len (91 :: a ++ [93])) else Err E_InvalidServerName)
  else Panic 1.
Proof.
  intros Hn. unfold sn_end_of_host. cbn [head_is]. rewrite N.eqb_refl.
  change (91 :: a ++ 93 :: r) with ((91 :: a) ++ 93 :: r).
  rewrite find_app by (intros [E|E]; [discriminate|auto]).
  pose proof (slice_mid [91] a (93 :: r)) as H.
  change ([91] ++ a ++ 93 :: r) with ((91 :: a) ++ 93 :: r) in H.
  change (len [91]) with 1 in H.
  replace (len (91 :: a)) with (1 + len a) by (rewrite len_cons; lia). rewrite H.
  cbn [is_empty orb app]. rewrite (bdry_ascii 93) by lia. rewrite andb_true_r.
  destruct (bdry (a ++ 93 :: r)); [|reflexivity]. cbn [obind].
  destruct (ipv6_from_str a); [|reflexivity].
  f_equal. rewrite !len_cons, len_app, len_cons. cbn [len List.length N.of_nat]. lia.
Qed.

Lemma sn_end_of_host_v6_none ce s : head_is 91 s = true -> ~ In 93 s -> sn_end_of_host ce s = Err E_InvalidServerName.
Proof. intros H Hn. unfold sn_end_of_host. rewrite H, find_not_in by exact Hn. reflexivity. Qed.

Definition host_result (ce : bool) (h : str) : outcome N :=
  if ce && is_empty h then Err E_InvalidServerName
  else if forallb host_byte_ok h then Ok (len h) else Err E_InvalidServerName.

Lemma is_empty_len h : (len h =? 0) = is_empty h.
Proof. destruct h; [reflexivity|]. cbn [is_empty]. rewrite len_cons. lia. Qed.

Lemma sn_end_of_host_colon ce h r :
  head_is 91 (h ++ 58 :: r) = false -> ~ In 58 h ->
  sn_end_of_host ce (h ++ 58 :: r) = host_result ce h.
Proof.
  intros Hh Hn. unfold sn_end_of_host, host_result. rewrite Hh, find_app by exact Hn.
  cbv zeta. rewrite is_empty_len. destruct (ce && is_empty h); [reflexivity|].
  rewrite slice_to_app, (bdry_ascii 58) by lia. rewrite orb_true_r. cbn [obind].
  rewrite existsb_negb_forallb. destruct (forallb host_byte_ok h); reflexivity.
Qed.

Lemma sn_end_of_host_plain ce h :
  head_is 91 h = false -> ~ In 58 h -> sn_end_of_host ce h = host_result ce h.
Proof.
  intros Hh Hn. unfold sn_end_of_host, host_result. rewrite Hh, find_not_in by exact Hn.
  cbv zeta. rewrite is_empty_len. destruct (ce && is_empty h); [reflexivity|].
  pose proof (slice_to_app h []) as H. rewrite app_nil_r in H. rewrite H. cbn [bdry].
  rewrite orb_true_r. cbn [obind].
  rewrite existsb_negb_forallb. destruct (forallb host_byte_ok h); reflexivity.
Qed.

(** ** Every string has one of four shapes *)
Lemma split_first (c : N) (s : str) : ~ In c s \/ exists a r, s = a ++ c :: r /\ ~ In c a.
Proof.
  destruct (find c s) as [i|] eqn:E.
  - right. destruct (find_some _ _ _ E) as (a & r & -> & _ & Hn). now exists a, r.
  - left. now apply find_none.
Qed.

Lemma head_is_app c a r : a <> [] -> head_is c (a ++ r) = head_is c a.
Proof. destruct a; [congruence|reflexivity]. Qed.

(** ** Acceptance *)
Lemma is_empty_false s : is_empty s = false -> s <> [].
Proof. destruct s; [discriminate|discriminate]. Qed.

Theorem sn_ok_ruma s : validate_server_name s = Ok tt -> RumaSN s.
Proof.
  unfold validate_server_name. destruct (is_empty s) eqn:Hem; [discriminate|].
  apply is_empty_false in Hem.
  destruct (head_is 91 s) eqn:Hh.
  - apply head_is_cons in Hh as (s' & ->).
    destruct (split_first 93 s') as [Hn|(a & r & -> & Hn)].
    + rewrite sn_end_of_host_v6_none; [discriminate|reflexivity|].
      intros [E|E]; [discriminate|auto].
    + rewrite sn_end_of_host_v6 by exact Hn.
      destruct (bdry (a ++ 93 :: r)); [|discriminate].
      destruct (ipv6_from_str a) eqn:E6; [|discriminate]. cbn [obind].
      replace (91 :: a ++ 93 :: r) with ((91 :: a ++ [93]) ++ r) by (cbn [app]; now rewrite <- app_assoc).
      rewrite sn_after_host_eq. destruct r as [|b r'].
      * intros _. rewrite app_nil_r. apply RSN_bare, RH_v6; assumption.
      * destruct (N.eqb_spec b 58) as [->|]; cbn [negb]; [|discriminate].
        destruct (bdry r'); [|discriminate]. destruct (is_valid_port r') eqn:Ep; [|discriminate].
        intros _. apply RSN_port; [apply RH_v6; assumption|exact Ep].
  - destruct (split_first 58 s) as [Hn|(h & r & E & Hn)].
    + rewrite sn_end_of_host_plain by assumption. unfold host_result.
      destruct (true && is_empty s); [discriminate|].
      destruct (forallb host_byte_ok s) eqn:Ef; cbn [obind]; [|discriminate].
      intros _. apply RSN_bare, RH_dns; assumption.
    + subst s. rewrite sn_end_of_host_colon by assumption. unfold host_result.
      destruct h as [|y h']; cbn [andb is_empty]; [discriminate|].
      destruct (forallb host_byte_ok (y :: h')) eqn:Ef; cbn [obind]; [|discriminate].
      rewrite sn_after_host_eq. rewrite N.eqb_refl. cbn [negb].
      destruct (bdry r); [|discriminate]. destruct (is_valid_port r) eqn:Ep; [|discriminate].
      intros _. apply RSN_port; [apply RH_dns; [discriminate|exact Ef]|exact Ep].
Qed.

Lemma host_byte_ok_58 : host_byte_ok 58 = false. Proof. reflexivity. Qed.
Lemma host_byte_ok_91 : host_byte_ok 91 = false. Proof. reflexivity. Qed.

Lemma dns_head h : h <> [] -> forallb host_byte_ok h = true -> head_is 91 h = false.
Proof.
  destruct h as [|x h]; [congruence|]. intros _ H. cbn [forallb] in H. apply andb_true_iff in H as [H _].
  cbn [head_is]. destruct (N.eqb_spec x 91) as [->|]; [discriminate|reflexivity].
Qed.

(** The end of a ruma host inside any string that continues with [r]. *)
Lemma ruma_host_end h r :
  RumaHost h -> Utf8 (h ++ r) -> (r = [] \/ exists r', r = 58 :: r') ->
  sn_end_of_host true (h ++ r) = Ok (len h).
Proof.
  intros Hh Hu Hr. destruct Hh as [a H6 Hn|h Hne Hf].
  - replace ((91 :: a ++ [93]) ++ r) with (91 :: a ++ 93 :: r) in * by (cbn [app]; now rewrite <- app_assoc).
    rewrite sn_end_of_host_v6 by exact Hn.
    rewrite (Utf8_after _ [] 91 (a ++ 93 :: r) Hu eq_refl) by lia. rewrite H6. reflexivity.
  - pose proof (dns_head _ Hne Hf) as Hd.
    pose proof (forallb_host_no 58 h host_byte_ok_58 Hf) as Hn.
    destruct Hr as [->|(r' & ->)].
    + rewrite app_nil_r. rewrite sn_end_of_host_plain by assumption.
      unfold host_result. rewrite Hf. destruct h; [congruence|reflexivity].
    + rewrite sn_end_of_host_colon; [| rewrite head_is_app by exact Hne; exact Hd | exact Hn].
      unfold host_result. rewrite Hf. destruct h; [congruence|reflexivity].
Qed.

Lemma ruma_host_nonempty h : RumaHost h -> h <> [].
Proof. intros [a _ _|h' Hne _]; [discriminate|exact Hne]. Qed.

Theorem ruma_sn_ok s : Utf8 s -> RumaSN s -> validate_server_name s = Ok tt.
Proof.
  intros Hu H. unfold validate_server_name. destruct H as [h Hh|h p Hh Hp].
  - pose proof (ruma_host_nonempty _ Hh) as Hne. destruct h as [|x h']; [congruence|]. cbn [is_empty].
    pose proof (ruma_host_end (x :: h') [] Hh) as E. rewrite app_nil_r in E.
    rewrite E by (auto). cbn [obind].
    pose proof (sn_after_host_eq is_valid_port (x :: h') []) as H. rewrite app_nil_r in H. exact H.
  - pose proof (ruma_host_nonempty _ Hh) as Hne.
    assert (Hs : is_empty (h ++ 58 :: p) = false) by (destruct h; [congruence|reflexivity]).
    rewrite Hs. rewrite (ruma_host_end h (58 :: p) Hh Hu) by (right; eauto). cbn [obind].
    rewrite sn_after_host_eq, N.eqb_refl. cbn [negb].
    rewrite (Utf8_after _ h 58 p Hu eq_refl) by lia. rewrite Hp. reflexivity.
Qed.

(** ** Totality *)
Lemma sn_after_host_total ok h r : Utf8 (h ++ r) -> forall p, sn_after_host ok (h ++ r) (len h) <> Panic p.
Proof.
  intros Hu p. rewrite sn_after_host_eq. destruct r as [|b r']; [discriminate|].
  destruct (N.eqb_spec b 58) as [->|]; cbn [negb]; [|discriminate].
  rewrite (Utf8_after _ h 58 r' Hu eq_refl) by lia. destruct (ok r'); discriminate.
Qed.

Lemma host_result_len ce h e : host_result ce h = Ok e -> e = len h.
Proof. unfold host_result. destruct (ce && is_empty h); [discriminate|]. destruct (forallb _ h); congruence. Qed.

Lemma host_result_total ce h p : host_result ce h <> Panic p.
Proof. unfold host_result. destruct (ce && is_empty h); [discriminate|]. destruct (forallb _ h); discriminate. Qed.

(** [sn_end_of_host] returns the length of a prefix, or an error. *)
Lemma sn_end_of_host_prefix ce s :
  Utf8 s ->
  match sn_end_of_host ce s with
  | Ok e => exists h r, s = h ++ r /\ e = len h
  | Err _ => True
  | Panic _ => False
  end.
Proof.
  intros Hu. destruct (head_is 91 s) eqn:Hh.
  - apply head_is_cons in Hh as (s' & ->).
    destruct (split_first 93 s') as [Hn|(a & r & -> & Hn)].
    + rewrite sn_end_of_host_v6_none; [exact I|reflexivity|]. intros [E|E]; [discriminate|auto].
    + rewrite sn_end_of_host_v6 by exact Hn.
      rewrite (Utf8_after _ [] 91 (a ++ 93 :: r) Hu eq_refl) by lia.
      destruct (ipv6_from_str a); [|exact I].
      exists (91 :: a ++ [93]), r. split; [cbn [app]; now rewrite <- app_assoc|reflexivity].
  - destruct (split_first 58 s) as [Hn|(h & r & E & Hn)].
    + rewrite sn_end_of_host_plain by assumption.
      destruct (host_result ce s) eqn:E; [|exact I|exact (host_result_total _ _ _ E)].
      apply host_result_len in E. exists s, []. now rewrite app_nil_r.
    + subst s. rewrite sn_end_of_host_colon by assumption.
      destruct (host_result ce h) eqn:E; [|exact I|exact (host_result_total _ _ _ E)].
      apply host_result_len in E. now exists h, (58 :: r).
Qed.

Theorem sn_total s : Utf8 s -> forall p, validate_server_name s <> Panic p.
Proof.
  intros Hu p. unfold validate_server_name. destruct (is_empty s); [discriminate|].
  pose proof (sn_end_of_host_prefix true s Hu) as H.
  destruct (sn_end_of_host true s) as [e|e|q]; [|discriminate|contradiction].
  destruct H as (h & r & -> & ->). cbn [obind]. now apply sn_after_host_total.
Qed.

(** Errors of [server_name::validate] are always [InvalidServerName]. *)
Theorem sn_err s e : validate_server_name s = Err e -> e = E_InvalidServerName.
Proof.
  unfold validate_server_name, E_InvalidServerName. destruct (is_empty s); [intros; congruence|].
  assert (He : forall e', sn_end_of_host true s = Err e' -> e' = 3).
  { unfold sn_end_of_host, E_InvalidServerName. intros e'. destruct (head_is 91 s).
    - destruct (find 93 s); [|intros; congruence].
      destruct (slice s 1 n) eqn:Es; cbn [obind]; try (intros; congruence);
        [|exfalso; exact (slice_not_err _ _ _ _ Es)].
      destruct (ipv6_from_str a); intros; congruence.
    - cbv zeta. destruct (true && _); [intros; congruence|].
      destruct (slice_to s _) eqn:Es; cbn [obind]; try (intros; congruence);
        [|exfalso; exact (slice_to_not_err _ _ _ Es)].
      destruct (existsb _ a); intros; congruence. }
  destruct (sn_end_of_host true s) as [n|e'|q] eqn:E; cbn [obind];
    [|intros H; injection H as <-; now apply He|discriminate].
  unfold sn_after_host, E_InvalidServerName. destruct (negb (len s =? n)); [|discriminate].
  destruct (nth s n) as [b|]; [|discriminate]. destruct (negb (b =? 58)); [intros; congruence|].
  destruct (slice_from s (n + 1)) eqn:Es; cbn [obind]; try (intros; congruence);
    [|exfalso; exact (slice_from_not_err _ _ _ Es)].
  destruct (is_valid_port a); intros; congruence.
Qed.

(** ** Accessors of an accepted server name: [host()], [port()], [is_ip_literal()] *)
Lemma valid_port_inv p :
  is_valid_port p = true ->
  forallb is_digit p = true /\ (exists v, u16_from_str p = Some v) /\ 1 <= len p <= 5.
Proof.
  unfold is_valid_port. intros H.
  apply andb_true_iff in H as [H Hu]. apply andb_true_iff in H as [H Hd].
  apply andb_true_iff in H as [H1 H5].
  split; [exact Hd|]. split; [|lia]. destruct (u16_from_str p) as [v|]; [now exists v|discriminate].
Qed.

Lemma digits_no c p : is_digit c = false -> forallb is_digit p = true -> ~ In c p.
Proof. intros Hc Hp Hin. rewrite forallb_forall in Hp. specialize (Hp _ Hin). congruence. Qed.

Lemma digits_bdry p : forallb is_digit p = true -> bdry p = true.
Proof.
  destruct p as [|c p]; [reflexivity|]. cbn [forallb bdry]. intros H.
  apply andb_true_iff in H as [H _]. unfold is_digit in H. unfold is_cont. lia.
Qed.

Lemma In_app_cons_no (c x : N) a r : ~ In c a -> c <> x -> ~ In c r -> ~ In c (a ++ x :: r).
Proof. intros Ha Hx Hr Hin. apply in_app_or in Hin as [H|[H|H]]; auto. Qed.

(** host, port text (if any) of a server name *)
Inductive SnParts : str -> str -> option str -> Prop :=
| SP_bare h : RumaHost h -> SnParts h h None
| SP_port h p : RumaHost h -> is_valid_port p = true -> SnParts (h ++ 58 :: p) h (Some p).

Lemma ruma_sn_parts s : RumaSN s -> exists h p, SnParts s h p.
Proof.
  intros [h Hh|h p Hh Hp].
  - exists h, None. now constructor.
  - exists h, (Some p). now constructor.
Qed.

Lemma sn_host_ok s h p : SnParts s h p -> sn_host s = Ok h.
Proof.
  intros H. unfold sn_host.
  assert (Hr : exists r, s = h ++ r /\ bdry r = true /\ ~ In 93 r /\ (r = [] \/ exists r', r = 58 :: r') /\ RumaHost h).
  { destruct H as [h Hh|h p Hh Hp].
    - exists []. rewrite app_nil_r. repeat split; auto.
    - exists (58 :: p). apply valid_port_inv in Hp as (Hd & _ & _). repeat split; eauto.
      intros [E|E]; [discriminate|]. revert E. now apply digits_no. }
  destruct Hr as (r & -> & Hb & Hn & Hr & Hh). clear H.
  destruct Hh as [a H6 Hna|h Hne Hf].
  - replace ((91 :: a ++ [93]) ++ r) with ((91 :: a) ++ 93 :: r) by (cbn [app]; now rewrite <- app_assoc).
    rewrite find_app by (intros [E|E]; [discriminate|auto]).
    replace ((91 :: a) ++ 93 :: r) with ((91 :: a ++ [93]) ++ r) by (cbn [app]; now rewrite <- app_assoc).
    replace (len (91 :: a) + 1) with (len (91 :: a ++ [93])) by (rewrite !len_cons, len_app; reflexivity).
    rewrite slice_to_app, Hb, orb_true_r. reflexivity.
  - pose proof (forallb_host_no 93 h eq_refl Hf) as H93.
    pose proof (forallb_host_no 58 h eq_refl Hf) as H58.
    rewrite find_not_in by (intros Hin; apply in_app_or in Hin as [Hin|Hin]; auto).
    destruct Hr as [->|(r' & ->)].
    + rewrite app_nil_r, find_not_in by exact H58.
      pose proof (slice_to_app h []) as E. rewrite app_nil_r in E. rewrite E. cbn [bdry].
      now rewrite orb_true_r.
    + rewrite find_app by exact H58. rewrite slice_to_app, Hb, orb_true_r. reflexivity.
Qed.

Lemma sn_port_ok s h p :
  SnParts s h p ->
  sn_port s = Ok (match p with None => None | Some t => u16_from_str t end) /\
  (forall t, p = Some t -> exists v, u16_from_str t = Some v).
Proof.
  intros H. unfold sn_port.
  (* the end of the host as [sn_port] computes it *)
  assert (He : forall r, (r = [] \/ exists r', r = 58 :: r' /\ forallb is_digit r' = true) -> RumaHost h ->
     match find 93 (h ++ r) with
     | Some i => i + 1
     | None => match find 58 (h ++ r) with Some i => i | None => len (h ++ r) end
     end = len h).
  { intros r Hr Hh. destruct Hh as [a H6 Hna|h0 Hne Hf].
    - replace ((91 :: a ++ [93]) ++ r) with ((91 :: a) ++ 93 :: r) by (cbn [app]; now rewrite <- app_assoc).
      rewrite find_app by (intros [E|E]; [discriminate|auto]).
      rewrite !len_cons, len_app. reflexivity.
    - pose proof (forallb_host_no 93 h0 eq_refl Hf) as H93.
      pose proof (forallb_host_no 58 h0 eq_refl Hf) as H58.
      destruct Hr as [->|(r' & -> & Hd)].
      + rewrite app_nil_r, (find_not_in 93), (find_not_in 58) by assumption. reflexivity.
      + rewrite (find_not_in 93).
        * now rewrite find_app.
        * apply In_app_cons_no; [exact H93|discriminate|]. now apply digits_no. }
  destruct H as [h Hh|h p Hh Hp].
  - specialize (He [] (or_introl eq_refl) Hh). rewrite app_nil_r in He. rewrite He, N.eqb_refl.
    cbn [negb]. split; [reflexivity|discriminate].
  - destruct (valid_port_inv _ Hp) as (Hd & (v & Hv) & _).
    rewrite (He (58 :: p)) by (auto; right; eauto).
    replace (len (h ++ 58 :: p) =? len h) with false by (rewrite len_app, len_cons; lia).
    cbn [negb]. rewrite nth_app.
    replace (h ++ 58 :: p) with ((h ++ [58]) ++ p) by (now rewrite <- app_assoc).
    replace (len h + 1) with (len (h ++ [58])) by (rewrite len_app; reflexivity).
    rewrite slice_from_app, (digits_bdry _ Hd), orb_true_r. cbn [obind]. rewrite Hv.
    split; [reflexivity|]. intros t E. injection E as <-. eauto.
Qed.

Lemma sn_is_ip_literal_ok s h p :
  SnParts s h p -> sn_is_ip_literal s = Ok (ipv4_from_str h || head_is 91 h).
Proof.
  intros H. unfold sn_is_ip_literal. rewrite (sn_host_ok _ _ _ H). cbn [obind]. do 2 f_equal.
  destruct H as [h Hh|h p Hh Hp]; [reflexivity|].
  apply head_is_app. now apply ruma_host_nonempty.
Qed.
