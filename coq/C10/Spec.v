(** C10.Spec — the identifier grammar of the Matrix specification (DESIGN.md Appendix A.7:
    appendices "Identifier grammar" and "Server name", RFC 3986 for IP literals), written per
    grammar production, as inductive predicates AND as boolean recognisers (equivalence in
    SpecProofs.v).  Independent of Model.v: nothing here mentions [find], indices or slices; the
    recognisers try every decomposition.

    Reading of [str]: byte strings.

    Two strengths of the server-name grammar are needed and are selected by [bound]:
      [bound = true]   the grammar of A.7, dns-name = 1*255( ALPHA / DIGIT / "-" / "." )
      [bound = false]  the structure the property text lists (non-empty hostname, IPv4 or
                       bracketed IPv6 literal, optional port of 1-5 digits): no 255 bound on the
                       dns-name of a bare server name (inside an identifier the 255-byte limit of
                       the identifier bounds it anyway). *)
From Base Require Import Prelude.

Definition DIGIT (c : N) : bool := (48 <=? c) && (c <=? 57).
Definition UPALPHA (c : N) : bool := (65 <=? c) && (c <=? 90).
Definition LOALPHA (c : N) : bool := (97 <=? c) && (c <=? 122).
Definition ALPHA (c : N) : bool := UPALPHA c || LOALPHA c.
(** RFC 3986: hexadecimal digits are case-insensitive. *)
Definition HEXDIG (c : N) : bool := DIGIT c || ((65 <=? c) && (c <=? 70)) || ((97 <=? c) && (c <=? 102)).

Definition nonempty (s : str) : bool := match s with [] => false | _ => true end.
Definition all_in (p : N -> bool) (s : str) : Prop := Forall (fun c => p c = true) s.
(** At most 255 bytes. *)
Definition fits255 (s : str) : Prop := (List.length s <= 255)%nat.
Definition fits255_b (s : str) : bool := (List.length s <=? 255)%nat.

(** [strip c s]: [s] without its first byte if that is [c]; [strip_pre p s]: [s] without the prefix [p]. *)
Definition strip (c : N) (s : str) : option str :=
  match s with x :: r => if x =? c then Some r else None | [] => None end.
Fixpoint strip_pre (p s : str) : option str :=
  match p with
  | [] => Some s
  | c :: p' => match strip c s with Some r => strip_pre p' r | None => None end
  end.

(** Fields of a string separated by [c], and the inverse. *)
Fixpoint split_on (c : N) (s : str) : list str :=
  match s with
  | [] => [[]]
  | x :: r =>
      if x =? c then [] :: split_on c r
      else match split_on c r with
           | f :: fs => (x :: f) :: fs
           | [] => [[x]]
           end
  end.

Fixpoint join (c : N) (fs : list str) : str :=
  match fs with
  | [] => []
  | [f] => f
  | f :: r => f ++ c :: join c r
  end.

(** Every way of cutting [s] in two. *)
Definition cuts (s : str) : list (str * str) :=
  List.map (fun i => (firstn i s, skipn i s)) (seq 0 (S (List.length s))).

(** * IPv4address = dec-octet "." dec-octet "." dec-octet "." dec-octet   (RFC 3986 3.2.2) *)
Inductive DecOctet : str -> Prop :=
| DO_d a : DIGIT a = true -> DecOctet [a]                                       (* 0-9 *)
| DO_dd a b : 49 <= a <= 57 -> DIGIT b = true -> DecOctet [a; b]                (* 10-99 *)
| DO_1dd b c : DIGIT b = true -> DIGIT c = true -> DecOctet [49; b; c]          (* 100-199 *)
| DO_2dd b c : 48 <= b <= 52 -> DIGIT c = true -> DecOctet [50; b; c]           (* 200-249 *)
| DO_25d c : 48 <= c <= 53 -> DecOctet [50; 53; c].                             (* 250-255 *)

Definition dec_octet_b (f : str) : bool :=
  match f with
  | [a] => DIGIT a
  | [a; b] => (49 <=? a) && (a <=? 57) && DIGIT b
  | [a; b; c] =>
      ((a =? 49) && DIGIT b && DIGIT c)
      || ((a =? 50) && (48 <=? b) && (b <=? 52) && DIGIT c)
      || ((a =? 50) && (b =? 53) && (48 <=? c) && (c <=? 53))
  | _ => false
  end.

Inductive IPv4 : str -> Prop :=
| IPv4_intro a b c d : DecOctet a -> DecOctet b -> DecOctet c -> DecOctet d ->
    IPv4 (a ++ 46 :: b ++ 46 :: c ++ 46 :: d).

Definition ipv4_b (s : str) : bool :=
  match split_on 46 s with
  | [a; b; c; d] => dec_octet_b a && dec_octet_b b && dec_octet_b c && dec_octet_b d
  | _ => false
  end.

(** * IPv6address (RFC 3986 3.2.2).

    h16 = 1*4HEXDIG, ls32 = ( h16 ":" h16 ) / IPv4address.  The nine alternatives of the RFC

                                   6( h16 ":" ) ls32
                              "::" 5( h16 ":" ) ls32
      [               h16 ] "::" 4( h16 ":" ) ls32
      [ *1( h16 ":" ) h16 ] "::" 3( h16 ":" ) ls32
      ...
      [ *5( h16 ":" ) h16 ] "::"              h16
      [ *6( h16 ":" ) h16 ] "::"

    are: eight 16-bit pieces without "::" (the last two possibly written as an IPv4 address), or
    [nh] pieces, "::", [nt] pieces (the last two possibly an IPv4 address) with [nh + nt <= 7].
    That uniform reading is what is transcribed below. *)
Definition H16 (f : str) : Prop := f <> [] /\ (List.length f <= 4)%nat /\ all_in HEXDIG f.
Definition h16_b (f : str) : bool := nonempty f && (List.length f <=? 4)%nat && forallb HEXDIG f.

(** [n] h16 groups joined by ":" (n >= 1). *)
Inductive H16Seq : nat -> str -> Prop :=
| HS_one f : H16 f -> H16Seq 1 f
| HS_cons f n r : H16 f -> H16Seq n r -> H16Seq (S n) (f ++ 58 :: r).

(** A sequence worth [n] 16-bit pieces: h16 groups joined by ":", optionally ending in an IPv4
    address that stands for the last two pieces. *)
Inductive Pieces : nat -> str -> Prop :=
| P_h16 f : H16 f -> Pieces 1 f
| P_v4 f : IPv4 f -> Pieces 2 f
| P_cons f n r : H16 f -> Pieces n r -> Pieces (S n) (f ++ 58 :: r).

(** Either side of "::" may be empty. *)
Inductive Side (P : nat -> str -> Prop) : nat -> str -> Prop :=
| Side_empty : Side P 0 []
| Side_some n s : P n s -> Side P n s.

Inductive IPv6 : str -> Prop :=
| V6_full s : Pieces 8 s -> IPv6 s
| V6_compressed h t nh nt :
    Side H16Seq nh h -> Side Pieces nt t -> (nh + nt <= 7)%nat -> IPv6 (h ++ 58 :: 58 :: t).

Fixpoint pieces_of (fs : list str) : option nat :=
  match fs with
  | [] => None
  | [f] => if h16_b f then Some 1%nat else if ipv4_b f then Some 2%nat else None
  | f :: r => if h16_b f then option_map S (pieces_of r) else None
  end.
Definition pieces_b (s : str) : option nat := pieces_of (split_on 58 s).
Definition h16seq_b (s : str) : option nat :=
  let fs := split_on 58 s in if forallb h16_b fs then Some (List.length fs) else None.
Definition side_b (f : str -> option nat) (s : str) : option nat :=
  match s with [] => Some 0%nat | _ => f s end.

Definition ipv6_b (s : str) : bool :=
  (match pieces_b s with Some 8%nat => true | _ => false end)
  || existsb (fun '(h, r) =>
       match strip_pre [58; 58] r with
       | Some t =>
           match side_b h16seq_b h, side_b pieces_b t with
           | Some nh, Some nt => (nh + nt <=? 7)%nat
           | _, _ => false
           end
       | None => false
       end) (cuts s).

(** * Server name = hostname [ ":" port ] *)
Definition dns_char (c : N) : bool := ALPHA c || DIGIT c || (c =? 45) || (c =? 46).
Definition DnsName (bound : bool) (s : str) : Prop :=
  s <> [] /\ all_in dns_char s /\ (bound = true -> fits255 s).
Definition dns_name_b (bound : bool) (s : str) : bool :=
  nonempty s && forallb dns_char s && (negb bound || fits255_b s).

Definition Port (p : str) : Prop := (1 <= List.length p <= 5)%nat /\ all_in DIGIT p.
Definition port_b (p : str) : bool := (1 <=? List.length p)%nat && (List.length p <=? 5)%nat && forallb DIGIT p.
Definition port_value (p : str) : N := fold_left (fun a c => a * 10 + (c - 48)) p 0.

Inductive Hostname (bound : bool) : str -> Prop :=
| Host_v4 h : IPv4 h -> Hostname bound h
| Host_v6 a : IPv6 a -> Hostname bound (91 :: a ++ [93])
| Host_dns h : DnsName bound h -> Hostname bound h.

Inductive ServerName (bound : bool) : str -> Prop :=
| SN_bare h : Hostname bound h -> ServerName bound h
| SN_port h p : Hostname bound h -> Port p -> ServerName bound (h ++ 58 :: p).

Definition bracketed_b (h : str) : bool :=
  match strip 91 h with
  | Some r => match strip 93 (rev r) with Some a' => ipv6_b (rev a') | None => false end
  | None => false
  end.
Definition hostname_b (bound : bool) (h : str) : bool := ipv4_b h || bracketed_b h || dns_name_b bound h.

Definition server_name_b (bound : bool) (s : str) : bool :=
  existsb (fun '(h, r) =>
    match r with
    | [] => hostname_b bound h
    | _ => match strip 58 r with Some p => port_b p && hostname_b bound h | None => false end
    end) (cuts s).

(** The two classes of the open known findings. *)
(** ruma parses the port as a [u16] ([ServerName::port()] returns one): ports 65536-99999 are in the
    grammar but rejected. *)
Definition PortAbove65535 (sn : str) : Prop :=
  exists h p, sn = h ++ 58 :: p /\ Port p /\ 65535 < port_value p.
Definition port_above_b (sn : str) : bool :=
  existsb (fun '(h, r) => match strip 58 r with Some p => port_b p && (65535 <? port_value p) | None => false end) (cuts sn).
(** ruma does not bound the length of the dns-name of a bare server name. *)
Definition DnsLonger255 (sn : str) : Prop :=
  exists h r, sn = h ++ r /\ all_in dns_char h /\ (255 < List.length h)%nat.

(** * Identifiers of the form sigil localpart ":" server_name, at most 255 bytes.
    Localparts tolerated over federation: anything but ":" and NUL. *)
Definition local_ok (l : str) : bool := forallb (fun c => negb (c =? 58) && negb (c =? 0)) l.

Inductive LocalServerId (bound : bool) (sigil : N) : str -> Prop :=
| LSI l sn :
    local_ok l = true -> ServerName bound sn -> fits255 (sigil :: l ++ 58 :: sn) ->
    LocalServerId bound sigil (sigil :: l ++ 58 :: sn).

Definition local_server_id_b (bound : bool) (sigil : N) (s : str) : bool :=
  match s with
  | x :: r =>
      (x =? sigil) && fits255_b s &&
      existsb (fun '(l, t) => match strip 58 t with Some sn => local_ok l && server_name_b bound sn | None => false end) (cuts r)
  | [] => false
  end.

Definition UserId (bound : bool) : str -> Prop := LocalServerId bound 64.
Definition RoomAliasId (bound : bool) : str -> Prop := LocalServerId bound 35.
Definition user_id_b (bound : bool) : str -> bool := local_server_id_b bound 64.
Definition room_alias_id_b (bound : bool) : str -> bool := local_server_id_b bound 35.

(** User-id localparts: the recommended alphabet and the historical one. *)
Definition strict_char (c : N) : bool :=
  LOALPHA c || DIGIT c || (c =? 45) || (c =? 46) || (c =? 61) || (c =? 95) || (c =? 47) || (c =? 43).
Definition historical_char (c : N) : bool := ((33 <=? c) && (c <=? 57)) || ((59 <=? c) && (c <=? 126)).
(** 0 = recommended grammar, 1 = historical only, 2 = neither, 3 = empty. *)
Definition classify_local (l : str) : N :=
  if negb (nonempty l) then 3
  else if forallb strict_char l then 0
  else if forallb historical_char l then 1 else 2.

Inductive UserIdStrict (bound : bool) : str -> Prop :=
| UIS l sn :
    l <> [] -> all_in strict_char l -> ServerName bound sn -> fits255 (64 :: l ++ 58 :: sn) ->
    UserIdStrict bound (64 :: l ++ 58 :: sn).
Definition user_id_strict_b (bound : bool) (s : str) : bool :=
  match strip 64 s with
  | Some r =>
      fits255_b s &&
      existsb (fun '(l, t) => match strip 58 t with
                              | Some sn => nonempty l && forallb strict_char l && server_name_b bound sn
                              | None => false
                              end) (cuts r)
  | None => false
  end.

(** Room ids: "!" opaque — only sigil, length and NUL are checked (room version 12 aware). *)
Definition no_nul (s : str) : bool := forallb (fun c => negb (c =? 0)) s.
Definition RoomId (s : str) : Prop := exists r, s = 33 :: r /\ no_nul r = true /\ fits255 s.
Definition room_id_b (s : str) : bool :=
  match strip 33 s with Some r => no_nul r && fits255_b s | None => false end.

Definition RoomOrAliasId (bound : bool) (s : str) : Prop := RoomId s \/ RoomAliasId bound s.
Definition room_or_alias_id_b (bound : bool) (s : str) : bool := room_id_b s || room_alias_id_b bound s.

(** Event ids: "$" opaque ":" server_name (room versions 1-2) or "$" opaque (3+). *)
Inductive EventId (bound : bool) : str -> Prop :=
| EI_opaque r : local_ok r = true -> fits255 (36 :: r) -> EventId bound (36 :: r)
| EI_server s : LocalServerId bound 36 s -> EventId bound s.
Definition event_id_b (bound : bool) (s : str) : bool :=
  match strip 36 s with
  | Some r => (local_ok r && fits255_b s) || local_server_id_b bound 36 s
  | None => false
  end.

(** Key ids: algorithm ":" key name. *)
Inductive key_kind := AnyName | SigningVersion | Base64Key.
Definition version_char (c : N) : bool := ALPHA c || DIGIT c || (c =? 95).
Definition base64_char (c : N) : bool := ALPHA c || DIGIT c || (c =? 43) || (c =? 47) || (c =? 61).
Definition key_name_b (k : key_kind) (n : str) : bool :=
  match k with
  | AnyName => true
  | SigningVersion => nonempty n && forallb version_char n
  | Base64Key => nonempty n && forallb base64_char n
  end.
Definition no_colon (a : str) : bool := forallb (fun c => negb (c =? 58)) a.
Inductive KeyId (k : key_kind) : str -> Prop :=
| KI a n : a <> [] -> no_colon a = true -> key_name_b k n = true -> KeyId k (a ++ 58 :: n).
Definition key_id_b (k : key_kind) (s : str) : bool :=
  existsb (fun '(a, t) => match strip 58 t with Some n => nonempty a && no_colon a && key_name_b k n | None => false end) (cuts s).

(** MXC URIs: "mxc://" server_name "/" media_id, media_id = 1*( ALPHA / DIGIT / "-" / "_" ). *)
Definition media_char (c : N) : bool := ALPHA c || DIGIT c || (c =? 45) || (c =? 95).
Inductive MxcUri (bound : bool) : str -> Prop :=
| MX sn m : ServerName bound sn -> m <> [] -> all_in media_char m ->
    MxcUri bound (s!"mxc://" ++ sn ++ 47 :: m).
Definition mxc_uri_b (bound : bool) (s : str) : bool :=
  match strip_pre s!"mxc://" s with
  | Some r =>
      existsb (fun '(sn, t) => match strip 47 t with
                               | Some m => nonempty m && forallb media_char m && server_name_b bound sn
                               | None => false
                               end) (cuts r)
  | None => false
  end.

(** Room versions: 1-32 code points of [A-Za-z0-9.-] (ASCII, so code points = bytes); the grammar
    the specification recommends uses lower case only. *)
Definition version_id_char (c : N) : bool := ALPHA c || DIGIT c || (c =? 46) || (c =? 45).
Definition room_version_b (s : str) : bool :=
  nonempty s && (List.length s <=? 32)%nat && forallb version_id_char s.
Definition room_version_lower_b (s : str) : bool :=
  nonempty s && (List.length s <=? 32)%nat && forallb (fun c => LOALPHA c || DIGIT c || (c =? 46) || (c =? 45)) s.

(** Client secrets: 1-255 of [0-9a-zA-Z.=_-]. *)
Definition secret_char (c : N) : bool := ALPHA c || DIGIT c || (c =? 46) || (c =? 61) || (c =? 95) || (c =? 45).
Definition client_secret_b (s : str) : bool :=
  nonempty s && fits255_b s && forallb secret_char s.

(** * What the accessors must return (recomposition), stated on results. *)
(** host and port of a server name: the text is the host, followed by ":" and a port text whose
    value is the reported port. *)
Definition server_parts_ok (s host : str) (port : option N) : Prop :=
  match port with
  | None => s = host
  | Some v => exists p, s = host ++ 58 :: p /\ Port p /\ port_value p = v
  end.
Definition server_parts_b (s host : str) (port : option N) : bool :=
  match port with
  | None => str_eqb s host
  | Some v =>
      existsb (fun '(h, r) => match strip 58 r with
                              | Some p => port_b p && (port_value p =? v) && str_eqb h host
                              | None => false
                              end) (cuts s)
  end.
(** A server name is an IP literal iff its host is an IPv4 address or a bracketed literal. *)
Definition ip_literal_b (host : str) : bool :=
  ipv4_b host || match strip 91 host with Some _ => true | None => false end.
