(** C10.NonVacuity — the hypotheses of the theorems of Properties.v are satisfiable by non-trivial
    inputs, and the conclusions are what the model computes on them. *)
From Base Require Import Prelude.
From C10 Require Import Model Spec Lemmas SpecProofs Proofs.

Ltac by_recogniser lem := apply lem; vm_compute; reflexivity.
Ltac not_port_above := let H := fresh in intros H; apply port_above_b_iff in H; vm_compute in H; discriminate.

(** a user id with a non-ASCII (federation-tolerated) localpart, an IPv6 literal and a port *)
Example nv_user :
  let s := 64 :: 207 :: 132 :: s!":[1234:5678::abcd]:8448" in
  valid_utf8 s = true /\ UserId true s /\ ~ PortAbove65535 s /\ validate_user_id s = Ok tt /\
  id_localpart s = Ok [207; 132] /\ id_server_name s = Ok s!"[1234:5678::abcd]:8448" /\
  sn_port s!"[1234:5678::abcd]:8448" = Ok (Some 8448) /\ sn_host s!"[1234:5678::abcd]:8448" = Ok s!"[1234:5678::abcd]".
Proof.
  cbv zeta. split; [reflexivity|]. split; [by_recogniser local_server_id_b_iff|].
  split; [not_port_above|]. vm_compute. repeat split.
Qed.

Example nv_strict_user :
  let s := s!"@a.b-c_d=e/f+g:example.com" in
  UserIdStrict true s /\ ~ PortAbove65535 s /\ validate_user_id_strict s = Ok tt.
Proof. cbv zeta. split; [by_recogniser user_id_strict_b_iff|]. split; [not_port_above|reflexivity]. Qed.

Example nv_server_names :
  ServerName true s!"matrix.org" /\ ServerName true s!"1.2.3.4:80" /\ ServerName true s!"[::ffff:1.2.3.4]:65535" /\
  validate_server_name s!"matrix.org" = Ok tt /\ validate_server_name s!"1.2.3.4:80" = Ok tt /\
  validate_server_name s!"[::ffff:1.2.3.4]:65535" = Ok tt /\
  sn_is_ip_literal s!"1.2.3.4:80" = Ok true /\ sn_is_ip_literal s!"matrix.org" = Ok false.
Proof.
  split; [by_recogniser server_name_b_iff|]. split; [by_recogniser server_name_b_iff|].
  split; [by_recogniser server_name_b_iff|]. vm_compute. repeat split.
Qed.

Example nv_ipv6 : IPv6 s!"1:2:3:4:5:6:7:8" /\ IPv6 s!"::" /\ IPv6 s!"1:2:3:4:5:6:1.2.3.4" /\ IPv6 s!"1::7:8" /\
                  ~ IPv6 s!"1:2:3:4:5:6:7:8::" /\ ~ IPv6 s!"1.2.3.4::".
Proof.
  repeat split; try (by_recogniser ipv6_b_iff);
    intros H; apply ipv6_b_iff in H; vm_compute in H; discriminate.
Qed.

Example nv_event_ids :
  EventId true s!"$Rqnc-F-dvnEYJTyHq_iKxU2bZ1CI92-kuZq3a5lr5Zg" /\ EventId true s!"$143273582443PhrSn:example.org" /\
  validate_event_id s!"$Rqnc-F-dvnEYJTyHq_iKxU2bZ1CI92-kuZq3a5lr5Zg" = Ok tt /\
  validate_event_id s!"$143273582443PhrSn:example.org" = Ok tt.
Proof. split; [by_recogniser event_id_b_iff|]. split; [by_recogniser event_id_b_iff|]. vm_compute. split; reflexivity. Qed.

Example nv_key_and_mxc :
  KeyId (kk KSigningVersion) s!"ed25519:a_AbCd" /\ validate_key_id KSigningVersion s!"ed25519:a_AbCd" = Ok 7 /\
  key_algorithm s!"ed25519:a_AbCd" = Ok s!"ed25519" /\ key_name KSigningVersion s!"ed25519:a_AbCd" = Ok s!"a_AbCd" /\
  MxcUri true s!"mxc://example.org:8448/AQwafuaFswefuhsfAFAgsw" /\
  mxc_parts s!"mxc://example.org:8448/AQwafuaFswefuhsfAFAgsw" = Ok (s!"example.org:8448", s!"AQwafuaFswefuhsfAFAgsw").
Proof.
  split; [by_recogniser key_id_b_iff|]. split; [reflexivity|]. split; [reflexivity|]. split; [reflexivity|].
  split; [by_recogniser mxc_uri_b_iff|reflexivity].
Qed.

(** the constructor theorem's premises are satisfiable, and the boundary is sharp *)
Example nv_constructors :
  parse_with_server_name s!"carl" s!"example.com" = Ok s!"@carl:example.com" /\
  parse_with_server_name (repeat 120 250) s!"a.b" = Ok (64 :: repeat 120 250 ++ s!":a.b") /\
  parse_with_server_name (repeat 120 251) s!"a.b" = Err E_MaximumLengthExceeded /\
  validate_key_id KAny (key_from_parts s!"ed25519" s!"DEVICE") = Ok 7.
Proof. vm_compute. repeat split. Qed.
