(** C10.ProofsIp — the model of Rust's [Ipv4Addr::from_str] / [Ipv6Addr::from_str]
    (core::net::parser) accepts exactly the IPv4address / IPv6address of Spec.v (RFC 3986). *)
From Base Require Import Prelude.
From C10 Require Import Model Spec Lemmas.
From Coq Require Import ZifyBool ZifyNat ZifyN.
Ltac Zify.zify_post_hook ::= Z.div_mod_to_equations.

(** * Digits *)
Definition isdig (radix c : N) : Prop := to_digit radix c <> None.
Definition nodigit (radix : N) (r : str) : Prop :=
  match r with [] => True | c :: _ => to_digit radix c = None end.

Lemma to_digit10 c : to_digit 10 c = if DIGIT c then Some (c - 48) else None.
Proof. unfold to_digit, DIGIT, is_digit. destruct ((48 <=? c) && (c <=? 57)); reflexivity. Qed.

Lemma to_digit16 c :
  to_digit 16 c =
  if DIGIT c then Some (c - 48)
  else if (97 <=? c) && (c <=? 102) then Some (c - 87)
  else if (65 <=? c) && (c <=? 70) then Some (c - 55) else None.
Proof. unfold to_digit, DIGIT, is_digit. change (16 =? 16) with true. reflexivity. Qed.

Lemma to_digit16_some c : to_digit 16 c <> None <-> HEXDIG c = true.
Proof.
  rewrite to_digit16. unfold HEXDIG.
  destruct (DIGIT c); cbn [orb]; [split; [reflexivity|discriminate]|].
  destruct ((97 <=? c) && (c <=? 102)).
  - rewrite orb_true_r. split; [reflexivity|discriminate].
  - rewrite orb_false_r. destruct ((65 <=? c) && (c <=? 70)); split; congruence.
Qed.

Lemma to_digit16_bound c v : to_digit 16 c = Some v -> v <= 15.
Proof.
  rewrite to_digit16. unfold DIGIT.
  destruct ((48 <=? c) && (c <=? 57)) eqn:E1; [intros H; injection H as <-; lia|].
  destruct ((97 <=? c) && (c <=? 102)) eqn:E2; [intros H; injection H as <-; lia|].
  destruct ((65 <=? c) && (c <=? 70)) eqn:E3; [intros H; injection H as <-; lia|discriminate].
Qed.

Lemma nodigit16_10 r : nodigit 16 r -> nodigit 10 r.
Proof.
  destruct r as [|c r]; [trivial|]. cbn [nodigit]. rewrite to_digit16, to_digit10.
  destruct (DIGIT c); [discriminate|reflexivity].
Qed.

(** value accumulated by the digit loop *)
Definition dval (radix : N) (c : N) : N := match to_digit radix c with Some d => d | None => 0 end.
Definition digits_value (radix : N) (d : str) (acc : N) : N :=
  fold_left (fun a c => a * radix + dval radix c) d acc.

Lemma read_digits_app radix maxd d r acc count :
  Forall (isdig radix) d -> nodigit radix r -> count <= maxd ->
  read_digits radix maxd (d ++ r) acc count =
  if count + len d <=? maxd then Some (digits_value radix d acc, count + len d, r) else None.
Proof.
  intros Hd Hr. revert acc count. induction Hd as [|c d Hc _ IH]; intros acc count Hle.
  - cbn [app digits_value fold_left]. rewrite len_nil.
    replace (count + 0 <=? maxd) with true by lia. replace (count + 0) with count by lia.
    destruct r as [|x r]; cbn [read_digits]; [reflexivity|].
    cbn [nodigit] in Hr. rewrite Hr. reflexivity.
  - cbn [app read_digits]. unfold isdig in Hc. destruct (to_digit radix c) as [v|] eqn:Ev; [|congruence].
    rewrite len_cons. destruct (N.ltb_spec maxd (count + 1)).
    + replace (count + (len d + 1) <=? maxd) with false by lia. reflexivity.
    + rewrite IH by lia. replace (count + 1 + len d) with (count + (len d + 1)) by lia.
      unfold digits_value. cbn [fold_left]. replace (dval radix c) with v by (unfold dval; now rewrite Ev).
      reflexivity.
Qed.

(** Every string is a maximal digit run followed by a non-digit. *)
Lemma digit_run radix s : exists d r, s = d ++ r /\ Forall (isdig radix) d /\ nodigit radix r.
Proof.
  induction s as [|c s (d & r & -> & Hd & Hr)].
  - exists [], []. repeat split; constructor.
  - destruct (to_digit radix c) as [v|] eqn:E.
    + exists (c :: d), r. repeat split; [constructor; [unfold isdig; congruence|exact Hd]|exact Hr].
    + exists [], (c :: d ++ r). repeat split; [constructor|exact E].
Qed.

Lemma head_is_app_ne c d r : d <> [] -> head_is c (d ++ r) = head_is c d.
Proof. destruct d; [congruence|reflexivity]. Qed.

Lemma read_number_app radix maxd azp limit d r :
  Forall (isdig radix) d -> nodigit radix r ->
  read_number radix maxd azp limit (d ++ r) =
  if is_empty d then None
  else if len d <=? maxd then
    if negb azp && head_is 48 d && (1 <? len d) then None
    else if limit <? digits_value radix d 0 then None else Some (digits_value radix d 0, r)
  else None.
Proof.
  intros Hd Hr. unfold read_number. rewrite read_digits_app by (auto; lia).
  rewrite N.add_0_l. destruct d as [|c d].
  - rewrite len_nil. replace (0 <=? maxd) with true by lia. cbn [N.eqb is_empty]. reflexivity.
  - cbn [is_empty]. destruct (len (c :: d) <=? maxd); [|reflexivity].
    replace (len (c :: d) =? 0) with false by (rewrite len_cons; lia).
    rewrite head_is_app_ne by discriminate. reflexivity.
Qed.

(** * h16 = 1*4HEXDIG *)
Lemma dval16_bound c : dval 16 c <= 15.
Proof. unfold dval. destruct (to_digit 16 c) eqn:E; [now apply to_digit16_bound in E|lia]. Qed.

Lemma h16_value d : len d <= 4 -> digits_value 16 d 0 <= 65535.
Proof.
  intros H. destruct d as [|a [|b [|c [|e [|x d]]]]]; unfold digits_value; cbn [fold_left];
    try (pose proof (dval16_bound a)); try (pose proof (dval16_bound b));
    try (pose proof (dval16_bound c)); try (pose proof (dval16_bound e)); try lia.
  rewrite !len_cons in H. lia.
Qed.

Lemma isdig16_hex d : Forall (isdig 16) d <-> all_in HEXDIG d.
Proof.
  unfold all_in. split; intros H; eapply Forall_impl; try exact H; intros c Hc; now apply to_digit16_some.
Qed.

Lemma length_len (s : str) (n : nat) : (List.length s <= n)%nat <-> len s <= N.of_nat n.
Proof. unfold len. lia. Qed.

Lemma read_h16_ok f r : H16 f -> nodigit 16 r -> read_h16 (f ++ r) = Some r.
Proof.
  intros (Hne & Hl & Hh) Hr. unfold read_h16.
  rewrite read_number_app by (auto; now apply isdig16_hex).
  destruct f; [congruence|]. cbn [is_empty negb andb].
  apply length_len in Hl. replace (len (n :: f) <=? 4) with true by lia.
  pose proof (h16_value (n :: f)) as Hv. replace (65535 <? _) with false by lia. reflexivity.
Qed.

Lemma read_h16_inv s r : read_h16 s = Some r -> exists f, s = f ++ r /\ H16 f /\ nodigit 16 r.
Proof.
  destruct (digit_run 16 s) as (d & r0 & -> & Hd & Hr). unfold read_h16.
  rewrite read_number_app by assumption.
  destruct d as [|c d]; cbn [is_empty]; [discriminate|]. cbn [negb andb].
  destruct (N.leb_spec (len (c :: d)) 4) as [Hlen|]; [|discriminate].
  destruct (65535 <? _); [discriminate|]. intros H. injection H as <-.
  exists (c :: d). repeat split; auto; [discriminate|apply length_len; lia|now apply isdig16_hex].
Qed.

(** * dec-octet *)
Lemma dval10 c : DIGIT c = true -> dval 10 c = c - 48.
Proof. intros H. unfold dval. now rewrite to_digit10, H. Qed.

Lemma isdig10 c : isdig 10 c <-> DIGIT c = true.
Proof. unfold isdig. rewrite to_digit10. destruct (DIGIT c); split; congruence. Qed.

Lemma DIGIT_range c : DIGIT c = true <-> 48 <= c <= 57.
Proof. unfold DIGIT. lia. Qed.

Definition octet_ok (d : str) : bool :=
  negb (is_empty d) && (len d <=? 3) && negb (head_is 48 d && (1 <? len d)) && negb (255 <? digits_value 10 d 0).

Lemma octet_ok_iff d : Forall (isdig 10) d -> (octet_ok d = true <-> DecOctet d).
Proof.
  intros Hd. unfold octet_ok.
  destruct d as [|a [|b [|c [|e d']]]].
  - cbn. split; [discriminate|]. intros H; inversion H.
  - apply Forall_inv in Hd. apply isdig10 in Hd. pose proof Hd as Ra. apply DIGIT_range in Ra.
    unfold digits_value. cbn [fold_left is_empty negb head_is andb]. rewrite (dval10 a Hd).
    rewrite !len_cons, len_nil. split; [intros _; now constructor|intros _; lia].
  - pose proof (Forall_inv Hd) as Ha. apply isdig10 in Ha. pose proof Ha as Ra. apply DIGIT_range in Ra.
    pose proof (Forall_inv (Forall_inv_tail Hd)) as Hb. apply isdig10 in Hb. pose proof Hb as Rb. apply DIGIT_range in Rb.
    unfold digits_value. cbn [fold_left is_empty negb head_is andb]. rewrite (dval10 a Ha), (dval10 b Hb).
    rewrite !len_cons, len_nil. split.
    + intros H. apply DO_dd; [lia|exact Hb].
    + intros H. inversion H; subst. lia.
  - pose proof (Forall_inv Hd) as Ha. apply isdig10 in Ha. pose proof Ha as Ra. apply DIGIT_range in Ra.
    pose proof (Forall_inv (Forall_inv_tail Hd)) as Hb. apply isdig10 in Hb. pose proof Hb as Rb. apply DIGIT_range in Rb.
    pose proof (Forall_inv (Forall_inv_tail (Forall_inv_tail Hd))) as Hc. apply isdig10 in Hc.
    pose proof Hc as Rc. apply DIGIT_range in Rc.
    unfold digits_value. cbn [fold_left is_empty negb head_is andb].
    rewrite (dval10 a Ha), (dval10 b Hb), (dval10 c Hc).
    rewrite !len_cons, len_nil. split.
    + intros H.
      assert (Hcase : a = 49 \/ (a = 50 /\ b <= 52) \/ (a = 50 /\ b = 53 /\ c <= 53)) by lia.
      destruct Hcase as [->|[[-> Hb']|(-> & -> & Hc')]].
      * now apply DO_1dd.
      * apply DO_2dd; [lia|exact Hc].
      * apply DO_25d. lia.
    + intros H. inversion H; subst; lia.
  - split.
    + rewrite !len_cons. intros H. lia.
    + intros H; inversion H.
Qed.

Lemma DecOctet_digits d : DecOctet d -> Forall (isdig 10) d.
Proof.
  intros H; inversion H; subst; repeat constructor; apply isdig10; try assumption; apply DIGIT_range; lia.
Qed.

Lemma read_octet_app d r :
  Forall (isdig 10) d -> nodigit 10 r -> read_octet (d ++ r) = if octet_ok d then Some r else None.
Proof.
  intros Hd Hr. unfold read_octet, octet_ok. rewrite read_number_app by assumption.
  destruct (is_empty d); [reflexivity|]. cbn [negb andb].
  destruct (len d <=? 3); [|reflexivity]. cbn [andb negb].
  destruct (head_is 48 d && (1 <? len d)); [reflexivity|]. cbn [negb andb].
  destruct (255 <? digits_value 10 d 0); reflexivity.
Qed.

Lemma read_octet_ok d r : DecOctet d -> nodigit 10 r -> read_octet (d ++ r) = Some r.
Proof.
  intros Hd Hr. rewrite read_octet_app by (auto using DecOctet_digits).
  replace (octet_ok d) with true; [reflexivity|]. symmetry. apply octet_ok_iff; auto using DecOctet_digits.
Qed.

Lemma read_octet_inv s r : read_octet s = Some r -> exists d, s = d ++ r /\ DecOctet d /\ nodigit 10 r.
Proof.
  destruct (digit_run 10 s) as (d & r0 & -> & Hd & Hr). rewrite read_octet_app by assumption.
  destruct (octet_ok d) eqn:E; [|discriminate]. intros H. injection H as <-.
  exists d. repeat split; auto. now apply octet_ok_iff.
Qed.

(** * IPv4address *)
Lemma read_dot s r : read_given_char 46 s = Some r <-> s = 46 :: r.
Proof.
  unfold read_given_char. destruct s as [|x s]; [split; discriminate|].
  destruct (N.eqb_spec x 46) as [->|]; cbv iota; split; intros H; try congruence.
  injection H as ->. reflexivity.
Qed.

Lemma nodigit10_dot r : nodigit 10 (46 :: r).
Proof. reflexivity. Qed.

Lemma ipv4_app (a b c d r : str) :
  (a ++ 46 :: b ++ 46 :: c ++ 46 :: d) ++ r = a ++ 46 :: b ++ 46 :: c ++ 46 :: d ++ r.
Proof. repeat (rewrite <- app_assoc; cbn [app]). reflexivity. Qed.

Lemma read_given_char_cons c r : read_given_char c (c :: r) = Some r.
Proof. cbn [read_given_char]. now rewrite N.eqb_refl. Qed.

Lemma read_ipv4_ok v r : IPv4 v -> nodigit 10 r -> read_ipv4 (v ++ r) = Some r.
Proof.
  intros [a b c d Ha Hb Hc Hd] Hr. unfold read_ipv4. rewrite ipv4_app.
  rewrite (read_octet_ok a) by (auto using nodigit10_dot). cbn [opt_bind]. rewrite read_given_char_cons. cbn [opt_bind].
  rewrite (read_octet_ok b) by (auto using nodigit10_dot). cbn [opt_bind]. rewrite read_given_char_cons. cbn [opt_bind].
  rewrite (read_octet_ok c) by (auto using nodigit10_dot). cbn [opt_bind]. rewrite read_given_char_cons. cbn [opt_bind].
  now apply read_octet_ok.
Qed.

Lemma opt_bind_some {A B} (x : option A) (f : A -> option B) y :
  opt_bind x f = Some y -> exists a, x = Some a /\ f a = Some y.
Proof. destruct x; cbn; [eauto|discriminate]. Qed.

Lemma read_ipv4_inv s r : read_ipv4 s = Some r -> exists v, s = v ++ r /\ IPv4 v /\ nodigit 10 r.
Proof.
  unfold read_ipv4. intros H.
  apply opt_bind_some in H as (s1 & H1 & H). apply read_octet_inv in H1 as (a & -> & Ha & _).
  apply opt_bind_some in H as (s2 & H2 & H). apply read_dot in H2 as ->.
  apply opt_bind_some in H as (s3 & H3 & H). apply read_octet_inv in H3 as (b & -> & Hb & _).
  apply opt_bind_some in H as (s4 & H4 & H). apply read_dot in H4 as ->.
  apply opt_bind_some in H as (s5 & H5 & H). apply read_octet_inv in H5 as (c & -> & Hc & _).
  apply opt_bind_some in H as (s6 & H6 & H). apply read_dot in H6 as ->.
  apply read_octet_inv in H as (d & -> & Hd & Hr).
  exists (a ++ 46 :: b ++ 46 :: c ++ 46 :: d). split; [|split; [now constructor|exact Hr]].
  now rewrite ipv4_app.
Qed.

Lemma DecOctet_len d : DecOctet d -> len d <= 3.
Proof. intros H; inversion H; subst; rewrite !len_cons, len_nil; lia. Qed.

Theorem ipv4_from_str_iff s : ipv4_from_str s = true <-> IPv4 s.
Proof.
  unfold ipv4_from_str. split.
  - destruct (15 <? len s); [discriminate|].
    destruct (read_ipv4 s) as [[|x r]|] eqn:E; try discriminate. intros _.
    apply read_ipv4_inv in E as (v & -> & Hv & _). now rewrite app_nil_r.
  - intros H. pose proof (read_ipv4_ok s [] H I) as E. rewrite app_nil_r in E. rewrite E.
    destruct H as [a b c d Ha Hb Hc Hd].
    apply DecOctet_len in Ha, Hb, Hc, Hd.
    replace (15 <? _) with false; [reflexivity|].
    rewrite len_app, len_cons, len_app, len_cons, len_app, len_cons. lia.
Qed.

(** * IPv6address: the grammar is accepted *)
Definition stop (r : str) : Prop := r = [] \/ exists r', r = 58 :: r'.
Definition halt (r : str) : Prop := r = [] \/ exists r', r = 58 :: 58 :: r'.
Definition lead (first : bool) (s : str) : str := if first then s else 58 :: s.

Lemma read_sep_lead first s : read_sep first (lead first s) = Some s.
Proof. destruct first; cbn [read_sep lead]; [reflexivity|apply read_given_char_cons]. Qed.

Lemma stop_nodigit16 r : stop r -> nodigit 16 r.
Proof. intros [->|(r' & ->)]; [exact I|reflexivity]. Qed.

Lemma halt_stop r : halt r -> stop r.
Proof. intros [->|(r' & ->)]; [now left|right; eauto]. Qed.

Lemma read_octet_nodigit s : nodigit 10 s -> read_octet s = None.
Proof. intros H. pose proof (read_octet_app [] s (Forall_nil _) H) as E. exact E. Qed.

Lemma read_h16_nodigit s : nodigit 16 s -> read_h16 s = None.
Proof.
  intros H. unfold read_h16.
  pose proof (read_number_app 16 4 true 65535 [] s (Forall_nil _) H) as E. cbn [app is_empty] in E.
  now rewrite E.
Qed.

Lemma read_ipv4_nodigit s : nodigit 10 s -> read_ipv4 s = None.
Proof. intros H. unfold read_ipv4. now rewrite read_octet_nodigit. Qed.

Lemma HEXDIG_46 : HEXDIG 46 = false. Proof. reflexivity. Qed.

(** An h16 group followed by the end or a colon is not the start of an IPv4 address. *)
Lemma read_ipv4_h16_none f r : H16 f -> stop r -> read_ipv4 (f ++ r) = None.
Proof.
  intros (Hne & _ & Hh) Hs. destruct (read_ipv4 (f ++ r)) as [x|] eqn:E; [exfalso|reflexivity].
  unfold read_ipv4 in E.
  apply opt_bind_some in E as (s1 & H1 & E). apply read_octet_inv in H1 as (d & Hd & Ho & _).
  apply opt_bind_some in E as (s2 & H2 & _). apply read_dot in H2 as ->.
  apply app_eq_app in Hd as (l & [[E1 E2]|[E1 E2]]).
  - destruct l as [|y l].
    + cbn [app] in E2. destruct Hs as [->|(r' & ->)]; discriminate.
    + cbn [app] in E2. injection E2 as <- _. subst f.
      unfold all_in in Hh. apply Forall_app in Hh as [_ Hh]. apply Forall_inv in Hh. discriminate.
  - destruct l as [|y l].
    + cbn [app] in E2. destruct Hs as [->|(r' & ->)]; discriminate.
    + subst d. apply DecOctet_digits in Ho. apply Forall_app in Ho as [_ Ho]. apply Forall_inv in Ho.
      destruct Hs as [->|(r' & ->)]; [discriminate|]. cbn [app] in E2. injection E2 as <- _.
      apply isdig10 in Ho. discriminate.
Qed.

Lemma rg_halt n r i : halt r -> read_groups n false r i = (i, false, r).
Proof.
  intros H. destruct n as [|n']; [reflexivity|]. cbn [read_groups].
  assert (E4 : opt_bind (read_sep false r) read_ipv4 = None).
  { destruct H as [->|(r' & ->)]; [reflexivity|]. cbn [read_sep]. rewrite read_given_char_cons. cbn [opt_bind].
    now apply read_ipv4_nodigit. }
  assert (E6 : opt_bind (read_sep false r) read_h16 = None).
  { destruct H as [->|(r' & ->)]; [reflexivity|]. cbn [read_sep]. rewrite read_given_char_cons. cbn [opt_bind].
    now apply read_h16_nodigit. }
  rewrite E4, E6. destruct n'; reflexivity.
Qed.

Lemma rg_first_nodigit n s i : nodigit 16 s -> read_groups n true s i = (i, false, s).
Proof.
  intros H. destruct n as [|n']; [reflexivity|]. cbn [read_groups read_sep opt_bind].
  rewrite read_ipv4_nodigit by (now apply nodigit16_10). rewrite read_h16_nodigit by exact H.
  destruct n'; reflexivity.
Qed.

Lemma H16Seq_pos k s : H16Seq k s -> (1 <= k)%nat.
Proof. induction 1; lia. Qed.
Lemma Pieces_pos k s : Pieces k s -> (1 <= k)%nat.
Proof. induction 1; lia. Qed.

(** [k] h16 groups, then something that halts the group loop. *)
Lemma rg_h16seq k s : H16Seq k s -> forall n first r i, halt r -> (k <= n)%nat ->
  read_groups n first (lead first (s ++ r)) i = (i + N.of_nat k, false, r).
Proof.
  induction 1 as [f Hf|f k s Hf Hs IH]; intros n first r i Hr Hk.
  - destruct n as [|n']; [lia|]. cbn [read_groups]. rewrite read_sep_lead. cbn [opt_bind].
    rewrite (read_ipv4_h16_none f r Hf (halt_stop _ Hr)).
    rewrite (read_h16_ok f r Hf (stop_nodigit16 _ (halt_stop _ Hr))).
    rewrite rg_halt by exact Hr. destruct n'; reflexivity.
  - pose proof (H16Seq_pos _ _ Hs) as Hpos.
    destruct n as [|n']; [lia|]. cbn [read_groups]. rewrite read_sep_lead. cbn [opt_bind].
    replace ((f ++ 58 :: s) ++ r) with (f ++ 58 :: s ++ r) by (now rewrite <- app_assoc).
    rewrite (read_ipv4_h16_none f (58 :: s ++ r) Hf) by (right; eauto).
    rewrite (read_h16_ok f (58 :: s ++ r) Hf) by reflexivity.
    change (58 :: s ++ r) with (lead false (s ++ r)).
    rewrite (IH n' false r (i + 1) Hr) by lia.
    destruct n'; [lia|]. f_equal. f_equal. lia.
Qed.

(** A piece sequence that ends the input. *)
Lemma rg_pieces k s : Pieces k s -> forall n first i, (k <= n)%nat ->
  exists b, read_groups n first (lead first s) i = (i + N.of_nat k, b, []).
Proof.
  induction 1 as [f Hf|v Hv|f k s Hf Hs IH]; intros n first i Hk.
  - pose proof (rg_h16seq 1 f (HS_one f Hf) n first [] i (or_introl eq_refl) Hk) as E.
    rewrite app_nil_r in E. eauto.
  - destruct n as [|[|n'']]; try lia. cbn [read_groups]. rewrite read_sep_lead. cbn [opt_bind].
    pose proof (read_ipv4_ok v [] Hv I) as E. rewrite app_nil_r in E. rewrite E. eauto.
  - pose proof (Pieces_pos _ _ Hs) as Hpos.
    destruct n as [|n']; [lia|]. cbn [read_groups]. rewrite read_sep_lead. cbn [opt_bind].
    rewrite (read_ipv4_h16_none f (58 :: s) Hf) by (right; eauto).
    rewrite (read_h16_ok f (58 :: s) Hf) by reflexivity.
    change (58 :: s) with (lead false s).
    destruct (IH n' false (i + 1)) as (b & E); [lia|]. rewrite E.
    exists b. destruct n'; [lia|]. f_equal. f_equal. lia.
Qed.

Theorem ipv6_grammar_accepted s : IPv6 s -> ipv6_from_str s = true.
Proof.
  intros H. unfold ipv6_from_str, read_ipv6. destruct H as [s Hp|h t nh nt Hh Ht Hn].
  - destruct (rg_pieces 8 s Hp 8 true 0) as (b & E); [lia|]. cbn [lead] in E. rewrite E.
    reflexivity.
  - assert (E1 : read_groups 8 true (h ++ 58 :: 58 :: t) 0 = (N.of_nat nh, false, 58 :: 58 :: t)).
    { destruct Hh as [|nh h Hh].
      - cbn [app]. now rewrite rg_first_nodigit.
      - pose proof (rg_h16seq nh h Hh 8 true (58 :: 58 :: t) 0) as E. cbn [lead] in E.
        rewrite E; [f_equal; f_equal; lia|right; eauto|lia]. }
    rewrite E1. replace (N.of_nat nh =? 8) with false by lia.
    rewrite read_given_char_cons. cbn [opt_bind]. rewrite read_given_char_cons. cbn [opt_bind].
    destruct Ht as [|nt t Ht].
    + rewrite rg_first_nodigit by exact I. reflexivity.
    + destruct (rg_pieces nt t Ht (N.to_nat (8 - (N.of_nat nh + 1))) true 0) as (b & E); [lia|].
      cbn [lead] in E. rewrite E. reflexivity.
Qed.

(** * IPv6address: only the grammar is accepted *)
Lemma read_sep_inv first s s1 : read_sep first s = Some s1 -> s = lead first s1.
Proof.
  destruct first; cbn [read_sep lead]; [congruence|].
  unfold read_given_char. destruct s as [|x s]; [discriminate|].
  destruct (N.eqb_spec x 58) as [->|]; [|discriminate]. intros H. injection H as ->. reflexivity.
Qed.

Lemma H16Seq_Pieces k c : H16Seq k c -> Pieces k c.
Proof. induction 1; [now apply P_h16|now apply P_cons]. Qed.

Lemma lead_app first (c r : str) : lead first c ++ r = lead first (c ++ r).
Proof. destruct first; reflexivity. Qed.

Lemma rg_inv n : forall first s i j b r,
  read_groups n first s i = (j, b, r) ->
  (j = i /\ b = false /\ r = s) \/
  (exists c k, s = lead first (c ++ r) /\ Pieces k c /\ (b = false -> H16Seq k c) /\
               j = i + N.of_nat k /\ (k <= n)%nat).
Proof.
  induction n as [|n' IH]; intros first s i j b r H.
  - cbn [read_groups] in H. injection H as <- <- <-. left. auto.
  - cbn [read_groups] in H.
    destruct (match n' with O => None | S _ => opt_bind (read_sep first s) read_ipv4 end) as [r0|] eqn:E4.
    + destruct n' as [|n'']; [discriminate|].
      apply opt_bind_some in E4 as (s1 & Hs1 & H4). apply read_sep_inv in Hs1 as ->.
      apply read_ipv4_inv in H4 as (v & -> & Hv & _). injection H as <- <- <-.
      right. exists v, 2%nat. repeat split; [now apply P_v4|discriminate|lia].
    + destruct (opt_bind (read_sep first s) read_h16) as [r1|] eqn:E6.
      * apply opt_bind_some in E6 as (s1 & Hs1 & H6). apply read_sep_inv in Hs1 as ->.
        apply read_h16_inv in H6 as (f & -> & Hf & _).
        apply IH in H as [(-> & -> & ->)|(c & k & E & Hp & Hh & -> & Hk)].
        -- right. exists f, 1%nat. repeat split; [now apply P_h16|intros _; now apply HS_one|lia].
        -- cbn [lead] in E. subst r1. right. exists (f ++ 58 :: c), (S k). repeat split.
           ++ now rewrite <- app_assoc.
           ++ now apply P_cons.
           ++ intros Hb. apply HS_cons; auto.
           ++ lia.
           ++ lia.
      * injection H as <- <- <-. left. auto.
Qed.

Theorem ipv6_accepted_grammar s : ipv6_from_str s = true -> IPv6 s.
Proof.
  unfold ipv6_from_str, read_ipv6.
  destruct (read_groups 8 true s 0) as [[hs h4] s1] eqn:E. apply rg_inv in E. cbn [lead] in E.
  destruct (N.eqb_spec hs 8) as [E8|E8].
  - destruct s1 as [|x s1]; [|discriminate]. intros _.
    destruct E as [(-> & _)|(c & k & -> & Hp & _ & -> & Hk)]; [discriminate|].
    rewrite app_nil_r. apply V6_full. replace k with 8%nat in Hp by lia. exact Hp.
  - destruct h4; [discriminate|].
    destruct (read_given_char 58 s1) as [s2|] eqn:E1; cbn [opt_bind]; [|discriminate].
    destruct (read_given_char 58 s2) as [s3|] eqn:E2; cbn [opt_bind]; [|discriminate].
    apply (read_sep_inv false) in E1. apply (read_sep_inv false) in E2. cbn [lead] in E1, E2. subst s1 s2.
    destruct (read_groups (N.to_nat (8 - (hs + 1))) true s3 0) as [[a b] s4] eqn:E'.
    destruct s4 as [|x s4]; [|discriminate]. intros _.
    apply rg_inv in E'. cbn [lead] in E'.
    assert (Ht : exists nt, Side Pieces nt s3 /\ (nt <= N.to_nat (8 - (hs + 1)))%nat).
    { destruct E' as [(_ & _ & <-)|(c & k & -> & Hp & _ & _ & Hk)].
      - exists 0%nat. split; [constructor|lia].
      - rewrite app_nil_r. exists k. split; [now constructor|exact Hk]. }
    destruct Ht as (nt & Ht & Hnt).
    destruct E as [(-> & _ & <-)|(c & k & -> & Hp & Hh & -> & Hk)].
    + apply (V6_compressed [] s3 0 nt); [constructor|exact Ht|lia].
    + apply (V6_compressed c s3 k nt); [constructor; auto|exact Ht|lia].
Qed.

Theorem ipv6_from_str_iff s : ipv6_from_str s = true <-> IPv6 s.
Proof. split; [apply ipv6_accepted_grammar|apply ipv6_grammar_accepted]. Qed.

(** * The characters of IP literals *)
Definition ip_char (c : N) : bool := HEXDIG c || (c =? 58) || (c =? 46).

Lemma DecOctet_chars d : DecOctet d -> Forall (fun c => ip_char c = true) d.
Proof.
  intros H. apply DecOctet_digits in H. eapply Forall_impl; [|exact H].
  intros c Hc. apply isdig10 in Hc. unfold ip_char, HEXDIG. now rewrite Hc.
Qed.

Lemma IPv4_chars v : IPv4 v -> Forall (fun c => ip_char c = true) v.
Proof.
  intros [a b c d Ha Hb Hc Hd]. apply DecOctet_chars in Ha, Hb, Hc, Hd.
  repeat (apply Forall_app; split; [assumption|]; apply Forall_cons; [reflexivity|]). assumption.
Qed.

Lemma H16_chars f : H16 f -> Forall (fun c => ip_char c = true) f.
Proof.
  intros (_ & _ & H). eapply Forall_impl; [|exact H]. intros c Hc. unfold ip_char. now rewrite Hc.
Qed.

Lemma Pieces_chars k s : Pieces k s -> Forall (fun c => ip_char c = true) s.
Proof.
  induction 1 as [f Hf|v Hv|f k s Hf _ IH]; [now apply H16_chars|now apply IPv4_chars|].
  apply Forall_app. split; [now apply H16_chars|]. apply Forall_cons; [reflexivity|exact IH].
Qed.

Lemma IPv6_chars s0 : IPv6 s0 -> Forall (fun c => ip_char c = true) s0.
Proof.
  intros [s Hp|h t nh nt Hh Ht _]; [now apply (Pieces_chars 8)|].
  apply Forall_app. split.
  - destruct Hh as [|nh h Hh]; [constructor|]. apply (Pieces_chars nh). now apply H16Seq_Pieces.
  - do 2 (apply Forall_cons; [reflexivity|]). destruct Ht as [|nt t Ht]; [constructor|]. now apply (Pieces_chars nt).
Qed.
