(** C10.Lemmas — facts about the Rust string primitives of Model.v: [len], [find], [nth],
    [slice], UTF-8 well-formedness and character boundaries. *)
From Base Require Import Prelude.
From C10 Require Import Model.
From Coq Require Import ZifyBool ZifyNat ZifyN.
Ltac Zify.zify_post_hook ::= Z.div_mod_to_equations.

(** * [len] *)
Lemma len_nil : len [] = 0.
Proof. reflexivity. Qed.

Lemma len_cons x s : len (x :: s) = len s + 1.
Proof. unfold len. cbn [List.length]. lia. Qed.

Lemma len_app a b : len (a ++ b) = len a + len b.
Proof. unfold len. rewrite app_length. lia. Qed.

Lemma to_nat_len s : N.to_nat (len s) = List.length s.
Proof. unfold len. lia. Qed.

Lemma len_0 s : len s = 0 -> s = [].
Proof. destruct s; [reflexivity|]. rewrite len_cons. lia. Qed.

Lemma len_length s : len s = N.of_nat (List.length s).
Proof. reflexivity. Qed.

(** * [find] *)
Lemma find_some c s i :
  find c s = Some i -> exists a r, s = a ++ c :: r /\ len a = i /\ ~ In c a.
Proof.
  revert i; induction s as [|x s IH]; intros i H; cbn [find] in H; [discriminate|].
  destruct (N.eqb_spec x c) as [->|Hne].
  - injection H as <-. exists [], s. repeat split. intros [].
  - destruct (find c s) as [j|] eqn:E; cbn [option_map] in H; [|discriminate].
    injection H as <-. destruct (IH j eq_refl) as (a & r & -> & Hl & Hn).
    exists (x :: a), r. repeat split.
    + rewrite len_cons. lia.
    + intros [Hx|Hx]; [congruence|auto].
Qed.

Lemma find_none c s : find c s = None -> ~ In c s.
Proof.
  induction s as [|x s IH]; cbn [find]; intros H; [intros []|].
  destruct (N.eqb_spec x c) as [->|Hne]; [discriminate|].
  destruct (find c s) eqn:E; cbn [option_map] in H; [discriminate|].
  intros [Hx|Hx]; [congruence|]. exact (IH eq_refl Hx).
Qed.

Lemma find_app c a r : ~ In c a -> find c (a ++ c :: r) = Some (len a).
Proof.
  induction a as [|x a IH]; intros Hn; cbn [app find].
  - rewrite N.eqb_refl. reflexivity.
  - destruct (N.eqb_spec x c) as [->|Hne]; [exfalso; apply Hn; left; reflexivity|].
    rewrite IH by (intros Hx; apply Hn; right; exact Hx). cbn [option_map].
    rewrite len_cons. f_equal. lia.
Qed.

Lemma find_not_in c s : ~ In c s -> find c s = None.
Proof.
  induction s as [|x s IH]; intros Hn; cbn [find]; [reflexivity|].
  destruct (N.eqb_spec x c) as [->|Hne]; [exfalso; apply Hn; left; reflexivity|].
  rewrite IH by (intros Hx; apply Hn; right; exact Hx). reflexivity.
Qed.

Lemma find_lt c s i : find c s = Some i -> i < len s.
Proof.
  intros H. destruct (find_some _ _ _ H) as (a & r & -> & <- & _).
  rewrite len_app, len_cons. lia.
Qed.

(** * [contains], [head_is] *)
Lemma contains_In c s : contains c s = true <-> In c s.
Proof.
  unfold contains. rewrite existsb_exists. split.
  - intros (x & Hx & E). apply N.eqb_eq in E. now subst.
  - intros H. exists c. split; [exact H|apply N.eqb_refl].
Qed.

Lemma contains_false c s : contains c s = false <-> ~ In c s.
Proof.
  rewrite <- contains_In. destruct (contains c s); split; intros; try congruence; try tauto.
Qed.

Lemma head_is_cons c s : head_is c s = true <-> exists r, s = c :: r.
Proof.
  destruct s as [|x r]; cbn [head_is]; split.
  - discriminate.
  - intros (r' & E); discriminate.
  - intros E. apply N.eqb_eq in E. subst. now exists r.
  - intros (r' & E). injection E as -> _. apply N.eqb_refl.
Qed.

(** * [nth] *)
Lemma nth_app a x r : nth (a ++ x :: r) (len a) = Some x.
Proof.
  unfold nth. rewrite to_nat_len. rewrite nth_error_app2 by lia.
  rewrite Nat.sub_diag. reflexivity.
Qed.

Lemma nth_end a : nth a (len a) = None.
Proof. unfold nth. rewrite to_nat_len. apply nth_error_None. lia. Qed.

(** * Character boundaries and [slice] *)
(** The position in front of [r] is a boundary when [r] does not start with a continuation byte. *)
Definition bdry (r : str) : bool := match r with [] => true | b :: _ => negb (is_cont b) end.

Lemma is_char_boundary_app a r :
  is_char_boundary (a ++ r) (len a) = (is_empty a || bdry r).
Proof.
  unfold is_char_boundary. destruct a as [|x a].
  - cbn [app len List.length N.of_nat is_empty orb]. reflexivity.
  - cbn [is_empty orb]. destruct (N.eqb_spec (len (x :: a)) 0) as [E|_]; [rewrite len_cons in E; lia|].
    destruct r as [|b r].
    + rewrite app_nil_r, nth_end. cbn [bdry]. apply N.eqb_refl.
    + rewrite nth_app. reflexivity.
Qed.

(** The slice of the middle of [a ++ b ++ r] is [b] or a panic, never anything else. *)
Lemma slice_mid a b r :
  slice (a ++ b ++ r) (len a) (len a + len b) =
  if (is_empty a || bdry (b ++ r)) && (is_empty (a ++ b) || bdry r) then Ok b else Panic 1.
Proof.
  unfold slice.
  replace (len a <=? len a + len b) with true by lia.
  replace (len a + len b <=? len (a ++ b ++ r)) with true by (rewrite !len_app; lia).
  rewrite is_char_boundary_app.
  replace (len a + len b) with (len (a ++ b)) by apply len_app.
  replace (a ++ b ++ r) with ((a ++ b) ++ r) at 1 by (now rewrite app_assoc).
  rewrite is_char_boundary_app. cbn [andb].
  replace (N.to_nat (len (a ++ b) - len a)) with (List.length b) by (rewrite len_app; unfold len; lia).
  rewrite to_nat_len, skipn_app, skipn_all, Nat.sub_diag. cbn [skipn app].
  rewrite firstn_app, firstn_all, Nat.sub_diag. cbn [firstn]. rewrite app_nil_r. reflexivity.
Qed.

Lemma slice_from_app a r :
  slice_from (a ++ r) (len a) = if is_empty a || bdry r then Ok r else Panic 1.
Proof.
  unfold slice_from. pose proof (slice_mid a r []) as H. rewrite !app_nil_r in H.
  replace (len (a ++ r)) with (len a + len r) by (now rewrite len_app). rewrite H.
  cbn [bdry]. rewrite orb_true_r, andb_true_r. reflexivity.
Qed.

Lemma slice_to_app b r :
  slice_to (b ++ r) (len b) = if is_empty b || bdry r then Ok b else Panic 1.
Proof.
  unfold slice_to. pose proof (slice_mid [] b r) as H. cbn [app len List.length N.of_nat] in H.
  rewrite N.add_0_l in H. change (N.of_nat (List.length b)) with (len b) in H. rewrite H.
  cbn [is_empty orb andb app]. reflexivity.
Qed.

Lemma slice_not_err s a b e : slice s a b <> Err e.
Proof. unfold slice. destruct (_ && _); discriminate. Qed.
Lemma slice_from_not_err s a e : slice_from s a <> Err e.
Proof. apply slice_not_err. Qed.
Lemma slice_to_not_err s a e : slice_to s a <> Err e.
Proof. apply slice_not_err. Qed.

(** * UTF-8 *)
(** Shape of well-formed UTF-8, with only the facts the boundary arguments need. *)
Inductive Utf8 : str -> Prop :=
| U_nil : Utf8 []
| U_1 b r : b < 128 -> Utf8 r -> Utf8 (b :: r)
| U_2 b0 b1 r : 192 <= b0 -> is_cont b1 = true -> Utf8 r -> Utf8 (b0 :: b1 :: r)
| U_3 b0 b1 b2 r : 192 <= b0 -> is_cont b1 = true -> is_cont b2 = true -> Utf8 r -> Utf8 (b0 :: b1 :: b2 :: r)
| U_4 b0 b1 b2 b3 r :
    192 <= b0 -> is_cont b1 = true -> is_cont b2 = true -> is_cont b3 = true -> Utf8 r ->
    Utf8 (b0 :: b1 :: b2 :: b3 :: r).

Lemma valid_utf8_Utf8 s : valid_utf8 s = true -> Utf8 s.
Proof.
  remember (List.length s) as n eqn:Hn. revert s Hn.
  induction n as [n IH] using lt_wf_ind. intros s Hn H.
  destruct s as [|b0 r0]; [constructor|]. cbn [valid_utf8] in H.
  destruct (b0 <? 128) eqn:E0.
  { apply U_1; [lia|]. eapply IH; [|reflexivity|exact H]. subst n; cbn [List.length]; lia. }
  destruct r0 as [|b1 r1]; [discriminate|].
  destruct ((194 <=? b0) && (b0 <=? 223)) eqn:E1.
  { apply andb_true_iff in H as [Hc Hr]. apply U_2; [lia|exact Hc|].
    eapply IH; [|reflexivity|exact Hr]. subst n; cbn [List.length]; lia. }
  destruct r1 as [|b2 r2]; [discriminate|].
  destruct ((224 <=? b0) && (b0 <=? 239)) eqn:E2.
  { apply andb_true_iff in H as [H Hr]. apply andb_true_iff in H as [Hc1 Hc2].
    apply U_3; [lia| |exact Hc2|].
    - unfold is_cont. destruct (b0 =? 224); [lia|]. destruct (b0 =? 237); [lia|]. exact Hc1.
    - eapply IH; [|reflexivity|exact Hr]. subst n; cbn [List.length]; lia. }
  destruct r2 as [|b3 r3]; [discriminate|].
  apply andb_true_iff in H as [H Hr]. apply andb_true_iff in H as [H Hc3].
  apply andb_true_iff in H as [H Hc2]. apply andb_true_iff in H as [H Hc1].
  apply U_4; [lia| |exact Hc2|exact Hc3|].
  - unfold is_cont. destruct (b0 =? 240); [lia|]. destruct (b0 =? 244); [lia|]. exact Hc1.
  - eapply IH; [|reflexivity|exact Hr]. subst n; cbn [List.length]; lia.
Qed.

Lemma Utf8_bdry s : Utf8 s -> bdry s = true.
Proof. intros H; destruct H; cbn [bdry]; try reflexivity; unfold is_cont; lia. Qed.

Lemma is_cont_ge b : is_cont b = true -> 128 <= b.
Proof. unfold is_cont. lia. Qed.

(** Splitting well-formed UTF-8 at an ASCII byte gives two well-formed halves. *)
Lemma Utf8_split s : Utf8 s -> forall a c r, s = a ++ c :: r -> c < 128 -> Utf8 a /\ Utf8 r.
Proof.
  induction 1 as [|b r0 Hb Hr IH|b0 b1 r0 H0 H1 Hr IH|b0 b1 b2 r0 H0 H1 H2 Hr IH
                 |b0 b1 b2 b3 r0 H0 H1 H2 H3 Hr IH]; intros a c r E Hc.
  - destruct a; discriminate.
  - destruct a as [|x a]; cbn [app] in E; injection E as -> E.
    + subst r0. split; [constructor|exact Hr].
    + destruct (IH _ _ _ E Hc) as [Ha Hr']. split; [apply U_1; assumption|exact Hr'].
  - destruct a as [|x a]; cbn [app] in E; injection E as -> E; [lia|].
    destruct a as [|y a]; cbn [app] in E; injection E as -> E; [apply is_cont_ge in H1; lia|].
    destruct (IH _ _ _ E Hc) as [Ha Hr']. split; [apply U_2; assumption|exact Hr'].
  - destruct a as [|x a]; cbn [app] in E; injection E as -> E; [lia|].
    destruct a as [|y a]; cbn [app] in E; injection E as -> E; [apply is_cont_ge in H1; lia|].
    destruct a as [|z a]; cbn [app] in E; injection E as -> E; [apply is_cont_ge in H2; lia|].
    destruct (IH _ _ _ E Hc) as [Ha Hr']. split; [apply U_3; assumption|exact Hr'].
  - destruct a as [|x a]; cbn [app] in E; injection E as -> E; [lia|].
    destruct a as [|y a]; cbn [app] in E; injection E as -> E; [apply is_cont_ge in H1; lia|].
    destruct a as [|z a]; cbn [app] in E; injection E as -> E; [apply is_cont_ge in H2; lia|].
    destruct a as [|w a]; cbn [app] in E; injection E as -> E; [apply is_cont_ge in H3; lia|].
    destruct (IH _ _ _ E Hc) as [Ha Hr']. split; [apply U_4; assumption|exact Hr'].
Qed.

Lemma Utf8_after s a c r : Utf8 s -> s = a ++ c :: r -> c < 128 -> bdry r = true.
Proof. intros H E Hc. apply Utf8_bdry. eapply Utf8_split; eauto. Qed.

Lemma Utf8_tail c r : Utf8 (c :: r) -> c < 128 -> Utf8 r.
Proof. intros H Hc. eapply (Utf8_split _ H [] c r); [reflexivity|exact Hc]. Qed.

Lemma Utf8_app a b : Utf8 a -> Utf8 b -> Utf8 (a ++ b).
Proof. induction 1; intros Hb; cbn [app]; [exact Hb|apply U_1|apply U_2|apply U_3|apply U_4]; auto. Qed.

Lemma bdry_ascii c r : c < 128 -> bdry (c :: r) = true.
Proof. intros H. cbn [bdry]. unfold is_cont. lia. Qed.

(** All-ASCII strings are well-formed. *)
Lemma ascii_Utf8 s : Forall (fun c => c < 128) s -> Utf8 s.
Proof. induction 1; constructor; auto. Qed.

Lemma ascii_valid_utf8 s : Forall (fun c => c < 128) s -> valid_utf8 s = true.
Proof.
  induction 1 as [|c r Hc _ IH]; [reflexivity|]. cbn [valid_utf8].
  replace (c <? 128) with true by lia. exact IH.
Qed.
