(** C11.Model — executable model of ruma's Matrix URI code (matrix.to and matrix: URIs).

    Reading of [str]: BYTE strings (UTF-8 bytes of a Rust [&str]).  Every [as_bytes()[0]], byte slice
    [[1..]], [expect] and [unreachable] of the ruma code is an explicit [Panic] site.  All errors carry
    code 0 (the property does not speak of error kinds; the harness maps every [Err] to 0 as well).

    Sources (the REPAIRED tree; fix commits in known_findings.d/C11.json):
      ruma-common/src/identifiers/matrix_uri.rs   MatrixId::{parse_with_sigil, parse_with_type,
            to_string_with_sigil, to_string_with_type}, MatrixToUri::{parse, Display},
            MatrixUri::{parse, Display}, UriAction::{from, as_str}
      ruma-common/src/percent_encode.rs           PATH_PERCENT_ENCODE_SET  (= Gen.C11PercentSet)
      ruma-common/src/identifiers/{room_id,room_alias_id,user_id}.rs   matrix_to_uri*, matrix_uri*,
            matrix_to_event_uri*, matrix_event_uri*   ([ctor_to], [ctor_uri])
      ruma-common/src/identifiers/room_or_alias_id.rs   is_room_id / variant
    Identifier validation is C10's model ([validate_user_id], [validate_room_id],
    [validate_room_alias_id], [validate_event_id], [validate_room_or_alias_id], [validate_server_name]).

    Third-party behaviour modelled here by reading the sources, tied by the correspondence run only:
      percent-encoding 2.3.2   [percent_encode], [percent_decode], [decode_utf8]
      form_urlencoded 1.2.2    [parse] ([form_parse]), [byte_serialize]
      Rust std 1.88            [String::from_utf8_lossy] ([utf8_lossy], after core::str::lossy::Utf8Chunks),
                               [strip_prefix], [strip_suffix], [split], [split_once], [matches().count()]
      url 2.5.8                the part of [Url::parse] + [Url::path] + [Url::query_pairs] reached when the
                               scheme is "matrix" ([url_parse] below lists exactly what is covered).
    For any other scheme [Url::parse] either fails or yields a URL whose scheme is not "matrix"; ruma
    answers [Err] in both cases, and the model answers [Err] as soon as the scheme is known
    ([UrlOther]) — that [Url::parse] itself returns (does not panic) for those inputs is NOT modelled. *)
From Base Require Import Prelude.
From C10 Require Import Model.
From Gen Require Import C11PercentSet.
From C11 Require Export Types.

(** Errors of every kind are [Err 0]. *)
Definition lift {A} (o : outcome A) : outcome unit :=
  match o with Ok _ => Ok tt | Err _ => Err 0 | Panic p => Panic p end.

(** * Rust std string primitives (ASCII patterns: byte-wise search is exact on UTF-8) *)

(** [s.strip_prefix(c).unwrap_or(s)]. *)
Definition strip_prefix_c (c : N) (s : str) : str :=
  match s with x :: r => if x =? c then r else s | [] => s end.

(** [s.strip_suffix(c).unwrap_or(s)]. *)
Fixpoint strip_suffix_c (c : N) (s : str) : str :=
  match s with
  | [] => []
  | [x] => if x =? c then [] else [x]
  | x :: r => x :: strip_suffix_c c r
  end.

(** [s.matches(c).count()]. *)
Definition count (c : N) (s : str) : N := len (filter (fun x => x =? c) s).

(** [s.split_once(c)]. *)
Fixpoint split_once (c : N) (s : str) : option (str * str) :=
  match s with
  | [] => None
  | x :: r =>
      if x =? c then Some ([], r)
      else match split_once c r with
           | Some (a, b) => Some (x :: a, b)
           | None => None
           end
  end.

(** [s.split(c)]: never empty. *)
Fixpoint split_on (c : N) (s : str) : list str :=
  match s with
  | [] => [[]]
  | x :: r =>
      if x =? c then [] :: split_on c r
      else match split_on c r with
           | f :: fs => (x :: f) :: fs
           | [] => [[x]]
           end
  end.

Definition first_byte (s : str) : option N := match s with x :: _ => Some x | [] => None end.

(** * percent-encoding 2.3.2 *)
Definition in_set (set : list N) (b : N) : bool := existsb (fun x => x =? b) set.

(** [AsciiSet::should_percent_encode]: [!byte.is_ascii() || self.contains(byte)]. *)
Definition should_encode (set : list N) (b : N) : bool := (128 <=? b) || in_set set b.

Definition hex_upper (n : N) : N := if n <? 10 then 48 + n else 55 + n.
(** [percent_encode_byte]: "%XX", upper-case hex. *)
Definition pct_byte (b : N) : str := [37; hex_upper (b / 16); hex_upper (b mod 16)].

(** [percent_encode(bytes, set).to_string()]. *)
Fixpoint percent_encode (set : list N) (s : str) : str :=
  match s with
  | [] => []
  | b :: r => (if should_encode set b then pct_byte b else [b]) ++ percent_encode set r
  end.

(** [char::to_digit(16)]. *)
Definition hex_val (c : N) : option N := to_digit 16 c.

(** [percent_decode]: "%" followed by two hex digits (either case) is one byte; any other "%" stays. *)
Fixpoint percent_decode (s : str) : str :=
  match s with
  | [] => []
  | b :: r =>
      if b =? 37 then
        match r with
        | h :: l :: r' =>
            match hex_val h, hex_val l with
            | Some a, Some c => (a * 16 + c) :: percent_decode r'
            | _, _ => 37 :: percent_decode r
            end
        | _ => 37 :: percent_decode r
        end
      else b :: percent_decode r
  end.

(** [percent_decode_str(s).decode_utf8()?]. *)
Definition decode_utf8 (raw : str) : outcome str :=
  let d := percent_decode raw in if valid_utf8 d then Ok d else Err 0.

(** ruma's set, from the generated table. *)
Definition path_set : list N := path_percent_encode_set.
Definition enc (s : str) : str := percent_encode path_set s.

(** * [String::from_utf8_lossy] (core::str::lossy::Utf8Chunks, Rust 1.88)
    Each maximal invalid chunk — the lead byte and the continuation bytes accepted so far — becomes
    U+FFFD; scanning resumes at the byte that failed the check. *)
Definition repl : str := [239; 191; 189].

Definition second_of_3 (b0 b1 : N) : bool :=
  if b0 =? 224 then (160 <=? b1) && (b1 <? 192)
  else if b0 =? 237 then (128 <=? b1) && (b1 <? 160)
  else is_cont b1.
Definition second_of_4 (b0 b1 : N) : bool :=
  if b0 =? 240 then (144 <=? b1) && (b1 <? 192)
  else if b0 =? 244 then (128 <=? b1) && (b1 <? 144)
  else is_cont b1.

Fixpoint utf8_lossy (s : str) : str :=
  match s with
  | [] => []
  | b0 :: r0 =>
      if b0 <? 128 then b0 :: utf8_lossy r0
      else if (194 <=? b0) && (b0 <=? 223) then
        match r0 with
        | b1 :: r1 => if is_cont b1 then b0 :: b1 :: utf8_lossy r1 else repl ++ utf8_lossy r0
        | [] => repl
        end
      else if (224 <=? b0) && (b0 <=? 239) then
        match r0 with
        | b1 :: r1 =>
            if second_of_3 b0 b1 then
              match r1 with
              | b2 :: r2 => if is_cont b2 then b0 :: b1 :: b2 :: utf8_lossy r2 else repl ++ utf8_lossy r1
              | [] => repl
              end
            else repl ++ utf8_lossy r0
        | [] => repl
        end
      else if (240 <=? b0) && (b0 <=? 244) then
        match r0 with
        | b1 :: r1 =>
            if second_of_4 b0 b1 then
              match r1 with
              | b2 :: r2 =>
                  if is_cont b2 then
                    match r2 with
                    | b3 :: r3 =>
                        if is_cont b3 then b0 :: b1 :: b2 :: b3 :: utf8_lossy r3 else repl ++ utf8_lossy r2
                    | [] => repl
                    end
                  else repl ++ utf8_lossy r1
              | [] => repl
              end
            else repl ++ utf8_lossy r0
        | [] => repl
        end
      else repl ++ utf8_lossy r0
  end.

(** * form_urlencoded 1.2.2 *)
Definition replace_plus (s : str) : str := List.map (fun b => if b =? 43 then 32 else b) s.

(** [decode]: '+' -> ' ', percent-decode, lossy UTF-8. *)
Definition form_decode (s : str) : str := utf8_lossy (percent_decode (replace_plus s)).

(** [parse(input)] collected: split on '&', skip empty sequences, split each at its first '='. *)
Definition form_pair (sq : str) : list (str * str) :=
  if is_empty sq then []
  else match split_once 61 sq with
       | Some (n, v) => [(form_decode n, form_decode v)]
       | None => [(form_decode sq, form_decode [])]
       end.
Definition form_parse (q : str) : list (str * str) := flat_map form_pair (split_on 38 q).

(** [byte_serialize]: [*-._0-9A-Za-z] unchanged, ' ' -> '+', everything else "%XX". *)
Definition form_unchanged (b : N) : bool := is_alnum b || (b =? 42) || (b =? 45) || (b =? 46) || (b =? 95).
Fixpoint byte_serialize (s : str) : str :=
  match s with
  | [] => []
  | b :: r => (if form_unchanged b then [b] else if b =? 32 then [43] else pct_byte b) ++ byte_serialize r
  end.

(** * MatrixId (matrix_uri.rs) *)

(** matrix_uri.rs:49-88 [parse_with_sigil] (repaired: the first bytes of a pair are read with [.first()]). *)
Definition parse_with_sigil (s : str) : outcome matrix_id :=
  let s := strip_prefix_c 47 s in
  let s := strip_suffix_c 47 s in
  if is_empty s then Err 0                                              (* NoIdentifier *)
  else if 1 <? count 47 s then Err 0                                    (* TooManyIdentifiers *)
  else
    match split_once 47 s with
    | Some (first_raw, second_raw) =>
        obind (decode_utf8 first_raw) (fun first =>
        obind (decode_utf8 second_raw) (fun second =>
        match first_byte first, first_byte second with
        | Some f, Some g =>
            if ((f =? 33) || (f =? 35)) && (g =? 36) then
              obind (lift (validate_room_or_alias_id first)) (fun _ =>
              obind (lift (validate_event_id second)) (fun _ => Ok (MEvent first second)))
            else if (f =? 36) && ((g =? 33) || (g =? 35)) then
              obind (lift (validate_room_or_alias_id second)) (fun _ =>
              obind (lift (validate_event_id first)) (fun _ => Ok (MEvent second first)))
            else Err 0                                                  (* UnknownIdentifierPair *)
        | _, _ => Err 0                                                 (* UnknownIdentifierPair *)
        end))
    | None =>
        obind (decode_utf8 s) (fun id =>
        match first_byte id with
        | None => Panic 1                                               (* id.as_bytes()[0] *)
        | Some b =>
            if b =? 64 then obind (lift (validate_user_id id)) (fun _ => Ok (MUser id))
            else if b =? 33 then obind (lift (validate_room_id id)) (fun _ => Ok (MRoom id))
            else if b =? 35 then obind (lift (validate_room_alias_id id)) (fun _ => Ok (MAlias id))
            else Err 0                                                  (* MissingRoom / UnknownIdentifier *)
        end)
    end.

(** matrix_uri.rs:112-118: the type names. *)
Definition sigil_of_type (t : str) : option N :=
  if str_eqb t s!"u" || str_eqb t s!"user" then Some 64
  else if str_eqb t s!"r" || str_eqb t s!"room" then Some 35
  else if str_eqb t s!"e" || str_eqb t s!"event" then Some 36
  else if str_eqb t s!"roomid" then Some 33
  else None.

(** matrix_uri.rs:109-120: the [while let (Some(type_), Some(id_without_sigil))] loop. *)
Fixpoint build_id (parts : list str) (id : str) : outcome str :=
  match parts with
  | t :: x :: rest =>
      match sigil_of_type t with
      | Some sg => build_id rest (id ++ 47 :: sg :: x)
      | None => Err 0                                                   (* UnknownType *)
      end
  | _ => Ok id
  end.

(** matrix_uri.rs:98-123 [parse_with_type]. *)
Definition parse_with_type (s : str) : outcome matrix_id :=
  let s := strip_prefix_c 47 s in
  let s := strip_suffix_c 47 s in
  if is_empty s then Err 0                                              (* NoIdentifier *)
  else
    let n := count 47 s in
    if negb ((n =? 1) || (n =? 3)) then Err 0                           (* InvalidPartsNumber *)
    else obind (build_id (split_on 47 s) []) parse_with_sigil.

(** matrix_uri.rs:131-148 [to_string_with_sigil]. *)
Definition show_sigil (id : matrix_id) : str :=
  match id with
  | MRoom r => enc r
  | MAlias a => enc a
  | MUser u => enc u
  | MEvent r e => enc r ++ 47 :: enc e
  end.

(** [&id.as_bytes()[1..]]. *)
Definition bytes_from_1 (s : str) : outcome str :=
  match s with _ :: r => Ok r | [] => Panic 2 end.

(** room_or_alias_id.rs:53-68 [is_room_id] ([variant]: anything but '!' / '#' is [unreachable_unchecked]). *)
Definition is_room_id (s : str) : outcome bool :=
  match s with
  | 33 :: _ => Ok true
  | 35 :: _ => Ok false
  | _ => Panic 3
  end.

(** matrix_uri.rs:157-184 [to_string_with_type]. *)
Definition show_type (id : matrix_id) : outcome str :=
  match id with
  | MRoom r => obind (bytes_from_1 r) (fun t => Ok (s!"roomid/" ++ enc t))
  | MAlias a => obind (bytes_from_1 a) (fun t => Ok (s!"r/" ++ enc t))
  | MUser u => obind (bytes_from_1 u) (fun t => Ok (s!"u/" ++ enc t))
  | MEvent r e =>
      obind (is_room_id r) (fun b =>
      obind (bytes_from_1 r) (fun tr =>
      obind (bytes_from_1 e) (fun te =>
      Ok ((if b then s!"roomid" else s!"r") ++ 47 :: enc tr ++ s!"/e/" ++ enc te))))
  end.

(** * MatrixToUri *)
Definition base_url : str := s!"https://matrix.to/#/".

(** matrix_uri.rs:316-323: every pair must be ("via", server name). *)
Fixpoint via_of_pairs (ps : list (str * str)) : outcome (list str) :=
  match ps with
  | [] => Ok []
  | (k, v) :: r =>
      if str_eqb k s!"via" then
        obind (lift (validate_server_name v)) (fun _ =>
        obind (via_of_pairs r) (fun l => Ok (v :: l)))
      else Err 0                                                        (* UnknownArgument *)
  end.

(** matrix_uri.rs:287-334 [MatrixToUri::parse]. *)
Definition parse_to (s : str) : outcome to_uri :=
  match strip_prefix base_url s with
  | None => Err 0                                                       (* WrongBaseUrl *)
  | Some s =>
      let s := strip_suffix_c 47 s in
      match split_on 63 s with
      | [] => Panic 4                                                   (* expect: split yields one value *)
      | ids_part :: rest =>
          obind (parse_with_sigil ids_part) (fun id =>
          obind (match rest with
                 | [] => Ok []
                 | query :: _ => via_of_pairs (form_parse query)
                 end) (fun via =>
          match rest with
          | _ :: _ :: _ => Err 0                                        (* two '?': InvalidUrl *)
          | _ => Ok (ToUri id via)
          end))
      end
  end.

(** matrix_uri.rs:342-348 / 513-519: the via items. *)
Fixpoint show_via (first : bool) (via : list str) : str :=
  match via with
  | [] => []
  | v :: r => (if first then s!"?via=" else s!"&via=") ++ v ++ show_via false r
  end.

(** matrix_uri.rs:337-352 [Display for MatrixToUri]. *)
Definition show_to (u : to_uri) : str := base_url ++ show_sigil (to_id u) ++ show_via true (to_via u).

(** * UriAction (matrix_uri.rs:392-418) *)
Definition action_of_str (s : str) : action :=
  if str_eqb s s!"join" then AJoin else if str_eqb s s!"chat" then AChat else ACustom s.
Definition action_str (a : action) : str :=
  match a with AJoin => s!"join" | AChat => s!"chat" | ACustom s => s end.

(** * The fragment of url 2.5.8 that a "matrix" URL exercises
    Covered (parser.rs): [Input::new_trim_c0_control_and_space] and the tab/newline skipping of [Input]
    ([preprocess]); [parse_scheme]; for the not-special scheme "matrix": [parse_non_special] with its three
    forms — opaque path ([parse_cannot_be_a_base_path]), "/"-rooted path ([parse_path]: percent-encode set,
    single- and double-dot segments incl. their %2e spellings, [shorten_path], [pop_path],
    [last_slash_can_be_removed] with its Windows-drive-letter test) and "//" authority
    ([after_double_slash]: [parse_userinfo] as far as it decides errors and where the host starts,
    [parse_host] + [Host::parse_opaque] incl. url's own [parse_ipv6addr], [parse_port],
    [parse_path_start]); [parse_query_and_fragment] with the query percent-encode set; [Url::path],
    [Url::query].  Not covered: every other scheme, base URLs, setters, the serialization of
    userinfo/host/port/fragment (ruma never reads them), violation callbacks, the u32 overflow check
    on inputs of 4 GiB, and the crate's internal [debug_assert]s / [unwrap]s other than the
    [panic!] of [parse_query_and_fragment] ([Panic 9]). *)

Definition c0_or_space (b : N) : bool := b <=? 32.
Definition tab_or_nl (b : N) : bool := (b =? 9) || (b =? 10) || (b =? 13).

Fixpoint trim_start (s : str) : str :=
  match s with
  | b :: r => if c0_or_space b then trim_start r else s
  | [] => []
  end.
(** [trim_matches(c0_control_or_space)], then every later read skips tab / LF / CR. *)
Definition preprocess (s : str) : str :=
  filter (fun b => negb (tab_or_nl b)) (rev (trim_start (rev (trim_start s)))).

Definition is_alpha (b : N) : bool := is_lower b || is_upper b.
Definition scheme_byte (b : N) : bool := is_alnum b || (b =? 43) || (b =? 45) || (b =? 46).
Definition to_lower (b : N) : N := if is_upper b then b + 32 else b.

(** parser.rs:404-428 [parse_scheme] (context UrlParser): lower-cased scheme and what follows ':'. *)
Fixpoint scheme_loop (s : str) : option (str * str) :=
  match s with
  | [] => None
  | c :: r =>
      if c =? 58 then Some ([], r)
      else if scheme_byte c then
        match scheme_loop r with
        | Some (sc, rest) => Some (to_lower c :: sc, rest)
        | None => None
        end
      else None
  end.
Definition parse_scheme (s : str) : option (str * str) :=
  match s with
  | c :: _ => if is_alpha c then scheme_loop s else None
  | [] => None
  end.

(** Percent-encode sets of parser.rs:20-46 (bytes >= 128 are always escaped). *)
Definition set_controls (b : N) : bool := (b <? 32) || (127 <=? b).
Definition set_path (b : N) : bool :=
  set_controls b || (b =? 32) || (b =? 34) || (b =? 60) || (b =? 62) || (b =? 96)
  || (b =? 35) || (b =? 63) || (b =? 123) || (b =? 125).
Definition set_query (b : N) : bool :=
  set_controls b || (b =? 32) || (b =? 34) || (b =? 35) || (b =? 60) || (b =? 62).
Definition enc_by (set : N -> bool) (b : N) : str := if set b then pct_byte b else [b].

Definition path_end (c : N) : bool := (c =? 63) || (c =? 35).

(** parser.rs:1427-1443 [parse_cannot_be_a_base_path]: up to '?' / '#', CONTROLS escaped. *)
Fixpoint opaque_path (s : str) : str * str :=
  match s with
  | [] => ([], [])
  | c :: r =>
      if path_end c then ([], s)
      else let '(p, rest) := opaque_path r in (enc_by set_controls c ++ p, rest)
  end.

(** Segment tests of parser.rs:1311-1339. *)
Definition is_dotdot (g : str) : bool :=
  mem_str g [s!".."; s!"%2e%2e"; s!"%2e%2E"; s!"%2E%2e"; s!"%2E%2E"; s!"%2e."; s!"%2E."; s!".%2e"; s!".%2E"].
Definition is_dot (g : str) : bool := mem_str g [s!"."; s!"%2e"; s!"%2E"].

Definition ends_with_slash (p : str) : bool :=
  match rev p with x :: _ => x =? 47 | [] => false end.

(** [(before the last '/', after it)]. *)
Definition split_last_slash (p : str) : option (str * str) :=
  match split_once 47 (rev p) with
  | Some (a, b) => Some (rev b, rev a)
  | None => None
  end.

(** parser.rs:1788-1793 [starts_with_windows_drive_letter]. *)
Definition starts_with_wdl (s : str) : bool :=
  match s with
  | a :: b :: t =>
      is_alpha a && ((b =? 58) || (b =? 124))
      && match t with
         | [] => true
         | c :: _ => (c =? 47) || (c =? 92) || (c =? 63) || (c =? 35)
         end
  | _ => false
  end.

(** parser.rs:1383-1393 [last_slash_can_be_removed], on the path part (it ends with '/'). *)
Definition can_remove_last_slash (p : str) : bool :=
  match split_last_slash (removelast p) with
  | Some (_, lastseg) => negb (starts_with_wdl (lastseg ++ [47]))
  | None => false
  end.

(** parser.rs:1396-1425 [shorten_path] / [pop_path] (not file). *)
Definition shorten_path (p : str) : str :=
  if is_empty p then p
  else match split_last_slash p with
       | Some (pre, _) => pre ++ [47]
       | None => p
       end.

(** The end of one segment (parser.rs:1303-1370): [p] is the path before the segment, [g] the
    escaped segment, [slash] whether a '/' ended it. *)
Definition finish_segment (p g : str) (slash : bool) : str :=
  if is_dotdot g then
    let p1 := if ends_with_slash p && can_remove_last_slash p then removelast p else p in
    let p2 := shorten_path p1 in
    if slash && negb (ends_with_slash p2) then p2 ++ [47] else p2
  else if is_dot g then
    if ends_with_slash p then p else p ++ [47]
  else p ++ g ++ (if slash then [47] else []).

(** parser.rs:1189-1381 [parse_path] (not special, context UrlParser): (path, remaining input). *)
Fixpoint path_loop (inp p g : str) : str * str :=
  match inp with
  | [] => (finish_segment p g false, [])
  | c :: r =>
      if c =? 47 then path_loop r (finish_segment p g true) []
      else if path_end c then (finish_segment p g false, inp)
      else path_loop r p (g ++ enc_by set_path c)
  end.

(** parser.rs:1150-1187 [parse_path_start] (not special). *)
Definition path_start (inp : str) : str * str :=
  match inp with
  | [] => path_loop [] [] []
  | c :: _ =>
      if path_end c then ([], inp)
      else if c =? 47 then path_loop inp [] []
      else path_loop inp [47] []
  end.

(** host.rs:364-518 [parse_ipv6addr]: accepted or not. *)
Definition is_hex (c : N) : bool := match hex_val c with Some _ => true | None => false end.

(** The embedded IPv4 part: [seen] numbers completed, [cur] the number being read. *)
Fixpoint ipv6_v4 (s : str) (seen : N) (cur : option N) : bool :=
  match s with
  | [] => match cur with Some _ => seen + 1 =? 4 | None => false end
  | c :: r =>
      if is_digit c then
        match cur with
        | None => ipv6_v4 r seen (Some (c - 48))
        | Some v => if v =? 0 then false
                    else let v' := v * 10 + (c - 48) in if 255 <? v' then false else ipv6_v4 r seen (Some v')
        end
      else if c =? 46 then
        match cur with
        | Some _ => if seen + 1 <? 4 then ipv6_v4 r (seen + 1) None else false
        | None => false
        end
      else false
  end.

Definition ipv6_finish (pp : N) (compress : bool) : bool := if compress then true else pp =? 8.

(** The piece loop: [pp] pieces done, [nd] hex digits of the current piece read, [start] the input at
    the start of the current piece (an IPv4 part is re-read from there). *)
Fixpoint ipv6_main (s : str) (pp : N) (compress : bool) (nd : N) (start : str) : bool :=
  match s with
  | [] => ipv6_finish (if nd =? 0 then pp else pp + 1) compress
  | c :: r =>
      if nd =? 0 then
        if pp =? 8 then false
        else if c =? 58 then (if compress then false else ipv6_main r (pp + 1) true 0 r)
        else if is_hex c then ipv6_main r pp compress 1 s
        else false
      else if is_hex c && (nd <? 4) then ipv6_main r pp compress (nd + 1) start
      else if c =? 46 then
        if 6 <? pp then false
        else ipv6_v4 start 0 None && ipv6_finish (pp + 2) compress
      else if c =? 58 then
        match r with
        | [] => false
        | _ => ipv6_main r (pp + 1) compress 0 r
        end
      else false
  end.

Definition url_ipv6 (s : str) : bool :=
  match s with
  | a :: b :: r =>
      if a =? 58 then (if b =? 58 then ipv6_main r 1 true 0 r else false)
      else ipv6_main s 0 false 0 s
  | _ => false                                                          (* len < 2 *)
  end.

(** host.rs:123-160 [Host::parse_opaque]: accepted or not. *)
Definition invalid_host_byte (c : N) : bool :=
  (c =? 0) || (c =? 9) || (c =? 10) || (c =? 13) || (c =? 32) || (c =? 35) || (c =? 47) || (c =? 58)
  || (c =? 60) || (c =? 62) || (c =? 63) || (c =? 64) || (c =? 91) || (c =? 92) || (c =? 93)
  || (c =? 94) || (c =? 124).
Definition opaque_host_ok (h : str) : bool :=
  match h with
  | 91 :: t =>
      match rev t with
      | 93 :: ri => url_ipv6 (rev ri)
      | _ => false
      end
  | _ => negb (existsb invalid_host_byte h)
  end.

(** parser.rs:982-1037 [parse_host] (not special): the host text and what follows. *)
Fixpoint host_scan (s : str) (inside : bool) : str * str :=
  match s with
  | [] => ([], [])
  | c :: r =>
      if ((c =? 58) && negb inside) || (c =? 47) || (c =? 63) || (c =? 35) then ([], s)
      else let inside' := if c =? 91 then true else if c =? 93 then false else inside in
           let '(h, rest) := host_scan r inside' in (c :: h, rest)
  end.

(** parser.rs:1110-1148 [parse_port] (context UrlParser): the remaining input, or failure. *)
Fixpoint port_scan (s : str) (v : N) : option str :=
  match s with
  | [] => Some []
  | c :: r =>
      if is_digit c then
        let v' := v * 10 + (c - 48) in if 65535 <? v' then None else port_scan r v'
      else if (c =? 47) || (c =? 92) || (c =? 63) || (c =? 35) then Some s
      else None
  end.

Definition authority_end (c : N) : bool := (c =? 47) || (c =? 63) || (c =? 35).
Fixpoint take_authority (s : str) : str :=
  match s with
  | c :: r => if authority_end c then [] else c :: take_authority r
  | [] => []
  end.

(** The part of [s] after its last '@' within the first [n] bytes, and the part before it. *)
Definition split_last_at (a : str) : option (str * str) :=
  match split_once 64 (rev a) with
  | Some (x, y) => Some (rev y, rev x)
  | None => None
  end.

(** parser.rs:844-877 [after_double_slash] + 880-961 [parse_userinfo] + 963-1000 [parse_host_and_port]:
    the input at which the path starts, or failure. *)
Definition authority (inp : str) : option str :=
  let a := take_authority inp in
  let after_auth := skipn (List.length a) inp in
  (* userinfo *)
  let ui :=
    match split_last_at a with
    | None => Some (false, inp)
    | Some (u, after_at) =>
        let remaining := after_at ++ after_auth in
        if is_empty u then
          match remaining with
          | c :: _ => if authority_end c then None else Some (false, remaining)   (* EmptyHost *)
          | [] => Some (false, remaining)
          end
        else Some (negb (str_eqb u [58]), remaining)
    end in
  match ui with
  | None => None
  | Some (has_authority, remaining) =>
      let '(h, rest) := host_scan remaining false in
      if negb (opaque_host_ok h) then None
      else if is_empty h && head_is 58 rest then None                    (* EmptyHost: port without host *)
      else
        let after_port :=
          match rest with
          | c :: r => if c =? 58 then port_scan r 0 else Some rest
          | [] => Some rest
          end in
        match after_port with
        | None => None
        | Some rest' => if is_empty h && has_authority then None else Some rest'
        end
  end.

(** parser.rs:1544-1643 [parse_query] (not special): up to '#', QUERY set escaped. *)
Fixpoint query_part (s : str) : str :=
  match s with
  | [] => []
  | c :: r => if c =? 35 then [] else enc_by set_query c ++ query_part r
  end.

(** parser.rs:1515-1542 [parse_query_and_fragment] + [Url::query().unwrap_or("")]. *)
Definition query_of (remaining : str) : outcome str :=
  match remaining with
  | [] => Ok []
  | c :: r =>
      if c =? 35 then Ok []
      else if c =? 63 then Ok (query_part r)
      else Panic 9                                                      (* "Programming error" *)
  end.

Inductive url_result : Type :=
| UrlOther                                  (* [Url::parse] failed, or the scheme is not "matrix" *)
| UrlMatrix (path query : str).             (* [url.path()], [url.query().unwrap_or("")] *)

Definition url_parse (s : str) : outcome url_result :=
  match parse_scheme (preprocess s) with
  | None => Ok UrlOther                                                 (* RelativeUrlWithoutBase *)
  | Some (scheme, rest) =>
      if negb (str_eqb scheme s!"matrix") then Ok UrlOther
      else
        let parsed :=
          if head_is 47 rest then
            let r1 := tl rest in
            if head_is 47 r1 then                                       (* "//": authority *)
              match authority (tl r1) with
              | Some r' => Some (path_start r')
              | None => None
              end
            else Some (path_loop r1 [47] [])                            (* "/"-rooted path *)
          else Some (opaque_path rest) in                               (* opaque path *)
        match parsed with
        | None => Ok UrlOther
        | Some (path, remaining) => obind (query_of remaining) (fun q => Ok (UrlMatrix path q))
        end
  end.

(** * MatrixUri *)

(** matrix_uri.rs:491-503: the query pairs. *)
Fixpoint query_loop (ps : list (str * str)) (via : list str) (act : option action)
  : outcome (list str * option action) :=
  match ps with
  | [] => Ok (via, act)
  | (k, v) :: r =>
      if str_eqb k s!"via" then
        obind (lift (validate_server_name v)) (fun _ => query_loop r (via ++ [v]) act)
      else if str_eqb k s!"action" then
        match act with
        | Some _ => Err 0                                               (* TooManyActions *)
        | None => query_loop r via (Some (action_of_str v))
        end
      else Err 0                                                        (* UnknownQueryItem *)
  end.

(** matrix_uri.rs:479-506 [MatrixUri::parse]. *)
Definition parse_uri (s : str) : outcome m_uri :=
  obind (url_parse s) (fun u =>
  match u with
  | UrlOther => Err 0                                                   (* InvalidUrl / WrongScheme *)
  | UrlMatrix path query =>
      obind (parse_with_type path) (fun id =>
      obind (query_loop (form_parse query) [] None) (fun '(via, act) =>
      Ok (MUri id via act)))
  end).

(** matrix_uri.rs:509-528 [Display for MatrixUri] (repaired: the action goes through
    [form_urlencoded::byte_serialize]). *)
Definition no_via (via : list str) : bool := match via with [] => true | _ => false end.
Definition show_action (first : bool) (a : option action) : str :=
  match a with
  | None => []
  | Some a => (if first then s!"?action=" else s!"&action=") ++ byte_serialize (action_str a)
  end.
Definition show_uri (u : m_uri) : outcome str :=
  obind (show_type (u_id u)) (fun t =>
  Ok (s!"matrix:" ++ t ++ show_via true (u_via u) ++ show_action (no_via (u_via u)) (u_action u))).

(** * The public constructors (room_id.rs:55-198, room_alias_id.rs:35-60, user_id.rs:178-200)
    [MatrixToUri::new(id, via)]; [MatrixUri::new(id, via, Some(Join/Chat).filter(|_| flag))]. *)
Definition ctor_to (id : matrix_id) (via : list str) : to_uri := ToUri id via.
Definition ctor_uri (id : matrix_id) (via : list str) (flag : bool) : m_uri :=
  MUri id via
    (if flag then
       match id with
       | MRoom _ | MAlias _ => Some AJoin
       | MUser _ => Some AChat
       | MEvent _ _ => None                   (* the event constructors take no flag *)
       end
     else None).

(** * Legacy: the code before the fixes (for the record of refuted theorems only). *)
Module Legacy.
  (** matrix_uri.rs before fe84b08: [first.as_bytes()[0]] / [second.as_bytes()[0]]. *)
  Definition parse_with_sigil (s : str) : outcome matrix_id :=
    let s := strip_prefix_c 47 s in
    let s := strip_suffix_c 47 s in
    if is_empty s then Err 0
    else if 1 <? count 47 s then Err 0
    else
      match split_once 47 s with
      | Some (first_raw, second_raw) =>
          obind (decode_utf8 first_raw) (fun first =>
          obind (decode_utf8 second_raw) (fun second =>
          match first_byte first with
          | None => Panic 5
          | Some f =>
              if (f =? 33) || (f =? 35) then
                match first_byte second with
                | None => Panic 6
                | Some g =>
                    if g =? 36 then
                      obind (lift (validate_room_or_alias_id first)) (fun _ =>
                      obind (lift (validate_event_id second)) (fun _ => Ok (MEvent first second)))
                    else Err 0
                end
              else if f =? 36 then
                match first_byte second with
                | None => Panic 6
                | Some g =>
                    if (g =? 33) || (g =? 35) then
                      obind (lift (validate_room_or_alias_id second)) (fun _ =>
                      obind (lift (validate_event_id first)) (fun _ => Ok (MEvent second first)))
                    else Err 0
                end
              else Err 0
          end))
      | None => parse_with_sigil s
      end.

  Definition parse_to (s : str) : outcome to_uri :=
    match strip_prefix base_url s with
    | None => Err 0
    | Some s =>
        let s := strip_suffix_c 47 s in
        match split_on 63 s with
        | [] => Panic 4
        | ids_part :: rest =>
            obind (parse_with_sigil ids_part) (fun id =>
            obind (match rest with [] => Ok [] | query :: _ => via_of_pairs (form_parse query) end) (fun via =>
            match rest with _ :: _ :: _ => Err 0 | _ => Ok (ToUri id via) end))
        end
    end.

  (** matrix_uri.rs before 56a13a6: the action was written verbatim. *)
  Definition show_action (first : bool) (a : option action) : str :=
    match a with
    | None => []
    | Some a => (if first then s!"?action=" else s!"&action=") ++ action_str a
    end.
  Definition show_uri (u : m_uri) : outcome str :=
    obind (show_type (u_id u)) (fun t =>
    Ok (s!"matrix:" ++ t ++ show_via true (u_via u) ++ show_action (no_via (u_via u)) (u_action u))).
End Legacy.
