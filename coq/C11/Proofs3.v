(** C11.Proofs3 — the two round trips: [MatrixToUri] and [MatrixUri]. *)
From Base Require Import Prelude.
From C10 Require Import Model Lemmas.
From C11 Require Import Types Model Spec Valid Proofs1 Proofs2.
From Coq Require Import ZifyBool ZifyNat ZifyN.
Ltac Zify.zify_post_hook ::= Z.div_mod_to_equations.

(** * The query string as '&'-joined items *)
Definition via_item (v : str) : str := s!"via=" ++ v.
Definition action_items (a : option action) : list str :=
  match a with None => [] | Some a => [s!"action=" ++ byte_serialize (action_str a)] end.

Fixpoint join_amp (items : list str) : str :=
  match items with
  | [] => []
  | [x] => x
  | x :: r => x ++ 38 :: join_amp r
  end.

Lemma join_amp_cons x y r : join_amp (x :: y :: r) = x ++ 38 :: join_amp (y :: r).
Proof. reflexivity. Qed.

Lemma join_amp_app a b : a <> [] -> b <> [] -> join_amp (a ++ b) = join_amp a ++ 38 :: join_amp b.
Proof.
  intros Ha Hb. induction a as [|x a IH]; [congruence|]. destruct a as [|y a].
  - cbn [app]. destruct b as [|z b]; [congruence|]. reflexivity.
  - change ((x :: y :: a) ++ b) with (x :: y :: (a ++ b)). rewrite !join_amp_cons.
    change (y :: a ++ b) with ((y :: a) ++ b). rewrite IH by discriminate. now rewrite <- app_assoc.
Qed.

Lemma show_via_join first via :
  via <> [] -> show_via first via = (if first then 63 else 38) :: join_amp (List.map via_item via).
Proof.
  revert first. induction via as [|v r IH]; intros first Hne; [congruence|]. cbn [show_via List.map].
  destruct r as [|w r].
  - cbn [show_via List.map join_amp]. rewrite app_nil_r. destruct first; reflexivity.
  - rewrite IH by discriminate. cbn [List.map]. rewrite join_amp_cons.
    change (via_item v) with (s!"via=" ++ v). rewrite <- app_assoc.
    destruct first; reflexivity.
Qed.

(** The query part of a formatted [MatrixUri]. *)
Lemma show_query_join via act :
  let items := List.map via_item via ++ action_items act in
  show_via true via ++ show_action (no_via via) act = match items with [] => [] | _ => 63 :: join_amp items end.
Proof.
  cbn zeta. destruct via as [|v r].
  - cbn [show_via List.map app no_via]. destruct act as [a|]; reflexivity.
  - rewrite show_via_join by discriminate. cbn [no_via List.map app]. destruct act as [a|].
    + cbn [show_action action_items].
      set (X := s!"action=" ++ byte_serialize (action_str a)).
      change (via_item v :: List.map via_item r ++ [X]) with ((via_item v :: List.map via_item r) ++ [X]).
      rewrite join_amp_app by discriminate. cbn [join_amp app]. reflexivity.
    + cbn [show_action action_items]. rewrite !app_nil_r. reflexivity.
Qed.

Lemma split_on_join items :
  items <> [] -> Forall (fun x => ~ In 38 x) items -> split_on 38 (join_amp items) = items.
Proof.
  intros Hne H. induction H as [|x r Hx _ IH]; [congruence|]. destruct r as [|y r].
  - cbn [join_amp]. now apply split_on_notin.
  - rewrite join_amp_cons, split_on_app by exact Hx. f_equal. apply IH. discriminate.
Qed.

Lemma form_parse_join items :
  Forall (fun x => ~ In 38 x) items -> form_parse (join_amp items) = flat_map form_pair items.
Proof.
  intros H. destruct items as [|x r]; [reflexivity|]. unfold form_parse. now rewrite split_on_join.
Qed.

(** * Decoding plain text *)
Lemma replace_plus_id s : ~ In 43 s -> replace_plus s = s.
Proof.
  induction s as [|x s IH]; intros H; [reflexivity|]. cbn [replace_plus List.map].
  destruct (N.eqb_spec x 43); [subst; exfalso; apply H; now left|].
  f_equal. apply IH. intros H'. apply H. now right.
Qed.

Lemma percent_decode_id s : ~ In 37 s -> percent_decode s = s.
Proof.
  induction s as [|x s IH]; intros H; [reflexivity|]. rewrite percent_decode_plain.
  - f_equal. apply IH. intros H'. apply H. now right.
  - intros ->. apply H. now left.
Qed.

Lemma form_decode_plain s : Forall plain_char s -> form_decode s = s.
Proof.
  intros H. unfold form_decode.
  rewrite replace_plus_id by (eapply Forall_not_in; [exact H|unfold plain_char; tauto]).
  rewrite percent_decode_id by (eapply Forall_not_in; [exact H|unfold plain_char; tauto]).
  apply ascii_lossy_id. eapply Forall_impl; [|exact H]. unfold plain_char. tauto.
Qed.

Lemma form_pair_via v : Forall plain_char v -> form_pair (via_item v) = [(s!"via", v)].
Proof.
  intros H. unfold form_pair, via_item.
  change (is_empty (s!"via=" ++ v)) with false. cbv iota.
  change (s!"via=" ++ v) with (s!"via" ++ 61 :: v).
  rewrite split_once_app by (apply not_in_lit; reflexivity).
  rewrite (form_decode_plain v) by exact H. reflexivity.
Qed.

Lemma form_pair_action a :
  valid_utf8 a = true -> form_pair (s!"action=" ++ byte_serialize a) = [(s!"action", a)].
Proof.
  intros H. unfold form_pair.
  change (is_empty (s!"action=" ++ byte_serialize a)) with false. cbv iota.
  change (s!"action=" ++ byte_serialize a) with (s!"action" ++ 61 :: byte_serialize a).
  rewrite split_once_app by (apply not_in_lit; reflexivity).
  unfold form_decode at 2. rewrite form_decode_serialize by now apply valid_utf8_bytes.
  rewrite utf8_lossy_id by exact H. reflexivity.
Qed.

Lemma flat_map_via via :
  valid_via via -> flat_map form_pair (List.map via_item via) = List.map (fun v => (s!"via", v)) via.
Proof.
  intros H. induction H as [|v r Hv _ IH]; [reflexivity|]. cbn [List.map flat_map].
  rewrite form_pair_via by now apply sn_plain. now rewrite IH.
Qed.

Lemma via_item_no_amp v : validate_server_name v = Ok tt -> ~ In 38 (via_item v).
Proof.
  intros H. unfold via_item. apply not_in_app; [apply not_in_lit; reflexivity|].
  eapply Forall_not_in; [apply sn_plain, H|unfold plain_char; tauto].
Qed.

Lemma via_items_no_amp via : valid_via via -> Forall (fun x => ~ In 38 x) (List.map via_item via).
Proof. intros H. induction H; cbn [List.map]; constructor; auto using via_item_no_amp. Qed.

(** * MatrixToUri *)
Lemma via_of_pairs_ok via :
  valid_via via -> via_of_pairs (List.map (fun v => (s!"via", v)) via) = Ok via.
Proof.
  intros H. induction H as [|v r Hv _ IH]; [reflexivity|]. cbn [List.map via_of_pairs].
  change (str_eqb s!"via" s!"via") with true. cbv iota. rewrite Hv, IH. reflexivity.
Qed.

(** The sigil form ends in a non-empty part without '/', and contains no '?'. *)
Lemma show_sigil_end id :
  valid_id id -> exists a b, show_sigil id = a ++ b /\ b <> [] /\ ~ In 47 b.
Proof.
  destruct id as [r|a|u|r e]; cbn [valid_id show_sigil].
  - intros [Hu Hv]. destruct (room_shape _ Hv) as (t & ->). exists [], (enc (33 :: t)).
    repeat split; [apply enc_nonempty; discriminate|apply enc_no_slash, valid_utf8_bytes, Hu].
  - intros [Hu Hv]. destruct (alias_shape _ Hv) as (t & -> & _). exists [], (enc (35 :: t)).
    repeat split; [apply enc_nonempty; discriminate|apply enc_no_slash, valid_utf8_bytes, Hu].
  - intros [Hu Hv]. destruct (user_shape _ Hv) as (t & -> & _). exists [], (enc (64 :: t)).
    repeat split; [apply enc_nonempty; discriminate|apply enc_no_slash, valid_utf8_bytes, Hu].
  - intros [_ [Hu Hv]]. destruct (event_shape _ Hv) as (t & ->). exists (enc r ++ [47]), (enc (36 :: t)).
    repeat split; [now rewrite <- app_assoc|apply enc_nonempty; discriminate|apply enc_no_slash, valid_utf8_bytes, Hu].
Qed.

Lemma show_sigil_no_qmark id : valid_id id -> ~ In 63 (show_sigil id).
Proof.
  destruct id as [r|a|u|r e]; cbn [valid_id show_sigil].
  - intros [Hu _]. apply enc_no_qmark, valid_utf8_bytes, Hu.
  - intros [Hu _]. apply enc_no_qmark, valid_utf8_bytes, Hu.
  - intros [Hu _]. apply enc_no_qmark, valid_utf8_bytes, Hu.
  - intros [[Hur _] [Hue _]]. apply not_in_app; [apply enc_no_qmark, valid_utf8_bytes, Hur|].
    apply not_in_cons; [discriminate|apply enc_no_qmark, valid_utf8_bytes, Hue].
Qed.

(** The joined via items: no '/', no '?'. *)
Lemma via_query_chars via :
  valid_via via -> Forall (fun c => c <> 47 /\ c <> 63) (join_amp (List.map via_item via)).
Proof.
  intros H. induction H as [|v r Hv _ IH]; [constructor|]. cbn [List.map].
  assert (Hitem : Forall (fun c => c <> 47 /\ c <> 63) (via_item v)).
  { unfold via_item. apply Forall_app. split.
    - apply Forall_forall. intros c Hc. cbn in Hc. repeat destruct Hc as [<-|Hc]; try (split; discriminate). destruct Hc.
    - eapply Forall_impl; [|apply sn_plain, Hv]. unfold plain_char. tauto. }
  destruct r as [|w r]; [exact Hitem|].
  cbn [List.map] in IH |- *. rewrite join_amp_cons. apply Forall_app. split; [exact Hitem|].
  apply Forall_cons; [split; discriminate|exact IH].
Qed.

Lemma join_amp_nonempty_via via : via <> [] -> valid_via via -> join_amp (List.map via_item via) <> [].
Proof.
  intros Hne _. destruct via as [|v r]; [congruence|]. cbn [List.map].
  destruct (List.map via_item r); cbn [join_amp]; discriminate.
Qed.

Theorem to_roundtrip u : valid_to u -> parse_to (show_to u) = Ok u.
Proof.
  destruct u as [id via]. unfold valid_to, show_to; cbn [to_id to_via]. intros [Hid Hvia].
  unfold parse_to. rewrite strip_prefix_app.
  destruct via as [|v0 r0].
  - cbn [show_via]. rewrite app_nil_r.
    destruct (show_sigil_end id Hid) as (a & b & E & Hb & Hnb).
    assert (E1 : strip_suffix_c 47 (show_sigil id) = show_sigil id) by (rewrite E; now apply strip_suffix_c_app).
    rewrite E1. rewrite split_on_notin by now apply show_sigil_no_qmark.
    rewrite sigil_roundtrip by exact Hid. reflexivity.
  - set (via := v0 :: r0) in *.
    rewrite show_via_join by discriminate.
    pose proof (via_query_chars via Hvia) as Hq.
    set (q := join_amp (List.map via_item via)) in *.
    assert (Hq47 : ~ In 47 q) by (eapply Forall_not_in; [exact Hq|cbn; tauto]).
    assert (Hq63 : ~ In 63 q) by (eapply Forall_not_in; [exact Hq|cbn; tauto]).
    assert (E1 : strip_suffix_c 47 (show_sigil id ++ 63 :: q) = show_sigil id ++ 63 :: q).
    { apply strip_suffix_c_app; [discriminate|]. apply not_in_cons; [discriminate|exact Hq47]. }
    rewrite E1. rewrite split_on_app by now apply show_sigil_no_qmark.
    rewrite split_on_notin by exact Hq63.
    rewrite sigil_roundtrip by exact Hid. cbn [obind].
    unfold q. rewrite form_parse_join by now apply via_items_no_amp.
    rewrite flat_map_via by exact Hvia. rewrite via_of_pairs_ok by exact Hvia. reflexivity.
Qed.

(** * The url fragment on a formatted matrix: URI *)
Lemma trim_start_id s : match s with x :: _ => 32 < x | [] => True end -> trim_start s = s.
Proof.
  destruct s as [|x s]; [reflexivity|]. intros H. cbn [trim_start]. unfold c0_or_space.
  replace (x <=? 32) with false by lia. reflexivity.
Qed.

Lemma preprocess_id s : Forall (fun c => uri_char c = true) s -> preprocess s = s.
Proof.
  intros H. unfold preprocess.
  assert (H1 : trim_start s = s).
  { apply trim_start_id. destruct H as [|x r Hx _]; [exact I|]. unfold uri_char in Hx. lia. }
  rewrite H1.
  assert (H2 : trim_start (rev s) = rev s).
  { apply trim_start_id. pose proof (Forall_rev H) as Hr. destruct Hr as [|x r Hx _]; [exact I|].
    unfold uri_char in Hx. lia. }
  rewrite H2, rev_involutive. clear H1 H2.
  induction H as [|x r Hx _ IH]; [reflexivity|]. cbn [filter].
  replace (negb (tab_or_nl x)) with true by (unfold tab_or_nl, uri_char in *; lia). now rewrite IH.
Qed.

Definition matrix_colon : str := [109; 97; 116; 114; 105; 120; 58].

Lemma parse_scheme_matrix r : parse_scheme (matrix_colon ++ r) = Some (s!"matrix", r).
Proof. vm_compute. reflexivity. Qed.

(** Characters of the typed path: URI characters other than '?' and '#'. *)
Definition tchar (c : N) : bool := uri_char c && negb (c =? 63) && negb (c =? 35).
(** Characters of the query: URI characters outside the query percent-encode set. *)
Definition qchar (c : N) : bool := uri_char c && negb (set_query c).

Lemma tchar_uri1 c : tchar c = true -> uri_char c = true.
Proof. unfold tchar. intros H. apply andb_true_iff in H as [H _]. apply andb_true_iff in H as [H _]. exact H. Qed.
Lemma qchar_uri1 c : qchar c = true -> uri_char c = true.
Proof. unfold qchar. intros H. apply andb_true_iff in H as [H _]. exact H. Qed.

Lemma opaque_path_app t q :
  Forall (fun c => tchar c = true) t ->
  match q with [] => True | c :: _ => path_end c = true end ->
  opaque_path (t ++ q) = (t, q).
Proof.
  intros Ht Hq. induction Ht as [|c r Hc _ IH]; cbn [app].
  - destruct q as [|c q]; [reflexivity|]. cbn [opaque_path]. now rewrite Hq.
  - cbn [opaque_path]. unfold tchar, uri_char, path_end in *.
    replace ((c =? 63) || (c =? 35)) with false by lia. rewrite IH.
    unfold enc_by, set_controls. replace ((c <? 32) || (127 <=? c)) with false by lia. reflexivity.
Qed.

Lemma query_part_id q : Forall (fun c => qchar c = true) q -> query_part q = q.
Proof.
  intros H. induction H as [|c r Hc _ IH]; [reflexivity|]. cbn [query_part].
  unfold qchar, uri_char, set_query, set_controls in Hc.
  replace (c =? 35) with false by lia. rewrite IH. unfold enc_by.
  replace (set_query c) with false by (unfold set_query, set_controls; lia). reflexivity.
Qed.

Lemma url_parse_formatted t q :
  Forall (fun c => tchar c = true) t -> head_is 47 t = false ->
  Forall (fun c => qchar c = true) q ->
  url_parse (s!"matrix:" ++ t ++ match q with [] => [] | _ => 63 :: q end) = Ok (UrlMatrix t q).
Proof.
  intros Ht Hh Hq. unfold url_parse.
  assert (Hall : Forall (fun c => uri_char c = true) (s!"matrix:" ++ t ++ match q with [] => [] | _ => 63 :: q end)).
  { apply Forall_app. split; [apply Forall_forall, forallb_forall; reflexivity|].
    apply Forall_app. split.
    - eapply Forall_impl; [|exact Ht]. apply tchar_uri1.
    - destruct q as [|c q']; [constructor|]. apply Forall_cons; [reflexivity|].
      eapply Forall_impl; [|exact Hq]. apply qchar_uri1. }
  rewrite preprocess_id by exact Hall.
  change (s!"matrix:") with matrix_colon. rewrite parse_scheme_matrix.
  change (negb (str_eqb s!"matrix" s!"matrix")) with false. cbv iota.
  assert (Hh' : head_is 47 (t ++ match q with [] => [] | _ => 63 :: q end) = false).
  { destruct t as [|x t']; [|exact Hh]. destruct q; reflexivity. }
  rewrite Hh'. rewrite opaque_path_app; [|exact Ht|destruct q; [exact I|reflexivity]].
  destruct q as [|c q']; [reflexivity|]. cbn [query_of]. change (63 =? 35) with false. change (63 =? 63) with true.
  cbv iota. rewrite query_part_id by exact Hq. reflexivity.
Qed.

(** * Characters of a formatted [MatrixUri] *)
Lemma seg_char_tchar s : Forall seg_char s -> Forall (fun c => tchar c = true) s.
Proof.
  apply Forall_impl. intros c (H1 & H2 & H3 & H4). unfold tchar. rewrite H1.
  destruct (N.eqb_spec c 63); [congruence|]. destruct (N.eqb_spec c 35); [congruence|]. reflexivity.
Qed.

Lemma lit_forall (p : N -> bool) (l : str) : forallb p l = true -> Forall (fun c => p c = true) l.
Proof. intros H. apply Forall_forall, forallb_forall, H. Qed.

Lemma Ok_inj {A} (a b : A) : @Ok A a = Ok b -> a = b.
Proof. intros H. now injection H. Qed.

Lemma show_type_chars id t :
  valid_id id -> show_type id = Ok t -> Forall (fun c => tchar c = true) t /\ head_is 47 t = false.
Proof.
  destruct id as [r|a|u|r e]; cbn [valid_id show_type].
  - intros [Hu Hv]. destruct (room_shape _ Hv) as (x & ->). cbn [bytes_from_1 obind]. intros E; apply Ok_inj in E; subst t.
    split; [|reflexivity]. apply Forall_app. split; [apply lit_forall; reflexivity|].
    apply seg_char_tchar, enc_seg_chars, (valid_tail 33), Hu.
  - intros [Hu Hv]. destruct (alias_shape _ Hv) as (x & -> & _). cbn [bytes_from_1 obind]. intros E; apply Ok_inj in E; subst t.
    split; [|reflexivity]. apply Forall_app. split; [apply lit_forall; reflexivity|].
    apply seg_char_tchar, enc_seg_chars, (valid_tail 35), Hu.
  - intros [Hu Hv]. destruct (user_shape _ Hv) as (x & -> & _). cbn [bytes_from_1 obind]. intros E; apply Ok_inj in E; subst t.
    split; [|reflexivity]. apply Forall_app. split; [apply lit_forall; reflexivity|].
    apply seg_char_tchar, enc_seg_chars, (valid_tail 64), Hu.
  - intros [[Hur Hvr] [Hue Hve]]. destruct (event_shape _ Hve) as (te & ->).
    assert (G : forall sg tr ty, r = sg :: tr -> forallb tchar ty = true -> head_is 47 (ty ++ [47]) = false ->
              Forall (fun c => tchar c = true) (ty ++ 47 :: enc tr ++ s!"/e/" ++ enc te) /\
              head_is 47 (ty ++ 47 :: enc tr ++ s!"/e/" ++ enc te) = false).
    { intros sg tr ty -> Hty Hhd. split.
      - apply Forall_app. split; [now apply lit_forall|]. apply Forall_cons; [reflexivity|].
        apply Forall_app. split; [apply seg_char_tchar, enc_seg_chars, (valid_tail sg), Hur|].
        apply Forall_app. split; [apply lit_forall; reflexivity|].
        apply seg_char_tchar, enc_seg_chars, (valid_tail 36), Hue.
      - destruct ty; [discriminate|exact Hhd]. }
    destruct (roa_shape _ Hvr) as (tr & [->| [-> _]]); cbn [is_room_id bytes_from_1 obind]; intros E; apply Ok_inj in E; subst t.
    + apply (G 33 tr s!"roomid"); reflexivity.
    + apply (G 35 tr s!"r"); reflexivity.
Qed.

Lemma plain_qchar c : plain_char c -> qchar c = true.
Proof. unfold plain_char, qchar. intros (H1 & _ & _ & _ & _ & _ & _ & _ & _ & H2). now rewrite H1, H2. Qed.

Lemma ser_out_qchar c : ser_out c -> qchar c = true.
Proof.
  unfold ser_out, qchar, uri_char, set_query, set_controls, form_unchanged, is_alnum, is_digit, is_lower, is_upper,
    is_hex_upper. lia.
Qed.

Lemma via_item_qchars v : validate_server_name v = Ok tt -> Forall (fun c => qchar c = true) (via_item v).
Proof.
  intros H. unfold via_item. apply Forall_app. split; [apply lit_forall; reflexivity|].
  eapply Forall_impl; [|apply sn_plain, H]. apply plain_qchar.
Qed.

Lemma join_amp_chars (P : N -> Prop) items :
  P 38 -> Forall (Forall P) items -> Forall P (join_amp items).
Proof.
  intros H38 H. induction H as [|x r Hx _ IH]; [constructor|]. destruct r as [|y r]; [exact Hx|].
  rewrite join_amp_cons. apply Forall_app. split; [exact Hx|]. apply Forall_cons; [exact H38|exact IH].
Qed.

Lemma action_str_valid a : valid_action (Some a) -> valid_utf8 (action_str a) = true.
Proof. destruct a as [| |s]; cbn [valid_action action_str]; [reflexivity|reflexivity|tauto]. Qed.

Lemma query_items_chars via act :
  valid_via via -> valid_action act ->
  Forall (Forall (fun c => qchar c = true)) (List.map via_item via ++ action_items act).
Proof.
  intros Hv Ha. apply Forall_app. split.
  - induction Hv; cbn [List.map]; constructor; auto using via_item_qchars.
  - destruct act as [a|]; cbn [action_items]; [|constructor]. apply Forall_cons; [|constructor].
    apply Forall_app. split; [apply lit_forall; reflexivity|].
    eapply Forall_impl; [|apply byte_serialize_out, valid_utf8_bytes, action_str_valid, Ha]. apply ser_out_qchar.
Qed.

Lemma action_item_no_amp a : valid_action (Some a) -> ~ In 38 (s!"action=" ++ byte_serialize (action_str a)).
Proof.
  intros Ha. apply not_in_app; [apply not_in_lit; reflexivity|].
  eapply Forall_not_in; [apply byte_serialize_out, valid_utf8_bytes, action_str_valid, Ha|].
  unfold ser_out, form_unchanged, is_alnum, is_digit, is_lower, is_upper, is_hex_upper. lia.
Qed.

Lemma query_items_no_amp via act :
  valid_via via -> valid_action act ->
  Forall (fun x => ~ In 38 x) (List.map via_item via ++ action_items act).
Proof.
  intros Hv Ha. apply Forall_app. split; [now apply via_items_no_amp|].
  destruct act as [a|]; cbn [action_items]; [|constructor]. apply Forall_cons; [now apply action_item_no_amp|constructor].
Qed.

(** * The query loop *)
Lemma query_loop_vias l tail acc act :
  valid_via l ->
  query_loop (List.map (fun v => (s!"via", v)) l ++ tail) acc act = query_loop tail (acc ++ l) act.
Proof.
  intros H. revert acc. induction H as [|v r Hv _ IH]; intros acc; [now rewrite app_nil_r|].
  cbn [List.map app query_loop]. change (str_eqb s!"via" s!"via") with true. cbv iota.
  rewrite Hv. cbn [lift obind]. rewrite IH. now rewrite <- app_assoc.
Qed.

Lemma action_of_str_str a : valid_action (Some a) -> action_of_str (action_str a) = a.
Proof.
  destruct a as [| |s]; cbn [valid_action action_str]; [reflexivity|reflexivity|].
  intros (_ & H1 & H2). unfold action_of_str.
  destruct (str_eqb_spec s s!"join"); [congruence|]. destruct (str_eqb_spec s s!"chat"); [congruence|]. reflexivity.
Qed.

Lemma flat_map_items via act :
  valid_via via -> valid_action act ->
  flat_map form_pair (List.map via_item via ++ action_items act)
  = List.map (fun v => (s!"via", v)) via ++ match act with None => [] | Some a => [(s!"action", action_str a)] end.
Proof.
  intros Hv Ha. rewrite flat_map_app, flat_map_via by exact Hv. f_equal.
  destruct act as [a|]; cbn [action_items flat_map]; [|reflexivity].
  rewrite form_pair_action by now apply action_str_valid. reflexivity.
Qed.

Theorem uri_roundtrip u :
  valid_uri u -> ~ EmptyOpaque (u_id u) -> obind (show_uri u) parse_uri = Ok u.
Proof.
  destruct u as [id via act]. unfold valid_uri; cbn [u_id u_via u_action]. intros (Hid & Hvia & Hact) Hcls.
  destruct (type_roundtrip id Hid Hcls) as (t & Hshow & Hparse).
  unfold show_uri; cbn [u_id u_via u_action]. rewrite Hshow. cbn [obind].
  rewrite show_query_join. cbn zeta.
  set (items := List.map via_item via ++ action_items act).
  destruct (show_type_chars id t Hid Hshow) as (Htc & Hhd).
  pose proof (query_items_chars via act Hvia Hact) as Hic. fold items in Hic.
  assert (Hq : Forall (fun c => qchar c = true) (join_amp items)) by (apply join_amp_chars; [reflexivity|exact Hic]).
  assert (Hempty : items = [] -> join_amp items = []) by (intros ->; reflexivity).
  assert (Htext : s!"matrix:" ++ t ++ match items with [] => [] | _ => 63 :: join_amp items end
                  = s!"matrix:" ++ t ++ match join_amp items with [] => [] | _ => 63 :: join_amp items end).
  { destruct items as [|x r] eqn:E; [reflexivity|].
    destruct (join_amp (x :: r)) eqn:J; [|reflexivity].
    (* a non-empty item list joins to a non-empty text: every item starts with "via=" or "action=" *)
    exfalso. subst items. destruct via as [|v r']; cbn [List.map app] in E.
    - destruct act as [a|]; cbn [action_items] in E; [|discriminate]. injection E as <- <-. discriminate.
    - injection E as <- <-. destruct (List.map via_item r' ++ action_items act); discriminate. }
  unfold parse_uri. rewrite Htext, url_parse_formatted by assumption. cbn [obind].
  rewrite Hparse. cbn [obind].
  unfold items. rewrite form_parse_join by now apply query_items_no_amp.
  rewrite flat_map_items by assumption.
  rewrite query_loop_vias by exact Hvia. cbn [app].
  destruct act as [a|]; cbn [query_loop].
  - change (str_eqb s!"action" s!"via") with false. change (str_eqb s!"action" s!"action") with true. cbv iota.
    rewrite action_of_str_str by exact Hact. reflexivity.
  - reflexivity.
Qed.

(** The formatted texts are URIs: printable, non-space ASCII only. *)
Lemma tchar_uri s : Forall (fun c => tchar c = true) s -> Forall (fun c => uri_char c = true) s.
Proof. apply Forall_impl. apply tchar_uri1. Qed.

Lemma show_uri_chars u t : valid_uri u -> show_uri u = Ok t -> Forall (fun c => uri_char c = true) t.
Proof.
  destruct u as [id via act]. unfold valid_uri, show_uri; cbn [u_id u_via u_action]. intros (Hid & Hvia & Hact).
  destruct (show_type id) as [ty| |] eqn:E; cbn [obind]; try discriminate. intros E2; apply Ok_inj in E2; subst t.
  apply Forall_app. split; [apply lit_forall; reflexivity|]. apply Forall_app. split.
  - apply tchar_uri. now apply (show_type_chars id ty Hid E).
  - rewrite show_query_join. cbn zeta. pose proof (query_items_chars via act Hvia Hact) as Hic.
    destruct (List.map via_item via ++ action_items act) eqn:Ei; [constructor|]. rewrite <- Ei.
    apply Forall_cons; [reflexivity|].
    eapply Forall_impl; [|apply (join_amp_chars (fun c => qchar c = true)); [reflexivity|rewrite Ei; exact Hic]].
    apply qchar_uri1.
Qed.

Lemma show_sigil_chars id : valid_id id -> Forall (fun c => uri_char c = true) (show_sigil id).
Proof.
  destruct id as [r|a|u|r e]; cbn [valid_id show_sigil].
  - intros [Hu _]. apply enc_uri_chars, valid_utf8_bytes, Hu.
  - intros [Hu _]. apply enc_uri_chars, valid_utf8_bytes, Hu.
  - intros [Hu _]. apply enc_uri_chars, valid_utf8_bytes, Hu.
  - intros [[Hur _] [Hue _]]. apply Forall_app. split; [apply enc_uri_chars, valid_utf8_bytes, Hur|].
    apply Forall_cons; [reflexivity|apply enc_uri_chars, valid_utf8_bytes, Hue].
Qed.

Lemma show_to_chars u : valid_to u -> Forall (fun c => uri_char c = true) (show_to u).
Proof.
  destruct u as [id via]. unfold valid_to, show_to; cbn [to_id to_via]. intros [Hid Hvia].
  apply Forall_app. split; [apply lit_forall; reflexivity|]. apply Forall_app. split; [now apply show_sigil_chars|].
  destruct via as [|v r]; [constructor|]. rewrite show_via_join by discriminate.
  apply Forall_cons; [reflexivity|].
  eapply Forall_impl; [|apply (join_amp_chars (fun c => qchar c = true)); [reflexivity|]].
  - apply qchar_uri1.
  - induction Hvia; cbn [List.map]; constructor; auto using via_item_qchars.
Qed.
