(** C11.Types — the values a Matrix URI denotes, shared by Model and Spec, and their wire encoding.

    Reading of [str]: BYTE strings (UTF-8 bytes of a Rust [&str] / [String]).

    [matrix_id] is ruma's [MatrixId] (matrix_uri.rs:22-39); the identifiers are kept as the full
    strings the owned identifier types store (sigil included).  [action] is [UriAction]
    (matrix_uri.rs:371-390).  [to_uri] is [MatrixToUri] (its fields [id], [via]); [m_uri] is [MatrixUri]
    ([id], [via], [action]). *)
From Base Require Import Prelude Sx.

Inductive matrix_id : Type :=
| MRoom (room : str)                       (* MatrixId::Room(OwnedRoomId) *)
| MAlias (alias : str)                     (* MatrixId::RoomAlias(OwnedRoomAliasId) *)
| MUser (user : str)                       (* MatrixId::User(OwnedUserId) *)
| MEvent (room_or_alias event : str).      (* MatrixId::Event(OwnedRoomOrAliasId, OwnedEventId) *)

Inductive action : Type :=
| AJoin
| AChat
| ACustom (s : str).                       (* UriAction::_Custom(PrivOwnedStr) *)

Record to_uri : Type := ToUri { to_id : matrix_id; to_via : list str }.
Record m_uri : Type := MUri { u_id : matrix_id; u_via : list str; u_action : option action }.

(** * Decidable equality (ruma derives [PartialEq] on all four types). *)
Definition id_eqb (a b : matrix_id) : bool :=
  match a, b with
  | MRoom x, MRoom y | MAlias x, MAlias y | MUser x, MUser y => str_eqb x y
  | MEvent r e, MEvent r' e' => str_eqb r r' && str_eqb e e'
  | _, _ => false
  end.

Fixpoint strs_eqb (a b : list str) : bool :=
  match a, b with
  | [], [] => true
  | x :: a', y :: b' => str_eqb x y && strs_eqb a' b'
  | _, _ => false
  end.

Definition action_eqb (a b : action) : bool :=
  match a, b with
  | AJoin, AJoin | AChat, AChat => true
  | ACustom x, ACustom y => str_eqb x y
  | _, _ => false
  end.

Definition opt_action_eqb (a b : option action) : bool :=
  match a, b with
  | None, None => true
  | Some x, Some y => action_eqb x y
  | _, _ => false
  end.

Definition to_eqb (a b : to_uri) : bool := id_eqb (to_id a) (to_id b) && strs_eqb (to_via a) (to_via b).
Definition uri_eqb (a b : m_uri) : bool :=
  id_eqb (u_id a) (u_id b) && strs_eqb (u_via a) (u_via b) && opt_action_eqb (u_action a) (u_action b).

Lemma id_eqb_eq a b : id_eqb a b = true <-> a = b.
Proof.
  destruct a, b; cbn [id_eqb]; try (split; [discriminate|congruence]);
    try (rewrite str_eqb_eq; split; congruence).
  rewrite andb_true_iff, !str_eqb_eq. split; [intros [-> ->]; reflexivity|intros H; inversion H; auto].
Qed.

Lemma strs_eqb_eq a b : strs_eqb a b = true <-> a = b.
Proof.
  revert b; induction a as [|x a IH]; intros [|y b]; cbn [strs_eqb]; try (split; [discriminate|congruence]).
  - tauto.
  - rewrite andb_true_iff, str_eqb_eq, IH. split; [intros [-> ->]; reflexivity|intros H; inversion H; auto].
Qed.

Lemma action_eqb_eq a b : action_eqb a b = true <-> a = b.
Proof.
  destruct a, b; cbn [action_eqb]; try (split; [discriminate|congruence]); try tauto.
  rewrite str_eqb_eq; split; congruence.
Qed.

Lemma opt_action_eqb_eq a b : opt_action_eqb a b = true <-> a = b.
Proof.
  destruct a, b; cbn [opt_action_eqb]; try (split; [discriminate|congruence]); try tauto.
  rewrite action_eqb_eq; split; congruence.
Qed.

Lemma to_eqb_eq a b : to_eqb a b = true <-> a = b.
Proof.
  destruct a, b; unfold to_eqb; cbn [to_id to_via].
  rewrite andb_true_iff, id_eqb_eq, strs_eqb_eq. split; [intros [-> ->]; reflexivity|intros H; inversion H; auto].
Qed.

Lemma uri_eqb_eq a b : uri_eqb a b = true <-> a = b.
Proof.
  destruct a, b; unfold uri_eqb; cbn [u_id u_via u_action].
  rewrite !andb_true_iff, id_eqb_eq, strs_eqb_eq, opt_action_eqb_eq.
  split; [intros [[-> ->] ->]; reflexivity|intros H; inversion H; auto].
Qed.

(** * Wire encoding (harness/src/c11.rs: [id_sx], [via_sx], [action_sx], [to_sx], [uri_sx]). *)
Definition sx_id (i : matrix_id) : sx :=
  match i with
  | MRoom r => SL [SN 0; SS r]
  | MAlias a => SL [SN 1; SS a]
  | MUser u => SL [SN 2; SS u]
  | MEvent r e => SL [SN 3; SS r; SS e]
  end.
Definition sx_via (v : list str) : sx := SL (List.map SS v).
Definition sx_action (a : option action) : sx :=
  match a with
  | None => SL []
  | Some AJoin => SL [SN 0]
  | Some AChat => SL [SN 1]
  | Some (ACustom s) => SL [SN 2; SS s]
  end.
Definition sx_to (u : to_uri) : sx := SL [sx_id (to_id u); sx_via (to_via u)].
Definition sx_uri (u : m_uri) : sx := SL [sx_id (u_id u); sx_via (u_via u); sx_action (u_action u)].

Definition id_of_sx (x : sx) : option matrix_id :=
  match x with
  | SL [SN 0; SS r] => Some (MRoom r)
  | SL [SN 1; SS a] => Some (MAlias a)
  | SL [SN 2; SS u] => Some (MUser u)
  | SL [SN 3; SS r; SS e] => Some (MEvent r e)
  | _ => None
  end%Z.
Definition via_of_sx (x : sx) : option (list str) := as_list_of as_str x.
Definition action_of_sx (x : sx) : option (option action) :=
  match x with
  | SL [] => Some None
  | SL [SN 0] => Some (Some AJoin)
  | SL [SN 1] => Some (Some AChat)
  | SL [SN 2; SS s] => Some (Some (ACustom s))
  | _ => None
  end%Z.
Definition to_of_sx (x : sx) : option to_uri :=
  match x with
  | SL [i; v] => match id_of_sx i, via_of_sx v with
                 | Some i, Some v => Some (ToUri i v)
                 | _, _ => None
                 end
  | _ => None
  end.
Definition uri_of_sx (x : sx) : option m_uri :=
  match x with
  | SL [i; v; a] => match id_of_sx i, via_of_sx v, action_of_sx a with
                    | Some i, Some v, Some a => Some (MUri i v a)
                    | _, _, _ => None
                    end
  | _ => None
  end.
