(** C11.Proofs5 — the statements of Properties.v, assembled. *)
From Base Require Import Prelude.
From C10 Require Import Model Lemmas.
From C11 Require Import Types Model Spec Valid Proofs1 Proofs2 Proofs3 Proofs4.

Lemma Forall_forallb (p : N -> bool) (l : str) : Forall (fun c => p c = true) l -> forallb p l = true.
Proof. intros H. apply forallb_forall. now apply Forall_forall. Qed.

(** Encoded segments: no '/', '?', '#'; URI characters only — for every set satisfying the side
    condition, and for the generated set in particular. *)
Lemma encoded_segments_safe_gen set s :
  set_ok set = true -> bytes s ->
  segment_safe (percent_encode set s) = true /\ forallb uri_char (percent_encode set s) = true.
Proof.
  intros Hok Hs. pose proof (encode_seg_chars set s Hok Hs) as H. split.
  - apply Forall_forallb. eapply Forall_impl; [|exact H]. intros c (_ & H1 & H2 & H3).
    destruct (N.eqb_spec c 47); [congruence|]. destruct (N.eqb_spec c 63); [congruence|].
    destruct (N.eqb_spec c 35); [congruence|]. reflexivity.
  - apply Forall_forallb. eapply Forall_impl; [|exact H]. intros c Hc. apply Hc.
Qed.

Lemma encoded_segments_safe s :
  bytes s -> segment_safe (enc s) = true /\ forallb uri_char (enc s) = true.
Proof. apply encoded_segments_safe_gen, path_set_ok. Qed.

Lemma percent_roundtrip :
  (forall set s, in_set set 37 = true -> bytes s -> percent_decode (percent_encode set s) = s) /\
  in_set path_set 37 = true /\
  (forall s, valid_utf8 s = true -> decode_utf8 (enc s) = Ok s).
Proof. split; [exact percent_decode_encode|]. split; [exact path_set_37|exact decode_utf8_enc]. Qed.

Lemma parse_total_all s :
  (forall p, parse_to s <> Panic p) /\ (forall p, parse_uri s <> Panic p).
Proof. split; intros p; [apply parse_to_total|apply parse_uri_total]. Qed.

Lemma reparse_stable_all s :
  (forall u, parse_to s = Ok u -> parse_to (show_to u) = Ok u) /\
  (forall u, parse_uri s = Ok u -> ~ EmptyOpaque (u_id u) -> obind (show_uri u) parse_uri = Ok u).
Proof. split; intros u; [apply reparse_to_stable|apply reparse_uri_stable]. Qed.

Lemma parsed_values_valid s :
  (forall u, parse_to s = Ok u -> valid_to u) /\ (forall u, parse_uri s = Ok u -> valid_uri u).
Proof. split; intros u; [apply parse_to_valid|apply parse_uri_valid]. Qed.

Lemma formatted_text_is_uri :
  (forall u, valid_to u -> forallb uri_char (show_to u) = true) /\
  (forall u, valid_uri u -> exists t, show_uri u = Ok t /\ forallb uri_char t = true).
Proof.
  split.
  - intros u H. apply Forall_forallb, show_to_chars, H.
  - intros u H. destruct (show_uri_total u H) as (t & E). exists t. split; [exact E|].
    apply Forall_forallb. now apply (show_uri_chars u).
Qed.

Lemma constructors_roundtrip id via :
  valid_id id -> valid_via via ->
  parse_to (show_to (ctor_to id via)) = Ok (ctor_to id via) /\
  (forall flag, ~ EmptyOpaque id -> obind (show_uri (ctor_uri id via flag)) parse_uri = Ok (ctor_uri id via flag)).
Proof.
  intros Hid Hvia. split; [now apply to_roundtrip, ctor_to_valid|].
  intros flag Hcls. apply uri_roundtrip; [now apply ctor_uri_valid|exact Hcls].
Qed.

(** The Spec predicates hold of the model on every text. *)
Lemma text_cases_meet_spec s :
  text_ok to_eqb (obind (parse_to s) (fun v => Ok (v, parse_to (show_to v)))) = true /\
  (forall v, parse_uri s = Ok v -> ~ EmptyOpaque (u_id v) ->
     text_ok uri_eqb (Ok (v, obind (show_uri v) parse_uri)) = true) /\
  no_panic (parse_uri s) = true.
Proof.
  split; [|split].
  - destruct (parse_to s) as [v|e|p] eqn:E; cbn [obind text_ok]; [|reflexivity|now apply parse_to_total in E].
    rewrite (reparse_to_stable s v E). cbn [round_trip_ok]. now apply to_eqb_eq.
  - intros v E Hcls. cbn [text_ok]. rewrite (reparse_uri_stable s v E Hcls). cbn [round_trip_ok]. now apply uri_eqb_eq.
  - destruct (parse_uri s) as [v|e|p] eqn:E; [reflexivity|reflexivity|now apply parse_uri_total in E].
Qed.

Lemma lossy_utf8_facts s :
  valid_utf8 (utf8_lossy s) = true /\ (valid_utf8 s = true -> utf8_lossy s = s).
Proof. split; [apply utf8_lossy_valid|apply utf8_lossy_id]. Qed.
