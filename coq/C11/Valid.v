(** C11.Valid — which values the theorems range over (definitions only).

    A [MatrixToUri] / [MatrixUri] holds owned identifiers, server names and an action.  ruma's types
    guarantee: every identifier is a Rust string (valid UTF-8) that its parser accepted — C10's
    validators; every via entry is an accepted [ServerName]; a custom action is a Rust string that is
    neither "join" nor "chat" ([UriAction::from] maps those to the variants, and [_Custom] cannot be built
    otherwise). *)
From Base Require Import Prelude.
From C10 Require Import Model.
From C11 Require Import Types.

Definition valid_id (id : matrix_id) : Prop :=
  match id with
  | MRoom r => valid_utf8 r = true /\ validate_room_id r = Ok tt
  | MAlias a => valid_utf8 a = true /\ validate_room_alias_id a = Ok tt
  | MUser u => valid_utf8 u = true /\ validate_user_id u = Ok tt
  | MEvent r e =>
      (valid_utf8 r = true /\ validate_room_or_alias_id r = Ok tt) /\
      (valid_utf8 e = true /\ validate_event_id e = Ok tt)
  end.

Definition valid_via (via : list str) : Prop := Forall (fun s => validate_server_name s = Ok tt) via.

Definition valid_action (a : option action) : Prop :=
  match a with
  | Some (ACustom s) => valid_utf8 s = true /\ s <> s!"join" /\ s <> s!"chat"
  | _ => True
  end.

Definition valid_to (u : to_uri) : Prop := valid_id (to_id u) /\ valid_via (to_via u).
Definition valid_uri (u : m_uri) : Prop :=
  valid_id (u_id u) /\ valid_via (u_via u) /\ valid_action (u_action u).
