(** C11.Spec — the property as its text states it, for an arbitrary implementation.

    "Formatting any Matrix URI value and parsing the text back yields the same value [...].  Parsing
    arbitrary text returns a value or an error without panicking, and a successfully parsed URI re-formats
    to text that parses to the same value."

    Nothing here refers to ruma's code structure, to the model or to generated tables: the three
    predicates below judge OUTCOMES (of parsing, and of parsing what was formatted).  [Run.v] evaluates
    them on the implementation's outcomes; [Properties.v] proves them of the model for all inputs.

    Reading of [str]: byte strings. *)
From Base Require Import Prelude.
From C11 Require Import Types.

Section Property.
  Context {V : Type} (veqb : V -> V -> bool).

  (** Clause 1: the value [v] was formatted and the text parsed back with outcome [reparsed]. *)
  Definition round_trip_ok (v : V) (reparsed : outcome V) : bool :=
    match reparsed with Ok v' => veqb v v' | _ => false end.

  (** Clause 2: parsing arbitrary text returns a value or an error. *)
  Definition no_panic {A} (o : outcome A) : bool := negb (is_panic o).

  (** Clauses 2 and 3 on one text: [parsed] is the outcome of parsing it, paired (when a value came out)
      with the outcome of parsing that value's formatted text. *)
  Definition text_ok (parsed : outcome (V * outcome V)) : bool :=
    match parsed with
    | Ok (v, reparsed) => round_trip_ok v reparsed
    | Err _ => true
    | Panic _ => false
    end.
End Property.

(** A URI is written with printable, non-space ASCII only (RFC 3986 2; the WHATWG URL parser strips or
    escapes everything else, so a formatter that emitted other bytes could not round-trip). *)
Definition uri_char (b : N) : bool := (33 <=? b) && (b <=? 126).

(** A path segment or identifier written into a URI must not contain the delimiters that end it
    (RFC 3986 3.3, 3.4): '/', '?', '#'. *)
Definition segment_safe (g : str) : bool :=
  forallb (fun b => negb ((b =? 47) || (b =? 63) || (b =? 35))) g.

(** The class of the open known finding C11-empty-opaque-id (known_findings.d/C11.json): a room ID that
    is the sigil '!' alone, or an event whose event ID is the sigil '$' alone.  ruma's identifier parsers
    accept both; their matrix: form ends in '/', which the parser strips. *)
Definition EmptyOpaque (id : matrix_id) : Prop :=
  id = MRoom [33] \/ exists r, id = MEvent r [36].
Definition empty_opaque_b (id : matrix_id) : bool :=
  match id with
  | MRoom r => str_eqb r [33]
  | MEvent _ e => str_eqb e [36]
  | _ => false
  end.

Lemma empty_opaque_iff id : empty_opaque_b id = true <-> EmptyOpaque id.
Proof.
  unfold EmptyOpaque. destruct id; cbn [empty_opaque_b]; rewrite ?str_eqb_eq.
  - split; [intros ->; now left|intros [H|[r H]]; now inversion H].
  - split; [discriminate|intros [H|[r H]]; discriminate].
  - split; [discriminate|intros [H|[r H]]; discriminate].
  - split; [intros ->; right; eauto|intros [H|[r H]]; now inversion H].
Qed.
