(** C11.Proofs4 — no parser panics; every parsed value is a valid value; re-parsing is stable. *)
From Base Require Import Prelude.
From C10 Require Import Model Lemmas Proofs.
From C11 Require Import Types Model Spec Valid Proofs1 Proofs2 Proofs3.
From Coq Require Import ZifyBool ZifyNat ZifyN.
Ltac Zify.zify_post_hook ::= Z.div_mod_to_equations.

(** * Inversion of [obind] / [lift] *)
Lemma obind_ok {A B} (x : outcome A) (f : A -> outcome B) b :
  obind x f = Ok b -> exists a, x = Ok a /\ f a = Ok b.
Proof. destruct x as [a|e|p]; cbn [obind]; intros H; [eauto|discriminate|discriminate]. Qed.

Lemma obind_panic {A B} (x : outcome A) (f : A -> outcome B) p :
  obind x f = Panic p -> x = Panic p \/ exists a, x = Ok a /\ f a = Panic p.
Proof. destruct x as [a|e|q]; cbn [obind]; intros H; [eauto|discriminate|left; congruence]. Qed.

Lemma lift_ok_inv (o : outcome unit) : lift o = Ok tt -> o = Ok tt.
Proof. destruct o as [[]|e|p]; cbn [lift]; congruence. Qed.

Lemma lift_panic_inv {A} (o : outcome A) p : lift o = Panic p -> o = Panic p.
Proof. destruct o; cbn [lift]; congruence. Qed.

(** * C10's validators never panic on a Rust string *)
Section Validators.
  Variable s : str.
  Hypothesis Hs : valid_utf8 s = true.
  Lemma user_total p : validate_user_id s <> Panic p.
  Proof. apply (validate_total_all s Hs). Qed.
  Lemma room_total p : validate_room_id s <> Panic p.
  Proof. apply (validate_total_all s Hs). Qed.
  Lemma alias_total p : validate_room_alias_id s <> Panic p.
  Proof. apply (validate_total_all s Hs). Qed.
  Lemma event_total p : validate_event_id s <> Panic p.
  Proof. apply (validate_total_all s Hs). Qed.
  Lemma roa_total p : validate_room_or_alias_id s <> Panic p.
  Proof. apply (validate_total_all s Hs). Qed.
  Lemma server_total p : validate_server_name s <> Panic p.
  Proof. apply (validate_total_all s Hs). Qed.
End Validators.

Lemma decode_utf8_ok raw d : decode_utf8 raw = Ok d -> valid_utf8 d = true /\ d = percent_decode raw.
Proof. unfold decode_utf8. destruct (valid_utf8 (percent_decode raw)) eqn:E; [|discriminate]. intros [= <-]. auto. Qed.

Lemma decode_utf8_no_panic raw p : decode_utf8 raw <> Panic p.
Proof. unfold decode_utf8. destruct (valid_utf8 _); discriminate. Qed.

(** Two validations in a row, then a value. *)
Lemma two_checks_panic {A} (o1 o2 : outcome unit) (v : A) p :
  obind (lift o1) (fun _ => obind (lift o2) (fun _ => Ok v)) = Panic p -> o1 = Panic p \/ o2 = Panic p.
Proof. destruct o1 as [[]|e|q], o2 as [[]|e'|q']; cbn [lift obind]; intros H; try discriminate; [right|left|left|left]; congruence. Qed.

Lemma two_checks_ok {A} (o1 o2 : outcome unit) (v w : A) :
  obind (lift o1) (fun _ => obind (lift o2) (fun _ => Ok v)) = Ok w -> o1 = Ok tt /\ o2 = Ok tt /\ w = v.
Proof. destruct o1 as [[]|e|q], o2 as [[]|e'|q']; cbn [lift obind]; intros H; try discriminate. repeat split; congruence. Qed.

Lemma one_check_panic {A} (o : outcome unit) (v : A) p : obind (lift o) (fun _ => Ok v) = Panic p -> o = Panic p.
Proof. destruct o as [[]|e|q]; cbn [lift obind]; intros H; try discriminate; congruence. Qed.

Lemma one_check_ok {A} (o : outcome unit) (v w : A) : obind (lift o) (fun _ => Ok v) = Ok w -> o = Ok tt /\ w = v.
Proof. destruct o as [[]|e|q]; cbn [lift obind]; intros H; try discriminate. split; congruence. Qed.

(** * [parse_with_sigil]: total on every byte string, and only valid identifiers come out *)
Lemma dispatch_pair_total first second p :
  valid_utf8 first = true -> valid_utf8 second = true -> dispatch_pair first second <> Panic p.
Proof.
  intros H1 H2. unfold dispatch_pair.
  destruct (first_byte first) as [f|]; [|discriminate]. destruct (first_byte second) as [g|]; [|discriminate].
  destruct (_ && _).
  { intros H. apply two_checks_panic in H as [H|H]; [now apply roa_total in H|now apply event_total in H]. }
  destruct (_ && _); [|discriminate].
  intros H. apply two_checks_panic in H as [H|H]; [now apply roa_total in H|now apply event_total in H].
Qed.

Lemma dispatch_pair_valid first second id :
  valid_utf8 first = true -> valid_utf8 second = true -> dispatch_pair first second = Ok id -> valid_id id.
Proof.
  intros H1 H2. unfold dispatch_pair.
  destruct (first_byte first) as [f|]; [|discriminate]. destruct (first_byte second) as [g|]; [|discriminate].
  destruct (_ && _).
  { intros H. apply two_checks_ok in H as (Ha & Hb & ->). cbn [valid_id]. auto. }
  destruct (_ && _); [|discriminate].
  intros H. apply two_checks_ok in H as (Ha & Hb & ->). cbn [valid_id]. auto.
Qed.

Lemma dispatch_single_total id p : id <> [] -> valid_utf8 id = true -> dispatch_single id <> Panic p.
Proof.
  intros Hne Hv. unfold dispatch_single. destruct id as [|b r]; [congruence|]. cbn [first_byte].
  destruct (b =? 64); [intros H; apply one_check_panic in H; now apply user_total in H|].
  destruct (b =? 33); [intros H; apply one_check_panic in H; now apply room_total in H|].
  destruct (b =? 35); [intros H; apply one_check_panic in H; now apply alias_total in H|discriminate].
Qed.

Lemma dispatch_single_valid id v : valid_utf8 id = true -> dispatch_single id = Ok v -> valid_id v.
Proof.
  intros Hv. unfold dispatch_single. destruct (first_byte id) as [b|]; [|discriminate].
  destruct (b =? 64); [intros H; apply one_check_ok in H as [H ->]; cbn [valid_id]; auto|].
  destruct (b =? 33); [intros H; apply one_check_ok in H as [H ->]; cbn [valid_id]; auto|].
  destruct (b =? 35); [intros H; apply one_check_ok in H as [H ->]; cbn [valid_id]; auto|discriminate].
Qed.

(** [parse_with_sigil] in terms of the two dispatchers. *)
Lemma parse_with_sigil_unfold x :
  parse_with_sigil x =
  let s := strip_suffix_c 47 (strip_prefix_c 47 x) in
  if is_empty s then Err 0
  else if 1 <? count 47 s then Err 0
  else match split_once 47 s with
       | Some (fr, sr) => obind (decode_utf8 fr) (fun first => obind (decode_utf8 sr) (fun second => dispatch_pair first second))
       | None => obind (decode_utf8 s) dispatch_single
       end.
Proof. reflexivity. Qed.

Lemma is_empty_false_ne (s : str) : is_empty s = false -> s <> [].
Proof. destruct s; [discriminate|discriminate]. Qed.

Theorem parse_with_sigil_total x p : parse_with_sigil x <> Panic p.
Proof.
  rewrite parse_with_sigil_unfold. cbn zeta. set (s := strip_suffix_c 47 (strip_prefix_c 47 x)).
  destruct (is_empty s) eqn:Ee; [discriminate|]. destruct (1 <? count 47 s); [discriminate|].
  destruct (split_once 47 s) as [[fr sr]|].
  - intros H. apply obind_panic in H as [H|(first & H1 & H)]; [now apply decode_utf8_no_panic in H|].
    apply obind_panic in H as [H|(second & H2 & H)]; [now apply decode_utf8_no_panic in H|].
    apply decode_utf8_ok in H1 as [H1 _], H2 as [H2 _]. now apply dispatch_pair_total in H.
  - intros H. apply obind_panic in H as [H|(id & H1 & H)]; [now apply decode_utf8_no_panic in H|].
    apply decode_utf8_ok in H1 as [H1 ->]. apply dispatch_single_total in H; [exact H| |exact H1].
    apply percent_decode_nonempty, is_empty_false_ne, Ee.
Qed.

Theorem parse_with_sigil_valid x id : parse_with_sigil x = Ok id -> valid_id id.
Proof.
  rewrite parse_with_sigil_unfold. cbn zeta. set (s := strip_suffix_c 47 (strip_prefix_c 47 x)).
  destruct (is_empty s); [discriminate|]. destruct (1 <? count 47 s); [discriminate|].
  destruct (split_once 47 s) as [[fr sr]|].
  - intros H. apply obind_ok in H as (first & H1 & H). apply obind_ok in H as (second & H2 & H).
    apply decode_utf8_ok in H1 as [H1 _], H2 as [H2 _]. now apply (dispatch_pair_valid first second).
  - intros H. apply obind_ok in H as (i & H1 & H). apply decode_utf8_ok in H1 as [H1 _].
    now apply (dispatch_single_valid i).
Qed.

(** * The query pairs are Rust strings *)
Definition pair_valid (kv : str * str) : Prop := valid_utf8 (fst kv) = true /\ valid_utf8 (snd kv) = true.

Lemma form_decode_valid s : valid_utf8 (form_decode s) = true.
Proof. apply utf8_lossy_valid. Qed.

Lemma form_parse_valid q : Forall pair_valid (form_parse q).
Proof.
  unfold form_parse. induction (split_on 38 q) as [|x r IH]; [constructor|]. cbn [flat_map].
  apply Forall_app. split; [|exact IH]. unfold form_pair. destruct (is_empty x); [constructor|].
  destruct (split_once 61 x) as [[n v]|]; repeat constructor; apply form_decode_valid.
Qed.

(** * MatrixToUri *)
Lemma via_of_pairs_total ps p : Forall pair_valid ps -> via_of_pairs ps <> Panic p.
Proof.
  intros H. induction H as [|[k v] r [_ Hv] _ IH]; [discriminate|]. cbn [via_of_pairs].
  destruct (str_eqb k s!"via"); [|discriminate]. cbn [snd] in Hv.
  intros H. apply obind_panic in H as [H|([] & _ & H)].
  - apply lift_panic_inv in H. now apply server_total in H.
  - apply obind_panic in H as [H|(l & _ & H)]; [now apply IH in H|discriminate].
Qed.

Lemma via_of_pairs_valid ps l : via_of_pairs ps = Ok l -> valid_via l.
Proof.
  revert l. induction ps as [|[k v] r IH]; intros l; cbn [via_of_pairs]; [intros [= <-]; constructor|].
  destruct (str_eqb k s!"via"); [|discriminate].
  intros H. apply obind_ok in H as ([] & Hv & H). apply obind_ok in H as (l' & Hl & H).
  apply Ok_inj in H. subst l. constructor; [now apply lift_ok_inv|now apply IH].
Qed.

Theorem parse_to_total s p : parse_to s <> Panic p.
Proof.
  unfold parse_to. destruct (strip_prefix base_url s) as [s0|]; [|discriminate].
  destruct (split_on 63 (strip_suffix_c 47 s0)) as [|ids rest] eqn:E; [now apply split_on_nonempty in E|].
  intros H. apply obind_panic in H as [H|(id & _ & H)]; [now apply parse_with_sigil_total in H|].
  apply obind_panic in H as [H|(via & _ & H)].
  - destruct rest as [|q rest']; [discriminate|]. apply via_of_pairs_total in H; [exact H|apply form_parse_valid].
  - destruct rest as [|q [|q' rest']]; discriminate.
Qed.

Theorem parse_to_valid s u : parse_to s = Ok u -> valid_to u.
Proof.
  unfold parse_to. destruct (strip_prefix base_url s) as [s0|]; [|discriminate].
  destruct (split_on 63 (strip_suffix_c 47 s0)) as [|ids rest]; [discriminate|].
  intros H. apply obind_ok in H as (id & Hid & H). apply obind_ok in H as (via & Hvia & H).
  assert (u = ToUri id via) by (destruct rest as [|q [|q' rest']]; [congruence|congruence|discriminate]). subst u.
  split; cbn [to_id to_via]; [now apply parse_with_sigil_valid in Hid|].
  destruct rest as [|q rest']; [apply Ok_inj in Hvia; subst via; constructor|now apply via_of_pairs_valid in Hvia].
Qed.

(** * MatrixUri *)
Lemma build_id_no_panic parts id p : build_id parts id <> Panic p.
Proof.
  remember (List.length parts) as n eqn:Hn. revert parts id Hn.
  induction n as [n IH] using lt_wf_ind. intros parts id Hn.
  destruct parts as [|t [|x rest]]; cbn [build_id]; try discriminate.
  destruct (sigil_of_type t); [|discriminate]. eapply IH; [|reflexivity]. subst n. cbn [List.length]. lia.
Qed.

Theorem parse_with_type_total x p : parse_with_type x <> Panic p.
Proof.
  unfold parse_with_type. destruct (is_empty _); [discriminate|]. destruct (negb _); [discriminate|].
  intros H. apply obind_panic in H as [H|(id & _ & H)]; [now apply build_id_no_panic in H|].
  now apply parse_with_sigil_total in H.
Qed.

Theorem parse_with_type_valid x id : parse_with_type x = Ok id -> valid_id id.
Proof.
  unfold parse_with_type. destruct (is_empty _); [discriminate|]. destruct (negb _); [discriminate|].
  intros H. apply obind_ok in H as (i & _ & H). now apply parse_with_sigil_valid in H.
Qed.

(** What is left after the path is "", or starts with '?' or '#'. *)
Definition at_path_end (r : str) : Prop := match r with [] => True | c :: _ => path_end c = true end.

Lemma opaque_path_rest s : at_path_end (snd (opaque_path s)).
Proof.
  induction s as [|c r IH]; cbn [opaque_path]; [exact I|].
  destruct (path_end c) eqn:E; [exact E|]. destruct (opaque_path r) as [p rest]. exact IH.
Qed.

Lemma path_loop_rest inp p g : at_path_end (snd (path_loop inp p g)).
Proof.
  revert p g. induction inp as [|c r IH]; intros p g; cbn [path_loop]; [exact I|].
  destruct (c =? 47); [apply IH|]. destruct (path_end c) eqn:E; [exact E|apply IH].
Qed.

Lemma path_start_rest inp : at_path_end (snd (path_start inp)).
Proof.
  unfold path_start. destruct inp as [|c r]; [apply path_loop_rest|].
  destruct (path_end c) eqn:E; [exact E|]. destruct (c =? 47); apply path_loop_rest.
Qed.

Lemma query_of_total r p : at_path_end r -> query_of r <> Panic p.
Proof.
  destruct r as [|c r]; cbn [at_path_end query_of]; [discriminate|]. unfold path_end. intros H.
  destruct (c =? 35); [discriminate|]. destruct (c =? 63); [discriminate|discriminate].
Qed.

Theorem url_parse_total s p : url_parse s <> Panic p.
Proof.
  unfold url_parse. destruct (parse_scheme (preprocess s)) as [[scheme rest]|]; [|discriminate].
  destruct (negb _); [discriminate|].
  destruct (head_is 47 rest).
  - destruct (head_is 47 (tl rest)).
    + destruct (authority (tl (tl rest))) as [r'|]; [|discriminate].
      pose proof (path_start_rest r') as Hr. destruct (path_start r') as [path remaining].
      intros H. apply obind_panic in H as [H|(q & _ & H)]; [now apply query_of_total in H|discriminate].
    + pose proof (path_loop_rest (tl rest) [47] []) as Hr. destruct (path_loop (tl rest) [47] []) as [path remaining].
      intros H. apply obind_panic in H as [H|(q & _ & H)]; [now apply query_of_total in H|discriminate].
  - pose proof (opaque_path_rest rest) as Hr. destruct (opaque_path rest) as [path remaining].
    intros H. apply obind_panic in H as [H|(q & _ & H)]; [now apply query_of_total in H|discriminate].
Qed.

Lemma query_loop_total ps via act p : Forall pair_valid ps -> query_loop ps via act <> Panic p.
Proof.
  intros H. revert via act. induction H as [|[k v] r [_ Hv] _ IH]; intros via act; [discriminate|].
  cbn [query_loop]. cbn [snd] in Hv. destruct (str_eqb k s!"via").
  - intros H. apply obind_panic in H as [H|([] & _ & H)]; [|now apply IH in H].
    apply lift_panic_inv in H. now apply server_total in H.
  - destruct (str_eqb k s!"action"); [|discriminate]. destruct act; [discriminate|apply IH].
Qed.

Lemma action_of_str_valid v : valid_utf8 v = true -> valid_action (Some (action_of_str v)).
Proof.
  intros H. unfold action_of_str. destruct (str_eqb_spec v s!"join"); [exact I|].
  destruct (str_eqb_spec v s!"chat"); [exact I|]. cbn [valid_action]. auto.
Qed.

Lemma query_loop_valid ps via act via' act' :
  Forall pair_valid ps -> valid_via via -> valid_action act ->
  query_loop ps via act = Ok (via', act') -> valid_via via' /\ valid_action act'.
Proof.
  intros H. revert via act. induction H as [|[k v] r [_ Hv] _ IH]; intros via act Hvia Hact; cbn [query_loop].
  - intros E. apply Ok_inj in E. injection E as <- <-. auto.
  - cbn [snd] in Hv. destruct (str_eqb k s!"via").
    + intros H. apply obind_ok in H as ([] & Hs & H). apply lift_ok_inv in Hs.
      apply (IH (via ++ [v]) act); auto. apply Forall_app. split; [exact Hvia|]. constructor; [exact Hs|constructor].
    + destruct (str_eqb k s!"action"); [|discriminate]. destruct act; [discriminate|].
      apply IH; [exact Hvia|]. now apply action_of_str_valid.
Qed.

Theorem parse_uri_total s p : parse_uri s <> Panic p.
Proof.
  unfold parse_uri. intros H. apply obind_panic in H as [H|(u & _ & H)]; [now apply url_parse_total in H|].
  destruct u as [|path query]; [discriminate|].
  apply obind_panic in H as [H|(id & _ & H)]; [now apply parse_with_type_total in H|].
  apply obind_panic in H as [H|([via act] & _ & H)]; [|discriminate].
  apply query_loop_total in H; [exact H|apply form_parse_valid].
Qed.

Theorem parse_uri_valid s u : parse_uri s = Ok u -> valid_uri u.
Proof.
  unfold parse_uri. intros H. apply obind_ok in H as (r & _ & H). destruct r as [|path query]; [discriminate|].
  apply obind_ok in H as (id & Hid & H). apply obind_ok in H as ([via act] & Hq & H). apply Ok_inj in H. subst u.
  unfold valid_uri; cbn [u_id u_via u_action]. split; [now apply parse_with_type_valid in Hid|].
  apply (query_loop_valid (form_parse query) [] None); [apply form_parse_valid|constructor|exact I|exact Hq].
Qed.

(** * Re-parsing is stable *)
Theorem reparse_to_stable s u : parse_to s = Ok u -> parse_to (show_to u) = Ok u.
Proof. intros H. apply to_roundtrip, (parse_to_valid s), H. Qed.

Theorem reparse_uri_stable s u :
  parse_uri s = Ok u -> ~ EmptyOpaque (u_id u) -> obind (show_uri u) parse_uri = Ok u.
Proof. intros H. apply uri_roundtrip, (parse_uri_valid s), H. Qed.

(** * The constructors build valid values *)
Lemma ctor_to_valid id via : valid_id id -> valid_via via -> valid_to (ctor_to id via).
Proof. intros; split; assumption. Qed.

Lemma ctor_uri_valid id via flag : valid_id id -> valid_via via -> valid_uri (ctor_uri id via flag).
Proof.
  intros Hid Hvia. unfold ctor_uri, valid_uri; cbn [u_id u_via u_action]. repeat split; try assumption.
  destruct flag; [|exact I]. destruct id; exact I.
Qed.

(** * Formatting never hits a panic site *)
Lemma show_uri_total u : valid_uri u -> exists t, show_uri u = Ok t.
Proof.
  intros (Hid & _ & _). unfold show_uri. destruct (show_type_total (u_id u) Hid) as (t & ->). cbn [obind]. eauto.
Qed.

(** * Witnesses: the open finding, and the refuted statements on the code before the fixes *)
Definition w_empty_room : m_uri := MUri (MRoom s!"!") [] None.
Definition w_empty_event : m_uri := MUri (MEvent s!"!x" s!"$") [s!"x.y"] None.

Lemma open_finding_witness :
  (valid_uri w_empty_room /\ EmptyOpaque (u_id w_empty_room) /\ obind (show_uri w_empty_room) parse_uri = Err 0) /\
  (valid_uri w_empty_event /\ EmptyOpaque (u_id w_empty_event) /\ obind (show_uri w_empty_event) parse_uri = Err 0) /\
  (parse_uri s!"matrix:roomid//" = Ok w_empty_room) /\
  (parse_to (show_to (ToUri (MRoom s!"!") [])) = Ok (ToUri (MRoom s!"!") [])).
Proof.
  repeat split; try (vm_compute; reflexivity); try (now left); try (right; eexists; reflexivity); try constructor;
    try (vm_compute; reflexivity); try constructor.
Qed.

Lemma legacy_refuted :
  (* fe84b08: an empty segment next to a slash panicked *)
  (exists p, Legacy.parse_to s!"https://matrix.to/#/!x///" = Panic p) /\
  (exists p, Legacy.parse_to s!"https://matrix.to/#///x" = Panic p) /\
  parse_to s!"https://matrix.to/#/!x///" = Err 0 /\
  (* 56a13a6: a parsed custom action did not survive formatting *)
  (let u := MUri (MUser s!"@a:x.y") [] (Some (ACustom s!"a&b")) in
   parse_uri s!"matrix:u/a:x.y?action=a%26b" = Ok u /\
   obind (Legacy.show_uri u) parse_uri = Err 0 /\
   obind (show_uri u) parse_uri = Ok u) /\
  (let u := MUri (MUser s!"@a:x.y") [] (Some (ACustom s!"a#b")) in
   parse_uri s!"matrix:u/a:x.y?action=a%23b" = Ok u /\
   obind (Legacy.show_uri u) parse_uri = Ok (MUri (MUser s!"@a:x.y") [] (Some (ACustom s!"a")))).
Proof.
  repeat split; try (eexists; vm_compute; reflexivity); vm_compute; reflexivity.
Qed.

(** c28ffed (made for C16): without '%' in the set, decoding does not undo encoding. *)
Lemma percent_needed :
  let set := List.filter (fun b => negb (b =? 37)) path_set in
  percent_decode (percent_encode set s!"@a%41:x.y") = s!"@aA:x.y".
Proof. vm_compute. reflexivity. Qed.
