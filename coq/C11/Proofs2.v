(** C11.Proofs2 — the generated percent-encode set, the characters of encoded segments and of server
    names, the shape of accepted identifiers, and the two [MatrixId] round trips. *)
From Base Require Import Prelude.
From C10 Require Import Model Lemmas Spec ProofsServer ProofsIp Proofs.
From C11 Require Import Types Model Spec Valid Proofs1.
From Coq Require Import ZifyBool ZifyNat ZifyN.
Ltac Zify.zify_post_hook ::= Z.div_mod_to_equations.

(** * The side condition on the generated table
    What the round trips need of [PATH_PERCENT_ENCODE_SET]: it contains '%' (so that decoding undoes
    encoding), the three delimiters '/', '?', '#', and every byte that is not printable non-space ASCII
    (C0 controls, space, DEL).  Re-checked by [vm_compute] whenever ruma's set changes. *)
Definition low_bytes : list N := List.map N.of_nat (seq 0 33).
Definition set_ok (set : list N) : bool :=
  in_set set 37 && in_set set 47 && in_set set 63 && in_set set 35 && in_set set 127
  && forallb (in_set set) low_bytes.

Lemma path_set_ok : set_ok path_set = true.
Proof. vm_compute. reflexivity. Qed.

Lemma low_bytes_in c : c <= 32 -> In c low_bytes.
Proof.
  intros H. unfold low_bytes. replace c with (N.of_nat (N.to_nat c)) by lia.
  apply in_map, in_seq. lia.
Qed.

Lemma set_ok_facts set :
  set_ok set = true ->
  in_set set 37 = true /\ in_set set 47 = true /\ in_set set 63 = true /\ in_set set 35 = true /\
  in_set set 127 = true /\ (forall c, c <= 32 -> in_set set c = true).
Proof.
  unfold set_ok. rewrite !andb_true_iff, forallb_forall. intros [[[[[H1 H2] H3] H4] H5] H6].
  repeat split; auto. intros c Hc. apply H6, low_bytes_in, Hc.
Qed.

(** What an encoded segment is made of: URI characters other than the three delimiters. *)
Definition seg_char (x : N) : Prop := uri_char x = true /\ x <> 47 /\ x <> 63 /\ x <> 35.

Lemma encode_seg_chars set s : set_ok set = true -> bytes s -> Forall seg_char (percent_encode set s).
Proof.
  intros Hok Hs. apply set_ok_facts in Hok as (H37 & H47 & H63 & H35 & H127 & Hlow).
  eapply Forall_impl; [|apply percent_encode_out; exact Hs].
  intros x [->|[Hx|Hx]]; unfold seg_char, uri_char.
  - repeat split; try reflexivity; discriminate.
  - unfold is_hex_upper in Hx. lia.
  - unfold should_encode in Hx. apply orb_false_iff in Hx as [Hlt Hin].
    assert (32 < x) by (destruct (N.le_gt_cases x 32) as [L|L]; [rewrite Hlow in Hin by exact L; discriminate|exact L]).
    assert (x <> 127) by (intros ->; congruence).
    assert (x <> 47) by (intros ->; congruence).
    assert (x <> 63) by (intros ->; congruence).
    assert (x <> 35) by (intros ->; congruence).
    lia.
Qed.

Lemma enc_seg_chars s : bytes s -> Forall seg_char (enc s).
Proof. apply encode_seg_chars, path_set_ok. Qed.

Lemma enc_no_slash s : bytes s -> ~ In 47 (enc s).
Proof. intros H. eapply Forall_not_in; [apply enc_seg_chars, H|]. unfold seg_char. tauto. Qed.
Lemma enc_no_qmark s : bytes s -> ~ In 63 (enc s).
Proof. intros H. eapply Forall_not_in; [apply enc_seg_chars, H|]. unfold seg_char. tauto. Qed.
Lemma enc_no_hash s : bytes s -> ~ In 35 (enc s).
Proof. intros H. eapply Forall_not_in; [apply enc_seg_chars, H|]. unfold seg_char. tauto. Qed.

Lemma enc_uri_chars s : bytes s -> Forall (fun x => uri_char x = true) (enc s).
Proof. intros H. eapply Forall_impl; [|apply enc_seg_chars, H]. intros x Hx. apply Hx. Qed.

Lemma enc_nonempty s : s <> [] -> enc s <> [].
Proof. apply percent_encode_nonempty. Qed.

Lemma path_set_37 : in_set path_set 37 = true.
Proof. exact (proj1 (set_ok_facts _ path_set_ok)). Qed.

Lemma decode_enc s : bytes s -> percent_decode (enc s) = s.
Proof. apply percent_decode_encode, path_set_37. Qed.

Lemma decode_utf8_enc s : valid_utf8 s = true -> decode_utf8 (enc s) = Ok s.
Proof. intros H. unfold decode_utf8. rewrite decode_enc by now apply valid_utf8_bytes. now rewrite H. Qed.

Lemma decode_utf8_sigil_enc sg t :
  sg <> 37 -> valid_utf8 (sg :: t) = true -> decode_utf8 (sg :: enc t) = Ok (sg :: t).
Proof.
  intros Hs H. unfold decode_utf8. rewrite percent_decode_plain by exact Hs.
  rewrite decode_enc; [now rewrite H|]. apply valid_utf8_bytes in H. now inversion H.
Qed.

(** * Server names *)
Lemma sn_chars s : validate_server_name s = Ok tt -> Forall (fun c => sn_char c = true) s.
Proof. intros H. apply (ServerName_chars false), sn_sound, H. Qed.

Lemma sn_nonempty s : validate_server_name s = Ok tt -> s <> [].
Proof. intros H ->. discriminate. Qed.

(** A server-name byte is a URI character that means nothing special in a query string. *)
Definition plain_char (c : N) : Prop :=
  uri_char c = true /\ c < 128 /\ c <> 47 /\ c <> 63 /\ c <> 35 /\ c <> 38 /\ c <> 61 /\ c <> 43 /\ c <> 37
  /\ set_query c = false.

Lemma sn_char_plain c : sn_char c = true -> plain_char c.
Proof.
  unfold sn_char, dns_char, ip_char, HEXDIG, ALPHA, UPALPHA, LOALPHA, DIGIT, plain_char, uri_char,
    set_query, set_controls. lia.
Qed.

Lemma sn_plain s : validate_server_name s = Ok tt -> Forall plain_char s.
Proof. intros H. eapply Forall_impl; [|apply sn_chars, H]. apply sn_char_plain. Qed.

(** * The shape of accepted identifiers *)
Lemma room_shape r : validate_room_id r = Ok tt -> exists t, r = 33 :: t.
Proof.
  intros H. destruct (accept_sound_all r) as (_ & _ & Hr & _). destruct (Hr H) as (t & -> & _). eauto.
Qed.

Lemma lsi_shape b sg s : LocalServerId b sg s -> exists t, s = sg :: t /\ t <> [].
Proof. intros [l sn _ _ _]. exists (l ++ 58 :: sn). split; [reflexivity|]. destruct l; discriminate. Qed.

Lemma user_shape u : validate_user_id u = Ok tt -> exists t, u = 64 :: t /\ t <> [].
Proof. intros H. destruct (accept_sound_all u) as (Hu & _). apply (lsi_shape true), Hu, H. Qed.

Lemma alias_shape a : validate_room_alias_id a = Ok tt -> exists t, a = 35 :: t /\ t <> [].
Proof. intros H. destruct (accept_sound_all a) as (_ & Ha & _). apply (lsi_shape true), Ha, H. Qed.

Lemma event_shape e : validate_event_id e = Ok tt -> exists t, e = 36 :: t.
Proof.
  intros H. destruct (accept_sound_all e) as (_ & _ & _ & He & _).
  destruct (He H) as [r _ _|s Hs]; [eauto|]. destruct (lsi_shape _ _ _ Hs) as (t & -> & _). eauto.
Qed.

Lemma roa_shape r : validate_room_or_alias_id r = Ok tt -> exists t, r = 33 :: t \/ (r = 35 :: t /\ t <> []).
Proof.
  intros H. destruct (accept_sound_all r) as (_ & _ & _ & _ & Hr & _).
  destruct (Hr H) as [(t & -> & _)|Ha]; [eauto|].
  destruct (lsi_shape _ _ _ Ha) as (t & -> & Hne). eauto.
Qed.

(** * [parse_with_sigil] on a text of the right structure *)
Definition dispatch_single (id : str) : outcome matrix_id :=
  match first_byte id with
  | None => Panic 1
  | Some b =>
      if b =? 64 then obind (lift (validate_user_id id)) (fun _ => Ok (MUser id))
      else if b =? 33 then obind (lift (validate_room_id id)) (fun _ => Ok (MRoom id))
      else if b =? 35 then obind (lift (validate_room_alias_id id)) (fun _ => Ok (MAlias id))
      else Err 0
  end.

Definition dispatch_pair (first second : str) : outcome matrix_id :=
  match first_byte first, first_byte second with
  | Some f, Some g =>
      if ((f =? 33) || (f =? 35)) && (g =? 36) then
        obind (lift (validate_room_or_alias_id first)) (fun _ =>
        obind (lift (validate_event_id second)) (fun _ => Ok (MEvent first second)))
      else if (f =? 36) && ((g =? 33) || (g =? 35)) then
        obind (lift (validate_room_or_alias_id second)) (fun _ =>
        obind (lift (validate_event_id first)) (fun _ => Ok (MEvent second first)))
      else Err 0
  | _, _ => Err 0
  end.

Lemma is_empty_ne (s : str) : s <> [] -> is_empty s = false.
Proof. destruct s; [congruence|reflexivity]. Qed.

Lemma parse_with_sigil_single x :
  x <> [] -> ~ In 47 x -> parse_with_sigil x = obind (decode_utf8 x) dispatch_single.
Proof.
  intros Hne Hno. unfold parse_with_sigil.
  rewrite strip_prefix_c_notin, strip_suffix_c_notin by exact Hno.
  rewrite is_empty_ne by exact Hne. rewrite count_notin by exact Hno.
  change (1 <? 0) with false. cbv iota. rewrite split_once_notin by exact Hno. reflexivity.
Qed.

Lemma parse_with_sigil_pair a b :
  a <> [] -> ~ In 47 a -> b <> [] -> ~ In 47 b ->
  parse_with_sigil (a ++ 47 :: b) =
  obind (decode_utf8 a) (fun first => obind (decode_utf8 b) (fun second => dispatch_pair first second)).
Proof.
  intros Ha Hna Hb Hnb. unfold parse_with_sigil.
  assert (E1 : strip_prefix_c 47 (a ++ 47 :: b) = a ++ 47 :: b).
  { destruct a as [|x a]; [congruence|]. cbn [app]. apply strip_prefix_c_other.
    intros ->. apply Hna. now left. }
  rewrite E1.
  assert (E2 : strip_suffix_c 47 (a ++ 47 :: b) = a ++ 47 :: b).
  { change (a ++ 47 :: b) with (a ++ [47] ++ b). rewrite app_assoc. now apply strip_suffix_c_app. }
  rewrite E2.
  rewrite is_empty_ne by (destruct a; discriminate).
  rewrite count_app, count_cons, N.eqb_refl, !count_notin by assumption.
  change (1 <? 0 + (1 + 0)) with false. cbv iota.
  rewrite split_once_app by exact Hna. reflexivity.
Qed.

Lemma parse_with_sigil_lead_slash x :
  strip_prefix_c 47 x = x -> parse_with_sigil (47 :: x) = parse_with_sigil x.
Proof. intros H. unfold parse_with_sigil. rewrite strip_prefix_c_hit, H. reflexivity. Qed.

Lemma lift_ok {A} (o : outcome A) a : o = Ok a -> lift o = Ok tt.
Proof. intros ->. reflexivity. Qed.

Lemma valid_tail sg t : valid_utf8 (sg :: t) = true -> bytes t.
Proof. intros H. apply valid_utf8_bytes in H. now inversion H. Qed.

(** * Round trip of [MatrixId] through the sigil form (matrix.to) *)
Lemma sigil_roundtrip id : valid_id id -> parse_with_sigil (show_sigil id) = Ok id.
Proof.
  destruct id as [r|a|u|r e]; cbn [valid_id show_sigil].
  - intros [Hu Hv]. destruct (room_shape _ Hv) as (t & ->).
    rewrite parse_with_sigil_single;
      [|apply enc_nonempty; discriminate|apply enc_no_slash, valid_utf8_bytes, Hu].
    rewrite decode_utf8_enc by exact Hu. cbn [obind].
    change (dispatch_single (33 :: t)) with (obind (lift (validate_room_id (33 :: t))) (fun _ => Ok (MRoom (33 :: t)))).
    now rewrite Hv.
  - intros [Hu Hv]. destruct (alias_shape _ Hv) as (t & -> & _).
    rewrite parse_with_sigil_single;
      [|apply enc_nonempty; discriminate|apply enc_no_slash, valid_utf8_bytes, Hu].
    rewrite decode_utf8_enc by exact Hu. cbn [obind].
    change (dispatch_single (35 :: t)) with (obind (lift (validate_room_alias_id (35 :: t))) (fun _ => Ok (MAlias (35 :: t)))).
    now rewrite Hv.
  - intros [Hu Hv]. destruct (user_shape _ Hv) as (t & -> & _).
    rewrite parse_with_sigil_single;
      [|apply enc_nonempty; discriminate|apply enc_no_slash, valid_utf8_bytes, Hu].
    rewrite decode_utf8_enc by exact Hu. cbn [obind].
    change (dispatch_single (64 :: t)) with (obind (lift (validate_user_id (64 :: t))) (fun _ => Ok (MUser (64 :: t)))).
    now rewrite Hv.
  - intros [[Hur Hvr] [Hue Hve]]. destruct (event_shape _ Hve) as (te & ->).
    rewrite parse_with_sigil_pair;
      [|apply enc_nonempty; destruct (roa_shape _ Hvr) as (t & [->| [-> _]]); discriminate
       |apply enc_no_slash, valid_utf8_bytes, Hur
       |apply enc_nonempty; discriminate
       |apply enc_no_slash, valid_utf8_bytes, Hue].
    rewrite !decode_utf8_enc by assumption. cbn [obind].
    destruct (roa_shape _ Hvr) as (t & [->| [-> _]]).
    + change (dispatch_pair (33 :: t) (36 :: te)) with
        (obind (lift (validate_room_or_alias_id (33 :: t))) (fun _ =>
         obind (lift (validate_event_id (36 :: te))) (fun _ => Ok (MEvent (33 :: t) (36 :: te))))).
      now rewrite Hvr, Hve.
    + change (dispatch_pair (35 :: t) (36 :: te)) with
        (obind (lift (validate_room_or_alias_id (35 :: t))) (fun _ =>
         obind (lift (validate_event_id (36 :: te))) (fun _ => Ok (MEvent (35 :: t) (36 :: te))))).
      now rewrite Hvr, Hve.
Qed.

(** * [parse_with_type] on a text of the right structure *)
Lemma head_not_slash ty : ty <> [] -> ~ In 47 ty -> forall r, strip_prefix_c 47 (ty ++ r) = ty ++ r.
Proof.
  intros Hne Hno r. destruct ty as [|x ty]; [congruence|]. cbn [app]. apply strip_prefix_c_other.
  intros ->. apply Hno. now left.
Qed.

Lemma parse_with_type_single ty sg e :
  ty <> [] -> ~ In 47 ty -> sigil_of_type ty = Some sg -> sg <> 47 -> e <> [] -> ~ In 47 e ->
  parse_with_type (ty ++ 47 :: e) = parse_with_sigil (sg :: e).
Proof.
  intros Hty Hnty Hsg Hsg47 He Hne. unfold parse_with_type.
  rewrite head_not_slash by assumption.
  assert (E2 : strip_suffix_c 47 (ty ++ 47 :: e) = ty ++ 47 :: e).
  { change (ty ++ 47 :: e) with (ty ++ [47] ++ e). rewrite app_assoc. now apply strip_suffix_c_app. }
  rewrite E2. rewrite is_empty_ne by (destruct ty; discriminate).
  rewrite count_app, count_cons, N.eqb_refl, !count_notin by assumption.
  change (negb ((0 + (1 + 0) =? 1) || (0 + (1 + 0) =? 3))) with false. cbv iota.
  rewrite split_on_app, split_on_notin by assumption.
  cbn [build_id]. rewrite Hsg. cbn [obind app].
  apply parse_with_sigil_lead_slash. now apply strip_prefix_c_other.
Qed.

Lemma parse_with_type_pair ty1 sg1 e1 ty2 sg2 e2 :
  ty1 <> [] -> ~ In 47 ty1 -> sigil_of_type ty1 = Some sg1 -> sg1 <> 47 -> ~ In 47 e1 ->
  ~ In 47 ty2 -> sigil_of_type ty2 = Some sg2 -> e2 <> [] -> ~ In 47 e2 ->
  parse_with_type (ty1 ++ 47 :: e1 ++ 47 :: ty2 ++ 47 :: e2) = parse_with_sigil (sg1 :: e1 ++ 47 :: sg2 :: e2).
Proof.
  intros Hty1 Hn1 Hsg1 Hsg47 Hne1 Hn2 Hsg2 He2 Hne2. unfold parse_with_type.
  rewrite head_not_slash by assumption.
  assert (E2 : strip_suffix_c 47 (ty1 ++ 47 :: e1 ++ 47 :: ty2 ++ 47 :: e2) = ty1 ++ 47 :: e1 ++ 47 :: ty2 ++ 47 :: e2).
  { change (ty1 ++ 47 :: e1 ++ 47 :: ty2 ++ 47 :: e2) with (ty1 ++ (47 :: e1) ++ (47 :: ty2) ++ [47] ++ e2).
    rewrite !app_assoc. now apply strip_suffix_c_app. }
  rewrite E2. rewrite is_empty_ne by (destruct ty1; discriminate).
  rewrite count_app, count_cons, N.eqb_refl, count_app, count_cons, N.eqb_refl, count_app, count_cons, N.eqb_refl,
    !count_notin by assumption.
  change (negb ((0 + (1 + (0 + (1 + (0 + (1 + 0))))) =? 1) || (0 + (1 + (0 + (1 + (0 + (1 + 0))))) =? 3))) with false.
  cbv iota.
  rewrite split_on_app, split_on_app, split_on_app, split_on_notin by assumption.
  cbn [build_id]. rewrite Hsg1, Hsg2. cbn [obind app].
  apply parse_with_sigil_lead_slash. now apply strip_prefix_c_other.
Qed.

Lemma not_in_lit (c : N) (l : str) : existsb (fun x => x =? c) l = false -> ~ In c l.
Proof.
  intros H Hin. assert (existsb (fun x => x =? c) l = true); [|congruence].
  apply existsb_exists. exists c. split; [exact Hin|apply N.eqb_refl].
Qed.

(** * Round trip of [MatrixId] through the typed form (matrix:) *)
Lemma type_roundtrip id :
  valid_id id -> ~ EmptyOpaque id -> exists t, show_type id = Ok t /\ parse_with_type t = Ok id.
Proof.
  destruct id as [r|a|u|r e]; cbn [valid_id show_type]; intros Hv Hcls.
  - destruct Hv as [Hu Hv]. destruct (room_shape _ Hv) as (t & ->).
    assert (Ht : t <> []) by (intros ->; apply Hcls; now left).
    cbn [bytes_from_1 obind]. eexists; split; [reflexivity|].
    change (s!"roomid/" ++ enc t) with (s!"roomid" ++ 47 :: enc t).
    rewrite (parse_with_type_single _ 33); try reflexivity; try discriminate;
      [|apply not_in_lit; reflexivity|apply enc_nonempty, Ht|apply enc_no_slash, (valid_tail 33), Hu].
    rewrite parse_with_sigil_single;
      [|discriminate|apply not_in_cons; [discriminate|apply enc_no_slash, (valid_tail 33), Hu]].
    rewrite decode_utf8_sigil_enc by (try discriminate; exact Hu). cbn [obind].
    change (dispatch_single (33 :: t)) with (obind (lift (validate_room_id (33 :: t))) (fun _ => Ok (MRoom (33 :: t)))).
    now rewrite Hv.
  - destruct Hv as [Hu Hv]. destruct (alias_shape _ Hv) as (t & -> & Ht).
    cbn [bytes_from_1 obind]. eexists; split; [reflexivity|].
    change (s!"r/" ++ enc t) with (s!"r" ++ 47 :: enc t).
    rewrite (parse_with_type_single _ 35); try reflexivity; try discriminate;
      [|apply not_in_lit; reflexivity|apply enc_nonempty, Ht|apply enc_no_slash, (valid_tail 35), Hu].
    rewrite parse_with_sigil_single;
      [|discriminate|apply not_in_cons; [discriminate|apply enc_no_slash, (valid_tail 35), Hu]].
    rewrite decode_utf8_sigil_enc by (try discriminate; exact Hu). cbn [obind].
    change (dispatch_single (35 :: t)) with (obind (lift (validate_room_alias_id (35 :: t))) (fun _ => Ok (MAlias (35 :: t)))).
    now rewrite Hv.
  - destruct Hv as [Hu Hv]. destruct (user_shape _ Hv) as (t & -> & Ht).
    cbn [bytes_from_1 obind]. eexists; split; [reflexivity|].
    change (s!"u/" ++ enc t) with (s!"u" ++ 47 :: enc t).
    rewrite (parse_with_type_single _ 64); try reflexivity; try discriminate;
      [|apply not_in_lit; reflexivity|apply enc_nonempty, Ht|apply enc_no_slash, (valid_tail 64), Hu].
    rewrite parse_with_sigil_single;
      [|discriminate|apply not_in_cons; [discriminate|apply enc_no_slash, (valid_tail 64), Hu]].
    rewrite decode_utf8_sigil_enc by (try discriminate; exact Hu). cbn [obind].
    change (dispatch_single (64 :: t)) with (obind (lift (validate_user_id (64 :: t))) (fun _ => Ok (MUser (64 :: t)))).
    now rewrite Hv.
  - destruct Hv as [[Hur Hvr] [Hue Hve]]. destruct (event_shape _ Hve) as (te & ->).
    assert (Hte : te <> []) by (intros ->; apply Hcls; right; eauto).
    assert (Generic : forall sg ty tr, r = sg :: tr -> (sg = 33 \/ sg = 35) -> ty <> [] -> ~ In 47 ty ->
              sigil_of_type ty = Some sg ->
              parse_with_type (ty ++ 47 :: enc tr ++ s!"/e/" ++ enc te) = Ok (MEvent r (36 :: te))).
    { intros sg ty tr -> Hsg Hty Hnty Hst.
      change (ty ++ 47 :: enc tr ++ s!"/e/" ++ enc te) with (ty ++ 47 :: enc tr ++ 47 :: s!"e" ++ 47 :: enc te).
      rewrite (parse_with_type_pair ty sg (enc tr) s!"e" 36 (enc te)); try assumption; try reflexivity;
        [|destruct Hsg as [->| ->]; discriminate|apply enc_no_slash, (valid_tail sg), Hur
         |apply not_in_lit; reflexivity|apply enc_nonempty, Hte|apply enc_no_slash, (valid_tail 36), Hue].
      change (sg :: enc tr ++ 47 :: 36 :: enc te) with ((sg :: enc tr) ++ 47 :: (36 :: enc te)).
      rewrite parse_with_sigil_pair;
        [|discriminate
         |apply not_in_cons; [destruct Hsg as [->| ->]; discriminate|apply enc_no_slash, (valid_tail sg), Hur]
         |discriminate
         |apply not_in_cons; [discriminate|apply enc_no_slash, (valid_tail 36), Hue]].
      rewrite !decode_utf8_sigil_enc by (try assumption; try discriminate; destruct Hsg as [->| ->]; discriminate).
      cbn [obind].
      destruct Hsg as [->| ->].
      - change (dispatch_pair (33 :: tr) (36 :: te)) with
          (obind (lift (validate_room_or_alias_id (33 :: tr))) (fun _ =>
           obind (lift (validate_event_id (36 :: te))) (fun _ => Ok (MEvent (33 :: tr) (36 :: te))))).
        now rewrite Hvr, Hve.
      - change (dispatch_pair (35 :: tr) (36 :: te)) with
          (obind (lift (validate_room_or_alias_id (35 :: tr))) (fun _ =>
           obind (lift (validate_event_id (36 :: te))) (fun _ => Ok (MEvent (35 :: tr) (36 :: te))))). 
        now rewrite Hvr, Hve. }
    destruct (roa_shape _ Hvr) as (tr & [E| [E _]]); subst r.
    + cbn [is_room_id bytes_from_1 obind]. eexists; split; [reflexivity|].
      apply (Generic 33 s!"roomid" tr); auto; try discriminate. apply not_in_lit; reflexivity.
    + cbn [is_room_id bytes_from_1 obind]. eexists; split; [reflexivity|].
      apply (Generic 35 s!"r" tr); auto; try discriminate. apply not_in_lit; reflexivity.
Qed.

(** [show_type] never hits its slice / [is_room_id] panic sites on a valid identifier. *)
Lemma show_type_total id : valid_id id -> exists t, show_type id = Ok t.
Proof.
  destruct id as [r|a|u|r e]; cbn [valid_id show_type].
  - intros [_ Hv]. destruct (room_shape _ Hv) as (t & ->). cbn [bytes_from_1 obind]. eauto.
  - intros [_ Hv]. destruct (alias_shape _ Hv) as (t & -> & _). cbn [bytes_from_1 obind]. eauto.
  - intros [_ Hv]. destruct (user_shape _ Hv) as (t & -> & _). cbn [bytes_from_1 obind]. eauto.
  - intros [[_ Hvr] [_ Hve]]. destruct (event_shape _ Hve) as (te & ->).
    destruct (roa_shape _ Hvr) as (tr & [->| [-> _]]); cbn [is_room_id bytes_from_1 obind]; eauto.
Qed.
