(** C11.Run — case decoding, model run, and the Spec predicates evaluated on the implementation's
    outcome (the failing-input search).  Case and outcome formats: harness/src/c11.rs. *)
From Base Require Import Prelude Sx.
From C10 Require Import Model.
From C11 Require Import Types Model Spec.

Definition sx_reparse_to (text : str) : sx := sx_outcome sx_to (parse_to text).
Definition sx_reparse_uri (text : str) : sx := sx_outcome sx_uri (parse_uri text).

(** N0 / N1: a value built by the public constructors, formatted, parsed back. *)
Definition model_ctor_to (id : matrix_id) (via : list str) : sx :=
  let text := show_to (ctor_to id via) in
  SL [SN 0; SL [SS text; sx_reparse_to text]].
Definition model_ctor_uri (id : matrix_id) (via : list str) (flag : bool) : sx :=
  match show_uri (ctor_uri id via flag) with
  | Ok text => SL [SN 0; SL [SS text; sx_reparse_uri text]]
  | Err e => SL [SN 1; sx_N e]
  | Panic _ => SL [SN 2]
  end.

(** N2 / N3: a text parsed; when accepted, the value formatted and parsed again. *)
Definition model_text_to (s : str) : sx :=
  match parse_to s with
  | Ok v => let text := show_to v in SL [SN 0; SL [sx_to v; SS text; sx_reparse_to text]]
  | Err e => SL [SN 1; sx_N e]
  | Panic _ => SL [SN 2]
  end.
Definition model_text_uri (s : str) : sx :=
  match parse_uri s with
  | Ok v =>
      match show_uri v with
      | Ok text => SL [SN 0; SL [sx_uri v; SS text; sx_reparse_uri text]]
      | _ => SL [SN 2]
      end
  | Err e => SL [SN 1; sx_N e]
  | Panic _ => SL [SN 2]
  end.

(** Decoding the implementation's outcomes. *)
Definition outcome_of_sx {A} (f : sx -> option A) (x : sx) : option (outcome A) :=
  match x with
  | SL [SN 0; v] => match f v with Some a => Some (Ok a) | None => None end
  | SL [SN 1; SN _] => Some (Err 0)
  | SL [SN 2] => Some (Panic 0)
  | _ => None
  end%Z.

(** Clause 1 on a constructor case: the implementation's reparse outcome against the intended value. *)
Definition spec_ctor {V} (veqb : V -> V -> bool) (f : sx -> option V) (v : V) (impl : sx) : bool :=
  match impl with
  | SL [SN 0; SL [SS _; re]] =>
      match outcome_of_sx f re with
      | Some o => round_trip_ok veqb v o
      | None => false
      end
  | _ => false
  end%Z.

(** Clauses 2 and 3 on a text case. *)
Definition spec_text {V} (veqb : V -> V -> bool) (f : sx -> option V) (impl : sx) : bool :=
  match impl with
  | SL [SN 0; SL [v; SS _; re]] =>
      match f v, outcome_of_sx f re with
      | Some v, Some o => text_ok veqb (Ok (v, o))
      | _, _ => false
      end
  | SL [SN 1; SN _] => true
  | _ => false
  end%Z.

Definition run (x : sx) : sx :=
  match x with
  | SL [SL [SN 0; id; via]; impl] =>
      match id_of_sx id, via_of_sx via with
      | Some id, Some via =>
          SL [model_ctor_to id via; sx_bool (spec_ctor to_eqb to_of_sx (ctor_to id via) impl)]
      | _, _ => sx_bad
      end
  | SL [SL [SN 1; id; via; flag]; impl] =>
      match id_of_sx id, via_of_sx via, as_bool flag with
      | Some id, Some via, Some flag =>
          SL [model_ctor_uri id via flag; sx_bool (spec_ctor uri_eqb uri_of_sx (ctor_uri id via flag) impl)]
      | _, _, _ => sx_bad
      end
  | SL [SL [SN 2; SS s]; impl] => SL [model_text_to s; sx_bool (spec_text to_eqb to_of_sx impl)]
  | SL [SL [SN 3; SS s]; impl] => SL [model_text_uri s; sx_bool (spec_text uri_eqb uri_of_sx impl)]
  | SL [SL [SN 5; SS s]; impl] =>
      (* the label N5 claims that the text denotes an identifier of the class [EmptyOpaque] *)
      match parse_uri s with
      | Ok v => if empty_opaque_b (u_id v)
                then SL [model_text_uri s; sx_bool (spec_text uri_eqb uri_of_sx impl)]
                else sx_bad
      | _ => sx_bad
      end
  | _ => sx_bad
  end%Z.
