(** C11.Properties — the theorems that decide C11, and nothing else.

    Reading: [str] = byte strings.  [parse_to], [show_to], [parse_uri], [show_uri]: Model.v (ruma's
    [MatrixToUri] / [MatrixUri] parse and Display, the REPAIRED code).  [valid_to], [valid_uri]: Valid.v —
    every identifier is a Rust string accepted by C10's validators, every via entry an accepted server
    name, a custom action any Rust string other than "join"/"chat".  No length bounds anywhere.
    [EmptyOpaque] (Spec.v) is the class of the open known finding C11-empty-opaque-id; its witnesses are
    in [C11_open_finding_witness].  [show_uri] returns an outcome because [to_string_with_type] slices
    [[1..]]; [obind (show_uri u) parse_uri = Ok u] says: formatting succeeds and the text parses to [u]. *)
From Base Require Import Prelude.
From C10 Require Import Model.
From C11 Require Import Types Model Spec Valid Proofs1 Proofs2 Proofs3 Proofs4 Proofs5.

(** 1. matrix.to: formatting any value and parsing the text back yields the same value. *)
Theorem C11_to_roundtrip :
  forall u, valid_to u -> parse_to (show_to u) = Ok u.
Proof. exact to_roundtrip. Qed.
Eval compute in "PA:C11_to_roundtrip"%string.
Print Assumptions C11_to_roundtrip.

(** 2. matrix: the same, for every identifier, via list and action, outside the open finding's class. *)
Theorem C11_uri_roundtrip :
  forall u, valid_uri u -> ~ EmptyOpaque (u_id u) -> obind (show_uri u) parse_uri = Ok u.
Proof. exact uri_roundtrip. Qed.
Eval compute in "PA:C11_uri_roundtrip"%string.
Print Assumptions C11_uri_roundtrip.

(** 3. Parsing arbitrary text never panics — for every byte string, Rust strings included. *)
Theorem C11_parse_total :
  forall s, (forall p, parse_to s <> Panic p) /\ (forall p, parse_uri s <> Panic p).
Proof. exact parse_total_all. Qed.
Eval compute in "PA:C11_parse_total"%string.
Print Assumptions C11_parse_total.

(** 4. A successfully parsed URI re-formats to text that parses to the same value. *)
Theorem C11_reparse_stable :
  forall s,
  (forall u, parse_to s = Ok u -> parse_to (show_to u) = Ok u) /\
  (forall u, parse_uri s = Ok u -> ~ EmptyOpaque (u_id u) -> obind (show_uri u) parse_uri = Ok u).
Proof. exact reparse_stable_all. Qed.
Eval compute in "PA:C11_reparse_stable"%string.
Print Assumptions C11_reparse_stable.

(** 5. Whatever the parsers return is a valid value (identifiers validated, actions well-formed). *)
Theorem C11_parsed_values_valid :
  forall s, (forall u, parse_to s = Ok u -> valid_to u) /\ (forall u, parse_uri s = Ok u -> valid_uri u).
Proof. exact parsed_values_valid. Qed.
Eval compute in "PA:C11_parsed_values_valid"%string.
Print Assumptions C11_parsed_values_valid.

(** 6. Percent-decoding undoes percent-encoding for every set containing '%'; ruma's generated set does. *)
Theorem C11_percent_roundtrip :
  (forall set s, in_set set 37 = true -> bytes s -> percent_decode (percent_encode set s) = s) /\
  in_set path_set 37 = true /\
  (forall s, valid_utf8 s = true -> decode_utf8 (enc s) = Ok s).
Proof. exact percent_roundtrip. Qed.
Eval compute in "PA:C11_percent_roundtrip"%string.
Print Assumptions C11_percent_roundtrip.

(** 7. Encoded segments contain no '/', '?', '#' and only URI characters (generated set). *)
Theorem C11_encoded_segments_safe :
  forall s, bytes s -> segment_safe (enc s) = true /\ forallb uri_char (enc s) = true.
Proof. exact encoded_segments_safe. Qed.
Eval compute in "PA:C11_encoded_segments_safe"%string.
Print Assumptions C11_encoded_segments_safe.

(** 8. Formatted texts are URIs (printable non-space ASCII); formatting a valid value never panics. *)
Theorem C11_formatted_text_is_uri :
  (forall u, valid_to u -> forallb uri_char (show_to u) = true) /\
  (forall u, valid_uri u -> exists t, show_uri u = Ok t /\ forallb uri_char t = true).
Proof. exact formatted_text_is_uri. Qed.
Eval compute in "PA:C11_formatted_text_is_uri"%string.
Print Assumptions C11_formatted_text_is_uri.

(** 9. The public constructors ([matrix_to_uri*], [matrix_uri*], [matrix_*event_uri*]) round-trip. *)
Theorem C11_constructors_roundtrip :
  forall id via, valid_id id -> valid_via via ->
  parse_to (show_to (ctor_to id via)) = Ok (ctor_to id via) /\
  (forall flag, ~ EmptyOpaque id -> obind (show_uri (ctor_uri id via flag)) parse_uri = Ok (ctor_uri id via flag)).
Proof. exact constructors_roundtrip. Qed.
Eval compute in "PA:C11_constructors_roundtrip"%string.
Print Assumptions C11_constructors_roundtrip.

(** 10. The Spec predicates (Spec.v: [text_ok], [no_panic]) hold of the model on every text. *)
Theorem C11_text_cases_meet_spec :
  forall s,
  text_ok to_eqb (obind (parse_to s) (fun v => Ok (v, parse_to (show_to v)))) = true /\
  (forall v, parse_uri s = Ok v -> ~ EmptyOpaque (u_id v) ->
     text_ok uri_eqb (Ok (v, obind (show_uri v) parse_uri)) = true) /\
  no_panic (parse_uri s) = true.
Proof. exact text_cases_meet_spec. Qed.
Eval compute in "PA:C11_text_cases_meet_spec"%string.
Print Assumptions C11_text_cases_meet_spec.

(** 11. [from_utf8_lossy] (query values): its output is a Rust string, and it fixes Rust strings. *)
Theorem C11_lossy_utf8 :
  forall s, valid_utf8 (utf8_lossy s) = true /\ (valid_utf8 s = true -> utf8_lossy s = s).
Proof. exact lossy_utf8_facts. Qed.
Eval compute in "PA:C11_lossy_utf8"%string.
Print Assumptions C11_lossy_utf8.

(** 12. The open finding: valid values in the class whose matrix: form does not parse back (matrix.to does). *)
Theorem C11_open_finding_witness :
  (valid_uri w_empty_room /\ EmptyOpaque (u_id w_empty_room) /\ obind (show_uri w_empty_room) parse_uri = Err 0) /\
  (valid_uri w_empty_event /\ EmptyOpaque (u_id w_empty_event) /\ obind (show_uri w_empty_event) parse_uri = Err 0) /\
  (parse_uri s!"matrix:roomid//" = Ok w_empty_room) /\
  (parse_to (show_to (ToUri (MRoom s!"!") [])) = Ok (ToUri (MRoom s!"!") [])).
Proof. exact open_finding_witness. Qed.
Eval compute in "PA:C11_open_finding_witness"%string.
Print Assumptions C11_open_finding_witness.

(** 13. The code before the two fix commits refuted theorems 3 and 4. *)
Theorem C11_legacy_code_refuted :
  (exists p, Legacy.parse_to s!"https://matrix.to/#/!x///" = Panic p) /\
  (exists p, Legacy.parse_to s!"https://matrix.to/#///x" = Panic p) /\
  parse_to s!"https://matrix.to/#/!x///" = Err 0 /\
  (let u := MUri (MUser s!"@a:x.y") [] (Some (ACustom s!"a&b")) in
   parse_uri s!"matrix:u/a:x.y?action=a%26b" = Ok u /\
   obind (Legacy.show_uri u) parse_uri = Err 0 /\
   obind (show_uri u) parse_uri = Ok u) /\
  (let u := MUri (MUser s!"@a:x.y") [] (Some (ACustom s!"a#b")) in
   parse_uri s!"matrix:u/a:x.y?action=a%23b" = Ok u /\
   obind (Legacy.show_uri u) parse_uri = Ok (MUri (MUser s!"@a:x.y") [] (Some (ACustom s!"a")))).
Proof. exact legacy_refuted. Qed.
Eval compute in "PA:C11_legacy_code_refuted"%string.
Print Assumptions C11_legacy_code_refuted.
