(** placeholder *)
From Base Require Import Prelude.
Theorem C11_placeholder : True.
Proof. exact I. Qed.
Eval compute in "PA:C11_placeholder"%string.
Print Assumptions C11_placeholder.
