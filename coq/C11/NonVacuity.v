(** C11.NonVacuity — the hypotheses of the theorems are satisfied by non-trivial values: identifiers
    with reserved, percent and non-ASCII characters, IPv6 via servers with ports, custom actions with
    every delimiter of the query syntax. *)
From Base Require Import Prelude.
From C10 Require Import Model.
From C11 Require Import Types Model Spec Valid Proofs1.

(** "@a%41/b?c#d+e&f=g é:x.y" *)
Definition nv_user : str := s!"@a%41/b?c#d+e&f=g " ++ [195; 169] ++ s!":x.y".
Definition nv_room : str := s!"!..%2F/.?#:[::1]:8448".
Definition nv_event : str := s!"$abc+def/ghi=".
Definition nv_via : list str := [s!"[::ffff:1.2.3.4]:8448"; s!"a-b.c"; s!"1.2.3.4:80"].
(** "a&b#c+d%e=f?g/h i é" and a line feed *)
Definition nv_action : str := s!"a&b#c+d%e=f?g/h i " ++ [195; 169; 10].

Definition nv_to : to_uri := ToUri (MEvent nv_room nv_event) nv_via.
Definition nv_uri : m_uri := MUri (MUser nv_user) nv_via (Some (ACustom nv_action)).
Definition nv_uri2 : m_uri := MUri (MEvent nv_room nv_event) nv_via (Some AJoin).

Example nv_to_valid : valid_to nv_to.
Proof.
  split; cbn [to_id to_via nv_to valid_id].
  - split; split; vm_compute; reflexivity.
  - repeat (apply Forall_cons; [vm_compute; reflexivity|]). apply Forall_nil.
Qed.

Example nv_uri_valid : valid_uri nv_uri /\ ~ EmptyOpaque (u_id nv_uri).
Proof.
  split.
  - split; [|split]; cbn [u_id u_via u_action nv_uri valid_id valid_action].
    + split; vm_compute; reflexivity.
    + repeat (apply Forall_cons; [vm_compute; reflexivity|]). apply Forall_nil.
    + split; [vm_compute; reflexivity|]. split; intros H; vm_compute in H; discriminate.
  - intros [H|[r H]]; discriminate.
Qed.

Example nv_uri2_valid : valid_uri nv_uri2 /\ ~ EmptyOpaque (u_id nv_uri2).
Proof.
  split.
  - split; [|split]; cbn [u_id u_via u_action nv_uri2 valid_id valid_action].
    + split; split; vm_compute; reflexivity.
    + repeat (apply Forall_cons; [vm_compute; reflexivity|]). apply Forall_nil.
    + exact I.
  - intros [H|[r H]]; [discriminate|]. vm_compute in H. discriminate.
Qed.

(** What the formatted texts look like, and that they parse back (by computation, independently of the
    general theorems). *)
Example nv_uri_text :
  show_uri nv_uri =
  Ok (s!"matrix:u/a%2541%2Fb%3Fc%23d+e&f=g%20%C3%A9:x.y?via=[::ffff:1.2.3.4]:8448&via=a-b.c&via=1.2.3.4:80"
      ++ s!"&action=a%26b%23c%2Bd%25e%3Df%3Fg%2Fh+i+%C3%A9%0A").
Proof. vm_compute. reflexivity. Qed.

Example nv_uri_roundtrip : obind (show_uri nv_uri) parse_uri = Ok nv_uri.
Proof. vm_compute. reflexivity. Qed.

Example nv_to_text :
  show_to nv_to =
  s!"https://matrix.to/#/!..%252F%2F.%3F%23:[::1]:8448/$abc+def%2Fghi=?via=[::ffff:1.2.3.4]:8448&via=a-b.c&via=1.2.3.4:80".
Proof. vm_compute. reflexivity. Qed.

Example nv_to_roundtrip : parse_to (show_to nv_to) = Ok nv_to.
Proof. vm_compute. reflexivity. Qed.

(** Texts that are accepted although they are not what ruma formats: unencoded, inverted order, long type
    names, an authority, dot segments, tabs — the premise [parse_* s = Ok u] of the stability theorem. *)
Example nv_lenient_to :
  parse_to s!"https://matrix.to/#/$e:x.y/#ruma:x.y/?via=x.y" = Ok (ToUri (MEvent s!"#ruma:x.y" s!"$e:x.y") [s!"x.y"]).
Proof. vm_compute. reflexivity. Qed.

Example nv_lenient_uri :
  parse_uri (s!" mAtRiX://u:p@[::1]:80/x/../event/e/./room/ru" ++ [9] ++ s!"ma:x.y?action=jo%69n&via=x.y#frag ")
  = Ok (MUri (MEvent s!"#ruma:x.y" s!"$e") [s!"x.y"] (Some AJoin)).
Proof. vm_compute. reflexivity. Qed.

(** Invalid UTF-8 in a query value becomes U+FFFD (the lossy decoding), and that value is stable. *)
Example nv_lossy :
  parse_uri s!"matrix:u/a:x.y?action=%FF" = Ok (MUri (MUser s!"@a:x.y") [] (Some (ACustom [239; 191; 189]))) /\
  show_uri (MUri (MUser s!"@a:x.y") [] (Some (ACustom [239; 191; 189]))) = Ok s!"matrix:u/a:x.y?action=%EF%BF%BD".
Proof. split; vm_compute; reflexivity. Qed.

Example nv_bytes : bytes nv_user.
Proof. apply valid_utf8_bytes. vm_compute. reflexivity. Qed.
