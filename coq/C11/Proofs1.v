(** C11.Proofs1 — string primitives, UTF-8 facts, percent-encoding, form-urlencoding, lossy UTF-8. *)
From Base Require Import Prelude.
From C10 Require Import Model Lemmas.
From C11 Require Import Types Model Spec.
From Coq Require Import ZifyBool ZifyNat ZifyN.
Ltac Zify.zify_post_hook ::= Z.div_mod_to_equations.

(** * UTF-8: one-step unfoldings of [valid_utf8] and an induction principle along them *)
Lemma valid_1 b r : b < 128 -> valid_utf8 (b :: r) = valid_utf8 r.
Proof. intros H. cbn [valid_utf8]. replace (b <? 128) with true by lia. reflexivity. Qed.

Lemma valid_2 b0 b1 r : 194 <= b0 <= 223 -> valid_utf8 (b0 :: b1 :: r) = is_cont b1 && valid_utf8 r.
Proof.
  intros H. cbn [valid_utf8]. replace (b0 <? 128) with false by lia.
  replace ((194 <=? b0) && (b0 <=? 223)) with true by lia. reflexivity.
Qed.

Lemma valid_3 b0 b1 b2 r :
  224 <= b0 <= 239 -> valid_utf8 (b0 :: b1 :: b2 :: r) = second_of_3 b0 b1 && is_cont b2 && valid_utf8 r.
Proof.
  intros H. cbn [valid_utf8]. replace (b0 <? 128) with false by lia.
  replace ((194 <=? b0) && (b0 <=? 223)) with false by lia.
  replace ((224 <=? b0) && (b0 <=? 239)) with true by lia. reflexivity.
Qed.

Lemma valid_4 b0 b1 b2 b3 r :
  240 <= b0 <= 244 ->
  valid_utf8 (b0 :: b1 :: b2 :: b3 :: r) = second_of_4 b0 b1 && is_cont b2 && is_cont b3 && valid_utf8 r.
Proof.
  intros H. cbn [valid_utf8]. replace (b0 <? 128) with false by lia.
  replace ((194 <=? b0) && (b0 <=? 223)) with false by lia.
  replace ((224 <=? b0) && (b0 <=? 239)) with false by lia.
  replace ((240 <=? b0) && (b0 <=? 244)) with true by lia. reflexivity.
Qed.

Lemma valid_utf8_ind' (P : str -> Prop) :
  P [] ->
  (forall b r, b < 128 -> valid_utf8 r = true -> P r -> P (b :: r)) ->
  (forall b0 b1 r, 194 <= b0 <= 223 -> is_cont b1 = true -> valid_utf8 r = true -> P r -> P (b0 :: b1 :: r)) ->
  (forall b0 b1 b2 r, 224 <= b0 <= 239 -> second_of_3 b0 b1 = true -> is_cont b2 = true ->
     valid_utf8 r = true -> P r -> P (b0 :: b1 :: b2 :: r)) ->
  (forall b0 b1 b2 b3 r, 240 <= b0 <= 244 -> second_of_4 b0 b1 = true -> is_cont b2 = true -> is_cont b3 = true ->
     valid_utf8 r = true -> P r -> P (b0 :: b1 :: b2 :: b3 :: r)) ->
  forall s, valid_utf8 s = true -> P s.
Proof.
  intros H0 H1 H2 H3 H4 s.
  remember (List.length s) as n eqn:Hn. revert s Hn.
  induction n as [n IH] using lt_wf_ind. intros s Hn H.
  destruct s as [|b0 r0]; [exact H0|].
  destruct (N.ltb_spec b0 128) as [L|L].
  { rewrite valid_1 in H by exact L. apply H1; [exact L|exact H|]. eapply IH; [|reflexivity|exact H]. subst n; cbn [List.length]; lia. }
  destruct r0 as [|b1 r1]; [cbn [valid_utf8] in H; replace (b0 <? 128) with false in H by lia; discriminate|].
  destruct (N.leb_spec 194 b0) as [L1|L1]; [|cbn [valid_utf8] in H; replace (b0 <? 128) with false in H by lia;
    replace ((194 <=? b0) && (b0 <=? 223)) with false in H by lia;
    destruct r1 as [|b2 r2]; [discriminate|];
    replace ((224 <=? b0) && (b0 <=? 239)) with false in H by lia;
    destruct r2 as [|b3 r3]; [discriminate|];
    replace ((240 <=? b0) && (b0 <=? 244)) with false in H by lia; discriminate].
  destruct (N.leb_spec b0 223) as [L2|L2].
  { rewrite valid_2 in H by lia. apply andb_true_iff in H as [Hc Hr]. apply H2; [lia|exact Hc|exact Hr|].
    eapply IH; [|reflexivity|exact Hr]. subst n; cbn [List.length]; lia. }
  destruct r1 as [|b2 r2]; [cbn [valid_utf8] in H; replace (b0 <? 128) with false in H by lia;
    replace ((194 <=? b0) && (b0 <=? 223)) with false in H by lia; discriminate|].
  destruct (N.leb_spec b0 239) as [L3|L3].
  { rewrite valid_3 in H by lia. apply andb_true_iff in H as [H Hr]. apply andb_true_iff in H as [Hc1 Hc2].
    apply H3; [lia|exact Hc1|exact Hc2|exact Hr|]. eapply IH; [|reflexivity|exact Hr]. subst n; cbn [List.length]; lia. }
  destruct r2 as [|b3 r3]; [cbn [valid_utf8] in H; replace (b0 <? 128) with false in H by lia;
    replace ((194 <=? b0) && (b0 <=? 223)) with false in H by lia;
    replace ((224 <=? b0) && (b0 <=? 239)) with false in H by lia; discriminate|].
  destruct (N.leb_spec b0 244) as [L4|L4].
  { rewrite valid_4 in H by lia. apply andb_true_iff in H as [H Hr]. apply andb_true_iff in H as [H Hc3].
    apply andb_true_iff in H as [Hc1 Hc2].
    apply H4; [lia|exact Hc1|exact Hc2|exact Hc3|exact Hr|]. eapply IH; [|reflexivity|exact Hr]. subst n; cbn [List.length]; lia. }
  cbn [valid_utf8] in H. replace (b0 <? 128) with false in H by lia.
  replace ((194 <=? b0) && (b0 <=? 223)) with false in H by lia.
  replace ((224 <=? b0) && (b0 <=? 239)) with false in H by lia.
  replace ((240 <=? b0) && (b0 <=? 244)) with false in H by lia. discriminate.
Qed.

(** Every element of a Rust string is a byte. *)
Definition bytes (s : str) : Prop := Forall (fun b => b < 256) s.

Lemma is_cont_byte b : is_cont b = true -> b < 256.
Proof. unfold is_cont. lia. Qed.

Lemma second_of_3_byte b0 b1 : second_of_3 b0 b1 = true -> b1 < 256.
Proof. unfold second_of_3, is_cont. destruct (b0 =? 224), (b0 =? 237); lia. Qed.
Lemma second_of_4_byte b0 b1 : second_of_4 b0 b1 = true -> b1 < 256.
Proof. unfold second_of_4, is_cont. destruct (b0 =? 240), (b0 =? 244); lia. Qed.

Lemma valid_utf8_bytes s : valid_utf8 s = true -> bytes s.
Proof.
  unfold bytes. revert s. apply valid_utf8_ind'; intros; repeat constructor; auto;
    try lia; eauto using is_cont_byte, second_of_3_byte, second_of_4_byte.
Qed.

(** * [from_utf8_lossy] *)
Lemma utf8_lossy_id s : valid_utf8 s = true -> utf8_lossy s = s.
Proof.
  revert s. apply valid_utf8_ind'.
  - reflexivity.
  - intros b r Hb _ IH. cbn [utf8_lossy]. replace (b <? 128) with true by lia. now rewrite IH.
  - intros b0 b1 r Hb Hc _ IH. cbn [utf8_lossy]. replace (b0 <? 128) with false by lia.
    replace ((194 <=? b0) && (b0 <=? 223)) with true by lia. now rewrite Hc, IH.
  - intros b0 b1 b2 r Hb H1 H2 _ IH. cbn [utf8_lossy]. replace (b0 <? 128) with false by lia.
    replace ((194 <=? b0) && (b0 <=? 223)) with false by lia.
    replace ((224 <=? b0) && (b0 <=? 239)) with true by lia. now rewrite H1, H2, IH.
  - intros b0 b1 b2 b3 r Hb H1 H2 H3 _ IH. cbn [utf8_lossy]. replace (b0 <? 128) with false by lia.
    replace ((194 <=? b0) && (b0 <=? 223)) with false by lia.
    replace ((224 <=? b0) && (b0 <=? 239)) with false by lia.
    replace ((240 <=? b0) && (b0 <=? 244)) with true by lia. now rewrite H1, H2, H3, IH.
Qed.

Lemma valid_repl r : valid_utf8 (repl ++ r) = valid_utf8 r.
Proof. unfold repl. cbn [app]. rewrite valid_3 by lia. reflexivity. Qed.

Lemma valid_repl_nil : valid_utf8 repl = true.
Proof. reflexivity. Qed.

(** The output of [from_utf8_lossy] is a Rust [String]. *)
Lemma utf8_lossy_valid s : valid_utf8 (utf8_lossy s) = true.
Proof.
  remember (List.length s) as n eqn:Hn. revert s Hn.
  induction n as [n IH] using lt_wf_ind. intros s Hn.
  assert (REC : forall t, (List.length t < List.length s)%nat -> valid_utf8 (utf8_lossy t) = true).
  { intros t Ht. eapply IH; [|reflexivity]. lia. }
  clear IH Hn.
  destruct s as [|b0 r0]; [reflexivity|]. cbn [utf8_lossy].
  destruct (N.ltb_spec b0 128) as [L|L].
  { rewrite valid_1 by exact L. apply REC. cbn [List.length]. lia. }
  destruct ((194 <=? b0) && (b0 <=? 223)) eqn:E2.
  { destruct r0 as [|b1 r1]; [reflexivity|]. destruct (is_cont b1) eqn:C1.
    - rewrite valid_2 by lia. rewrite C1. apply REC. cbn [List.length]. lia.
    - rewrite valid_repl. apply REC. cbn [List.length]. lia. }
  destruct ((224 <=? b0) && (b0 <=? 239)) eqn:E3.
  { destruct r0 as [|b1 r1]; [reflexivity|]. destruct (second_of_3 b0 b1) eqn:C1.
    - destruct r1 as [|b2 r2]; [reflexivity|]. destruct (is_cont b2) eqn:C2.
      + rewrite valid_3 by lia. rewrite C1, C2. apply REC. cbn [List.length]. lia.
      + rewrite valid_repl. apply REC. cbn [List.length]. lia.
    - rewrite valid_repl. apply REC. cbn [List.length]. lia. }
  destruct ((240 <=? b0) && (b0 <=? 244)) eqn:E4.
  { destruct r0 as [|b1 r1]; [reflexivity|]. destruct (second_of_4 b0 b1) eqn:C1.
    - destruct r1 as [|b2 r2]; [reflexivity|]. destruct (is_cont b2) eqn:C2.
      + destruct r2 as [|b3 r3]; [reflexivity|]. destruct (is_cont b3) eqn:C3.
        * rewrite valid_4 by lia. rewrite C1, C2, C3. apply REC. cbn [List.length]. lia.
        * rewrite valid_repl. apply REC. cbn [List.length]. lia.
      + rewrite valid_repl. apply REC. cbn [List.length]. lia.
    - rewrite valid_repl. apply REC. cbn [List.length]. lia. }
  rewrite valid_repl. apply REC. cbn [List.length]. lia.
Qed.

Lemma ascii_lossy_id s : Forall (fun c => c < 128) s -> utf8_lossy s = s.
Proof. intros H. apply utf8_lossy_id, ascii_valid_utf8, H. Qed.

(** * std string primitives *)
Lemma strip_prefix_c_other c x s : x <> c -> strip_prefix_c c (x :: s) = x :: s.
Proof. intros H. cbn [strip_prefix_c]. destruct (N.eqb_spec x c); congruence. Qed.

Lemma strip_prefix_c_hit c s : strip_prefix_c c (c :: s) = s.
Proof. cbn [strip_prefix_c]. now rewrite N.eqb_refl. Qed.

Lemma strip_prefix_c_notin c s : ~ In c s -> strip_prefix_c c s = s.
Proof.
  destruct s as [|x s]; [reflexivity|]. intros H. apply strip_prefix_c_other.
  intros ->. apply H. now left.
Qed.

Lemma strip_suffix_c_cons c x y s : strip_suffix_c c (x :: y :: s) = x :: strip_suffix_c c (y :: s).
Proof. reflexivity. Qed.

(** Appending a non-empty part that does not contain [c]: nothing is stripped. *)
Lemma strip_suffix_c_app c a b : b <> [] -> ~ In c b -> strip_suffix_c c (a ++ b) = a ++ b.
Proof.
  intros Hb Hc. induction a as [|x a IH].
  - cbn [app]. clear Hb. induction b as [|y b IH]; [reflexivity|].
    destruct b as [|z b].
    + cbn [strip_suffix_c]. destruct (N.eqb_spec y c); [subst; exfalso; apply Hc; now left|reflexivity].
    + rewrite strip_suffix_c_cons. f_equal. apply IH. intros H. apply Hc. now right.
  - cbn [app]. destruct (a ++ b) as [|y t] eqn:E.
    + destruct a, b; cbn in E; congruence.
    + rewrite strip_suffix_c_cons. now rewrite IH.
Qed.

Lemma strip_suffix_c_notin c s : ~ In c s -> strip_suffix_c c s = s.
Proof.
  destruct s as [|x s]; [reflexivity|]. intros H.
  apply (strip_suffix_c_app c [] (x :: s)); [discriminate|exact H].
Qed.

Lemma count_nil c : count c [] = 0.
Proof. reflexivity. Qed.

Lemma count_cons c x s : count c (x :: s) = (if x =? c then 1 else 0) + count c s.
Proof. unfold count. cbn [filter]. destruct (x =? c); [rewrite len_cons|]; lia. Qed.

Lemma count_app c a b : count c (a ++ b) = count c a + count c b.
Proof. unfold count. rewrite filter_app, len_app. reflexivity. Qed.

Lemma count_notin c s : ~ In c s -> count c s = 0.
Proof.
  induction s as [|x s IH]; intros H; [reflexivity|]. rewrite count_cons, IH.
  - destruct (N.eqb_spec x c); [subst; exfalso; apply H; now left|reflexivity].
  - intros H'. apply H. now right.
Qed.

Lemma split_once_notin c s : ~ In c s -> split_once c s = None.
Proof.
  induction s as [|x s IH]; intros H; [reflexivity|]. cbn [split_once].
  destruct (N.eqb_spec x c); [subst; exfalso; apply H; now left|].
  rewrite IH; [reflexivity|]. intros H'. apply H. now right.
Qed.

Lemma split_once_app c a b : ~ In c a -> split_once c (a ++ c :: b) = Some (a, b).
Proof.
  induction a as [|x a IH]; intros H; cbn [app split_once].
  - now rewrite N.eqb_refl.
  - destruct (N.eqb_spec x c); [subst; exfalso; apply H; now left|].
    rewrite IH; [reflexivity|]. intros H'. apply H. now right.
Qed.

Lemma split_on_nonempty c s : split_on c s <> [].
Proof.
  induction s as [|x s IH]; cbn [split_on]; [discriminate|].
  destruct (x =? c); [discriminate|]. destruct (split_on c s); discriminate.
Qed.

Lemma split_on_notin c s : ~ In c s -> split_on c s = [s].
Proof.
  induction s as [|x s IH]; intros H; [reflexivity|]. cbn [split_on].
  destruct (N.eqb_spec x c); [subst; exfalso; apply H; now left|].
  rewrite IH; [reflexivity|]. intros H'. apply H. now right.
Qed.

Lemma split_on_app c a b : ~ In c a -> split_on c (a ++ c :: b) = a :: split_on c b.
Proof.
  induction a as [|x a IH]; intros H; cbn [app split_on].
  - now rewrite N.eqb_refl.
  - destruct (N.eqb_spec x c); [subst; exfalso; apply H; now left|].
    rewrite IH; [reflexivity|]. intros H'. apply H. now right.
Qed.

Lemma strip_prefix_app p s : strip_prefix p (p ++ s) = Some s.
Proof. induction p as [|x p IH]; cbn [app strip_prefix]; [reflexivity|]. now rewrite N.eqb_refl. Qed.

Lemma not_in_app (c : N) a b : ~ In c a -> ~ In c b -> ~ In c (a ++ b).
Proof. intros Ha Hb H. apply in_app_or in H. tauto. Qed.

Lemma not_in_cons (c x : N) s : c <> x -> ~ In c s -> ~ In c (x :: s).
Proof. intros Hx Hs [H|H]; congruence. Qed.

Lemma Forall_not_in (P : N -> Prop) c s : Forall P s -> ~ P c -> ~ In c s.
Proof. intros H Hc Hin. rewrite Forall_forall in H. apply Hc, H, Hin. Qed.

(** * percent-encoding *)
Lemma hex_val_upper n : n < 16 -> hex_val (hex_upper n) = Some n.
Proof.
  intros H. unfold hex_val, hex_upper, to_digit, is_digit.
  destruct (N.ltb_spec n 10).
  - replace ((48 <=? 48 + n) && (48 + n <=? 57)) with true by lia. f_equal. lia.
  - replace ((48 <=? 55 + n) && (55 + n <=? 57)) with false by lia.
    change (16 =? 16) with true. cbv iota. replace ((97 <=? 55 + n) && (55 + n <=? 102)) with false by lia.
    replace ((65 <=? 55 + n) && (55 + n <=? 70)) with true by lia. f_equal. lia.
Qed.

Lemma percent_decode_pct b r : b < 256 -> percent_decode (pct_byte b ++ r) = b :: percent_decode r.
Proof.
  intros H. unfold pct_byte. cbn [app percent_decode]. rewrite N.eqb_refl.
  rewrite !hex_val_upper by lia. f_equal. lia.
Qed.

Lemma percent_decode_plain b r : b <> 37 -> percent_decode (b :: r) = b :: percent_decode r.
Proof. intros H. cbn [percent_decode]. destruct (N.eqb_spec b 37); congruence. Qed.

(** Decoding undoes encoding, for every set that contains '%'. *)
Lemma percent_decode_encode set s :
  in_set set 37 = true -> bytes s -> percent_decode (percent_encode set s) = s.
Proof.
  intros H37 Hs. induction Hs as [|b r Hb _ IH]; [reflexivity|]. cbn [percent_encode].
  destruct (should_encode set b) eqn:E.
  - rewrite percent_decode_pct by exact Hb. now rewrite IH.
  - cbn [app]. rewrite percent_decode_plain, IH; [reflexivity|].
    intros ->. unfold should_encode in E. rewrite H37 in E. now rewrite orb_true_r in E.
Qed.

Lemma percent_decode_nonempty s : s <> [] -> percent_decode s <> [].
Proof.
  destruct s as [|b r]; [congruence|]. intros _. cbn [percent_decode].
  destruct (b =? 37); [|discriminate].
  destruct r as [|h [|l r']]; try discriminate. destruct (hex_val h), (hex_val l); discriminate.
Qed.

(** What an encoded string is made of. *)
Definition is_hex_upper (x : N) : bool := ((48 <=? x) && (x <=? 57)) || ((65 <=? x) && (x <=? 70)).

Lemma hex_upper_is n : n < 16 -> is_hex_upper (hex_upper n) = true.
Proof. intros H. unfold is_hex_upper, hex_upper. destruct (N.ltb_spec n 10); lia. Qed.

Definition enc_out (set : list N) (x : N) : Prop :=
  x = 37 \/ is_hex_upper x = true \/ should_encode set x = false.

Lemma percent_encode_out set s : bytes s -> Forall (enc_out set) (percent_encode set s).
Proof.
  intros Hs. induction Hs as [|b r Hb _ IH]; [constructor|]. cbn [percent_encode].
  destruct (should_encode set b) eqn:E.
  - unfold pct_byte. cbn [app]. apply Forall_cons; [now left|].
    apply Forall_cons; [right; left; apply hex_upper_is; lia|].
    apply Forall_cons; [right; left; apply hex_upper_is; lia|exact IH].
  - cbn [app]. apply Forall_cons; [right; right; exact E|exact IH].
Qed.

Lemma percent_encode_nonempty set s : s <> [] -> percent_encode set s <> [].
Proof.
  destruct s as [|b r]; [congruence|]. intros _. cbn [percent_encode].
  destruct (should_encode set b); discriminate.
Qed.

Lemma percent_encode_app set a b : percent_encode set (a ++ b) = percent_encode set a ++ percent_encode set b.
Proof. induction a as [|x a IH]; [reflexivity|]. cbn [app percent_encode]. now rewrite IH, app_assoc. Qed.

(** * form_urlencoded *)
Lemma replace_plus_app a b : replace_plus (a ++ b) = replace_plus a ++ replace_plus b.
Proof. apply map_app. Qed.

Lemma hex_upper_not_plus n : n < 16 -> (hex_upper n =? 43) = false.
Proof. intros H. unfold hex_upper. destruct (N.ltb_spec n 10); lia. Qed.

Lemma replace_plus_pct b : b < 256 -> replace_plus (pct_byte b) = pct_byte b.
Proof.
  intros H. unfold pct_byte, replace_plus. cbn [List.map].
  rewrite !hex_upper_not_plus by lia. reflexivity.
Qed.

(** [form_urlencoded::parse]'s value decoding undoes [byte_serialize]. *)
Lemma form_decode_serialize s :
  bytes s -> percent_decode (replace_plus (byte_serialize s)) = s.
Proof.
  intros Hs. induction Hs as [|b r Hb _ IH]; [reflexivity|]. cbn [byte_serialize].
  rewrite replace_plus_app.
  destruct (form_unchanged b) eqn:E.
  - unfold replace_plus at 1. cbn [List.map app].
    assert (b <> 43 /\ b <> 37) as [H1 H2].
    { unfold form_unchanged, is_alnum, is_digit, is_lower, is_upper in E. lia. }
    destruct (N.eqb_spec b 43); [congruence|]. rewrite percent_decode_plain by exact H2. now rewrite IH.
  - destruct (N.eqb_spec b 32) as [->|Hne].
    + cbn [replace_plus List.map app]. cbn [N.eqb Pos.eqb].
      rewrite percent_decode_plain by discriminate. fold (replace_plus (byte_serialize r)). now rewrite IH.
    + rewrite replace_plus_pct by exact Hb. rewrite percent_decode_pct by exact Hb. now rewrite IH.
Qed.

Definition ser_out (x : N) : Prop := form_unchanged x = true \/ x = 43 \/ x = 37 \/ is_hex_upper x = true.

Lemma byte_serialize_out s : bytes s -> Forall ser_out (byte_serialize s).
Proof.
  intros Hs. induction Hs as [|b r Hb _ IH]; [constructor|]. cbn [byte_serialize].
  destruct (form_unchanged b) eqn:E; [|destruct (b =? 32)]; cbn [app pct_byte].
  - apply Forall_cons; [now left|exact IH].
  - apply Forall_cons; [right; now left|exact IH].
  - apply Forall_cons; [right; right; now left|].
    apply Forall_cons; [right; right; right; apply hex_upper_is; lia|].
    apply Forall_cons; [right; right; right; apply hex_upper_is; lia|exact IH].
Qed.
