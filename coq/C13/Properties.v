(** C13.Properties — the theorems that decide C13 (push ruleset edits), and nothing else.
    [step] is the model of ruma's [Ruleset::{insert, remove, set_enabled, set_actions}]
    (Model.v), [run_ops init ops] the ruleset left by an arbitrary operation sequence,
    [spec_step] the placement semantics on lists (Spec.v), [server_default] the ruleset
    regenerated from ruma's predefined rules on every run (Gen/C13Defaults.v). *)
From Base Require Import Prelude.
From C13 Require Import Types Model Spec Proofs1 Proofs2 Proofs3 Proofs4.

(** After any operation sequence from the empty or the server-default ruleset, in every kind:
    rule ids are unique; a rule is a server-default rule exactly when its id starts with a
    dot; and the server-default rules are those of the start state, in the same order — none
    was created, none removed. *)
Theorem C13_invariant :
  forall init ops k, init = empty_ruleset \/ init = server_default ->
  let l := get_kind k (run_ops init ops) in
  NoDup (ids l) /\
  (forall r, In r l -> rdefault r = is_dot (rid r)) /\
  ids (filter rdefault l) = ids (filter rdefault (get_kind k init)).
Proof. exact invariant_final. Qed.
Eval compute in "PA:C13_invariant"%string.
Print Assumptions C13_invariant.

(** Every step taken after any such sequence does what the placement specification
    prescribes: on success the ruleset is exactly the specified one (order of every kind,
    flags, contents); on failure the error is one that applies and nothing changed. *)
Theorem C13_step_refines_spec :
  forall init ops o, init = empty_ruleset \/ init = server_default ->
  let s := run_ops init ops in
  satisfies (spec_step s o) s (step s o).
Proof. exact refines_final. Qed.
Eval compute in "PA:C13_step_refines_spec"%string.
Print Assumptions C13_step_refines_spec.

(** The same for any ruleset whose rule ids are unique per kind, reachable or not. *)
Theorem C13_step_refines_spec_any :
  forall s o, (forall k, NoDup (ids (get_kind k s))) -> satisfies (spec_step s o) s (step s o).
Proof. exact step_refines. Qed.
Eval compute in "PA:C13_step_refines_spec_any"%string.
Print Assumptions C13_step_refines_spec_any.

(** No operation panics, on any ruleset (hence after any sequence). *)
Theorem C13_no_panic :
  forall s o p, snd (step s o) <> Panic p.
Proof. exact step_no_panic. Qed.
Eval compute in "PA:C13_no_panic"%string.
Print Assumptions C13_no_panic.

(** An operation that returns an error leaves the ruleset unchanged, on any ruleset. *)
Theorem C13_error_atomic :
  forall s o e, snd (step s o) = Err e -> fst (step s o) = s.
Proof. exact step_error_atomic. Qed.
Eval compute in "PA:C13_error_atomic"%string.
Print Assumptions C13_error_atomic.

(** A successful insertion is anchored only on user rules of its own kind: a server-default
    rule is never used as an anchor. *)
Theorem C13_anchors_are_user_rules :
  forall init ops k id a p af bf s' c, init = empty_ruleset \/ init = server_default ->
  step (run_ops init ops) (OInsert k id a p af bf) = (s', Ok tt) ->
  af = Some c \/ bf = Some c ->
  exists r, In r (get_kind k (run_ops init ops)) /\ rid r = c /\ rdefault r = false.
Proof. exact anchors_final. Qed.
Eval compute in "PA:C13_anchors_are_user_rules"%string.
Print Assumptions C13_anchors_are_user_rules.

(** From the server-default ruleset, `.m.rule.master` remains the first override rule. *)
Theorem C13_master_stays_first :
  forall ops, exists r t, rs_override (run_ops server_default ops) = r :: t /\ rid r = s!".m.rule.master".
Proof. exact master_stays_first. Qed.
Eval compute in "PA:C13_master_stays_first"%string.
Print Assumptions C13_master_stays_first.

(** What the specification's placement says, in the property's words.
    [after a]: the other rules keep their order and the rule is immediately after [a]. *)
Theorem C13_spec_after_adjacent :
  forall k l x a, has a l = true -> a <> rid x ->
  exists l1 ra l2, take_out (rid x) l = l1 ++ ra :: l2 /\ rid ra = a /\
                   placed k l x (Some a) None = l1 ++ ra :: x :: l2.
Proof. exact placed_after_adjacent. Qed.
Eval compute in "PA:C13_spec_after_adjacent"%string.
Print Assumptions C13_spec_after_adjacent.

(** [before b], with or without [after]: immediately before [b]. *)
Theorem C13_spec_before_adjacent :
  forall k l x af b, has b l = true -> b <> rid x ->
  exists l1 rb l2, take_out (rid x) l = l1 ++ rb :: l2 /\ rid rb = b /\
                   placed k l x af (Some b) = l1 ++ x :: rb :: l2.
Proof. exact placed_before_adjacent. Qed.
Eval compute in "PA:C13_spec_before_adjacent"%string.
Print Assumptions C13_spec_before_adjacent.

(** Replacing a rule without a position keeps its place (and, by [inserted_rule], its
    [enabled] flag); a new rule without a position becomes the first of its kind, the
    second among overrides. *)
Theorem C13_spec_unpositioned :
  (forall k l1 old l2 x, NoDup (ids (l1 ++ old :: l2)) -> rid old = rid x ->
     placed k (l1 ++ old :: l2) x None None = l1 ++ x :: l2) /\
  (forall k l x, has (rid x) l = false ->
     placed k l x None None =
     match k, l with KOverride, first :: t => first :: x :: t | _, _ => x :: l end) /\
  (forall l id a p, renabled (inserted_rule l id a p) =
     match lookup id l with Some old => renabled old | None => true end).
Proof. exact spec_unpositioned_final. Qed.
Eval compute in "PA:C13_spec_unpositioned"%string.
Print Assumptions C13_spec_unpositioned.
