From Base Require Import Prelude.
From C13 Require Import Types Model Spec.
Theorem C13_placeholder : True.
Proof. exact I. Qed.
Eval compute in "PA:C13_placeholder"%string.
Print Assumptions C13_placeholder.
