(** C13.NonVacuity — the hypotheses of the C13 theorems are met by non-trivial inputs, and
    the model does something on them. *)
From Base Require Import Prelude.
From C13 Require Import Types Model Spec Proofs3 Proofs4.
Local Open Scope string_scope.

Definition ins (k : kind) (id : string) (af bf : option string) : op :=
  OInsert k (bytes_of_string id) s!"[]" s!"[]" (option_map bytes_of_string af) (option_map bytes_of_string bf).

Definition override_ids (s : ruleset) : list str := firstn 4 (ids (rs_override s)).

(** Both start states satisfy the start-state side condition; the server-default one has
    server-default rules. *)
Example start_states_ok : init_ok empty_ruleset /\ init_ok server_default /\
  List.length (rs_override server_default) = 12%nat /\ List.length (rs_underride server_default) = 5%nat.
Proof. split; [exact empty_ok|]. split; [exact server_default_ok|]. split; reflexivity. Qed.

(** A history that re-inserts a rule sitting before its anchor: a, b after a, then a after b. *)
Example reinsertion_from_default :
  override_ids (run_ops server_default
    [ins KOverride "a" None None; ins KOverride "b" (Some "a") None; ins KOverride "a" (Some "b") None])
  = [s!".m.rule.master"; s!"b"; s!"a"; s!".m.rule.suppress_notices"].
Proof. vm_compute. reflexivity. Qed.

(** The first override of an empty ruleset (the input that used to panic). *)
Example first_override_into_empty :
  step empty_ruleset (ins KOverride "a" None None)
  = (mkRs [mkRule s!"a" false true s!"[]" s!"[]"] [] [] [] [], Ok tt).
Proof. vm_compute. reflexivity. Qed.

(** Errors occur and are atomic: unknown anchor after a prior insertion. *)
Example unknown_anchor_is_an_error :
  let s := run_ops empty_ruleset [ins KContent "a" None None] in
  step s (ins KContent "b" (Some "zz") None) = (s, Err E_unknown_rule_id).
Proof. vm_compute. reflexivity. Qed.

(** The three verdict shapes of the specification all occur. *)
Example verdicts_occur :
  (exists s', spec_step server_default (ins KUnderride "a" None None) = MustBe s') /\
  spec_step server_default (ins KOverride "a" (Some ".m.rule.master") None) = MustFail [E_relative_to_default] /\
  spec_step server_default (ORemove (RK KOverride) s!".m.rule.master") = MustFail [E_remove_default].
Proof. split; [eexists; vm_compute; reflexivity|]. split; vm_compute; reflexivity. Qed.

(** A disabled rule that is replaced stays disabled and keeps its place. *)
Example replace_keeps_flag_and_place :
  let s := run_ops empty_ruleset
             [ins KContent "a" None None; ins KContent "b" None None;
              OSetEnabled (RK KContent) s!"a" false; ins KContent "a" None None] in
  map (fun r => (rid r, renabled r)) (rs_content s) = [(s!"b", true); (s!"a", false)].
Proof. vm_compute. reflexivity. Qed.
