(** C13.Proofs4 — the invariant of reachable rulesets (unique ids per kind, server-default
    rules fixed), its consequences, and what the specification's placement means. *)
From Base Require Import Prelude.
From C13 Require Import Types Model Spec Proofs1 Proofs2 Proofs3.
From Coq Require Import Lia Permutation.
Local Open Scope nat_scope.

(* ------------------------------------------------------------------------------------- *)
(** * The invariant *)

(** For one kind, relative to the list [l0] the history started from: ids are unique; a rule
    is flagged server-default exactly when its id starts with a dot; the server-default
    rules are those of [l0], in the same order. *)
Definition kind_inv (l0 l : list rule) : Prop :=
  NoDup (ids l) /\
  (forall r, In r l -> rdefault r = is_dot (rid r)) /\
  ids (filter rdefault l) = ids (filter rdefault l0).

Definition Inv (init s : ruleset) : Prop := forall k, kind_inv (get_kind k init) (get_kind k s).

Definition init_ok (init : ruleset) : Prop :=
  forall k, NoDup (ids (get_kind k init)) /\
            forall r, In r (get_kind k init) -> rdefault r = is_dot (rid r).

(* ------------------------------------------------------------------------------------- *)
(** * The specification's list functions preserve it *)

Lemma has_cons a r t : has a (r :: t) = str_eqb a (rid r) || has a t.
Proof. reflexivity. Qed.

Lemma put_after_perm a x m : has a m = true -> Permutation (put_after a x m) (x :: m).
Proof.
  induction m as [|r t IH]; intros H; [discriminate|]. rewrite has_cons in H. cbn [put_after].
  dse a (rid r).
  - apply perm_swap.
  - cbn [orb] in H. eapply perm_trans; [apply perm_skip, IH, H|apply perm_swap].
Qed.

Lemma put_before_perm b x m : has b m = true -> Permutation (put_before b x m) (x :: m).
Proof.
  induction m as [|r t IH]; intros H; [discriminate|]. rewrite has_cons in H. cbn [put_before].
  dse b (rid r).
  - apply Permutation_refl.
  - cbn [orb] in H. eapply perm_trans; [apply perm_skip, IH, H|apply perm_swap].
Qed.

Lemma put_after_filter a x m :
  rdefault x = false -> filter rdefault (put_after a x m) = filter rdefault m.
Proof.
  intros Hx. induction m as [|r t IH]; [reflexivity|]. cbn [put_after].
  destruct (str_eqb a (rid r)); cbn [filter]; [rewrite Hx; reflexivity|now rewrite IH].
Qed.

Lemma put_before_filter b x m :
  rdefault x = false -> filter rdefault (put_before b x m) = filter rdefault m.
Proof.
  intros Hx. induction m as [|r t IH]; [reflexivity|]. cbn [put_before].
  destruct (str_eqb b (rid r)); cbn [filter]; [rewrite Hx; reflexivity|now rewrite IH].
Qed.

Lemma take_out_in id l r : In r (take_out id l) <-> In r l /\ rid r <> id.
Proof.
  unfold take_out. rewrite filter_In, negb_true_iff, str_eqb_neq. intuition congruence.
Qed.

Lemma take_out_ids id l : ids (take_out id l) = filter (fun i => negb (str_eqb id i)) (ids l).
Proof.
  induction l as [|r t IH]; [reflexivity|]. cbn [take_out filter ids map].
  destruct (str_eqb id (rid r)); cbn [negb map]; fold (take_out id t) (ids t); now rewrite <- IH.
Qed.

Lemma take_out_nodup id l : NoDup (ids l) -> NoDup (ids (take_out id l)).
Proof. intros H. rewrite take_out_ids. now apply NoDup_filter. Qed.

Lemma take_out_not_in id l : ~ In id (ids (take_out id l)).
Proof.
  unfold ids. rewrite in_map_iff. intros (r & E & H). apply take_out_in in H. tauto.
Qed.

Lemma take_out_filter id l :
  (forall r, In r l -> rid r = id -> rdefault r = false) ->
  filter rdefault (take_out id l) = filter rdefault l.
Proof.
  induction l as [|r t IH]; intros H; [reflexivity|]. cbn [take_out filter].
  fold (take_out id t). dse id (rid r); cbn [negb filter].
  - rewrite (H r (or_introl eq_refl) eq_refl). apply IH. intros; apply H; [now right|assumption].
  - rewrite IH; [reflexivity|]. intros; apply H; [now right|assumption].
Qed.

Lemma take_out_has a id l : a <> id -> has a (take_out id l) = has a l.
Proof.
  intros Hne. induction l as [|r t IH]; [reflexivity|]. cbn [take_out filter].
  fold (take_out id t). dse id (rid r); cbn [negb].
  - rewrite has_cons. apply str_eqb_neq in Hne. now rewrite Hne.
  - rewrite !has_cons. now rewrite IH.
Qed.

Lemma in_place_ids x l : ids (in_place x l) = ids l.
Proof.
  induction l as [|r t IH]; [reflexivity|]. cbn [in_place map ids]. fold (in_place x t) (ids t).
  fold (ids (in_place x t)). rewrite IH. dse (rid x) (rid r); congruence.
Qed.

Lemma in_place_in x l r : In r (in_place x l) -> r = x \/ In r l.
Proof.
  unfold in_place. rewrite in_map_iff. intros (r0 & E & H).
  destruct (str_eqb (rid x) (rid r0)); subst; auto.
Qed.

Lemma in_place_filter x l :
  rdefault x = false -> (forall r, In r l -> rid r = rid x -> rdefault r = false) ->
  filter rdefault (in_place x l) = filter rdefault l.
Proof.
  intros Hx. induction l as [|r t IH]; intros H; [reflexivity|]. cbn [in_place map filter].
  fold (in_place x t). rewrite IH by (intros; apply H; [now right|assumption]).
  dse (rid x) (rid r); [|reflexivity].
  rewrite Hx, (H r (or_introl eq_refl)) by congruence. reflexivity.
Qed.

Lemma update_rule_ids id f l : (forall r, rid (f r) = rid r) -> ids (update_rule id f l) = ids l.
Proof.
  intros F. induction l as [|r t IH]; [reflexivity|]. cbn [update_rule map ids].
  fold (update_rule id f t) (ids t). fold (ids (update_rule id f t)). rewrite IH.
  destruct (str_eqb id (rid r)); now rewrite ?F.
Qed.

Lemma update_rule_filter id f l :
  (forall r, rid (f r) = rid r) -> (forall r, rdefault (f r) = rdefault r) ->
  ids (filter rdefault (update_rule id f l)) = ids (filter rdefault l).
Proof.
  intros F D. induction l as [|r t IH]; [reflexivity|]. cbn [update_rule map filter].
  fold (update_rule id f t).
  destruct (str_eqb id (rid r)); rewrite ?D; destruct (rdefault r); cbn [ids map];
    fold (ids (filter rdefault (update_rule id f t))) (ids (filter rdefault t)); rewrite IH, ?F;
    reflexivity.
Qed.

(** A list that is a permutation of [x :: m] with the server-default rules of [m]. *)
Lemma kind_inv_perm l0 m x l' :
  NoDup (ids m) -> (forall r, In r m -> rdefault r = is_dot (rid r)) ->
  ids (filter rdefault m) = ids (filter rdefault l0) ->
  ~ In (rid x) (ids m) -> rdefault x = false -> is_dot (rid x) = false ->
  Permutation l' (x :: m) -> filter rdefault l' = filter rdefault m ->
  kind_inv l0 l'.
Proof.
  intros ND FL FI NI Dx Hx P FE. repeat split.
  - apply (Permutation_NoDup (l := ids (x :: m))).
    + apply Permutation_sym. unfold ids. now apply Permutation_map.
    + cbn [ids map]. now constructor.
  - intros r Hr. apply (Permutation_in _ P) in Hr as [<-|Hr]; [congruence|now apply FL].
  - now rewrite FE.
Qed.

Lemma placed_inv k l0 l x af bf :
  kind_inv l0 l -> rdefault x = false -> is_dot (rid x) = false ->
  anchor_missing af l = false -> anchor_missing bf l = false ->
  kind_inv l0 (placed k l x af bf).
Proof.
  intros (ND & FL & FI) Dx Hx Ma Mb.
  assert (Same : forall r, In r l -> rid r = rid x -> rdefault r = false).
  { intros r Hr E. rewrite (FL r Hr), E. exact Hx. }
  assert (Here : kind_inv l0 (in_place x l)).
  { repeat split.
    - now rewrite in_place_ids.
    - intros r Hr. apply in_place_in in Hr as [->|Hr]; [congruence|now apply FL].
    - now rewrite in_place_filter. }
  assert (Rest : forall l', Permutation l' (x :: take_out (rid x) l) ->
                   filter rdefault l' = filter rdefault (take_out (rid x) l) -> kind_inv l0 l').
  { intros l' P FE. apply (kind_inv_perm l0 (take_out (rid x) l) x l'); auto.
    - now apply take_out_nodup.
    - intros r Hr. apply take_out_in in Hr. apply FL. tauto.
    - now rewrite take_out_filter.
    - apply take_out_not_in. }
  unfold placed. destruct bf as [b|].
  - dse b (rid x); [exact Here|]. apply Rest.
    + apply put_before_perm. rewrite take_out_has by assumption.
      cbn [anchor_missing] in Mb. now apply negb_false_iff in Mb.
    + now apply put_before_filter.
  - destruct af as [a|].
    + dse a (rid x); [exact Here|]. apply Rest.
      * apply put_after_perm. rewrite take_out_has by assumption.
        cbn [anchor_missing] in Ma. now apply negb_false_iff in Ma.
      * now apply put_after_filter.
    + destruct (has (rid x) l) eqn:Hh; [exact Here|].
      apply has_false in Hh.
      assert (New : forall l', Permutation l' (x :: l) -> filter rdefault l' = filter rdefault l ->
                      kind_inv l0 l').
      { intros l' P FE. apply (kind_inv_perm l0 l x l'); auto. }
      destruct k, l as [|first t]; try (apply New; [apply Permutation_refl|cbn [filter]; now rewrite Dx]).
      apply New; [apply perm_swap|]. cbn [filter]. rewrite Dx. reflexivity.
Qed.

Lemma insert_errors_nil l id af bf :
  insert_errors l id af bf = [] ->
  is_dot id = false /\ opt_is_dot af = false /\ opt_is_dot bf = false /\
  anchor_missing af l = false /\ anchor_missing bf l = false.
Proof.
  unfold insert_errors. intros H.
  destruct (is_dot id); [discriminate|].
  destruct (contains_byte byte_slash id || contains_byte byte_backslash id); [discriminate|].
  destruct (opt_is_dot af); [discriminate|]. destruct (opt_is_dot bf); [discriminate|].
  destruct (anchor_missing af l); [discriminate|]. destruct (anchor_missing bf l); [discriminate|].
  auto.
Qed.

Lemma verdict_of_must_be errs X s' : verdict_of errs X = MustBe s' -> errs = [] /\ X = s'.
Proof. destruct errs; cbn; intros H; [injection H as ->; auto|discriminate]. Qed.

Lemma inv_set_kind init s k l :
  Inv init s -> kind_inv (get_kind k init) l -> Inv init (set_kind k l s).
Proof.
  intros I Hk k'. destruct (kind_eq_dec k k') as [<-|Hne].
  - now rewrite get_set_same.
  - rewrite get_set_other by assumption. apply I.
Qed.

Lemma spec_update_inv init s k id f s' :
  Inv init s -> (forall r, rid (f r) = rid r) -> (forall r, rdefault (f r) = rdefault r) ->
  spec_update s k id f = MustBe s' -> Inv init s'.
Proof.
  intros I F D H. unfold spec_update in H. destruct k as [k|]; [|discriminate].
  destruct (has id (get_kind k s)); [|discriminate]. injection H as <-.
  apply inv_set_kind; [exact I|]. destruct (I k) as (ND & FL & FI). repeat split.
  - now rewrite update_rule_ids.
  - intros r Hr. unfold update_rule in Hr. apply in_map_iff in Hr as (r0 & <- & Hr0).
    destruct (str_eqb id (rid r0)); rewrite ?D, ?F; now apply FL.
  - now rewrite update_rule_filter.
Qed.

Lemma spec_step_inv init s o s' : Inv init s -> spec_step s o = MustBe s' -> Inv init s'.
Proof.
  intros I H. destruct o as [k id a p af bf|k id|k id b|k id a].
  - rewrite spec_insert_eq in H. apply verdict_of_must_be in H as [E <-].
    apply insert_errors_nil in E as (Hd & _ & _ & Ma & Mb).
    apply inv_set_kind; [exact I|]. apply placed_inv; auto; apply I.
  - cbn [spec_step] in H. destruct k as [k|]; [|discriminate].
    destruct (lookup id (get_kind k s)) as [r|] eqn:L; [|discriminate].
    destruct (rdefault r) eqn:Dr; [discriminate|]. injection H as <-.
    apply inv_set_kind; [exact I|]. destruct (I k) as (ND & FL & FI).
    apply lookup_some in L as [Lin Lid]. repeat split.
    + now apply take_out_nodup.
    + intros r0 Hr0. apply take_out_in in Hr0. apply FL. tauto.
    + rewrite take_out_filter; [exact FI|].
      intros r0 Hr0 E. rewrite (FL r0 Hr0), E, <- Lid, <- (FL r Lin). exact Dr.
  - cbn [spec_step] in H. eapply spec_update_inv; eauto; reflexivity.
  - cbn [spec_step] in H. eapply spec_update_inv; eauto; reflexivity.
Qed.

Lemma Inv_nodup init s : Inv init s -> NoDupIds s.
Proof. intros I k. apply I. Qed.

Lemma step_inv init s o : Inv init s -> Inv init (fst (step s o)).
Proof.
  intros I. pose proof (step_refines s o (Inv_nodup _ _ I)) as R.
  destruct (spec_step s o) as [errs|s'] eqn:E; cbn [satisfies] in R.
  - destruct R as (e & _ & _ & ->). exact I.
  - destruct R as (_ & ->). eapply spec_step_inv; eauto.
Qed.

Lemma init_inv init : init_ok init -> Inv init init.
Proof. intros H k. destruct (H k) as (ND & FL). repeat split; auto. Qed.

Lemma fold_inv init ops : forall s, Inv init s -> Inv init (fold_left (fun s o => fst (step s o)) ops s).
Proof.
  induction ops as [|o ops IH]; intros s I; cbn [fold_left]; [exact I|].
  apply IH. now apply step_inv.
Qed.

Lemma run_inv init ops : init_ok init -> Inv init (run_ops init ops).
Proof. intros H. apply fold_inv. now apply init_inv. Qed.

(** The side condition on the start state, decidable (re-checked on the generated table). *)
Fixpoint nodupb (l : list str) : bool :=
  match l with [] => true | x :: t => negb (mem_str x t) && nodupb t end.

Definition init_okb (init : ruleset) : bool :=
  forallb (fun k => nodupb (ids (get_kind k init))
                    && forallb (fun r => Bool.eqb (rdefault r) (is_dot (rid r))) (get_kind k init))
          all_kinds.

Lemma nodupb_sound l : nodupb l = true -> NoDup l.
Proof.
  induction l as [|x t IH]; cbn [nodupb]; intros H; constructor.
  - apply andb_true_iff in H as [H _]. apply negb_true_iff in H. intros X.
    apply mem_str_In in X. congruence.
  - apply IH. now apply andb_true_iff in H as [_ H].
Qed.

Lemma init_okb_sound init : init_okb init = true -> init_ok init.
Proof.
  unfold init_okb. rewrite forallb_forall. intros H k.
  assert (Hk : In k all_kinds) by (destruct k; cbn; auto 6).
  specialize (H k Hk). apply andb_true_iff in H as [H1 H2]. split.
  - now apply nodupb_sound.
  - rewrite forallb_forall in H2. intros r Hr. apply eqb_prop. now apply H2.
Qed.

Lemma empty_ok : init_ok empty_ruleset.
Proof. apply init_okb_sound. vm_compute. reflexivity. Qed.

(** The obligation that is re-checked whenever ruma's predefined rules change. *)
Lemma server_default_ok : init_ok server_default.
Proof. apply init_okb_sound. vm_compute. reflexivity. Qed.

(* ------------------------------------------------------------------------------------- *)
(** * Consequences for reachable rulesets *)

Lemma run_refines init ops o :
  init_ok init ->
  satisfies (spec_step (run_ops init ops) o) (run_ops init ops) (step (run_ops init ops) o).
Proof. intros H. apply step_refines. eapply Inv_nodup, run_inv, H. Qed.

(** A successful insertion is anchored on user rules of that kind only. *)
Lemma anchors_are_user_rules init ops k id a p af bf s' c :
  init_ok init ->
  step (run_ops init ops) (OInsert k id a p af bf) = (s', Ok tt) ->
  af = Some c \/ bf = Some c ->
  exists r, In r (get_kind k (run_ops init ops)) /\ rid r = c /\ rdefault r = false.
Proof.
  intros H St Hc. pose proof (run_refines init ops (OInsert k id a p af bf) H) as R.
  pose proof (run_inv init ops H) as I.
  set (s := run_ops init ops) in *. rewrite St in R. rewrite spec_insert_eq in R.
  unfold verdict_of in R. destruct (insert_errors (get_kind k s) id af bf) eqn:E.
  2:{ destruct R as (e & X & _). discriminate. }
  apply insert_errors_nil in E as (_ & Da & Db & Ma & Mb).
  assert (X : is_dot c = false /\ has c (get_kind k s) = true).
  { destruct Hc as [->| ->]; cbn [opt_is_dot anchor_missing] in *; split; auto; now apply negb_false_iff. }
  destruct X as [Dc Hh]. rewrite lookup_has in Hh.
  destruct (lookup c (get_kind k s)) as [r|] eqn:L; [|discriminate].
  apply lookup_some in L as [Lin Lid]. exists r. repeat split; auto.
  destruct (I k) as (_ & FL & _). now rewrite (FL r Lin), Lid.
Qed.

(** `.m.rule.master` — whatever server-default rule heads the overrides — stays first. *)
Definition head_is (m : str) (l : list rule) : Prop :=
  exists r t, l = r :: t /\ rid r = m.

Lemma spec_step_head init s o s' m :
  Inv init s -> is_dot m = true -> head_is m (rs_override s) ->
  spec_step s o = MustBe s' -> head_is m (rs_override s').
Proof.
  intros I Dm (r0 & t & El & Em) H.
  change (rs_override s) with (get_kind KOverride s) in El.
  change (rs_override s') with (get_kind KOverride s').
  assert (Other : forall k l, k <> KOverride -> head_is m (get_kind KOverride (set_kind k l s))).
  { intros k l Hk. rewrite get_set_other by assumption. rewrite El. now exists r0, t. }
  destruct o as [k id a p af bf|k id|k id b|k id a].
  - rewrite spec_insert_eq in H. apply verdict_of_must_be in H as [E <-].
    apply insert_errors_nil in E as (Hd & Da & Db & _ & _).
    destruct (kind_eq_dec k KOverride) as [->|Hk]; [|now apply Other].
    rewrite get_set_same. rewrite El.
    set (x := inserted_rule (r0 :: t) id a p).
    assert (Nx : str_eqb (rid x) (rid r0) = false).
    { apply str_eqb_neq. cbn [x inserted_rule rid]. intros X. rewrite X, Em in Hd. congruence. }
    assert (Nd : forall c, is_dot c = false -> str_eqb c (rid r0) = false).
    { intros c Hc. apply str_eqb_neq. intros ->. rewrite Em in Hc. congruence. }
    assert (Here : head_is m (in_place x (r0 :: t))).
    { cbn [in_place map]. rewrite Nx. now eexists _, _. }
    unfold placed. cbn [take_out filter]. rewrite Nx. cbn [negb]. fold (take_out (rid x) t).
    destruct bf as [b|].
    + destruct (str_eqb b (rid x)); [exact Here|]. cbn [put_before].
      rewrite (Nd b Db). now eexists _, _.
    + destruct af as [a0|].
      * destruct (str_eqb a0 (rid x)); [exact Here|]. cbn [put_after].
        destruct (str_eqb a0 (rid r0)); now eexists _, _.
      * destruct (has (rid x) (r0 :: t)); [exact Here|]. now eexists _, _.
  - cbn [spec_step] in H. destruct k as [k|]; [|discriminate].
    destruct (lookup id (get_kind k s)) as [r|] eqn:L; [|discriminate].
    destruct (rdefault r) eqn:Dr; [discriminate|]. injection H as <-.
    destruct (kind_eq_dec k KOverride) as [->|Hk]; [|now apply Other].
    rewrite get_set_same, El. rewrite El in L. cbn [lookup find] in L. cbn [take_out filter].
    dse id (rid r0).
    + injection L as <-. destruct (I KOverride) as (_ & FL & _).
      rewrite (FL r0) in Dr by (rewrite El; now left). rewrite Em in Dr. congruence.
    + cbn [negb]. now eexists _, _.
  - cbn [spec_step] in H. unfold spec_update in H. destruct k as [k|]; [|discriminate].
    destruct (has id (get_kind k s)); [|discriminate]. injection H as <-.
    destruct (kind_eq_dec k KOverride) as [->|Hk]; [|now apply Other].
    rewrite get_set_same, El. cbn [update_rule map].
    destruct (str_eqb id (rid r0)); now eexists _, _.
  - cbn [spec_step] in H. unfold spec_update in H. destruct k as [k|]; [|discriminate].
    destruct (has id (get_kind k s)); [|discriminate]. injection H as <-.
    destruct (kind_eq_dec k KOverride) as [->|Hk]; [|now apply Other].
    rewrite get_set_same, El. cbn [update_rule map].
    destruct (str_eqb id (rid r0)); now eexists _, _.
Qed.

Lemma head_stays init m ops :
  init_ok init -> is_dot m = true -> head_is m (rs_override init) ->
  head_is m (rs_override (run_ops init ops)).
Proof.
  intros H Dm Hh. unfold run_ops.
  assert (G : forall s, Inv init s -> head_is m (rs_override s) ->
              head_is m (rs_override (fold_left (fun s o => fst (step s o)) ops s))).
  { induction ops as [|o ops IH]; intros s I Hs; cbn [fold_left]; [exact Hs|].
    apply IH; [now apply step_inv|].
    pose proof (step_refines s o (Inv_nodup _ _ I)) as R.
    destruct (spec_step s o) as [errs|s'] eqn:E; cbn [satisfies] in R.
    - destruct R as (e & _ & _ & ->). exact Hs.
    - destruct R as (_ & ->). eapply spec_step_head; eauto. }
  apply G; [now apply init_inv|exact Hh].
Qed.

(* ------------------------------------------------------------------------------------- *)
(** * What the specification's placement means *)

Lemma has_split a m :
  has a m = true -> exists l1 ra l2, m = l1 ++ ra :: l2 /\ rid ra = a /\ ~ In a (ids l1).
Proof.
  intros H. apply has_index in H. destruct (get_index_of a m) as [j|] eqn:E; [|congruence].
  destruct (get_index_of_split _ _ _ E) as (l1 & ra & l2 & -> & _ & R & NI).
  exists l1, ra, l2. auto.
Qed.

Lemma put_after_split a x l1 ra l2 :
  rid ra = a -> ~ In a (ids l1) -> put_after a x (l1 ++ ra :: l2) = l1 ++ ra :: x :: l2.
Proof.
  intros R. induction l1 as [|r t IH]; intros NI; cbn [app put_after].
  - now rewrite R, str_eqb_refl.
  - cbn [ids map In] in NI. dse a (rid r); [exfalso; apply NI; left; congruence|]. rewrite IH by tauto. reflexivity.
Qed.

Lemma put_before_split b x l1 rb l2 :
  rid rb = b -> ~ In b (ids l1) -> put_before b x (l1 ++ rb :: l2) = l1 ++ x :: rb :: l2.
Proof.
  intros R. induction l1 as [|r t IH]; intros NI; cbn [app put_before].
  - now rewrite R, str_eqb_refl.
  - cbn [ids map In] in NI. dse b (rid r); [exfalso; apply NI; left; congruence|]. rewrite IH by tauto. reflexivity.
Qed.

(** [after a]: the other rules keep their order and the rule sits immediately after [a]. *)
Lemma placed_after_adjacent k l x a :
  has a l = true -> a <> rid x ->
  exists l1 ra l2, take_out (rid x) l = l1 ++ ra :: l2 /\ rid ra = a /\
                   placed k l x (Some a) None = l1 ++ ra :: x :: l2.
Proof.
  intros H Hne. rewrite <- (take_out_has a (rid x) l Hne) in H.
  destruct (has_split _ _ H) as (l1 & ra & l2 & E & R & NI).
  exists l1, ra, l2. repeat split; auto. unfold placed.
  apply str_eqb_neq in Hne. rewrite Hne, E. now apply put_after_split.
Qed.

(** [before b] (with or without [after]): immediately before [b]. *)
Lemma placed_before_adjacent k l x af b :
  has b l = true -> b <> rid x ->
  exists l1 rb l2, take_out (rid x) l = l1 ++ rb :: l2 /\ rid rb = b /\
                   placed k l x af (Some b) = l1 ++ x :: rb :: l2.
Proof.
  intros H Hne. rewrite <- (take_out_has b (rid x) l Hne) in H.
  destruct (has_split _ _ H) as (l1 & rb & l2 & E & R & NI).
  exists l1, rb, l2. repeat split; auto. unfold placed.
  apply str_eqb_neq in Hne. rewrite Hne, E. now apply put_before_split.
Qed.

(** Replacing without a position keeps the place. *)
Lemma placed_replace_unpositioned k l1 old l2 x :
  NoDup (ids (l1 ++ old :: l2)) -> rid old = rid x ->
  placed k (l1 ++ old :: l2) x None None = l1 ++ x :: l2.
Proof.
  intros ND E. destruct (nodup_split _ _ _ ND) as (N1 & N2 & _). rewrite E in N1, N2.
  unfold placed.
  assert (X : has (rid x) (l1 ++ old :: l2) = true).
  { unfold has, ids. apply mem_str_In. rewrite map_app, in_app_iff. right. left. exact E. }
  rewrite X. now apply in_place_split.
Qed.

(** A new rule without a position: first of its kind; second among the overrides. *)
Lemma placed_new_unpositioned k l x :
  has (rid x) l = false ->
  placed k l x None None =
  match k, l with KOverride, first :: t => first :: x :: t | _, _ => x :: l end.
Proof. intros H. unfold placed. now rewrite H. Qed.

(** Start states of the property. *)
Lemma start_ok init : init = empty_ruleset \/ init = server_default -> init_ok init.
Proof. intros [-> | ->]; [exact empty_ok|exact server_default_ok]. Qed.

(** Re-checked against the generated table: the overrides start with `.m.rule.master`. *)
Lemma server_default_head : head_is s!".m.rule.master" (rs_override server_default).
Proof.
  destruct (rs_override server_default) as [|r t] eqn:E; [vm_compute in E; discriminate|].
  exists r, t. split; [reflexivity|]. vm_compute in E. injection E as <- _. reflexivity.
Qed.

Lemma master_stays_first ops : head_is s!".m.rule.master" (rs_override (run_ops server_default ops)).
Proof.
  apply head_stays; [exact server_default_ok|reflexivity|exact server_default_head].
Qed.

(* ------------------------------------------------------------------------------------- *)
(** * The statements of Properties.v *)

Lemma invariant_final :
  forall init ops k, init = empty_ruleset \/ init = server_default ->
  let l := get_kind k (run_ops init ops) in
  NoDup (ids l) /\
  (forall r, In r l -> rdefault r = is_dot (rid r)) /\
  ids (filter rdefault l) = ids (filter rdefault (get_kind k init)).
Proof. intros init ops k H. exact (run_inv init ops (start_ok init H) k). Qed.

Lemma refines_final :
  forall init ops o, init = empty_ruleset \/ init = server_default ->
  let s := run_ops init ops in
  satisfies (spec_step s o) s (step s o).
Proof. intros init ops o H. exact (run_refines init ops o (start_ok init H)). Qed.

Lemma anchors_final :
  forall init ops k id a p af bf s' c, init = empty_ruleset \/ init = server_default ->
  step (run_ops init ops) (OInsert k id a p af bf) = (s', Ok tt) ->
  af = Some c \/ bf = Some c ->
  exists r, In r (get_kind k (run_ops init ops)) /\ rid r = c /\ rdefault r = false.
Proof.
  intros init ops k id a p af bf s' c H.
  exact (anchors_are_user_rules init ops k id a p af bf s' c (start_ok init H)).
Qed.

Lemma spec_unpositioned_final :
  (forall k l1 old l2 x, NoDup (ids (l1 ++ old :: l2)) -> rid old = rid x ->
     placed k (l1 ++ old :: l2) x None None = l1 ++ x :: l2) /\
  (forall k l x, has (rid x) l = false ->
     placed k l x None None =
     match k, l with KOverride, first :: t => first :: x :: t | _, _ => x :: l end) /\
  (forall l id a p, renabled (inserted_rule l id a p) =
     match lookup id l with Some old => renabled old | None => true end).
Proof.
  split; [exact placed_replace_unpositioned|]. split; [exact placed_new_unpositioned|]. reflexivity.
Qed.
