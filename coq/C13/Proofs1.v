(** C13.Proofs1 — IndexSet lemmas: [replace_full], [get_index_of], [move_index] on lists;
    the placement functions of the specification as insertions at an index. *)
From Base Require Import Prelude.
From C13 Require Import Types Model Spec.
From Coq Require Import Lia Permutation.
Local Open Scope nat_scope.

Notation len := (@List.length rule).

Definition insert_at (n : nat) (x : rule) (l : list rule) : list rule :=
  firstn n l ++ x :: skipn n l.

(* ------------------------------------------------------------------------------------- *)
(** * firstn / skipn on appended lists *)

Lemma firstn_len_app (a b : list rule) n : n = len a -> firstn n (a ++ b) = a.
Proof.
  intros ->. rewrite firstn_app, Nat.sub_diag, firstn_all. cbn [firstn]. apply app_nil_r.
Qed.

Lemma skipn_len_app (a b : list rule) n : n = len a -> skipn n (a ++ b) = b.
Proof.
  intros ->. rewrite skipn_app, Nat.sub_diag, skipn_all. reflexivity.
Qed.

Lemma split_at (l : list rule) n : n <= len l ->
  exists a b, l = a ++ b /\ len a = n.
Proof.
  intros H. exists (firstn n l), (skipn n l). split.
  - symmetry; apply firstn_skipn.
  - apply firstn_length_le; exact H.
Qed.

Lemma insert_at_app (a b : list rule) x n : n = len a -> insert_at n x (a ++ b) = a ++ x :: b.
Proof.
  intros H. unfold insert_at. rewrite (firstn_len_app a b n H), (skipn_len_app a b n H). reflexivity.
Qed.

(* ------------------------------------------------------------------------------------- *)
(** * get_index_of, iset_get, has, lookup *)

Lemma get_index_of_split id l i :
  get_index_of id l = Some i ->
  exists l1 r l2, l = l1 ++ r :: l2 /\ len l1 = i /\ rid r = id /\ ~ In id (ids l1).
Proof.
  revert i; induction l as [|r t IH]; intros i H; cbn [get_index_of] in H; [discriminate|].
  dse id (rid r).
  - injection H as <-. exists [], r, t. cbn. auto.
  - destruct (get_index_of id t) as [j|] eqn:E; [|discriminate]. injection H as <-.
    destruct (IH j eq_refl) as (l1 & r' & l2 & -> & L & R & NI).
    exists (r :: l1), r', l2. cbn [app List.length ids map In]. repeat split; auto.
    intros [X|X]; [congruence|]. exact (NI X).
Qed.

Lemma get_index_of_app_notin id l1 l2 :
  ~ In id (ids l1) ->
  get_index_of id (l1 ++ l2) = option_map (fun j => len l1 + j) (get_index_of id l2).
Proof.
  induction l1 as [|r t IH]; intros NI; cbn [app get_index_of List.length].
  - destruct (get_index_of id l2); reflexivity.
  - cbn [ids map In] in NI. dse id (rid r); [tauto|].
    rewrite IH by tauto. destruct (get_index_of id l2); reflexivity.
Qed.

Lemma get_index_of_app_in id l1 l2 i :
  get_index_of id l1 = Some i -> get_index_of id (l1 ++ l2) = Some i.
Proof.
  revert i; induction l1 as [|r t IH]; intros i H; cbn [get_index_of app] in *; [discriminate|].
  dse id (rid r); [exact H|].
  destruct (get_index_of id t) as [j|]; [|discriminate]. now rewrite (IH j eq_refl).
Qed.

Lemma get_index_of_none id l : get_index_of id l = None <-> ~ In id (ids l).
Proof.
  induction l as [|r t IH]; cbn [get_index_of ids map In]; [tauto|].
  dse id (rid r).
  - split; [discriminate|]. intros H; exfalso; apply H; now left.
  - destruct (get_index_of id t) as [j|].
    + split; [discriminate|]. intros H. exfalso.
      assert (X : ~ In id (map rid t)) by tauto. apply IH in X. discriminate.
    + split; [|reflexivity]. intros _ [X|X]; [congruence|].
      destruct IH as [IH1 _]. exact (IH1 eq_refl X).
Qed.

Lemma get_index_of_lt id l i : get_index_of id l = Some i -> i < len l.
Proof.
  intros H. destruct (get_index_of_split _ _ _ H) as (l1 & r & l2 & -> & <- & _).
  rewrite app_length. cbn [List.length]. lia.
Qed.

Lemma has_index id l : has id l = true <-> get_index_of id l <> None.
Proof.
  unfold has. rewrite mem_str_In. rewrite get_index_of_none.
  destruct (in_dec (list_eq_dec N.eq_dec) id (ids l)); tauto.
Qed.

Lemma has_false id l : has id l = false <-> ~ In id (ids l).
Proof.
  unfold has. rewrite <- mem_str_In. destruct (mem_str id (ids l)); split; congruence.
Qed.

Lemma iset_get_lookup id l : iset_get id l = lookup id l.
Proof.
  induction l as [|r t IH]; cbn [iset_get lookup find]; [reflexivity|].
  destruct (str_eqb id (rid r)); [reflexivity|exact IH].
Qed.

Lemma lookup_some id l r : lookup id l = Some r -> In r l /\ rid r = id.
Proof.
  unfold lookup. intros H. apply find_some in H as [H1 H2]. apply str_eqb_eq in H2. auto.
Qed.

Lemma lookup_none id l : lookup id l = None <-> ~ In id (ids l).
Proof.
  induction l as [|r t IH]; cbn [lookup find ids map In]; [tauto|].
  dse id (rid r).
  - split; [discriminate|]. intros H; exfalso; apply H; now left.
  - fold (lookup id t). rewrite IH. cbn [ids]. split; [intros H [X|X]; [congruence|tauto]|tauto].
Qed.

Lemma lookup_has id l : has id l = match lookup id l with Some _ => true | None => false end.
Proof.
  destruct (lookup id l) eqn:E.
  - apply lookup_some in E as [E1 E2]. unfold has. apply mem_str_In. subst id. now apply in_map.
  - apply lookup_none in E. now apply has_false.
Qed.

Lemma precedes_index a b l ia ib :
  get_index_of a l = Some ia -> get_index_of b l = Some ib -> precedes a b l = (ia <? ib).
Proof.
  revert ia ib; induction l as [|r t IH]; intros ia ib Ha Hb; cbn [get_index_of precedes] in *;
    [discriminate|].
  dse a (rid r).
  - injection Ha as <-. dse b (rid r).
    + injection Hb as <-. reflexivity.
    + destruct (get_index_of b t) as [j|] eqn:E; [|discriminate]. injection Hb as <-.
      cbn [negb andb]. assert (X : has b t = true) by (apply has_index; congruence).
      now rewrite X.
  - destruct (get_index_of a t) as [i|]; [|discriminate]. injection Ha as <-.
    dse b (rid r).
    + injection Hb as <-. reflexivity.
    + destruct (get_index_of b t) as [j|]; [|discriminate]. injection Hb as <-.
      rewrite (IH i j eq_refl eq_refl). reflexivity.
Qed.

(* ------------------------------------------------------------------------------------- *)
(** * replace_full *)

Lemma replace_full_new x l :
  ~ In (rid x) (ids l) -> replace_full x l = (len l, None, l ++ [x]).
Proof.
  induction l as [|r t IH]; intros NI; cbn [replace_full]; [reflexivity|].
  cbn [ids map In] in NI. dse (rid x) (rid r); [exfalso; apply NI; left; congruence|].
  rewrite IH by tauto. reflexivity.
Qed.

Lemma replace_full_old x l1 old l2 :
  ~ In (rid x) (ids l1) -> rid old = rid x ->
  replace_full x (l1 ++ old :: l2) = (len l1, Some old, l1 ++ x :: l2).
Proof.
  induction l1 as [|r t IH]; intros NI E; cbn [replace_full app List.length].
  - rewrite E, str_eqb_refl. reflexivity.
  - cbn [ids map In] in NI. dse (rid x) (rid r); [exfalso; apply NI; left; congruence|].
    rewrite IH by tauto. reflexivity.
Qed.

(** Shape facts that need no uniqueness of ids (used for "no operation panics"). *)
Lemma replace_full_shape x l :
  let '(from, replaced, l') := replace_full x l in
  match replaced with
  | None => from = len l /\ len l' = S (len l)
  | Some _ => from < len l /\ len l' = len l
  end.
Proof.
  induction l as [|r t IH]; cbn [replace_full]; [cbn; auto|].
  destruct (str_eqb (rid x) (rid r)); [cbn [List.length]; lia|].
  destruct (replace_full x t) as [[i o] t']. destruct o; cbn [List.length]; lia.
Qed.

(* ------------------------------------------------------------------------------------- *)
(** * move_index *)

Lemma rotate_right1_snoc (s : list rule) x : rotate_right1 (s ++ [x]) = x :: s.
Proof. unfold rotate_right1. rewrite rev_app_distr. cbn [rev app]. now rewrite rev_involutive. Qed.

(** Moving the entry at [len l1] to index [to] = taking it out and inserting it at [to]. *)
Lemma move_index_take_insert l1 x l2 to :
  to <= len (l1 ++ l2) ->
  move_index (len l1) to (l1 ++ x :: l2) = Ok (insert_at to x (l1 ++ l2)).
Proof.
  intros Hto. rewrite app_length in Hto. unfold move_index.
  rewrite app_length. cbn [List.length].
  replace (len l1 <? len l1 + S (len l2)) with true by (symmetry; apply Nat.ltb_lt; lia).
  cbn [negb].
  destruct (Nat.eqb_spec (len l1) to) as [<-|Hne].
  - now rewrite insert_at_app.
  - replace (to <? len l1 + S (len l2)) with true by (symmetry; apply Nat.ltb_lt; lia).
    cbn [negb].
    destruct (Nat.ltb_spec (len l1) to) as [Hlt|Hge]; f_equal.
    + (* towards the end: l2 = a ++ b with |a| = to - |l1| *)
      destruct (split_at l2 (to - len l1)) as (a & b & -> & La); [lia|].
      unfold on_slice.
      rewrite (firstn_len_app l1 _ _ eq_refl).
      rewrite (skipn_len_app l1 _ _ eq_refl).
      replace (S to - len l1) with (len (x :: a)) by (cbn [List.length]; lia).
      change (x :: a ++ b) with ((x :: a) ++ b).
      rewrite (firstn_len_app (x :: a) b _ eq_refl).
      replace (l1 ++ (x :: a) ++ b) with ((l1 ++ x :: a) ++ b) by now rewrite <- app_assoc.
      rewrite (skipn_len_app (l1 ++ x :: a) b) by (rewrite app_length; cbn [List.length]; lia).
      cbn [rotate_left1].
      rewrite (app_assoc l1 a b). rewrite (insert_at_app (l1 ++ a) b) by (rewrite app_length; lia).
      now rewrite <- !app_assoc.
    + (* towards the front: l1 = a ++ b with |a| = to *)
      destruct (split_at l1 to) as (a & b & -> & La); [lia|].
      unfold on_slice. rewrite <- !app_assoc.
      rewrite (firstn_len_app a _ _ (eq_sym La)).
      rewrite (skipn_len_app a _ _ (eq_sym La)).
      rewrite app_length.
      replace (S (len a + len b) - to) with (len (b ++ [x])) by (rewrite app_length; cbn [List.length]; lia).
      replace (b ++ x :: l2) with ((b ++ [x]) ++ l2) by (rewrite <- app_assoc; reflexivity).
      rewrite (firstn_len_app (b ++ [x]) l2 _ eq_refl).
      rewrite rotate_right1_snoc.
      replace (a ++ (b ++ [x]) ++ l2) with ((a ++ b ++ [x]) ++ l2) by now rewrite <- !app_assoc.
      rewrite (skipn_len_app (a ++ b ++ [x]) l2) by (rewrite !app_length; cbn [List.length]; lia).
      rewrite (insert_at_app a (b ++ l2) x to (eq_sym La)).
      reflexivity.
Qed.

Lemma move_index_not_err from to l e : move_index from to l <> Err e.
Proof.
  unfold move_index.
  destruct (negb (from <? len l)); [discriminate|].
  destruct (from =? to); [discriminate|].
  destruct (negb (to <? len l)); [discriminate|].
  destruct (from <? to); discriminate.
Qed.

Lemma move_index_no_panic from to l :
  from < len l -> to < len l -> exists l', move_index from to l = Ok l'.
Proof.
  intros H1 H2. unfold move_index.
  replace (from <? len l) with true by (symmetry; apply Nat.ltb_lt; lia).
  replace (to <? len l) with true by (symmetry; apply Nat.ltb_lt; lia).
  cbn [negb]. destruct (from =? to); [eauto|]. destruct (from <? to); eauto.
Qed.

(* ------------------------------------------------------------------------------------- *)
(** * The specification's placement functions as insertions at an index *)

Lemma put_after_index a x m j :
  get_index_of a m = Some j -> put_after a x m = insert_at (S j) x m.
Proof.
  revert j; induction m as [|r t IH]; intros j H; cbn [get_index_of put_after] in *; [discriminate|].
  dse a (rid r).
  - injection H as <-. reflexivity.
  - destruct (get_index_of a t) as [i|]; [|discriminate]. injection H as <-.
    rewrite (IH i eq_refl). reflexivity.
Qed.

Lemma put_before_index b x m j :
  get_index_of b m = Some j -> put_before b x m = insert_at j x m.
Proof.
  revert j; induction m as [|r t IH]; intros j H; cbn [get_index_of put_before] in *; [discriminate|].
  dse b (rid r).
  - injection H as <-. reflexivity.
  - destruct (get_index_of b t) as [i|]; [|discriminate]. injection H as <-.
    rewrite (IH i eq_refl). reflexivity.
Qed.

Lemma take_out_notin id l : ~ In id (ids l) -> take_out id l = l.
Proof.
  induction l as [|r t IH]; intros NI; cbn [take_out filter]; [reflexivity|].
  cbn [ids map In] in NI. dse id (rid r); [tauto|]. cbn [negb]. fold (take_out id t).
  rewrite IH by tauto. reflexivity.
Qed.

Lemma take_out_split id l1 old l2 :
  rid old = id -> ~ In id (ids l1) -> ~ In id (ids l2) ->
  take_out id (l1 ++ old :: l2) = l1 ++ l2.
Proof.
  intros E N1 N2. unfold take_out. rewrite filter_app. cbn [filter].
  rewrite E, str_eqb_refl. cbn [negb].
  fold (take_out id l1) (take_out id l2). now rewrite !take_out_notin.
Qed.

Lemma in_place_notin x l : ~ In (rid x) (ids l) -> in_place x l = l.
Proof.
  induction l as [|r t IH]; intros NI; cbn [in_place map]; [reflexivity|].
  cbn [ids map In] in NI. dse (rid x) (rid r); [exfalso; apply NI; left; congruence|].
  fold (in_place x t). rewrite IH by tauto. reflexivity.
Qed.

Lemma in_place_split x l1 old l2 :
  rid old = rid x -> ~ In (rid x) (ids l1) -> ~ In (rid x) (ids l2) ->
  in_place x (l1 ++ old :: l2) = l1 ++ x :: l2.
Proof.
  intros E N1 N2. unfold in_place. rewrite map_app. cbn [map].
  rewrite E, str_eqb_refl. fold (in_place x l1) (in_place x l2). now rewrite !in_place_notin.
Qed.

(** ids of a duplicate-free list split around one of its members. *)
Lemma nodup_split (l1 : list rule) r l2 :
  NoDup (ids (l1 ++ r :: l2)) ->
  ~ In (rid r) (ids l1) /\ ~ In (rid r) (ids l2) /\ NoDup (ids (l1 ++ l2)).
Proof.
  unfold ids. rewrite !map_app. cbn [map]. intros H.
  pose proof (NoDup_remove_2 _ _ _ H) as NI. pose proof (NoDup_remove_1 _ _ _ H) as ND.
  rewrite in_app_iff in NI. tauto.
Qed.

(** Index of another rule once the rule at [len l1] is taken out. *)
Lemma index_without a l1 old l2 ia :
  a <> rid old ->
  get_index_of a (l1 ++ old :: l2) = Some ia ->
  get_index_of a (l1 ++ l2) = Some (if ia <? len l1 then ia else ia - 1) /\ ia <> len l1.
Proof.
  intros Hne H.
  destruct (get_index_of a l1) as [i|] eqn:E1.
  - rewrite (get_index_of_app_in _ _ _ _ E1) in H. injection H as <-.
    rewrite (get_index_of_app_in _ _ _ _ E1).
    pose proof (get_index_of_lt _ _ _ E1) as L.
    replace (i <? len l1) with true by (symmetry; apply Nat.ltb_lt; lia). split; [reflexivity|lia].
  - apply get_index_of_none in E1.
    rewrite get_index_of_app_notin in H by exact E1.
    rewrite get_index_of_app_notin by exact E1.
    cbn [get_index_of] in H. dse a (rid old); [congruence|].
    destruct (get_index_of a l2) as [j|]; [|discriminate]. cbn [option_map] in *.
    injection H as <-.
    replace (len l1 + S j <? len l1) with false by (symmetry; apply Nat.ltb_ge; lia).
    split; [f_equal; lia|lia].
Qed.
