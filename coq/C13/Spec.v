(** C13.Spec — the placement semantics of push ruleset edits, as the property text and the
    doc comment of [Ruleset::insert] state them (DESIGN.md section 6, C13), on plain lists and
    independently of the code's structure (no indices, no [replace_full]/[move_index]).

    A kind is a list of rules, most important first.  For an insertion of rule [x]:
    - "taking [x] out" of the list is [take_out]; every placement is stated on that list,
      which is what "immediately after/before the referenced rule" means;
    - [after a]  : [x] ends immediately after [a];   [before b] : immediately before [b];
      both: immediately before [b], and [b] must come strictly later than [a];
    - an anchor must be a rule of the kind as it is before the call; an anchor that is [x]
      itself keeps [x] where it is (there is no other place "next to itself");
    - no anchor: an existing rule keeps its place; a new one becomes the first of its kind —
      for overrides the second, after the rule that heads the kind (`.m.rule.master` in a
      server-default ruleset), and the first when the kind is empty;
    - a replaced rule keeps its [enabled] flag; a new rule is enabled; neither is a default rule;
    - rule ids starting with `.` cannot be inserted or used as anchors; ids containing `/`
      or `\` cannot be inserted.
    A failing operation may report any of the errors that apply and must leave the ruleset
    as it was. *)
From Base Require Import Prelude.
From C13 Require Import Types.

Definition ids (l : list rule) : list str := map rid l.

Definition has (id : str) (l : list rule) : bool := mem_str id (ids l).

Definition lookup (id : str) (l : list rule) : option rule :=
  find (fun r => str_eqb id (rid r)) l.

(** The list without the rule(s) called [id]. *)
Definition take_out (id : str) (l : list rule) : list rule :=
  filter (fun r => negb (str_eqb id (rid r))) l.

(** [x] immediately after / before the rule called [a]. *)
Fixpoint put_after (a : str) (x : rule) (l : list rule) : list rule :=
  match l with
  | [] => []
  | r :: t => if str_eqb a (rid r) then r :: x :: t else r :: put_after a x t
  end.

Fixpoint put_before (b : str) (x : rule) (l : list rule) : list rule :=
  match l with
  | [] => []
  | r :: t => if str_eqb b (rid r) then x :: r :: t else r :: put_before b x t
  end.

(** [x] where the rule with its id is now. *)
Definition in_place (x : rule) (l : list rule) : list rule :=
  map (fun r => if str_eqb (rid x) (rid r) then x else r) l.

(** [a] comes strictly earlier than [b]. *)
Fixpoint precedes (a b : str) (l : list rule) : bool :=
  match l with
  | [] => false
  | r :: t => if str_eqb a (rid r) then negb (str_eqb b (rid r)) && has b t
              else if str_eqb b (rid r) then false else precedes a b t
  end.

Definition anchor_missing (o : option str) (l : list rule) : bool :=
  match o with Some a => negb (has a l) | None => false end.

(** Every error that applies to an insertion (empty = the insertion must succeed). *)
Definition insert_errors (l : list rule) (id : str) (after before : option str) : list N :=
  (if is_dot id then [E_server_default_rule_id] else [])
  ++ (if contains_byte byte_slash id || contains_byte byte_backslash id then [E_invalid_rule_id] else [])
  ++ (if opt_is_dot after || opt_is_dot before then [E_relative_to_default] else [])
  ++ (if anchor_missing after l || anchor_missing before l then [E_unknown_rule_id] else [])
  ++ (match after, before with
      | Some a, Some b => if has a l && has b l && negb (precedes a b l) then [E_before_higher] else []
      | _, _ => []
      end).

(** The rule an insertion stores. *)
Definition inserted_rule (l : list rule) (id actions payload : str) : rule :=
  mkRule id false (match lookup id l with Some old => renabled old | None => true end) actions payload.

(** The order after a successful insertion of [x]. *)
Definition placed (k : kind) (l : list rule) (x : rule) (after before : option str) : list rule :=
  let rest := take_out (rid x) l in
  match before, after with
  | Some b, _ => if str_eqb b (rid x) then in_place x l else put_before b x rest
  | None, Some a => if str_eqb a (rid x) then in_place x l else put_after a x rest
  | None, None =>
      if has (rid x) l then in_place x l
      else match k, l with
           | KOverride, first :: t => first :: x :: t
           | _, _ => x :: l
           end
  end.

(** What an operation must do. *)
Inductive verdict :=
| MustFail (allowed : list N)     (* an error among [allowed]; ruleset unchanged *)
| MustBe (rs : ruleset).          (* success with exactly this ruleset *)

Definition update_rule (id : str) (f : rule -> rule) (l : list rule) : list rule :=
  map (fun r => if str_eqb id (rid r) then f r else r) l.

Definition spec_update (rs : ruleset) (k : rkind) (id : str) (f : rule -> rule) : verdict :=
  match k with
  | RKCustom => MustFail [E_rule_not_found]
  | RK k => let l := get_kind k rs in
            if has id l then MustBe (set_kind k (update_rule id f l) rs)
            else MustFail [E_rule_not_found]
  end.

Definition spec_step (rs : ruleset) (o : op) : verdict :=
  match o with
  | OInsert k id actions payload after before =>
      let l := get_kind k rs in
      match insert_errors l id after before with
      | [] => MustBe (set_kind k (placed k l (inserted_rule l id actions payload) after before) rs)
      | errs => MustFail errs
      end
  | ORemove k id =>
      match k with
      | RKCustom => MustFail [E_remove_not_found]
      | RK k => let l := get_kind k rs in
                match lookup id l with
                | None => MustFail [E_remove_not_found]
                | Some r => if rdefault r then MustFail [E_remove_default]
                            else MustBe (set_kind k (take_out id l) rs)
                end
      end
  | OSetEnabled k id b =>
      spec_update rs k id (fun r => mkRule (rid r) (rdefault r) b (ractions r) (rpayload r))
  | OSetActions k id a =>
      spec_update rs k id (fun r => mkRule (rid r) (rdefault r) (renabled r) a (rpayload r))
  end.

(** An observed step (ruleset left behind, result) satisfies a verdict. *)
Definition satisfies (v : verdict) (pre : ruleset) (out : ruleset * outcome unit) : Prop :=
  match v with
  | MustFail allowed => exists e, snd out = Err e /\ In e allowed /\ fst out = pre
  | MustBe rs' => snd out = Ok tt /\ fst out = rs'
  end.

(** The same as a boolean, for the failing-input search on the implementation. *)
Definition rule_eqb (a b : rule) : bool :=
  str_eqb (rid a) (rid b) && Bool.eqb (rdefault a) (rdefault b) && Bool.eqb (renabled a) (renabled b)
  && str_eqb (ractions a) (ractions b) && str_eqb (rpayload a) (rpayload b).

Fixpoint rules_eqb (a b : list rule) : bool :=
  match a, b with
  | [], [] => true
  | x :: a', y :: b' => rule_eqb x y && rules_eqb a' b'
  | _, _ => false
  end.

Definition ruleset_eqb (a b : ruleset) : bool :=
  forallb (fun k => rules_eqb (get_kind k a) (get_kind k b)) all_kinds.

Definition satisfiesb (v : verdict) (pre : ruleset) (post : ruleset) (res : outcome unit) : bool :=
  match v, res with
  | MustFail allowed, Err e => existsb (N.eqb e) allowed && ruleset_eqb post pre
  | MustBe rs', Ok _ => ruleset_eqb post rs'
  | _, _ => false
  end.

(** Observations: [Ruleset::get] finds the rule of that kind with that id; [Ruleset::iter]
    lists override, content, room, sender, underride rules in their order. *)
Definition spec_get (rs : ruleset) (k : rkind) (id : str) : option rule :=
  match k with RK k => lookup id (get_kind k rs) | RKCustom => None end.
