(** C13.Model — executable model of ruma's push ruleset edits
    (crates/ruma-common/src/push.rs, as repaired by the `fix:` commit recorded in
    known_findings.d/C13.json; line numbers refer to that file).

    [IndexSet<T>] (indexmap 2.14) with [Hash]/[Eq]/[Equivalent<T> for str] all by [rule_id]
    (push.rs:418-445, 560-578, 667-685) is a list of rules in index order; lookups by key find
    the entry with that rule id.  Out-of-bounds indices are explicit [Panic] outcomes, exactly
    where indexmap asserts.  Every operation returns the ruleset it leaves behind *and* its
    result, so a mutation that precedes an early [Err] return would be visible.  No proofs here. *)
From Base Require Import Prelude.
From C13 Require Import Types.
From Gen Require C13Defaults.

(* ------------------------------------------------------------------------------------- *)
(** * indexmap::IndexSet *)

(** [IndexSet::get_index_of(&str)] (set.rs; map/inner.rs [get_index_of]). *)
Fixpoint get_index_of (id : str) (l : list rule) : option nat :=
  match l with
  | [] => None
  | r :: t => if str_eqb id (rid r) then Some 0%nat
              else match get_index_of id t with Some i => Some (S i) | None => None end
  end.

(** [IndexSet::get(&str)]. *)
Fixpoint iset_get (id : str) (l : list rule) : option rule :=
  match l with
  | [] => None
  | r :: t => if str_eqb id (rid r) then Some r else iset_get id t
  end.

(** [IndexSet::replace_full(value)] (set.rs:588, inner.rs:352-381): an equal entry is
    overwritten in place and returned with its index; otherwise the value is pushed at the
    end and its index is the old length. *)
Fixpoint replace_full (x : rule) (l : list rule) : nat * option rule * list rule :=
  match l with
  | [] => (0%nat, None, [x])
  | r :: t =>
      if str_eqb (rid x) (rid r) then (0%nat, Some r, x :: t)
      else let '(i, o, t') := replace_full x t in (S i, o, r :: t')
  end.

(** [slice.rotate_left(1)] / [slice.rotate_right(1)]. *)
Definition rotate_left1 (l : list rule) : list rule :=
  match l with [] => [] | x :: t => t ++ [x] end.
Definition rotate_right1 (l : list rule) : list rule :=
  match rev l with [] => [] | x :: t => x :: rev t end.

(** [entries[lo..=hi].op()] applied in place. *)
Definition on_slice (lo hi : nat) (f : list rule -> list rule) (l : list rule) : list rule :=
  firstn lo l ++ f (firstn (S hi - lo) (skipn lo l)) ++ skipn (S hi) l.

(** [IndexSet::move_index(from, to)] (set.rs:1234, inner.rs:649-675): asserts [from < len];
    when [from != to] asserts [to < len] and rotates the entries in between. *)
Definition move_index (from to : nat) (l : list rule) : outcome (list rule) :=
  if negb (from <? List.length l)%nat then Panic 1          (* assert_index_lt(from, len) *)
  else if (from =? to)%nat then Ok l
  else if negb (to <? List.length l)%nat then Panic 2       (* assert_index_lt(to, len) *)
  else if (from <? to)%nat then Ok (on_slice from to rotate_left1 l)
  else Ok (on_slice to from rotate_right1 l).

(** [IndexSet::shift_remove(&str)]. *)
Fixpoint shift_remove (id : str) (l : list rule) : list rule :=
  match l with
  | [] => []
  | r :: t => if str_eqb id (rid r) then t else r :: shift_remove id t
  end.

(* ------------------------------------------------------------------------------------- *)
(** * push.rs *)

(** [insert_and_move_rule] (push.rs:919-962).  The target slot is resolved against the set
    as it is before the insertion; only then is the set touched. *)
Definition insert_and_move_rule (set : list rule) (x : rule) (default_position : nat)
    (after before : option str) : list rule * outcome unit :=
  (* let mut to = default_position.min(set.len()); *)
  let to0 := Nat.min default_position (List.length set) in
  (* if let Some(rule_id) = after { idx = get_index_of(rule_id).ok_or(UnknownRuleId)?; to = idx + 1 } *)
  let to1 : outcome nat :=
    match after with
    | Some a => match get_index_of a set with
                | Some idx => Ok (S idx)
                | None => Err E_unknown_rule_id
                end
    | None => Ok to0
    end in
  match to1 with
  | Err e => (set, Err e)
  | Panic p => (set, Panic p)
  | Ok to1 =>
    (* if let Some(rule_id) = before { idx = ...?;
         if after.is_some() && idx < to { return Err(BeforeHigherThanAfter) } to = idx } *)
    let to2 : outcome nat :=
      match before with
      | Some b => match get_index_of b set with
                  | Some idx => if is_some after && (idx <? to1)%nat then Err E_before_higher else Ok idx
                  | None => Err E_unknown_rule_id
                  end
      | None => Ok to1
      end in
    match to2 with
    | Err e => (set, Err e)
    | Panic p => (set, Panic p)
    | Ok to =>
      (* let (from, replaced) = set.replace_full(rule); *)
      let '(from, replaced, set1) := replace_full x set in
      (* Only move the item if it's new or if it was positioned. *)
      if is_none replaced || is_some after || is_some before then
        (* if from < to { to -= 1 }  -- taking the rule out of a lower index shifts the slot *)
        let to' := if (from <? to)%nat then (to - 1)%nat else to in
        match move_index from to' set1 with
        | Ok set2 => (set2, Ok tt)
        | Err e => (set1, Err e)
        | Panic p => (set1, Panic p)
        end
      else (set1, Ok tt)
    end
  end.

(** [Ruleset::insert] (push.rs:105-179). *)
Definition rs_insert (rs : ruleset) (k : kind) (id actions payload : str)
    (after before : option str) : ruleset * outcome unit :=
  if is_dot id then (rs, Err E_server_default_rule_id)
  else if contains_byte byte_slash id then (rs, Err E_invalid_rule_id)
  else if contains_byte byte_backslash id then (rs, Err E_invalid_rule_id)
  else if opt_is_dot after then (rs, Err E_relative_to_default)
  else if opt_is_dot before then (rs, Err E_relative_to_default)
  else
    let set := get_kind k rs in
    (* XxxPushRule::from(new rule): default: false, enabled: true (push.rs:818-852, 880-885) *)
    let enabled := match iset_get id set with Some prev => renabled prev | None => true end in
    let x := mkRule id false enabled actions payload in
    (* `.m.rule.master` stays first: overrides go at most to the second place *)
    let default_position := match k with KOverride => 1%nat | _ => 0%nat end in
    let '(set', res) := insert_and_move_rule set x default_position after before in
    (set_kind k set' rs, res).

(** [Ruleset::get] (push.rs:182-193). *)
Definition rs_get (rs : ruleset) (k : rkind) (id : str) : option rule :=
  match k with
  | RK k => iset_get id (get_kind k rs)
  | RKCustom => None
  end.

(** [set.get(id).ok_or(RuleNotFoundError)?.clone()], update, [set.replace(rule)]. *)
Definition rs_update (rs : ruleset) (k : rkind) (id : str) (f : rule -> rule)
    : ruleset * outcome unit :=
  match k with
  | RK k =>
      let set := get_kind k rs in
      match iset_get id set with
      | None => (rs, Err E_rule_not_found)
      | Some r => let '(_, _, set') := replace_full (f r) set in (set_kind k set' rs, Ok tt)
      end
  | RKCustom => (rs, Err E_rule_not_found)
  end.

(** [Ruleset::set_enabled] (push.rs:199-237). *)
Definition rs_set_enabled (rs : ruleset) (k : rkind) (id : str) (enabled : bool) :=
  rs_update rs k id (fun r => mkRule (rid r) (rdefault r) enabled (ractions r) (rpayload r)).

(** [Ruleset::set_actions] (push.rs:243-281). *)
Definition rs_set_actions (rs : ruleset) (k : rkind) (id : str) (actions : str) :=
  rs_update rs k id (fun r => mkRule (rid r) (rdefault r) (renabled r) actions (rpayload r)).

(** [Ruleset::remove] (push.rs:321-357). *)
Definition rs_remove (rs : ruleset) (k : rkind) (id : str) : ruleset * outcome unit :=
  match rs_get rs k id with
  | Some r =>
      if rdefault r then (rs, Err E_remove_default)
      else match k with
           | RK k => (set_kind k (shift_remove id (get_kind k rs)) rs, Ok tt)
           | RKCustom => (rs, Panic 3)                  (* unreachable!() *)
           end
  | None => (rs, Err E_remove_not_found)
  end.

Definition step (rs : ruleset) (o : op) : ruleset * outcome unit :=
  match o with
  | OInsert k id actions payload after before => rs_insert rs k id actions payload after before
  | ORemove k id => rs_remove rs k id
  | OSetEnabled k id b => rs_set_enabled rs k id b
  | OSetActions k id a => rs_set_actions rs k id a
  end.

(** The ruleset left by a sequence of operations (whatever their results). *)
Definition run_ops (init : ruleset) (ops : list op) : ruleset :=
  fold_left (fun s o => fst (step s o)) ops init.

(** [Ruleset::iter] (iter.rs:236-262): the kinds one after the other. *)
Definition rs_iter (rs : ruleset) : list (kind * rule) :=
  flat_map (fun k => map (fun r => (k, r)) (get_kind k rs)) all_kinds.

(** [Ruleset::server_default(user_id)] (push/predefined.rs:22-66) for the harness's user id,
    regenerated on every run from the compiled code into [Gen.C13Defaults]. *)
Definition of_raw (t : str * bool * bool * str * str) : rule :=
  let '(id, d, e, a, p) := t in mkRule id d e a p.

Definition server_default : ruleset :=
  mkRs (map of_raw C13Defaults.default_override) (map of_raw C13Defaults.default_content)
       (map of_raw C13Defaults.default_room) (map of_raw C13Defaults.default_sender)
       (map of_raw C13Defaults.default_underride).
