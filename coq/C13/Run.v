(** C13.Run — case decoding, model run, and the spec predicate evaluated step by step on
    the IMPLEMENTATION's observed states (the failing-input search).  See harness/src/c13.rs
    for the wire format. *)
From Base Require Import Prelude Sx.
From C13 Require Import Types Model Spec.

Inductive cmd :=
| COp (o : op)
| CDump
| CGet (k : rkind) (id : str).

Definition kind_of_N (n : N) : option kind :=
  if n =? 0 then Some KOverride else if n =? 1 then Some KContent else if n =? 2 then Some KRoom
  else if n =? 3 then Some KSender else if n =? 4 then Some KUnderride else None.

Definition rkind_of_N (n : N) : option rkind :=
  if n =? 5 then Some RKCustom else option_map RK (kind_of_N n).

Definition N_of_kind (k : kind) : N :=
  match k with KOverride => 0 | KContent => 1 | KRoom => 2 | KSender => 3 | KUnderride => 4 end.

Definition as_kind (x : sx) : option kind := match as_N x with Some n => kind_of_N n | None => None end.
Definition as_rkind (x : sx) : option rkind := match as_N x with Some n => rkind_of_N n | None => None end.

Definition cmd_of_sx (x : sx) : option cmd :=
  match x with
  | SL [SN 0%Z; k; SS id; SS a; SS p; af; bf] =>
      match as_kind k, as_opt as_str af, as_opt as_str bf with
      | Some k, Some af, Some bf => Some (COp (OInsert k id a p af bf))
      | _, _, _ => None
      end
  | SL [SN 1%Z; k; SS id] => option_map (fun k => COp (ORemove k id)) (as_rkind k)
  | SL [SN 2%Z; k; SS id; b] =>
      match as_rkind k, as_bool b with
      | Some k, Some b => Some (COp (OSetEnabled k id b))
      | _, _ => None
      end
  | SL [SN 3%Z; k; SS id; SS a] => option_map (fun k => COp (OSetActions k id a)) (as_rkind k)
  | SL [SN 4%Z] => Some CDump
  | SL [SN 5%Z; k; SS id] => option_map (fun k => CGet k id) (as_rkind k)
  | _ => None
  end.

Definition start_of_N (n : N) : option ruleset :=
  if n =? 0 then Some empty_ruleset else if n =? 1 then Some server_default else None.

(* ------------------------------------------------------------------------------------- *)
(** * Encoding of observations (must equal the harness's, textually) *)

Definition sx_rule (r : rule) : sx :=
  SL [SS (rid r); sx_bool (rdefault r); sx_bool (renabled r); SS (ractions r); SS (rpayload r)].

Definition sx_res (o : outcome unit) : sx :=
  match o with
  | Ok _ => SL [SN 0%Z]
  | Err e => SL [SN 1%Z; sx_N e]
  | Panic _ => SL [SN 2%Z]
  end.

(** One kind's entry: all ids in order, and the records not present identically before. *)
Definition sx_kind (k : kind) (new : list rule) (old : option (list rule)) : sx :=
  SL [sx_N (N_of_kind k);
      SL (map (fun r => SS (rid r)) new);
      SL (map sx_rule (filter (fun r => match old with
                                        | Some o => negb (existsb (rule_eqb r) o)
                                        | None => true
                                        end) new))].

Definition sx_delta (full : bool) (old new : ruleset) : sx :=
  SL (flat_map (fun k =>
        let (o, n) := (get_kind k old, get_kind k new) in
        if full then [sx_kind k n None]
        else if rules_eqb n o then [] else [sx_kind k n (Some o)]) all_kinds).

(* ------------------------------------------------------------------------------------- *)
(** * The model on a case *)

Definition model_cmd (s : ruleset) (c : cmd) : ruleset * outcome unit * list sx :=
  match c with
  | COp o => let (s', r) := step s o in (s', r, [])
  | CDump => (s, Ok tt, [])
  | CGet k id => (s, Ok tt, [sx_opt sx_rule (rs_get s k id)])
  end.

(** Returns [None] on a panic; otherwise the steps and the last operation's result. *)
Fixpoint model_run (s : ruleset) (cs : list cmd) (last : outcome unit) (acc : list sx)
    : option (list sx * outcome unit) :=
  match cs with
  | [] => Some (rev acc, last)
  | c :: cs' =>
      let '(s', r, obs) := model_cmd s c in
      match r with
      | Panic _ => None
      | _ =>
          let full := match c with CDump => true | _ => false end in
          let st := SL [sx_res r; sx_delta full s s'; SL obs] in
          let last' := match c with COp _ => r | _ => last end in
          model_run s' cs' last' (st :: acc)
      end
  end.

Definition model_out (s0 : ruleset) (cs : list cmd) : sx :=
  match model_run s0 cs (Ok tt) [] with
  | None => SL [SN 2%Z]
  | Some (steps, Err e) => SL [SN 1%Z; sx_N e; SL steps]
  | Some (steps, _) => SL [SN 0%Z; SL steps]
  end.

(* ------------------------------------------------------------------------------------- *)
(** * The specification on the implementation's observations *)

Definition rule_of_sx (x : sx) : option rule :=
  match x with
  | SL [SS id; d; e; SS a; SS p] =>
      match as_bool d, as_bool e with
      | Some d, Some e => Some (mkRule id d e a p)
      | _, _ => None
      end
  | _ => None
  end.

Definition res_of_sx (x : sx) : option (outcome unit) :=
  match x with
  | SL [SN 0%Z] => Some (Ok tt)
  | SL [SN 1%Z; e] => option_map (fun e => Err e) (as_N e)
  | _ => None
  end.

(** Rebuild one kind from ( kind ids recs ) and the list before. *)
Definition rebuild (old : list rule) (idl : list str) (recs : list rule) : option (list rule) :=
  map_opt (fun id => match lookup id recs with Some r => Some r | None => lookup id old end) idl.

Fixpoint apply_delta (s : ruleset) (d : list sx) : option ruleset :=
  match d with
  | [] => Some s
  | SL [k; idl; recs] :: d' =>
      match as_kind k, as_list_of as_str idl, as_list_of rule_of_sx recs with
      | Some k, Some idl, Some recs =>
          match rebuild (get_kind k s) idl recs with
          | Some l => apply_delta (set_kind k l s) d'
          | None => None
          end
      | _, _, _ => None
      end
  | _ => None
  end.

Definition opt_rule_eqb (a b : option rule) : bool :=
  match a, b with
  | Some x, Some y => rule_eqb x y
  | None, None => true
  | _, _ => false
  end.

Definition check_step (s : ruleset) (c : cmd) (st : sx) : option ruleset :=
  match st with
  | SL [res; SL delta; SL obs] =>
      match res_of_sx res, apply_delta s delta with
      | Some r, Some s' =>
          let ok :=
            match c with
            | COp o => satisfiesb (spec_step s o) s s' r
            | CDump => is_ok r && ruleset_eqb s' s && (List.length delta =? 5)%nat
            | CGet k id =>
                is_ok r && ruleset_eqb s' s
                && match obs with
                   | [o] => match as_opt rule_of_sx o with
                            | Some got => opt_rule_eqb got (spec_get s k id)
                            | None => false
                            end
                   | _ => false
                   end
            end in
          if ok then Some s' else None
      | _, _ => None
      end
  | _ => None
  end.

Fixpoint check_steps (s : ruleset) (cs : list cmd) (sts : list sx) : bool :=
  match cs, sts with
  | [], [] => true
  | c :: cs', st :: sts' =>
      match check_step s c st with
      | Some s' => check_steps s' cs' sts'
      | None => false
      end
  | _, _ => false
  end.

(** No operation may panic; every step must satisfy the specification's verdict. *)
Definition spec_ok (s0 : ruleset) (cs : list cmd) (impl : sx) : bool :=
  match impl with
  | SL [SN 0%Z; SL sts] => check_steps s0 cs sts
  | SL [SN 1%Z; _; SL sts] => check_steps s0 cs sts
  | _ => false
  end.

(** The specification's start state: every rule the server-default ruleset starts with IS a
    server-default rule, whatever its `default` flag in the compiled table says (the property speaks of
    "the server-default rules", i.e. of where a rule comes from; seed4 C13-2 cleared the flag of one). *)
Definition all_default (rs : ruleset) : ruleset :=
  let f := List.map (fun r => mkRule (rid r) true (renabled r) (ractions r) (rpayload r)) in
  mkRs (f (rs_override rs)) (f (rs_content rs)) (f (rs_room rs)) (f (rs_sender rs)) (f (rs_underride rs)).

Definition run (x : sx) : sx :=
  match x with
  | SL [SL [start; SL ops]; impl] =>
      match as_N start, map_opt cmd_of_sx ops with
      | Some n, Some cs =>
          match start_of_N n with
          | Some s0 => SL [model_out s0 cs; sx_bool (spec_ok (all_default s0) cs impl)]
          | None => sx_bad
          end
      | _, _ => sx_bad
      end
  | _ => sx_bad
  end.
