(** C13.Types — data shared by the model and the specification of push ruleset edits:
    rules, the five kinds, rulesets, operations, error codes.  Strings are byte strings
    (UTF-8); [starts_with('.')] / [contains('/')] on a Rust [&str] are byte tests because the
    characters tested are ASCII and no byte of a multi-byte UTF-8 sequence is below 0x80. *)
From Base Require Import Prelude.

(** One push rule as the edits see it.  [ractions] and [rpayload] are opaque to every edit
    (JSON text of the actions; conditions / pattern / nothing): they are only copied. *)
Record rule := mkRule {
  rid : str;
  rdefault : bool;
  renabled : bool;
  ractions : str;
  rpayload : str
}.

(** push.rs:56-80, in the order [Ruleset::iter] yields them (iter.rs:254-262). *)
Inductive kind := KOverride | KContent | KRoom | KSender | KUnderride.

(** [RuleKind] (push.rs:733-751): the five kinds or [_Custom]. *)
Inductive rkind := RK (k : kind) | RKCustom.

Record ruleset := mkRs {
  rs_override : list rule;
  rs_content : list rule;
  rs_room : list rule;
  rs_sender : list rule;
  rs_underride : list rule
}.

Definition empty_ruleset : ruleset := mkRs [] [] [] [] [].

Definition get_kind (k : kind) (rs : ruleset) : list rule :=
  match k with
  | KOverride => rs_override rs
  | KContent => rs_content rs
  | KRoom => rs_room rs
  | KSender => rs_sender rs
  | KUnderride => rs_underride rs
  end.

Definition set_kind (k : kind) (l : list rule) (rs : ruleset) : ruleset :=
  match k with
  | KOverride => mkRs l (rs_content rs) (rs_room rs) (rs_sender rs) (rs_underride rs)
  | KContent => mkRs (rs_override rs) l (rs_room rs) (rs_sender rs) (rs_underride rs)
  | KRoom => mkRs (rs_override rs) (rs_content rs) l (rs_sender rs) (rs_underride rs)
  | KSender => mkRs (rs_override rs) (rs_content rs) (rs_room rs) l (rs_underride rs)
  | KUnderride => mkRs (rs_override rs) (rs_content rs) (rs_room rs) (rs_sender rs) l
  end.

Definition all_kinds : list kind := [KOverride; KContent; KRoom; KSender; KUnderride].

(** The editing operations of [Ruleset]. *)
Inductive op :=
| OInsert (k : kind) (id actions payload : str) (after before : option str)
| ORemove (k : rkind) (id : str)
| OSetEnabled (k : rkind) (id : str) (enabled : bool)
| OSetActions (k : rkind) (id : str) (actions : str).

(** Error codes (the harness maps the Rust error enums to the same numbers). *)
Definition E_server_default_rule_id : N := 1.   (* InsertPushRuleError::ServerDefaultRuleId *)
Definition E_invalid_rule_id : N := 2.          (* InsertPushRuleError::InvalidRuleId *)
Definition E_relative_to_default : N := 3.      (* InsertPushRuleError::RelativeToServerDefaultRule *)
Definition E_unknown_rule_id : N := 4.          (* InsertPushRuleError::UnknownRuleId *)
Definition E_before_higher : N := 5.            (* InsertPushRuleError::BeforeHigherThanAfter *)
Definition E_remove_default : N := 6.           (* RemovePushRuleError::ServerDefault *)
Definition E_remove_not_found : N := 7.         (* RemovePushRuleError::NotFound *)
Definition E_rule_not_found : N := 8.           (* RuleNotFoundError *)

Definition byte_dot : N := 46.
Definition byte_slash : N := 47.
Definition byte_backslash : N := 92.

(** [s.starts_with('.')] *)
Definition is_dot (s : str) : bool :=
  match s with c :: _ => N.eqb c byte_dot | [] => false end.

(** [s.contains(c)] for an ASCII [c] *)
Definition contains_byte (c : N) (s : str) : bool := existsb (N.eqb c) s.

Definition opt_is_dot (o : option str) : bool :=
  match o with Some s => is_dot s | None => false end.

Definition is_some {A} (o : option A) : bool := match o with Some _ => true | None => false end.
Definition is_none {A} (o : option A) : bool := match o with Some _ => false | None => true end.
