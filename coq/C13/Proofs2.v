(** C13.Proofs2 — [insert_and_move_rule] against the placement specification; no panic and
    atomicity of every operation. *)
From Base Require Import Prelude.
From C13 Require Import Types Model Spec Proofs1.
From Coq Require Import Lia.
Local Open Scope nat_scope.

(* ------------------------------------------------------------------------------------- *)
(** * The two halves of [insert_and_move_rule] *)

Definition target (l : list rule) (dp : nat) (af bf : option str) : outcome nat :=
  match (match af with
         | Some a => match get_index_of a l with
                     | Some idx => Ok (S idx)
                     | None => Err E_unknown_rule_id
                     end
         | None => Ok (Nat.min dp (len l))
         end) with
  | Ok to1 =>
      match bf with
      | Some b => match get_index_of b l with
                  | Some idx => if is_some af && (idx <? to1) then Err E_before_higher else Ok idx
                  | None => Err E_unknown_rule_id
                  end
      | None => Ok to1
      end
  | Err e => Err e
  | Panic p => Panic p
  end.

Definition finish (l : list rule) (x : rule) (af bf : option str) (to : nat)
    : list rule * outcome unit :=
  let '(from, replaced, set1) := replace_full x l in
  if is_none replaced || is_some af || is_some bf then
    let to' := if from <? to then to - 1 else to in
    match move_index from to' set1 with
    | Ok set2 => (set2, Ok tt)
    | Err e => (set1, Err e)
    | Panic p => (set1, Panic p)
    end
  else (set1, Ok tt).

Lemma iam_unfold l x dp af bf :
  insert_and_move_rule l x dp af bf =
  match target l dp af bf with
  | Ok to => finish l x af bf to
  | Err e => (l, Err e)
  | Panic p => (l, Panic p)
  end.
Proof.
  unfold insert_and_move_rule, target, finish.
  destruct af as [a|]; [destruct (get_index_of a l) as [ia|]|]; try reflexivity;
    (destruct bf as [b|]; [destruct (get_index_of b l) as [ib|]|]; try reflexivity).
  all: try (destruct (is_some (Some a) && (ib <? S ia)); reflexivity).
  all: try (destruct (is_some (@None str) && (ib <? Nat.min dp (len l))); reflexivity).
Qed.

Lemma target_bound l dp af bf to : target l dp af bf = Ok to -> to <= len l.
Proof.
  unfold target. intros H.
  destruct af as [a|].
  - destruct (get_index_of a l) as [ia|] eqn:Ea; [|discriminate].
    apply get_index_of_lt in Ea.
    destruct bf as [b|]; [|injection H as <-; lia].
    destruct (get_index_of b l) as [ib|] eqn:Eb; [|discriminate].
    apply get_index_of_lt in Eb.
    destruct (is_some (Some a) && (ib <? S ia)); [discriminate|]. injection H as <-. lia.
  - destruct bf as [b|]; [|injection H as <-; lia].
    destruct (get_index_of b l) as [ib|] eqn:Eb; [|discriminate].
    apply get_index_of_lt in Eb.
    destruct (is_some (@None str) && (ib <? Nat.min dp (len l))); [discriminate|].
    injection H as <-. lia.
Qed.

Lemma target_no_panic l dp af bf p : target l dp af bf <> Panic p.
Proof.
  unfold target.
  destruct af as [a|]; [destruct (get_index_of a l) as [ia|]|]; try discriminate;
    (destruct bf as [b|]; [destruct (get_index_of b l) as [ib|]|]; try discriminate).
  all: try (destruct (is_some (Some a) && (ib <? S ia)); discriminate).
  all: try (destruct (is_some (@None str) && (ib <? Nat.min dp (len l))); discriminate).
Qed.

(** Whatever the set (duplicate ids or not), the second half neither fails nor panics. *)
Lemma finish_ok_any l x af bf to : to <= len l -> exists l', finish l x af bf to = (l', Ok tt).
Proof.
  intros Hto. unfold finish. pose proof (replace_full_shape x l) as S.
  destruct (replace_full x l) as [[from replaced] set1].
  destruct (is_none replaced || is_some af || is_some bf); [|eauto].
  destruct (move_index_no_panic from (if from <? to then to - 1 else to) set1) as (l' & ->); [| |eauto].
  - destruct replaced; lia.
  - destruct (Nat.ltb_spec from to); destruct replaced; lia.
Qed.

Lemma finish_new l x af bf to :
  ~ In (rid x) (ids l) -> to <= len l -> finish l x af bf to = (insert_at to x l, Ok tt).
Proof.
  intros NI Hto. unfold finish. rewrite (replace_full_new x l NI). cbn [is_none orb].
  replace (len l <? to) with false by (symmetry; apply Nat.ltb_ge; lia).
  change (l ++ [x]) with (l ++ x :: []).
  rewrite (move_index_take_insert l x [] to) by (rewrite app_nil_r; exact Hto).
  now rewrite app_nil_r.
Qed.

Lemma finish_old_unpositioned l1 old l2 x to :
  ~ In (rid x) (ids l1) -> rid old = rid x ->
  finish (l1 ++ old :: l2) x None None to = (l1 ++ x :: l2, Ok tt).
Proof.
  intros NI E. unfold finish. rewrite (replace_full_old x l1 old l2 NI E). reflexivity.
Qed.

Lemma finish_old_positioned l1 old l2 x af bf to :
  ~ In (rid x) (ids l1) -> rid old = rid x -> is_some af || is_some bf = true ->
  (if len l1 <? to then to - 1 else to) <= len (l1 ++ l2) ->
  finish (l1 ++ old :: l2) x af bf to =
  (insert_at (if len l1 <? to then to - 1 else to) x (l1 ++ l2), Ok tt).
Proof.
  intros NI E P B. unfold finish. rewrite (replace_full_old x l1 old l2 NI E).
  cbn [is_none]. rewrite <- orb_assoc, P. cbn [orb].
  rewrite (move_index_take_insert l1 x l2 _ B). reflexivity.
Qed.

(* ------------------------------------------------------------------------------------- *)
(** * Errors of the anchor resolution *)

Lemma iam_unknown l x dp af bf :
  anchor_missing af l || anchor_missing bf l = true ->
  insert_and_move_rule l x dp af bf = (l, Err E_unknown_rule_id).
Proof.
  intros H. rewrite iam_unfold. unfold target.
  assert (M : forall o, anchor_missing o l = true ->
              exists a, o = Some a /\ get_index_of a l = None).
  { intros [a|]; cbn [anchor_missing]; [|discriminate]. intros X. exists a. split; [reflexivity|].
    destruct (get_index_of a l) eqn:E; [|reflexivity].
    assert (Y : has a l = true) by (apply has_index; congruence). rewrite Y in X. discriminate. }
  destruct (anchor_missing af l) eqn:Ea.
  - destruct (M _ Ea) as (a & -> & ->). reflexivity.
  - cbn [orb] in H. destruct (M _ H) as (b & -> & Eb).
    destruct af as [a|]; [destruct (get_index_of a l)|]; rewrite ?Eb; reflexivity.
Qed.

Lemma iam_before_higher l x dp a b :
  has a l = true -> has b l = true -> precedes a b l = false ->
  insert_and_move_rule l x dp (Some a) (Some b) = (l, Err E_before_higher).
Proof.
  intros Ha Hb P. rewrite iam_unfold. unfold target.
  apply has_index in Ha. apply has_index in Hb.
  destruct (get_index_of a l) as [ia|] eqn:Ea; [|congruence].
  destruct (get_index_of b l) as [ib|] eqn:Eb; [|congruence].
  rewrite (precedes_index _ _ _ _ _ Ea Eb) in P. apply Nat.ltb_ge in P.
  cbn [is_some andb]. replace (ib <? S ia) with true by (symmetry; apply Nat.ltb_lt; lia).
  reflexivity.
Qed.

(* ------------------------------------------------------------------------------------- *)
(** * Success: the placement the specification prescribes *)

Definition default_position (k : kind) : nat := match k with KOverride => 1 | _ => 0 end.

(** The target index once the anchors are known to exist and be ordered. *)
Lemma target_ok l dp af bf :
  anchor_missing af l = false -> anchor_missing bf l = false ->
  match af, bf with Some a, Some b => precedes a b l = true | _, _ => True end ->
  exists to, target l dp af bf = Ok to /\
    match bf, af with
    | Some b, _ => get_index_of b l = Some to
    | None, Some a => exists ia, get_index_of a l = Some ia /\ to = S ia
    | None, None => to = Nat.min dp (len l)
    end.
Proof.
  intros Ma Mb P. unfold target.
  assert (M : forall a, anchor_missing (Some a) l = false -> exists i, get_index_of a l = Some i).
  { intros a X. cbn [anchor_missing] in X. apply negb_false_iff in X. apply has_index in X.
    destruct (get_index_of a l) as [i|]; [eauto|congruence]. }
  destruct af as [a|], bf as [b|].
  - destruct (M _ Ma) as (ia & Ea). destruct (M _ Mb) as (ib & Eb). rewrite Ea, Eb.
    rewrite (precedes_index _ _ _ _ _ Ea Eb) in P. apply Nat.ltb_lt in P.
    replace (ib <? S ia) with false by (symmetry; apply Nat.ltb_ge; lia).
    rewrite andb_false_r. eauto.
  - destruct (M _ Ma) as (ia & Ea). rewrite Ea. eauto.
  - destruct (M _ Mb) as (ib & Eb). rewrite Eb. cbn [is_some andb]. eauto.
  - eauto.
Qed.

Lemma insert_at_0 x l : insert_at 0 x l = x :: l.
Proof. reflexivity. Qed.

Lemma iam_ok k l x af bf :
  NoDup (ids l) ->
  anchor_missing af l = false -> anchor_missing bf l = false ->
  match af, bf with Some a, Some b => precedes a b l = true | _, _ => True end ->
  insert_and_move_rule l x (default_position k) af bf = (placed k l x af bf, Ok tt).
Proof.
  intros ND Ma Mb P. rewrite iam_unfold.
  destruct (target_ok l (default_position k) af bf Ma Mb P) as (to & T & Tspec). rewrite T.
  pose proof (target_bound _ _ _ _ _ T) as Tb.
  destruct (get_index_of (rid x) l) as [i|] eqn:Ex.
  - (* the rule exists: l = l1 ++ old :: l2 *)
    destruct (get_index_of_split _ _ _ Ex) as (l1 & old & l2 & -> & Li & Eo & N1).
    destruct (nodup_split _ _ _ ND) as (_ & N2 & ND'). rewrite Eo in N2.
    assert (Self : get_index_of (rid x) (l1 ++ old :: l2) = Some (len l1)) by (rewrite Ex, Li; reflexivity).
    assert (Rest : take_out (rid x) (l1 ++ old :: l2) = l1 ++ l2) by (apply take_out_split; auto).
    assert (Here : in_place x (l1 ++ old :: l2) = l1 ++ x :: l2) by (apply in_place_split; auto).
    assert (Stay : insert_at (len l1) x (l1 ++ l2) = l1 ++ x :: l2) by (now apply insert_at_app).
    unfold placed. rewrite Rest, Here.
    destruct bf as [b|].
    + (* before b *)
      rewrite finish_old_positioned; auto; [| destruct af; reflexivity |].
      * dse b (rid x).
        -- rewrite Self in Tspec. injection Tspec as <-. rewrite Nat.ltb_irrefl. now rewrite Stay.
        -- destruct (index_without b l1 old l2 to) as (J & Jne); [congruence|exact Tspec|].
           rewrite (put_before_index _ _ _ _ J). f_equal. f_equal.
           destruct (Nat.ltb_spec (len l1) to), (Nat.ltb_spec to (len l1)); lia.
      * dse b (rid x).
        -- rewrite Self in Tspec. injection Tspec as <-. rewrite Nat.ltb_irrefl.
           rewrite app_length. lia.
        -- destruct (index_without b l1 old l2 to) as (J & Jne); [congruence|exact Tspec|].
           apply get_index_of_lt in J.
           destruct (Nat.ltb_spec (len l1) to), (Nat.ltb_spec to (len l1)); lia.
    + destruct af as [a|].
      * (* after a *)
        destruct Tspec as (ia & Ea & ->).
        rewrite finish_old_positioned; auto.
        -- dse a (rid x).
           ++ rewrite Self in Ea. injection Ea as <-.
              replace (len l1 <? S (len l1)) with true by (symmetry; apply Nat.ltb_lt; lia).
              replace (S (len l1) - 1) with (len l1) by lia. now rewrite Stay.
           ++ destruct (index_without a l1 old l2 ia) as (J & Jne); [congruence|exact Ea|].
              rewrite (put_after_index _ _ _ _ J). f_equal. f_equal.
              destruct (Nat.ltb_spec (len l1) (S ia)), (Nat.ltb_spec ia (len l1)); lia.
        -- dse a (rid x).
           ++ rewrite Self in Ea. injection Ea as <-.
              replace (len l1 <? S (len l1)) with true by (symmetry; apply Nat.ltb_lt; lia).
              rewrite app_length. lia.
           ++ destruct (index_without a l1 old l2 ia) as (J & Jne); [congruence|exact Ea|].
              apply get_index_of_lt in J.
              destruct (Nat.ltb_spec (len l1) (S ia)), (Nat.ltb_spec ia (len l1)); lia.
      * (* unpositioned replacement keeps its place *)
        rewrite finish_old_unpositioned by auto.
        assert (X : has (rid x) (l1 ++ old :: l2) = true) by (apply has_index; congruence).
        now rewrite X.
  - (* a new rule *)
    apply get_index_of_none in Ex.
    rewrite (finish_new l x af bf to Ex Tb).
    unfold placed. rewrite (take_out_notin _ _ Ex).
    assert (NotSelf : forall c j, get_index_of c l = Some j -> str_eqb c (rid x) = false).
    { intros c j Hc. apply str_eqb_neq. intros ->. apply get_index_of_none in Ex. congruence. }
    destruct bf as [b|].
    + rewrite (NotSelf _ _ Tspec). now rewrite (put_before_index _ _ _ _ Tspec).
    + destruct af as [a|].
      * destruct Tspec as (ia & Ea & ->). rewrite (NotSelf _ _ Ea).
        now rewrite (put_after_index _ _ _ _ Ea).
      * subst to. apply has_false in Ex. rewrite Ex.
        destruct k, l as [|first t]; reflexivity.
Qed.
