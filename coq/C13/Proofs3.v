(** C13.Proofs3 — every operation of the model refines the specification; no operation
    panics; a failing operation leaves the ruleset unchanged. *)
From Base Require Import Prelude.
From C13 Require Import Types Model Spec Proofs1 Proofs2.
From Coq Require Import Lia.
Local Open Scope nat_scope.

(* ------------------------------------------------------------------------------------- *)
(** * Rulesets as five lists *)

Lemma set_get_same k rs : set_kind k (get_kind k rs) rs = rs.
Proof. destruct k, rs; reflexivity. Qed.

Lemma set_get_same' k rs l : l = get_kind k rs -> set_kind k l rs = rs.
Proof. intros ->. apply set_get_same. Qed.

Lemma get_set_same k l rs : get_kind k (set_kind k l rs) = l.
Proof. destruct k; reflexivity. Qed.

Lemma get_set_other k k' l rs : k <> k' -> get_kind k' (set_kind k l rs) = get_kind k' rs.
Proof. destruct k, k'; intros H; try reflexivity; congruence. Qed.

Definition kind_eq_dec (a b : kind) : {a = b} + {a <> b}.
Proof. decide equality. Defined.

(* ------------------------------------------------------------------------------------- *)
(** * No panic, atomicity (no assumption on the ruleset) *)

Lemma iam_result l x dp af bf :
  (exists l', insert_and_move_rule l x dp af bf = (l', Ok tt)) \/
  (exists e, insert_and_move_rule l x dp af bf = (l, Err e)).
Proof.
  rewrite iam_unfold. destruct (target l dp af bf) as [to|e|p] eqn:T.
  - left. apply finish_ok_any. exact (target_bound _ _ _ _ _ T).
  - right. eauto.
  - exfalso. exact (target_no_panic _ _ _ _ _ T).
Qed.

Lemma rs_insert_result rs k id a p af bf :
  (exists rs', rs_insert rs k id a p af bf = (rs', Ok tt)) \/
  (exists e, rs_insert rs k id a p af bf = (rs, Err e)).
Proof.
  unfold rs_insert.
  destruct (is_dot id); [right; eauto|].
  destruct (contains_byte byte_slash id); [right; eauto|].
  destruct (contains_byte byte_backslash id); [right; eauto|].
  destruct (opt_is_dot af); [right; eauto|].
  destruct (opt_is_dot bf); [right; eauto|].
  match goal with |- context [insert_and_move_rule ?l ?x ?dp af bf] =>
    destruct (iam_result l x dp af bf) as [(l' & ->)|(e & ->)] end.
  - left. eauto.
  - right. rewrite set_get_same. eauto.
Qed.

Lemma rs_update_result rs k id f :
  (exists rs', rs_update rs k id f = (rs', Ok tt)) \/
  (exists e, rs_update rs k id f = (rs, Err e)).
Proof.
  unfold rs_update. destruct k as [k|]; [|right; eauto].
  destruct (iset_get id (get_kind k rs)) as [r|]; [|right; eauto].
  destruct (replace_full (f r) (get_kind k rs)) as [[i o] s']. left. eauto.
Qed.

Lemma rs_remove_result rs k id :
  (exists rs', rs_remove rs k id = (rs', Ok tt)) \/
  (exists e, rs_remove rs k id = (rs, Err e)).
Proof.
  unfold rs_remove. destruct k as [k|]; cbn [rs_get]; [|right; eauto].
  destruct (iset_get id (get_kind k rs)) as [r|]; [|right; eauto].
  destruct (rdefault r); [right; eauto|left; eauto].
Qed.

Lemma step_result s o :
  (exists s', step s o = (s', Ok tt)) \/ (exists e, step s o = (s, Err e)).
Proof.
  destruct o; cbn [step].
  - apply rs_insert_result.
  - apply rs_remove_result.
  - apply rs_update_result.
  - apply rs_update_result.
Qed.

Lemma step_no_panic s o p : snd (step s o) <> Panic p.
Proof.
  destruct (step_result s o) as [(s' & ->)|(e & ->)]; discriminate.
Qed.

Lemma step_error_atomic s o e : snd (step s o) = Err e -> fst (step s o) = s.
Proof.
  destruct (step_result s o) as [(s' & ->)|(e' & ->)]; [discriminate|reflexivity].
Qed.

(* ------------------------------------------------------------------------------------- *)
(** * Refinement of the specification *)

Definition verdict_of (errs : list N) (X : ruleset) : verdict :=
  match errs with [] => MustBe X | _ :: _ => MustFail errs end.

Lemma fail_sat rs errs e X out :
  In e errs -> out = (rs, Err e) -> satisfies (verdict_of errs X) rs out.
Proof.
  intros Hin ->. destruct errs as [|e0 errs]; [destruct Hin|].
  exists e. cbn [fst snd]. auto.
Qed.

Lemma spec_insert_eq rs k id a p af bf :
  spec_step rs (OInsert k id a p af bf) =
  verdict_of (insert_errors (get_kind k rs) id af bf)
    (set_kind k (placed k (get_kind k rs) (inserted_rule (get_kind k rs) id a p) af bf) rs).
Proof.
  cbn [spec_step]. unfold verdict_of. destruct (insert_errors (get_kind k rs) id af bf); reflexivity.
Qed.

Lemma rs_insert_unfold rs k id a p af bf :
  rs_insert rs k id a p af bf =
  let l := get_kind k rs in
  if is_dot id then (rs, Err E_server_default_rule_id)
  else if contains_byte byte_slash id then (rs, Err E_invalid_rule_id)
  else if contains_byte byte_backslash id then (rs, Err E_invalid_rule_id)
  else if opt_is_dot af then (rs, Err E_relative_to_default)
  else if opt_is_dot bf then (rs, Err E_relative_to_default)
  else let '(set', res) := insert_and_move_rule l (inserted_rule l id a p) (default_position k) af bf in
       (set_kind k set' rs, res).
Proof.
  unfold rs_insert, inserted_rule. rewrite iset_get_lookup. destruct k; reflexivity.
Qed.

Lemma rs_insert_refines rs k id a p af bf :
  NoDup (ids (get_kind k rs)) ->
  satisfies (spec_step rs (OInsert k id a p af bf)) rs (rs_insert rs k id a p af bf).
Proof.
  intros ND. rewrite rs_insert_unfold, spec_insert_eq. cbv zeta.
  set (l := get_kind k rs) in *. unfold insert_errors.
  destruct (is_dot id) eqn:Hd.
  { apply fail_sat with (e := E_server_default_rule_id); [|reflexivity].
    rewrite !in_app_iff. cbn [In]. auto. }
  destruct (contains_byte byte_slash id) eqn:Hs.
  { apply fail_sat with (e := E_invalid_rule_id); [|reflexivity].
    rewrite !in_app_iff. cbn [orb In]. auto. }
  destruct (contains_byte byte_backslash id) eqn:Hb.
  { apply fail_sat with (e := E_invalid_rule_id); [|reflexivity].
    rewrite !in_app_iff. cbn [orb In]. auto. }
  destruct (opt_is_dot af) eqn:Hda.
  { apply fail_sat with (e := E_relative_to_default); [|reflexivity].
    rewrite !in_app_iff. cbn [orb In]. auto 6. }
  destruct (opt_is_dot bf) eqn:Hdb.
  { apply fail_sat with (e := E_relative_to_default); [|reflexivity].
    rewrite !in_app_iff. cbn [orb In]. auto 6. }
  cbn [orb app].
  destruct (anchor_missing af l || anchor_missing bf l) eqn:Hm.
  { rewrite (iam_unknown _ _ _ _ _ Hm), (set_get_same' k rs l eq_refl).
    apply fail_sat with (e := E_unknown_rule_id); [|reflexivity]. cbn [app In]. auto. }
  cbn [app]. apply orb_false_iff in Hm as [Ma Mb].
  assert (OK : match af, bf with Some a0, Some b0 => precedes a0 b0 l = true | _, _ => True end ->
               satisfies (verdict_of [] (set_kind k (placed k l (inserted_rule l id a p) af bf) rs)) rs
                 (let '(set', res) := insert_and_move_rule l (inserted_rule l id a p) (default_position k) af bf in
                  (set_kind k set' rs, res))).
  { intros P. rewrite (iam_ok k l _ af bf ND Ma Mb P). split; reflexivity. }
  destruct af as [a0|]; [|exact (OK I)].
  destruct bf as [b0|]; [|exact (OK I)].
  cbn [anchor_missing] in Ma, Mb. apply negb_false_iff in Ma, Mb. rewrite Ma, Mb. cbn [andb].
  destruct (precedes a0 b0 l) eqn:P; cbn [negb].
  - exact (OK eq_refl).
  - rewrite (iam_before_higher _ _ _ _ _ Ma Mb P), (set_get_same' k rs l eq_refl).
    apply fail_sat with (e := E_before_higher); [|reflexivity]. cbn [In]. auto.
Qed.

(** [shift_remove] on duplicate-free ids is the specification's [take_out]. *)
Lemma shift_remove_take_out id l : NoDup (ids l) -> shift_remove id l = take_out id l.
Proof.
  induction l as [|r t IH]; intros ND; cbn [shift_remove take_out filter]; [reflexivity|].
  cbn [ids map] in ND. inversion ND as [|? ? NI ND']; subst.
  dse id (rid r); cbn [negb].
  - fold (take_out (rid r) t). now rewrite take_out_notin.
  - fold (take_out id t). now rewrite IH.
Qed.

Lemma rs_remove_refines rs k id :
  (forall k0, k = RK k0 -> NoDup (ids (get_kind k0 rs))) ->
  satisfies (spec_step rs (ORemove k id)) rs (rs_remove rs k id).
Proof.
  intros ND. cbn [spec_step]. unfold rs_remove. destruct k as [k|]; cbn [rs_get].
  - rewrite iset_get_lookup. destruct (lookup id (get_kind k rs)) as [r|].
    + destruct (rdefault r).
      * exists E_remove_default. cbn. auto.
      * rewrite shift_remove_take_out by (apply ND; reflexivity). split; reflexivity.
    + exists E_remove_not_found. cbn. auto.
  - exists E_remove_not_found. cbn. auto.
Qed.

(** [replace] of an updated copy of the stored rule = updating it where it is. *)
Lemma replace_full_update id f l r :
  NoDup (ids l) -> lookup id l = Some r -> (forall r0, rid (f r0) = rid r0) ->
  snd (replace_full (f r) l) = update_rule id f l.
Proof.
  intros ND L F. destruct (lookup_some _ _ _ L) as [_ <-].
  induction l as [|r0 t IH]; [discriminate|].
  cbn [lookup find] in L. cbn [replace_full update_rule map]. rewrite F.
  cbn [ids map] in ND. inversion ND as [|? ? NI ND']; subst.
  dse (rid r) (rid r0).
  - injection L as ->. cbn [snd]. f_equal.
    clear - NI.
    induction t as [|r1 t IH]; [reflexivity|]. cbn [map ids In] in *.
    dse (rid r) (rid r1); [exfalso; apply NI; left; congruence|]. f_equal. apply IH. tauto.
  - fold (lookup (rid r) t) in L. specialize (IH ND' L).
    destruct (replace_full (f r) t) as [[i o] t']. cbn [snd] in *.
    unfold update_rule in IH. now rewrite IH.
Qed.

Lemma rs_update_refines rs k id f :
  (forall k0, k = RK k0 -> NoDup (ids (get_kind k0 rs))) ->
  (forall r0, rid (f r0) = rid r0) ->
  satisfies (spec_update rs k id f) rs (rs_update rs k id f).
Proof.
  intros ND F. unfold spec_update, rs_update. destruct k as [k|].
  - rewrite iset_get_lookup, lookup_has.
    destruct (lookup id (get_kind k rs)) as [r|] eqn:L.
    + pose proof (replace_full_update id f _ r (ND k eq_refl) L F) as R.
      destruct (replace_full (f r) (get_kind k rs)) as [[i o] s']. cbn [snd] in R. subst s'.
      split; reflexivity.
    + exists E_rule_not_found. cbn. auto.
  - exists E_rule_not_found. cbn. auto.
Qed.

Definition NoDupIds (rs : ruleset) : Prop := forall k, NoDup (ids (get_kind k rs)).

Lemma step_refines s o : NoDupIds s -> satisfies (spec_step s o) s (step s o).
Proof.
  intros ND. destruct o; cbn [step].
  - apply rs_insert_refines. apply ND.
  - apply rs_remove_refines. intros k0 _. apply ND.
  - apply (rs_update_refines s k id). + intros k0 _. apply ND. + reflexivity.
  - apply (rs_update_refines s k id). + intros k0 _. apply ND. + reflexivity.
Qed.
