(** C15.Spec — idempotence and preservation of the HTML sanitizer, in the terms of [C14.Spec]:
    a document is *clean* for a configuration when it is [Allowed] and carries no element name
    the configuration replaces; such documents must come back unchanged, and sanitized output
    must be clean. *)
From Base Require Import Prelude.
From C14 Require Import Dom Spec.

(** "A well-nested document built only from allowed elements, attributes, schemes and classes
    within the depth limit" (and, for configurations with replacement lists, no replaced name). *)
Definition clean_doc (T : tables) (cfg : config) (f : forest) : bool :=
  allowedb T cfg f && forallb (rename_free T cfg) f.

(** The documented replacement of the deprecated [color] attribute of [font]. *)
Definition font_attr_rewritten (a : attr) : attr :=
  if str_eqb (a_name a) s!"color" then with_name a s!"data-mx-color" else a.

(** Tree equality (for the search on implementation outcomes). *)
Definition attrs_eqb (a b : list attr) : bool :=
  (fix go (a b : list attr) : bool :=
     match a, b with
     | [], [] => true
     | x :: a', y :: b' => attr_eqb x y && go a' b'
     | _, _ => false
     end) a b.

Fixpoint node_eqb (a b : node) : bool :=
  match a, b with
  | Elem ns e attrs kids, Elem ns' e' attrs' kids' =>
      str_eqb ns ns' && str_eqb e e' && attrs_eqb attrs attrs'
      && (fix go (k k' : list node) : bool :=
            match k, k' with
            | [], [] => true
            | x :: r, y :: r' => node_eqb x y && go r r'
            | _, _ => false
            end) kids kids'
  | Text s, Text s' => str_eqb s s'
  | Other, Other => true
  | _, _ => false
  end.

Fixpoint forest_eqb (a b : forest) : bool :=
  match a, b with
  | [], [] => true
  | x :: a', y :: b' => node_eqb x y && forest_eqb a' b'
  | _, _ => false
  end.
