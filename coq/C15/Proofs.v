(** C15.Proofs — clean documents are fixpoints of the sanitizer; sanitized output is clean;
    hence idempotence; the deprecated [font]/[strike] rewriting. *)
From Base Require Import Prelude.
From C14 Require Import Dom Tables Model Spec Proofs1 Proofs2 Proofs3 Proofs4.
From C15 Require Import Spec.

Lemma is_some_false {A} (o : option A) : is_some o = false -> o = None.
Proof. destruct o; [discriminate|reflexivity]. Qed.

Section Gen.
Variable T : tables.
Variable cfg : config.

(** ** Fixpoint *)
Lemma no_replacement_model e :
  has_replacement T cfg e = false ->
  elem_replacement T cfg e = None /\ list_attr_repl cfg e = None /\ mode_attr_repl T cfg e = None.
Proof.
  unfold has_replacement. intros H. apply orb_false_iff in H as [H H3]. apply orb_false_iff in H as [H1 H2].
  rewrite elem_replacement_bridge, list_attr_repl_bridge, mode_attr_repl_bridge.
  auto using is_some_false.
Qed.

Lemma fold_keep acts : forall S,
  (forall p, In p acts -> snd p = AKeep) -> fold_left apply_action acts S = S.
Proof.
  induction acts as [|p acts IH]; intros S H; cbn [fold_left]; [reflexivity|].
  unfold apply_action at 2. rewrite (H p (or_introl eq_refl)). apply IH. intros q Hq; apply H; right; exact Hq.
Qed.

Lemma clean_attrs_id e attrs :
  forallb (attr_ok T cfg e) attrs = true -> clean_attrs T cfg e attrs = attrs.
Proof.
  intros H. unfold clean_attrs. apply fold_keep. intros p Hp.
  apply in_map_iff in Hp as [a [<- Ha]]. cbn [snd]. apply attribute_action_keep.
  rewrite forallb_forall in H. apply H, Ha.
Qed.

Lemma clean_node_fix n : forall d,
  allowed_node T cfg d n = true -> rename_free T cfg n = true -> clean_node T cfg d n = [n].
Proof.
  induction n as [ns e attrs kids IH|s|] using node_ind'; intros d Ha Hr; [|reflexivity|discriminate].
  cbn [rename_free] in Hr. apply andb_true_iff in Hr as [Hr Hrk]. apply negb_true_iff in Hr.
  destruct (no_replacement_model e Hr) as [E1 [E2 E3]].
  cbn [allowed_node] in Ha. apply andb_true_iff in Ha as [Ha Hk]. apply andb_true_iff in Ha as [Ha Hok].
  apply andb_true_iff in Ha as [Hd Hkept]. apply negb_true_iff in Hd.
  cbn [clean_node]. unfold new_elem_name, replace_attrs_of. rewrite E1, E2, E3. cbn [is_some orb].
  rewrite elem_action_spec, Hd, Hkept, (clean_attrs_id _ _ Hok).
  rewrite flat_map_singleton; [reflexivity|]. intros x Hx.
  rewrite Forall_forall in IH. rewrite forallb_forall in Hk, Hrk. apply IH; auto.
Qed.

Theorem clean_fix f : clean_doc T cfg f = true -> clean T cfg f = f.
Proof.
  unfold clean_doc, allowedb, clean. intros H. apply andb_true_iff in H as [Ha Hr].
  rewrite forallb_forall in Ha, Hr. apply flat_map_singleton. intros n Hn. apply clean_node_fix; auto.
Qed.

(** ** Sanitized output has nothing left to rename *)
Lemma elem_rename_key e r :
  elem_rename T cfg e = Some r ->
  In e (map fst (match c_replace_elements cfg with Some b => bl_content b | None => [] end)
        ++ map fst (t_dep_elements T)).
Proof.
  unfold elem_rename, custom. intros H. apply in_or_app.
  destruct (c_replace_elements cfg) as [[o l]|]; cbn [bl_content] in *.
  - destruct (assoc e l) eqn:E; [left; eapply assoc_In; exact E|].
    destruct (defaults_apply cfg _); [|discriminate]. right; eapply assoc_In; exact H.
  - destruct (defaults_apply cfg _); [|discriminate]. right; eapply assoc_In; exact H.
Qed.

Lemma attr_rename_key e :
  is_some (attr_rename_custom cfg e) || is_some (attr_rename_default T cfg e) = true ->
  In e (map fst (match c_replace_attrs cfg with Some b => bl_content b | None => [] end)
        ++ map fst (t_dep_attrs T)).
Proof.
  unfold attr_rename_custom, attr_rename_default, custom. intros H. apply in_or_app.
  apply orb_true_iff in H as [H|H].
  - destruct (c_replace_attrs cfg) as [[o l]|]; cbn [bl_content] in *; [|discriminate].
    destruct (assoc e l) eqn:E; [|discriminate]. left; eapply assoc_In; exact E.
  - destruct (defaults_apply cfg _); [|discriminate].
    destruct (assoc e (t_dep_attrs T)) eqn:E; [|discriminate]. right; eapply assoc_In; exact E.
Qed.

Lemma renamed_has_no_replacement e :
  rename_closed T cfg = true -> has_replacement T cfg (renamed_elem T cfg e) = false.
Proof.
  unfold rename_closed. intros H. apply andb_true_iff in H as [Ha He].
  rewrite forallb_forall in Ha, He. unfold renamed_elem.
  destruct (elem_rename T cfg e) as [r|] eqn:E.
  - specialize (He e (elem_rename_key _ _ E)). rewrite E in He. apply negb_true_iff in He. exact He.
  - destruct (has_replacement T cfg e) eqn:Hh; [|reflexivity].
    pose proof Hh as Hh'. unfold has_replacement in Hh'. rewrite E in Hh'. cbn [is_some orb] in Hh'.
    specialize (Ha e (attr_rename_key _ Hh')). rewrite Hh, E in Ha. discriminate.
Qed.

Lemma clean_node_rename_free :
  rename_closed T cfg = true ->
  forall n k, forallb (rename_free T cfg) (clean_node T cfg k n) = true.
Proof.
  intros Hc n. induction n as [ns e attrs kids IH|s|] using node_ind'; intros k; [|reflexivity|reflexivity].
  cbn [clean_node].
  assert (Hk : forallb (rename_free T cfg) (flat_map (clean_node T cfg (k + 1)) kids) = true).
  { rewrite forallb_flat_map. apply forallb_forall. intros x Hx. rewrite Forall_forall in IH. apply IH, Hx. }
  destruct (elem_action T cfg _ _ k); [|exact Hk|reflexivity].
  cbn [forallb rename_free]. rewrite new_elem_name_bridge, (renamed_has_no_replacement e Hc), Hk. reflexivity.
Qed.

Theorem clean_output_clean f :
  schemes_avoid_class T cfg = true -> rename_closed T cfg = true ->
  clean_doc T cfg (clean T cfg f) = true.
Proof.
  intros Hav Hc. unfold clean_doc. rewrite (clean_allowed_gen T cfg f Hav). cbn [andb].
  unfold clean. rewrite forallb_flat_map. apply forallb_forall. intros n _.
  apply clean_node_rename_free, Hc.
Qed.

Theorem clean_idem_gen f :
  schemes_avoid_class T cfg = true -> rename_closed T cfg = true ->
  clean T cfg (clean T cfg f) = clean T cfg f.
Proof. intros Hav Hc. apply clean_fix, clean_output_clean; assumption. Qed.

(** Nothing allowed survives on an element without allowed attributes. *)
Lemma clean_attrs_none e attrs :
  schemes_avoid_class T cfg = true ->
  forallb (attr_scheme_ok T cfg e) attrs = true ->
  (forall a, attr_ok T cfg e a = false) ->
  clean_attrs T cfg e attrs = [].
Proof.
  intros Hav Hs Hno. pose proof (clean_attrs_good T cfg e attrs Hav Hs) as H.
  destruct (clean_attrs T cfg e attrs) as [|a l]; [reflexivity|].
  specialize (H a (or_introl eq_refl)). unfold attr_good in H. rewrite Hno in H. discriminate.
Qed.

End Gen.

(** ** The presets, with the generated tables *)
Lemma preset_rename_closed m r : rename_closed matrix_tables (preset m r) = true.
Proof. destruct m, r; reflexivity. Qed.

Lemma clean_idem cfg f :
  schemes_avoid_class matrix_tables cfg = true -> rename_closed matrix_tables cfg = true ->
  clean html_tables cfg (clean html_tables cfg f) = clean html_tables cfg f.
Proof. rewrite tables_eq. apply clean_idem_gen. Qed.

Lemma clean_idem_presets m r f :
  clean html_tables (preset m r) (clean html_tables (preset m r) f) = clean html_tables (preset m r) f.
Proof. apply clean_idem; [apply preset_avoid|apply preset_rename_closed]. Qed.

Lemma clean_fixpoint cfg f : clean_doc matrix_tables cfg f = true -> clean html_tables cfg f = f.
Proof. rewrite tables_eq. apply clean_fix. Qed.

Lemma disjoint_assoc {A} (mp : list (str * A)) elems e :
  forallb (fun k => negb (mem_str k elems)) (map fst mp) = true ->
  mem_str e elems = true -> assoc e mp = None.
Proof.
  intros H He. destruct (assoc e mp) eqn:E; [|reflexivity].
  apply assoc_In in E. rewrite forallb_forall in H. specialize (H e E). rewrite He in H. discriminate.
Qed.

Lemma preset_allowed_rename_free m r n : forall d,
  allowed_node matrix_tables (preset m r) d n = true -> rename_free matrix_tables (preset m r) n = true.
Proof.
  induction n as [ns e attrs kids IH|s|] using node_ind'; intros d H; [|reflexivity|reflexivity].
  destruct (preset_elem m r _ _ _ _ _ H) as [He _].
  cbn [allowed_node] in H. apply andb_true_iff in H as [_ Hk].
  cbn [rename_free]. apply andb_true_iff. split.
  - apply negb_true_iff.
    assert (E : has_replacement matrix_tables (preset m r) e
                = is_some (assoc e (t_dep_elements matrix_tables)) || false
                  || is_some (assoc e (t_dep_attrs matrix_tables))) by (destruct m, r; reflexivity).
    rewrite E, (disjoint_assoc (t_dep_elements matrix_tables) matrix_elements e), (disjoint_assoc (t_dep_attrs matrix_tables) matrix_elements e);
      [reflexivity|reflexivity|exact He|reflexivity|exact He].
  - apply forallb_forall. intros x Hx. rewrite forallb_forall in Hk. rewrite Forall_forall in IH.
    apply (IH x Hx (d + 1)), Hk, Hx.
Qed.

Lemma clean_fixpoint_presets m r f :
  Allowed matrix_tables (preset m r) f -> clean html_tables (preset m r) f = f.
Proof.
  intros H. apply clean_fixpoint. unfold clean_doc. rewrite H. cbn [andb].
  apply forallb_forall. intros n Hn. unfold Allowed, allowedb in H. rewrite forallb_forall in H.
  apply (preset_allowed_rename_free m r n 0), H, Hn.
Qed.

(** ** Deprecated elements and attributes *)
Section Deprecated.
Variable m : smode.
Variable r : bool.
Let cfg := preset m r.

Lemma no_scheme_lists e :
  assoc e (t_schemes_strict html_tables) = None -> assoc e (t_schemes_compat html_tables) = None ->
  forall a, attr_scheme_ok html_tables cfg e a = true.
Proof.
  intros E1 E2 a. unfold attr_scheme_ok, scheme_list. rewrite E1, E2.
  subst cfg; destruct m, r; reflexivity.
Qed.

Lemma target_action e attrs d :
  mem_str e (t_elements html_tables) = true -> e <> s!"mx-reply" ->
  assoc e (t_schemes_strict html_tables) = None -> assoc e (t_schemes_compat html_tables) = None ->
  d < 100 -> elem_action html_tables cfg e attrs d = ANone.
Proof.
  intros He Hr E1 E2 Hd. rewrite elem_action_spec.
  assert (Ed : elem_dropped html_tables cfg e d = (r && str_eqb e s!"mx-reply") || (100 <=? d))
    by (subst cfg; destruct m, r; reflexivity).
  rewrite Ed. apply str_eqb_neq in Hr. rewrite Hr, andb_false_r. cbn [orb].
  apply N.leb_gt in Hd. rewrite Hd.
  assert (Ek : elem_kept html_tables cfg e attrs = true); [|rewrite Ek; reflexivity].
  unfold elem_kept. rewrite (forallb_all_true _ _ (no_scheme_lists e E1 E2)), andb_true_r.
  assert (Ea : negb (omem e (c_ignore_elements cfg)) && elem_allowed html_tables cfg e
               = mem_str e (t_elements html_tables)) by (subst cfg; destruct m, r; reflexivity).
  rewrite Ea. exact He.
Qed.

(** [font] becomes [span]; its [color] becomes [data-mx-color]; children are sanitized in place;
    the other attributes go through the filter of [span]. *)
Lemma font_rewritten ns attrs kids d : d < 100 ->
  clean_node html_tables cfg d (Elem ns s!"font" attrs kids) =
  [Elem ns s!"span"
     (clean_attrs html_tables cfg s!"span" (set_of_list (map font_attr_rewritten attrs)))
     (flat_map (clean_node html_tables cfg (d + 1)) kids)].
Proof.
  intros Hd. cbn [clean_node].
  assert (En : new_elem_name html_tables cfg s!"font" = s!"span") by (subst cfg; destruct m, r; reflexivity).
  assert (Ea : replace_attrs_of html_tables cfg s!"font" attrs = set_of_list (map font_attr_rewritten attrs)).
  { unfold replace_attrs_of.
    assert (E1 : list_attr_repl cfg s!"font" = None) by (subst cfg; destruct m, r; reflexivity).
    assert (E2 : mode_attr_repl html_tables cfg s!"font" = Some [(s!"color", s!"data-mx-color")])
      by (subst cfg; destruct m, r; reflexivity).
    rewrite E1, E2. cbn [is_some orb]. f_equal. apply map_ext. intros a.
    unfold attr_new_name, font_attr_rewritten. cbn [oassoc assoc].
    destruct (str_eqb (a_name a) s!"color"); reflexivity. }
  rewrite En, Ea, target_action; [reflexivity|reflexivity|discriminate|reflexivity|reflexivity|exact Hd].
Qed.

(** ... so a [font] carrying just a colour becomes a [span] carrying just that colour. *)
Lemma font_color_rewritten ns c kids d : d < 100 ->
  clean_node html_tables cfg d (Elem ns s!"font" [mk_attr [] [] s!"color" c] kids) =
  [Elem ns s!"span" [mk_attr [] [] s!"data-mx-color" c] (flat_map (clean_node html_tables cfg (d + 1)) kids)].
Proof.
  intros Hd. rewrite (font_rewritten _ _ _ _ Hd).
  assert (E : clean_attrs html_tables cfg s!"span" (set_of_list (map font_attr_rewritten [mk_attr [] [] s!"color" c]))
              = [mk_attr [] [] s!"data-mx-color" c]); [|rewrite E; reflexivity].
  change (set_of_list (map font_attr_rewritten [mk_attr [] [] s!"color" c]))
    with [mk_attr [] [] s!"data-mx-color" c].
  apply clean_attrs_id. cbn [forallb]. rewrite andb_true_r.
  subst cfg; destruct m, r; reflexivity.
Qed.

(** [strike] becomes [s] (which has no allowed attributes); children are sanitized in place. *)
Lemma strike_rewritten ns attrs kids d : d < 100 ->
  clean_node html_tables cfg d (Elem ns s!"strike" attrs kids) =
  [Elem ns s!"s" [] (flat_map (clean_node html_tables cfg (d + 1)) kids)].
Proof.
  intros Hd. cbn [clean_node].
  assert (En : new_elem_name html_tables cfg s!"strike" = s!"s") by (subst cfg; destruct m, r; reflexivity).
  assert (Ea : replace_attrs_of html_tables cfg s!"strike" attrs = attrs).
  { unfold replace_attrs_of.
    assert (E1 : list_attr_repl cfg s!"strike" = None) by (subst cfg; destruct m, r; reflexivity).
    assert (E2 : mode_attr_repl html_tables cfg s!"strike" = None) by (subst cfg; destruct m, r; reflexivity).
    rewrite E1, E2. reflexivity. }
  rewrite En, Ea, target_action; [|reflexivity|discriminate|reflexivity|reflexivity|exact Hd].
  rewrite clean_attrs_none; [reflexivity| | |].
  - rewrite tables_eq. apply preset_avoid.
  - apply forallb_all_true. apply no_scheme_lists; reflexivity.
  - intros a. unfold attr_ok.
    assert (E : attr_name_allowed html_tables cfg s!"s" a = false);
      [|rewrite E; reflexivity].
    unfold attr_name_allowed. subst cfg; destruct m, r; cbn; destruct (a_ns a); reflexivity.
Qed.

End Deprecated.
