(** C15.NonVacuity — the hypotheses of the C15 theorems hold for non-trivial inputs, and the
    excluded configurations really are exceptions. *)
From Base Require Import Prelude.
From C14 Require Import Dom Tables Model Spec.
From C15 Require Import Spec.

Definition at_ (n v : string) : attr := mk_attr [] [] (bytes_of_string n) (bytes_of_string v).

(** A document from the allow-list grammar: [Allowed], clean, and returned unchanged. *)
Definition doc : forest :=
  [Elem [] s!"p" [] [Text s!"see "; Elem [] s!"a" [at_ "href" "https://a.b/c"; at_ "target" "_blank"] [Text s!"this"]];
   Elem [] s!"pre" [] [Elem [] s!"code" [at_ "class" "language-rust language-x"] [Text s!"fn main() {}"]];
   Elem [] s!"img" [at_ "alt" "a"; at_ "height" "2"; at_ "src" "mxc://s/m"; at_ "width" "1"] [];
   Elem [] s!"span" [at_ "data-mx-bg-color" "#000"; at_ "data-mx-color" "#fff"; at_ "data-mx-spoiler" ""] [Text s!"x"];
   Elem [] s!"mx-reply" [] [Elem [] s!"blockquote" [] [Text s!"q"]];
   Elem [] s!"ol" [at_ "start" "3"] [Elem [] s!"li" [] [Elem [] s!"div" [at_ "data-mx-maths" "x^2"] []]]].

Example doc_is_clean :
  clean_doc matrix_tables (preset Strict false) doc = true
  /\ clean html_tables (preset Strict false) doc = doc.
Proof. split; vm_compute; reflexivity. Qed.

(** The presets satisfy the hypotheses of [C15_clean_idem]. *)
Example presets_covered :
  forallb (fun c => schemes_avoid_class matrix_tables c && rename_closed matrix_tables c)
    [preset Strict false; preset Strict true; preset Compat false; preset Compat true] = true.
Proof. vm_compute. reflexivity. Qed.

(** So do configurations with extra lists, e.g. strict + more elements + a closed replacement. *)
Definition cfg_more : config :=
  mk_config (Some Strict) true (Some (mk_blist false [(s!"center", s!"div")])) (Some [s!"hr"]) None
    (Some (mk_blist false [s!"x-foo"])) None None (Some (mk_blist false [(s!"a", [s!"name"])]))
    (Some [(s!"a", [(s!"href", [s!"ftp"])])]) None None None (Some 5).

Example cfg_more_covered :
  schemes_avoid_class matrix_tables cfg_more && rename_closed matrix_tables cfg_more = true.
Proof. vm_compute. reflexivity. Qed.

(** [rename_closed] is needed: a replacement cycle is not idempotent. *)
Definition cfg_cycle : config :=
  mk_config None false (Some (mk_blist false [(s!"b", s!"i"); (s!"i", s!"b")]))
    None None None None None None None None None None None.

Example cycle_is_an_exception :
  rename_closed matrix_tables cfg_cycle = false
  /\ clean html_tables cfg_cycle (clean html_tables cfg_cycle [Elem [] s!"b" [] []])
     <> clean html_tables cfg_cycle [Elem [] s!"b" [] []].
Proof. split; [vm_compute; reflexivity|vm_compute; discriminate]. Qed.
