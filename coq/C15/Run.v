(** C15.Run — case decoding, model run, and the spec predicates evaluated on the
    implementation's outcome.

    case    = ( cfg html-bytes parsed-tree )
    outcome = ok ( once twice ( string-idempotent ) )
    The string-level flag passes through html5ever (not modelled): echoed, and required to hold
    for the configurations the property speaks about (search only). *)
From Base Require Import Prelude Sx.
From C14 Require Import Dom Tables Model Spec Wire.
From C14 Require Run.
From C15 Require Import Spec.

(** Configurations for which idempotence is claimed (all four presets are). *)
Definition covered (cfg : config) : bool :=
  schemes_avoid_class matrix_tables cfg && rename_closed matrix_tables cfg.

Definition spec_ok (cfg : config) (input once twice : forest) (string_idem : bool) : bool :=
  (* sanitizing the same document object twice equals sanitizing it once *)
  (negb (covered cfg) || forest_eqb twice once)
  (* clean documents come back unchanged — all configurations *)
  && (negb (clean_doc matrix_tables cfg input) || forest_eqb once input)
  (* sanitizing the output string again = parse and reserialize *)
  && (negb (covered cfg && C14.Run.reparse_constrained cfg) || string_idem).

Definition run (x : sx) : sx :=
  match x with
  | SL [SL [c; SS _; t]; impl] =>
      match config_of_sx c, forest_of_sx t with
      | Some cfg, Some f =>
          let m1 := clean html_tables cfg f in
          let m2 := clean html_tables cfg m1 in
          match impl with
          | SL [SN 0%Z; SL [once; twice; SL [SN fl]]] =>
              SL [SL [SN 0; SL [sx_of_forest m1; sx_of_forest m2; SL [SN fl]]];
                  sx_bool (match forest_of_sx once, forest_of_sx twice with
                           | Some o, Some t2 => spec_ok cfg f o t2 (negb (fl =? 0)%Z)
                           | _, _ => false
                           end)]
          | _ => SL [SL [SN 0; SL [sx_of_forest m1; sx_of_forest m2; SL []]]; sx_bool false]
          end
      | _, _ => sx_bad
      end
  | _ => sx_bad
  end.
