(** C15.Run — case decoding, model run, and the spec predicates evaluated on the
    implementation's outcome.

    case    = ( cfg html-bytes parsed-tree )
    outcome = ok ( once twice ( string-idempotent ) )
    The string-level flag passes through html5ever (not modelled): echoed, and required to hold
    for the configurations the property speaks about (search only). *)
From Base Require Import Prelude Sx.
From C14 Require Import Dom Tables Model Spec Wire.
From C14 Require Run.
From C15 Require Import Spec.

(** Configurations for which idempotence is claimed (all four presets are). *)
Definition covered (cfg : config) : bool :=
  schemes_avoid_class matrix_tables cfg && rename_closed matrix_tables cfg.

(** The deprecated-replacement clause, on the documents where it can be read off directly: under
    a plain preset (strict or compat, nothing else configured), a lone `font` element carrying
    `color` comes back as a `span` carrying `data-mx-color` with the same value, and a lone
    `strike` comes back as `s`. *)
Definition is_plain_preset (c : config) : bool :=
  is_some (c_mode c) &&
  match c_replace_elements c, c_remove_elements c, c_ignore_elements c, c_allow_elements c,
        c_replace_attrs c, c_remove_attrs c, c_allow_attrs c with
  | None, None, None, None, None, None, None =>
      match c_deny_schemes c, c_allow_schemes c, c_remove_classes c, c_allow_classes c, c_max_depth c with
      | None, None, None, None, None => true
      | _, _, _, _, _ => false
      end
  | _, _, _, _, _, _, _ => false
  end.

Definition plain_attr (name : str) (a : attr) : bool :=
  str_eqb (a_name a) name && str_eqb (a_pfx a) [] && str_eqb (a_ns a) [].

Definition deprecated_ok (cfg : config) (input once : forest) : bool :=
  if is_plain_preset cfg then
    match input with
    | [Elem ns name attrs _] =>
        if str_eqb name s!"font" then
          match find (plain_attr s!"color") attrs with
          | Some a =>
              match once with
              | [Elem _ name' attrs' _] =>
                  str_eqb name' s!"span" &&
                  existsb (fun b => plain_attr s!"data-mx-color" b && str_eqb (a_val b) (a_val a)) attrs'
              | _ => false
              end
          | None => true
          end
        else if str_eqb name s!"strike" then
          match once with [Elem _ name' _ _] => str_eqb name' s!"s" | _ => false end
        else true
    | _ => true
    end
  else true.

Definition spec_ok (cfg : config) (input once twice : forest) (string_idem : bool) : bool :=
  deprecated_ok cfg input once &&
  (* sanitizing the same document object twice equals sanitizing it once *)
  (negb (covered cfg) || forest_eqb twice once)
  (* clean documents come back unchanged — all configurations *)
  && (negb (clean_doc matrix_tables cfg input) || forest_eqb once input)
  (* sanitizing the output string again = parse and reserialize *)
  && (negb (covered cfg && C14.Run.reparse_constrained cfg) || string_idem).

Definition run (x : sx) : sx :=
  match x with
  | SL [SL [c; SS _; t]; impl] =>
      match config_of_sx c, forest_of_sx t with
      | Some cfg, Some f =>
          let m1 := clean html_tables cfg f in
          let m2 := clean html_tables cfg m1 in
          match impl with
          | SL [SN 0%Z; SL [once; twice; SL [SN fl]]] =>
              SL [SL [SN 0; SL [sx_of_forest m1; sx_of_forest m2; SL [SN fl]]];
                  sx_bool (match forest_of_sx once, forest_of_sx twice with
                           | Some o, Some t2 => spec_ok cfg f o t2 (negb (fl =? 0)%Z)
                           | _, _ => false
                           end)]
          | _ => SL [SL [SN 0; SL [sx_of_forest m1; sx_of_forest m2; SL []]]; sx_bool false]
          end
      | _, _ => sx_bad
      end
  | _ => sx_bad
  end.
