(** C15.Properties — the theorems that decide C15, and nothing else.  [clean] is the model of
    [SanitizerConfig::clean] over the regenerated tables [html_tables]; trees are compared
    exactly (adjacent text nodes are neither merged nor split by the sanitizer). *)
From Base Require Import Prelude.
From C14 Require Import Dom Tables Model Spec.
From C15 Require Import Spec Proofs.
From C15 Require Run NonVacuity.  (* compile order only: Properties.v is built last, so that no other file's
                          progress line interleaves with the Print Assumptions reports *)

(** Sanitizing sanitized output removes and rewrites nothing — for every configuration whose
    scheme lists do not name [class] and whose replacement targets are not themselves
    replaced (any mode, any allow/remove/ignore/deny lists, any depth). *)
Theorem C15_clean_idem :
  forall cfg t,
  schemes_avoid_class matrix_tables cfg = true -> rename_closed matrix_tables cfg = true ->
  clean html_tables cfg (clean html_tables cfg t) = clean html_tables cfg t.
Proof. exact clean_idem. Qed.
Eval compute in "PA:C15_clean_idem"%string.
Print Assumptions C15_clean_idem.

(** In particular strict and compat mode, with and without reply-fallback removal. *)
Theorem C15_clean_idem_presets :
  forall m reply t,
  clean html_tables (preset m reply) (clean html_tables (preset m reply) t)
  = clean html_tables (preset m reply) t.
Proof. exact clean_idem_presets. Qed.
Eval compute in "PA:C15_clean_idem_presets"%string.
Print Assumptions C15_clean_idem_presets.

(** A document built only from allowed elements, attributes, schemes and classes within the
    depth limit (and without names the configuration replaces) is returned unchanged — every
    configuration. *)
Theorem C15_clean_fixpoint_on_allowed :
  forall cfg t, clean_doc matrix_tables cfg t = true -> clean html_tables cfg t = t.
Proof. exact clean_fixpoint. Qed.
Eval compute in "PA:C15_clean_fixpoint_on_allowed"%string.
Print Assumptions C15_clean_fixpoint_on_allowed.

(** For the presets [Allowed] alone suffices (the deprecated names are not allowed names). *)
Theorem C15_clean_fixpoint_presets :
  forall m reply t, Allowed matrix_tables (preset m reply) t -> clean html_tables (preset m reply) t = t.
Proof. exact clean_fixpoint_presets. Qed.
Eval compute in "PA:C15_clean_fixpoint_presets"%string.
Print Assumptions C15_clean_fixpoint_presets.

(** Deprecated elements and attributes are rewritten to their documented replacements, content
    preserved (sanitized in place), remaining attributes passed through the target's filter. *)
Theorem C15_deprecated_rewritten_font :
  forall m reply ns attrs kids d, d < 100 ->
  clean_node html_tables (preset m reply) d (Elem ns s!"font" attrs kids) =
  [Elem ns s!"span"
     (clean_attrs html_tables (preset m reply) s!"span" (set_of_list (map font_attr_rewritten attrs)))
     (flat_map (clean_node html_tables (preset m reply) (d + 1)) kids)].
Proof. exact font_rewritten. Qed.
Eval compute in "PA:C15_deprecated_rewritten_font"%string.
Print Assumptions C15_deprecated_rewritten_font.

Theorem C15_deprecated_rewritten_font_color :
  forall m reply ns c kids d, d < 100 ->
  clean_node html_tables (preset m reply) d (Elem ns s!"font" [mk_attr [] [] s!"color" c] kids) =
  [Elem ns s!"span" [mk_attr [] [] s!"data-mx-color" c]
     (flat_map (clean_node html_tables (preset m reply) (d + 1)) kids)].
Proof. exact font_color_rewritten. Qed.
Eval compute in "PA:C15_deprecated_rewritten_font_color"%string.
Print Assumptions C15_deprecated_rewritten_font_color.

Theorem C15_deprecated_rewritten_strike :
  forall m reply ns attrs kids d, d < 100 ->
  clean_node html_tables (preset m reply) d (Elem ns s!"strike" attrs kids) =
  [Elem ns s!"s" [] (flat_map (clean_node html_tables (preset m reply) (d + 1)) kids)].
Proof. exact strike_rewritten. Qed.
Eval compute in "PA:C15_deprecated_rewritten_strike"%string.
Print Assumptions C15_deprecated_rewritten_strike.
