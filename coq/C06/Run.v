(** C06.Run — the determinism runs.  The implementation's outcome is the common result of
    16 calls of [resolve] on 4 threads with permuted arguments and fresh hash seeds, or
    [( N3 a b oracle )] when two calls disagree.  The model's single answer (identity
    enumeration oracles) is compared with it; the specification predicate additionally
    requires, on the implementation's result,
    - that no two calls disagreed,
    - that the model run with *reversed* enumerations everywhere, reversed state-set and
      auth-chain lists and reversed entries gives that same result, and
    - that identical state sets come back unchanged. *)
From Base Require Import Prelude Sx.
From C07 Require Import Event Model Spec Run.

Definition all_same (sets : list smap) : bool :=
  match sets with
  | [] => false
  | s :: rest => forallb (fun s' => smap_eqb s s') rest
  end.

Definition spec_ok (st : store) (sets : list smap) (chains : list (list id)) (impl : sx) : bool :=
  if case_ok st sets chains then
    match impl with
    | SL [SN 0; r; _] =>
        match as_list_of as_entry r with
        | Some r =>
            forallb (fun dflt =>
              outcome_smap_eqb (Ok r)
                (model_resolve rev_oracles dflt st (rev (map (@rev _) sets)) (rev (map (@rev _) chains))))
              [false; true]
            && (if all_same sets then match sets with s :: _ => smap_eqb r s | [] => true end else true)
        | None => false
        end
    | SL [SN 1; _; _] =>
        forallb (fun dflt =>
          outcome_smap_eqb (Err 0)
            (model_resolve rev_oracles dflt st (rev (map (@rev _) sets)) (rev (map (@rev _) chains))))
          [false; true]
    | _ => false
    end
  else match impl with SL [SN 3; _; _; _] => false | _ => true end.

Definition run (x : sx) : sx :=
  match x with
  | SL [SL [SN 0; SN _; SL xs; setsx; chainsx]; impl] =>
      let oracle := match impl with
                    | SL [SN 3; _; _; orc] => Some orc
                    | SL [SN _; _; orc] => Some orc
                    | _ => None end in
      match oracle with
      | Some (SL os as orc) =>
          match dec_events xs os, as_list_of (as_list_of as_entry) setsx,
                as_list_of (as_list_of as_str) chainsx with
          | Some st, Some sets, Some chains =>
              let m0 := model_resolve id_oracles false st sets chains in
              let m1 := model_resolve id_oracles true st sets chains in
              if outcome_smap_eqb m0 m1
              then SL [sx_res m0 orc; sx_bool (spec_ok st sets chains impl)]
              else SL [SL [SN (-4)]; sx_bool false]
          | _, _, _ => sx_bad
          end
      | _ => SL [SL [SN 2]; sx_bool false]
      end
  | SL [SL [SN 7; SN _n]; impl] =>
      (* long one-sided fork (harness/src/c07.rs scenario_long_fork): too large for the list-based
         model; all runs must agree and the power-levels event of the long fork ($p2) must win *)
      let expect := SL [SN 0; SL [SN 1; SS s!"$p2"]] in
      SL [expect; sx_bool (match impl with
                           | SL [SN 0; SL [SN 1; SS w]] => str_eqb w s!"$p2"
                           | _ => false
                           end)]
  | _ => sx_bad
  end.
