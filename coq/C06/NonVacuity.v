(** C06.NonVacuity — [C06_resolve_order_independent] has the hypotheses of C07's
    [resolve_eq_spec] (discharged for the store [st_nv] in C07.NonVacuity) plus two enumerations
    and two orders of the arguments.  Here its conclusion is computed on that store: state sets
    and auth chains passed in the other order, every internal enumeration reversed, the same map;
    and the single / identical-sets clause on the same store. *)
From Coq Require Import Permutation.
From Base Require Import Prelude.
From C07 Require Import Event Model Spec ProofsSort ProofsSets ProofsResolve Witness NonVacuity.
From C06 Require Import Proofs.
Local Open Scope string_scope.

Example both_enumerations_are_permutations : perm_oracles id_oracles /\ perm_oracles rev_oracles.
Proof. split; [apply id_oracles_perm | apply rev_oracles_perm]. Qed.

Example reordered_arguments_and_reversed_enumerations_agree :
  match resolve st_nv allow_all no_types id_oracles sets_nv chains_nv,
        resolve st_nv allow_all no_types rev_oracles (rev (map (@rev _) sets_nv)) (rev (map (@rev _) chains_nv)) with
  | Ok m, Ok m' =>
      forallb (fun k => match klookup k m, klookup k m' with
                        | Some a, Some b => str_eqb a b
                        | None, None => true
                        | _, _ => false end)
              (map fst m ++ map fst m')
      && negb (Nat.eqb (List.length m) 0)
  | _, _ => false
  end = true.
Proof. vm_compute. reflexivity. Qed.

Example a_single_set_comes_back :
  match resolve st_nv allow_all no_types rev_oracles [hd [] sets_nv] chains_nv with
  | Ok m => forallb (fun kv => match klookup (fst kv) m with Some a => str_eqb a (snd kv) | None => false end) (hd [] sets_nv)
            && Nat.eqb (List.length m) (List.length (hd [] sets_nv))
  | _ => false
  end = true.
Proof. vm_compute. reflexivity. Qed.
