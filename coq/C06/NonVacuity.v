(** C06.NonVacuity — [C06_resolve_order_independent] has the hypotheses of C07's
    [resolve_eq_spec] (discharged for the store [st_nv] in C07.NonVacuity) plus two enumerations
    and two orders of the arguments.  Here its conclusion is computed on that store: state sets
    and auth chains passed in the other order, every internal enumeration reversed, the same map;
    and the single / identical-sets clause on the same store. *)
From Coq Require Import Permutation.
From Base Require Import Prelude.
From C07 Require Import Event Model Spec ProofsSort ProofsSets ProofsResolve Witness NonVacuity.
From C06 Require Import Proofs.
Local Open Scope string_scope.

Example both_enumerations_are_permutations : perm_oracles id_oracles /\ perm_oracles rev_oracles.
Proof. split; [apply id_oracles_perm | apply rev_oracles_perm]. Qed.

Example reordered_arguments_and_reversed_enumerations_agree :
  match resolve st_nv allow_all no_types id_oracles sets_nv chains_nv,
        resolve st_nv allow_all no_types rev_oracles (rev (map (@rev _) sets_nv)) (rev (map (@rev _) chains_nv)) with
  | Ok m, Ok m' =>
      forallb (fun k => match klookup k m, klookup k m' with
                        | Some a, Some b => str_eqb a b
                        | None, None => true
                        | _, _ => false end)
              (map fst m ++ map fst m')
      && negb (Nat.eqb (List.length m) 0)
  | _, _ => false
  end = true.
Proof. vm_compute. reflexivity. Qed.

Example a_single_set_comes_back :
  match resolve st_nv allow_all no_types rev_oracles [hd [] sets_nv] chains_nv with
  | Ok m => forallb (fun kv => match klookup (fst kv) m with Some a => str_eqb a (snd kv) | None => false end) (hd [] sets_nv)
            && Nat.eqb (List.length m) (List.length (hd [] sets_nv))
  | _ => false
  end = true.
Proof. vm_compute. reflexivity. Qed.

(** [C06_sender_level_independent_of_creator_cache] on an event that cites TWO power-levels events
    before its create event (the history of the fixed finding C06-sender-level-creator-cache): with
    and without a cached creator the sender [@bob:b] gets the level of the power-levels event
    listed last (50), not the 100 of the stale one. *)
Definition st_dup : store :=
  [ create_ev "$c" "@alice:a" 1;
    member_ev "$ja" "@alice:a" "@alice:a" "join" 2 ["$c"];
    pl_ev "$p1" "@alice:a" 3 ["$c"; "$ja"] [("@alice:a", 100%Z); ("@bob:b", 100%Z)];
    member_ev "$jb" "@bob:b" "@bob:b" "join" 5 ["$c"; "$p1"];
    pl_ev "$p2" "@alice:a" 6 ["$c"; "$ja"; "$p1"] [("@alice:a", 100%Z); ("@bob:b", 50%Z)];
    ev0 "$x" "m.room.join_rules" "" "@bob:b" 8 ["$p1"; "$p2"; "$c"; "$jb"] ].

Example duplicate_power_levels_slot_same_level_with_and_without_cache :
  ProofsPower.level_of (power_level_for_sender st_dup None (bytes_of_string "$x")) = Ok 50%Z
  /\ ProofsPower.level_of (power_level_for_sender st_dup (Some (bytes_of_string "@alice:a")) (bytes_of_string "$x")) = Ok 50%Z.
Proof. split; vm_compute; reflexivity. Qed.

(** [C06_duplicate_auth_slot_last_listed_decides] on an event citing a stale leave and the current
    join of its sender (seeded C06-9): the join, listed last, is what the auth map holds. *)
Definition st_dupm : store :=
  [ create_ev "$c" "@alice:a" 1;
    member_ev "$bj0" "@bob:b" "@bob:b" "join" 10 ["$c"];
    member_ev "$bl" "@bob:b" "@bob:b" "leave" 20 ["$c"; "$bj0"];
    member_ev "$bj" "@bob:b" "@bob:b" "join" 30 ["$c"; "$bl"] ].

Example stale_leave_then_join_join_decides :
  match own_auth_map st_dupm (ids ["$c"; "$bl"; "$bj"]) [] with
  | Ok m => match klookup (t_member, bytes_of_string "@bob:b") m with
            | Some x => str_eqb (e_id x) (bytes_of_string "$bj")
            | None => false end
  | _ => false
  end = true.
Proof. vm_compute. reflexivity. Qed.
