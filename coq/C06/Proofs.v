(** C06.Proofs — state resolution is a function of its inputs as *sets*: permuting the state
    sets, the auth chains, their entries, and every internal hash-map enumeration does not change
    the resolved map; one or several identical state sets come back unchanged. *)
From Coq Require Import Permutation.
From Base Require Import Prelude.
From C07 Require Import Event Model Spec ProofsSort ProofsSets ProofsAuth ProofsGraph ProofsPower
  ProofsMainline ProofsClosure ProofsResolve ProofsFuel Witness.
From Coq Require Import ZifyBool ZifyNat ZifyN.

(** * Permuted inputs *)
(** [l'] is [l] with its elements reordered and each element itself reordered. *)
Definition perm2 {A} (l l' : list (list A)) : Prop :=
  exists l1, Forall2 (@Permutation A) l l1 /\ Permutation l1 l'.

Lemma perm2_refl {A} (l : list (list A)) : perm2 l l.
Proof.
  exists l. split; [|apply Permutation_refl]. induction l; constructor; [apply Permutation_refl|assumption].
Qed.

Lemma perm2_In {A} (l l' : list (list A)) : perm2 l l' ->
  forall x', In x' l' -> exists x, In x l /\ Permutation x x'.
Proof.
  intros (l1 & Hf & Hp) x' Hx'. apply (Permutation_in _ (Permutation_sym Hp)) in Hx'.
  clear Hp. induction Hf as [|a b l l1 Hab Hf IH]; [destruct Hx'|].
  destruct Hx' as [<-|Hx']; [exists a; split; [now left|exact Hab]|].
  destruct (IH Hx') as (x & Hx & Hpx). exists x. split; [now right|exact Hpx].
Qed.

Lemma perm2_length {A} (l l' : list (list A)) : perm2 l l' -> List.length l' = List.length l.
Proof.
  intros (l1 & Hf & Hp). rewrite <- (Permutation_length Hp). clear Hp.
  induction Hf; cbn [List.length]; congruence.
Qed.

Lemma filter_length_perm {A} (f : A -> bool) l l' : Permutation l l' ->
  List.length (filter f l) = List.length (filter f l').
Proof.
  induction 1 as [|x l l' Hp IH|x y l|l1 l2 l3 H1 IH1 H2 IH2]; cbn [filter].
  - reflexivity.
  - destruct (f x); cbn [List.length]; congruence.
  - destruct (f x), (f y); reflexivity.
  - congruence.
Qed.

Lemma filter_length_Forall2 {A} (f : A -> bool) (R : A -> A -> Prop) l l' :
  (forall a b, R a b -> In a l -> f a = f b) -> Forall2 R l l' ->
  List.length (filter f l) = List.length (filter f l').
Proof.
  intros H Hf. induction Hf as [|a b l l' Hab Hf IH]; [reflexivity|]. cbn [filter].
  rewrite <- (H a b Hab (or_introl eq_refl)).
  assert (IH' : List.length (filter f l) = List.length (filter f l')) by (apply IH; intros; apply H; auto; now right).
  destruct (f a); cbn [List.length]; congruence.
Qed.

Lemma cnt_perm2 sets sets' k v : maps sets -> perm2 sets sets' -> cnt sets' k v = cnt sets k v.
Proof.
  intros Hm (l1 & Hf & Hp). unfold cnt. rewrite <- (filter_length_perm _ _ _ Hp). symmetry.
  apply (filter_length_Forall2 _ (@Permutation _)); [|exact Hf].
  intros a b Hab Ha. now rewrite (klookup_perm a b k (Hm a Ha) Hab).
Qed.

Lemma ccount_perm2 chains chains' x : perm2 chains chains' -> ccount x chains' = ccount x chains.
Proof.
  intros (l1 & Hf & Hp). unfold ccount. rewrite <- (filter_length_perm _ _ _ Hp). symmetry.
  apply (filter_length_Forall2 _ (@Permutation _)); [|exact Hf].
  intros a b Hab _. apply mem_str_equiv. intros y; split; apply Permutation_in; [exact Hab|now apply Permutation_sym].
Qed.

Lemma maps_perm2 sets sets' : maps sets -> perm2 sets sets' -> maps sets'.
Proof.
  intros Hm Hp s' Hs'. destruct (perm2_In _ _ Hp s' Hs') as (s & Hs & Hps).
  eapply Permutation_NoDup; [apply Permutation_map; exact Hps|now apply Hm].
Qed.

Lemma same_everywhere_perm2 sets sets' k : maps sets -> perm2 sets sets' ->
  same_everywhere sets' k = same_everywhere sets k.
Proof.
  intros Hm Hp.
  assert (G : forall v, same_everywhere sets' k = Some v <-> same_everywhere sets k = Some v).
  { intros v. rewrite !same_everywhere_cnt, (cnt_perm2 sets sets' k v Hm Hp).
    pose proof (perm2_length _ _ Hp) as Hlen. unfold smap in *. rewrite Hlen. tauto. }
  destruct (same_everywhere sets' k) as [v|].
  - symmetry. now apply G.
  - destruct (same_everywhere sets k) as [v|]; [|reflexivity]. destruct (G v) as [_ G2]. specialize (G2 eq_refl). discriminate.
Qed.

Lemma entries_cnt sets k x : maps sets -> (In (k, x) (entries sets) <-> (1 <= cnt sets k x)%nat).
Proof.
  intros Hm. rewrite cnt_pos. unfold entries. rewrite in_concat. split.
  - intros (s & Hs & Hin). exists s. split; [exact Hs|]. apply In_klookup; [now apply Hm|exact Hin].
  - intros (s & Hs & Hl). exists s. split; [exact Hs|now apply klookup_In].
Qed.

Lemma conflicted_events_In sets x : maps sets ->
  (In x (conflicted_events sets) <-> exists k, (1 <= cnt sets k x)%nat /\ same_everywhere sets k = None).
Proof.
  intros Hm. unfold conflicted_events. rewrite dedup_In, in_map_iff. split.
  - intros ([k v] & E & Hf). cbn [snd] in E. subst v. apply filter_In in Hf as [Hin Hn]. cbn [fst] in Hn.
    exists k. split; [now apply (entries_cnt sets k x Hm)|]. destruct (same_everywhere sets k); [discriminate|reflexivity].
  - intros (k & Hc & Hs). exists (k, x). split; [reflexivity|]. apply filter_In. split.
    + now apply (entries_cnt sets k x Hm).
    + cbn [fst]. now rewrite Hs.
Qed.

Lemma conflicted_events_perm2 sets sets' x : maps sets -> perm2 sets sets' ->
  (In x (conflicted_events sets') <-> In x (conflicted_events sets)).
Proof.
  intros Hm Hp. rewrite (conflicted_events_In sets' x (maps_perm2 _ _ Hm Hp)), (conflicted_events_In sets x Hm).
  split; intros (k & Hc & Hs); exists k.
  - rewrite <- (cnt_perm2 sets sets' k x Hm Hp), <- (same_everywhere_perm2 sets sets' k Hm Hp). auto.
  - rewrite (cnt_perm2 sets sets' k x Hm Hp), (same_everywhere_perm2 sets sets' k Hm Hp). auto.
Qed.

Lemma auth_difference_In chains x :
  In x (auth_difference chains) <-> (1 <= ccount x chains)%nat /\ ccount x chains <> List.length chains.
Proof.
  unfold auth_difference. rewrite dedup_In, filter_In, negb_true_iff, <- ccount_pos.
  assert (Hfull : forallb (mem_str x) chains = false <-> ccount x chains <> List.length chains).
  { rewrite ccount_full. destruct (forallb (mem_str x) chains); split; congruence. }
  now rewrite Hfull.
Qed.

Lemma auth_difference_perm2 chains chains' x : perm2 chains chains' ->
  (In x (auth_difference chains') <-> In x (auth_difference chains)).
Proof.
  intros Hp. rewrite !auth_difference_In, (ccount_perm2 _ _ x Hp).
  pose proof (perm2_length _ _ Hp) as Hlen. unfold id in *. rewrite Hlen. tauto.
Qed.

Lemma full_conflicted_perm2 st sets sets' chains chains' : maps sets -> perm2 sets sets' -> perm2 chains chains' ->
  Permutation (full_conflicted st sets chains) (full_conflicted st sets' chains').
Proof.
  intros Hm Hs Hc. apply NoDup_Permutation.
  - apply NoDup_filter_local, dedup_NoDup.
  - apply NoDup_filter_local, dedup_NoDup.
  - intros x. unfold full_conflicted. rewrite !filter_In, !dedup_In, !in_app_iff.
    rewrite (conflicted_events_perm2 sets sets' x Hm Hs), (auth_difference_perm2 chains chains' x Hc). tauto.
Qed.

(** * The specification (with the code's deviations) is a function of the input sets *)
Section SpecPerm.
  Variable st : store.
  Variable auth : event -> (key -> option event) -> bool.
  Variable auth_types : event -> option (list key).
  Variable rank : id -> nat.
  Hypothesis Hrank : forall i e a, fetch st i = Some e -> In a (e_auth e) -> (rank a < rank i)%nat.
  Hypothesis Hbound : forall i, known st i = true -> (rank i < List.length st)%nat.
  Hypothesis Hak : forall i e a, fetch st i = Some e -> In a (e_auth e) -> known st a = true.
  Hypothesis Hlocal : auth_local auth auth_types.

  Lemma power_closure_dev_In full n :
    In n (power_closure st false full) <->
    In n full /\ (is_power_id st n = true \/
                  exists p, In p full /\ is_power_id st p = true /\ reaches st (fun a => mem_str a full) p n).
  Proof.
    unfold power_closure. rewrite filter_In, orb_true_iff, mem_str_In, in_flat_map.
    split; intros [Hn H]; (split; [exact Hn|]); destruct H as [H|(p & Hp & Hr)]; auto; right; exists p.
    - apply filter_In in Hp as [Hp1 Hp2]. split; [exact Hp1|]. split; [exact Hp2|].
      now apply (chain_within_correct st rank Hrank Hbound).
    - destruct Hr as [Hp2 Hr]. split; [apply filter_In; auto|]. now apply (chain_within_correct st rank Hrank Hbound).
  Qed.

  Lemma power_closure_perm full full' : NoDup full -> NoDup full' -> (forall x, In x full <-> In x full') ->
    Permutation (power_closure st false full) (power_closure st false full').
  Proof.
    intros Hn Hn' He. apply NoDup_Permutation.
    - unfold power_closure. now apply NoDup_filter_local.
    - unfold power_closure. now apply NoDup_filter_local.
    - intros n. rewrite !power_closure_dev_In, (He n).
      assert (Hmem : forall a, mem_str a full = mem_str a full') by (intros a; now apply mem_str_equiv).
      split; intros [Hf H]; (split; [exact Hf|]); destruct H as [H|(p & Hp & Hpp & Hr)]; auto; right; exists p.
      + split; [now apply He|]. split; [exact Hpp|]. eapply reaches_ext; [|exact Hr]. apply Hmem.
      + split; [now apply He|]. split; [exact Hpp|]. eapply reaches_ext; [|exact Hr]. intros a. symmetry. apply Hmem.
  Qed.

  Variables sets sets' : list smap.
  Variables chains chains' : list (list id).
  Hypothesis Hmaps : maps sets.
  Hypothesis Hps : perm2 sets sets'.
  Hypothesis Hpc : perm2 chains chains'.
  Hypothesis Hsk : forall s k i, In s sets -> In (k, i) s -> known st i = true.

  Theorem specdev_perm R R' :
    resolve_spec st auth auth_types false false sets chains = Some R ->
    resolve_spec st auth auth_types false false sets' chains' = Some R' ->
    smap_equiv R R'.
  Proof.
    unfold resolve_spec.
    set (unc := unconflicted sets). set (unc' := unconflicted sets').
    assert (Hu : smap_equiv unc unc').
    { intros k. unfold unc, unc'. now rewrite !unconflicted_lookup, (same_everywhere_perm2 sets sets' k Hmaps Hps). }
    set (full := full_conflicted st sets chains). set (full' := full_conflicted st sets' chains').
    assert (Hfp : Permutation full full') by now apply full_conflicted_perm2.
    assert (Hfn : NoDup full) by apply NoDup_filter_local, dedup_NoDup.
    assert (Hfn' : NoDup full') by apply NoDup_filter_local, dedup_NoDup.
    assert (Hfe : forall x, In x full <-> In x full').
    { intros x; split; apply Permutation_in; [exact Hfp|now apply Permutation_sym]. }
    assert (Hfk : forall x, In x full -> known st x = true) by (intros x Hx; now apply filter_In in Hx as [_ Hx]).
    set (xs := power_closure st false full). set (xs' := power_closure st false full').
    assert (Hxp : Permutation xs xs') by now apply power_closure_perm.
    assert (Hxe : forall x, In x xs <-> In x xs').
    { intros x; split; apply Permutation_in; [exact Hxp|now apply Permutation_sym]. }
    assert (Hxn : NoDup xs) by (apply NoDup_filter_local; exact Hfn).
    assert (Hxf : forall x, In x xs -> In x full) by (intros x Hx; now apply filter_In in Hx as [Hx _]).
    assert (Hso : power_ordering st xs = power_ordering st xs').
    { unfold power_ordering. apply spec_sort_ext; [exact Hxp|]. intros n d _.
      rewrite !filter_In, (mem_str_equiv d xs xs' Hxe). tauto. }
    rewrite <- Hso. destruct (power_ordering st xs) as [L|] eqn:EL; [|discriminate].
    intros [= <-] [= <-].
    destruct (iterative_auth_prefix st auth auth_types Hlocal L unc unc' Hu) as (pre1 & E1 & E1' & Hpre1).
    rewrite E1, E1'. set (partial := pre1 ++ unc). set (partial' := pre1 ++ unc').
    assert (Hpe : smap_equiv partial partial') by (apply equiv_app; exact Hu).
    set (rest := filter (fun i => negb (mem_str i xs)) full).
    set (rest' := filter (fun i => negb (mem_str i xs')) full').
    assert (Hrp : Permutation rest rest').
    { apply NoDup_Permutation; [now apply NoDup_filter_local|now apply NoDup_filter_local|].
      intros i. unfold rest, rest'. rewrite !filter_In, (Hfe i), (mem_str_equiv i xs xs' Hxe). tauto. }
    rewrite <- (Hpe (t_power_levels, [])).
    set (pe := klookup (t_power_levels, []) partial).
    (* elements of L are elements of xs *)
    assert (HLx : forall i, In i L -> In i xs).
    { intros i Hi. unfold power_ordering in EL.
      assert (Hem : emits_least xs (fun n => filter (fun a => mem_str a xs) (auths_of st n)) (power_key st) [] L).
      { eapply emit_emits_least; [|exact EL]. intros n k. unfold power_key, ev.
        destruct (fetch st n) as [e|]; [|discriminate]. destruct (sender_power st e); [intros [= <-]; reflexivity|discriminate]. }
      now apply (proj2 (emits_least_nodup _ _ _ _ Hem)). }
    assert (Hpk : forall p, pe = Some p -> known st p = true).
    { intros p Hp. unfold pe, partial in Hp. rewrite klookup_app in Hp.
      destruct (klookup (t_power_levels, []) pre1) as [q|] eqn:Eq.
      - inversion Hp; subst q. apply klookup_In in Eq. apply Hfk, Hxf, HLx. eapply Hpre1; eauto.
      - unfold unc in Hp. rewrite unconflicted_lookup in Hp. apply same_everywhere_spec in Hp as [Hne Hall].
        destruct sets as [|s0 r0]; [congruence|]. eapply (Hsk s0); [now left|].
        apply klookup_In. apply Hall. now left. }
    set (ml := mainline st pe).
    assert (Hml : NoDup ml).
    { unfold ml, mainline. destruct pe as [p|]; [|constructor].
      assert (Hkp : known st p = true) by now apply Hpk. apply (known_fetch st) in Hkp as (e & Ef).
      eapply (pl_walk_nodup st rank Hrank); eauto. }
    rewrite <- (mainline_ordering_perm st rank ml rest rest' Hrank Hbound Hak Hml Hrp).
    set (L2 := mainline_ordering st false ml rest).
    destruct (iterative_auth_prefix st auth auth_types Hlocal L2 partial partial' Hpe) as (pre2 & E2 & E2' & _).
    rewrite E2, E2'. unfold overlay. intros k. rewrite !klookup_app, (Hu k).
    destruct (klookup k unc'); [reflexivity|]. destruct (klookup k pre2); [reflexivity|apply Hpe].
  Qed.
End SpecPerm.

(** * Determinism of resolve *)
Section Determinism.
  Variable st : store.
  Variable auth : event -> (key -> option event) -> bool.
  Variable auth_types : event -> option (list key).
  Variable rank : id -> nat.
  Hypothesis Hrank : forall i e a, fetch st i = Some e -> In a (e_auth e) -> (rank a < rank i)%nat.
  Hypothesis Hbound : forall i, known st i = true -> (rank i < List.length st)%nat.
  Hypothesis Hak : forall i e a, fetch st i = Some e -> In a (e_auth e) -> known st a = true.
  Hypothesis Hstate : all_state_events st.
  Hypothesis Huniq : forall i e, fetch st i = Some e -> auth_keys_unique st e.
  Hypothesis Hlocal : auth_local auth auth_types.
  Variable c : id.
  Variable ce : event.
  Variable cr : str.
  Hypothesis Hc : h_create st c ce cr.
  Hypothesis Hwf : pl_wf st.
  Hypothesis Hcite : forall i e, fetch st i = Some e -> i <> c -> In c (e_auth e).

  Theorem resolve_order_independent (o o' : oracles) sets sets' chains chains' :
    perm_oracles o -> perm_oracles o' ->
    maps sets -> (forall ch, In ch chains -> NoDup ch) ->
    (forall s k i, In s sets -> In (k, i) s -> known st i = true) ->
    (conflicted_events sets = [] -> auth_difference chains = []) ->
    perm2 sets sets' -> perm2 chains chains' ->
    exists m m', resolve st auth auth_types o sets chains = Ok m
                 /\ resolve st auth auth_types o' sets' chains' = Ok m'
                 /\ smap_equiv m m'.
  Proof.
    intros Ho Ho' Hm Hch Hsk Hchains Hps Hpc.
    assert (Hm' : maps sets') by (eapply maps_perm2; eauto).
    assert (Hch' : forall ch, In ch chains' -> NoDup ch).
    { intros ch Hin. destruct (perm2_In _ _ Hpc ch Hin) as (ch0 & H0 & Hp). eapply Permutation_NoDup; eauto. }
    assert (Hsk' : forall s k i, In s sets' -> In (k, i) s -> known st i = true).
    { intros s k i Hs Hin. destruct (perm2_In _ _ Hps s Hs) as (s0 & H0 & Hp).
      eapply Hsk; [exact H0|]. eapply Permutation_in; [apply Permutation_sym; exact Hp|exact Hin]. }
    assert (Hchains' : conflicted_events sets' = [] -> auth_difference chains' = []).
    { intros E.
      assert (E0 : conflicted_events sets = []).
      { destruct (conflicted_events sets) as [|x l] eqn:Ex; [reflexivity|exfalso].
        assert (In x (conflicted_events sets')) by (apply (conflicted_events_perm2 sets sets' x Hm Hps); rewrite Ex; now left).
        rewrite E in H. destruct H. }
      specialize (Hchains E0).
      destruct (auth_difference chains') as [|x l] eqn:Ex; [reflexivity|exfalso].
      assert (In x (auth_difference chains)) by (apply (auth_difference_perm2 chains chains' x Hpc); rewrite Ex; now left).
      rewrite Hchains in H. destruct H. }
    destruct (resolve_eq_spec_dev st auth auth_types rank Hrank Hbound Hak Hstate Huniq Hlocal c ce cr Hc Hwf Hcite (build_graph_total st)
                sets chains Hm Hch Hsk Hchains o Ho) as (m & R & Em & ER & HmR).
    destruct (resolve_eq_spec_dev st auth auth_types rank Hrank Hbound Hak Hstate Huniq Hlocal c ce cr Hc Hwf Hcite (build_graph_total st)
                sets' chains' Hm' Hch' Hsk' Hchains' o' Ho') as (m' & R' & Em' & ER' & HmR').
    exists m, m'. split; [exact Em|]. split; [exact Em'|].
    pose proof (specdev_perm st auth auth_types rank Hrank Hbound Hak Hlocal sets sets' chains chains' Hm Hps Hpc Hsk R R' ER ER') as HRR.
    eapply smap_equiv_trans; [exact HmR|]. eapply smap_equiv_trans; [exact HRR|]. now apply smap_equiv_sym.
  Qed.
End Determinism.

(** * One state set, or several identical ones *)
Section Identical.
  Variable st : store.
  Variable auth : event -> (key -> option event) -> bool.
  Variable auth_types : event -> option (list key).
  Variable o : oracles.
  Hypothesis Ho : perm_oracles o.

  Lemma sep_inner_noconf (n : nat) (k : key) : forall (l : list (id * nat)) (acc : smap * list (key * list id)),
    (forall vc, In vc l -> snd vc = n) ->
    snd (fold_left (fun acc vc =>
               if Nat.eqb (snd vc) n then ((k, fst vc) :: fst acc, snd acc)
               else (fst acc, conf_push k (fst vc) (snd acc))) l acc) = snd acc.
  Proof.
    induction l as [|vc l IH]; intros acc H; cbn [fold_left]; [reflexivity|].
    rewrite (H vc (or_introl eq_refl)), Nat.eqb_refl. rewrite IH; [reflexivity|].
    intros vc' Hvc'. apply H. now right.
  Qed.

  Lemma separate_noconf sets :
    (forall k m vc, In (k, m) (occurrences sets) -> In vc m -> snd vc = List.length sets) ->
    snd (separate o sets) = [].
  Proof.
    intros H. unfold separate.
    assert (G : forall (L : list (key * list (id * nat))) acc,
              (forall km, In km L -> In km (occurrences sets)) ->
              snd (fold_left (fun acc km =>
                   fold_left (fun acc vc =>
                     if Nat.eqb (snd vc) (List.length sets) then ((fst km, fst vc) :: fst acc, snd acc)
                     else (fst acc, conf_push (fst km) (fst vc) (snd acc)))
                     (o s_inner _ (snd km)) acc) L acc) = snd acc).
    { induction L as [|[k m] L IH]; intros acc HL; cbn [fold_left]; [reflexivity|].
      rewrite IH by (intros km Hkm; apply HL; now right). cbn [fst snd].
      apply sep_inner_noconf. intros vc Hvc. apply (o_In o Ho) in Hvc.
      eapply (H k m); [apply HL; now left|exact Hvc]. }
    rewrite G; [reflexivity|]. intros km Hkm. now apply (o_In o Ho) in Hkm.
  Qed.

  Theorem single_or_identical_sets_unchanged sets chains s0 :
    sets <> [] -> maps sets -> (forall s, In s sets -> smap_equiv s s0) ->
    exists m, resolve st auth auth_types o sets chains = Ok m /\ smap_equiv m s0.
  Proof.
    intros Hne Hm Hall. unfold resolve.
    destruct (occurrences_spec sets) as [Hok Hget].
    assert (Hfull : forall k v, (1 <= cnt sets k v)%nat -> cnt sets k v = List.length sets).
    { intros k v Hp. apply cnt_pos in Hp as (s & Hs & Hl). apply cnt_full. intros s' Hs'.
      rewrite (Hall s' Hs' k), <- (Hall s Hs k). exact Hl. }
    rewrite separate_noconf.
    - cbn [is_nil]. exists (fst (separate o sets)). split; [reflexivity|].
      intros k. rewrite (separate_clean_spec o Ho sets Hm k).
      destruct sets as [|s r]; [congruence|].
      destruct (klookup k s0) as [v|] eqn:E0.
      + apply same_everywhere_spec. split; [discriminate|]. intros s' Hs'. now rewrite (Hall s' Hs' k).
      + destruct (same_everywhere (s :: r) k) as [v|] eqn:Es; [|reflexivity].
        apply same_everywhere_spec in Es as [_ Hl]. specialize (Hl s (or_introl eq_refl)).
        rewrite (Hall s (or_introl eq_refl) k) in Hl. congruence.
    - intros k m [v cn] Hkm Hvc. cbn [snd].
      assert (Hp : (1 <= cn)%nat) by (destruct Hok as [_ Hpos]; eapply (proj2 (Hpos k m Hkm)); eauto).
      assert (E : occ_get (occurrences sets) k v = cn) by (apply occ_get_In; eauto).
      rewrite Hget, (ecount_entries sets k v Hm) in E. rewrite <- E. apply Hfull. lia.
  Qed.
End Identical.

(** * Statements as they appear in Properties.v *)
Lemma full_conflicted_order_independent (st : store) (o o' : oracles) sets sets' chains chains' :
  perm_oracles o -> perm_oracles o' -> maps sets -> (forall c, In c chains -> NoDup c) ->
  perm2 sets sets' -> perm2 chains chains' ->
  forall x, In x (all_conflicted st o chains (snd (separate o sets)))
            <-> In x (all_conflicted st o' chains' (snd (separate o' sets'))).
Proof.
  intros Ho Ho' Hm Hc Hps Hpc x.
  assert (Hm' : maps sets') by (eapply maps_perm2; eauto).
  assert (Hc' : forall ch, In ch chains' -> NoDup ch).
  { intros ch Hin. destruct (perm2_In _ _ Hpc ch Hin) as (ch0 & H0 & Hp). eapply Permutation_NoDup; eauto. }
  rewrite (full_conflicted_eq_spec st o sets chains Ho Hm Hc x).
  rewrite (full_conflicted_eq_spec st o' sets' chains' Ho' Hm' Hc' x).
  pose proof (full_conflicted_perm2 st sets sets' chains chains' Hm Hps Hpc) as Hp.
  split; apply Permutation_in; [exact Hp|now apply Permutation_sym].
Qed.

Lemma rev_gkeys_perm : perm_oracles rev_gkeys.
Proof.
  intros s A l. unfold rev_gkeys. destruct (Nat.eqb s s_gkeys); [apply Permutation_sym, Permutation_rev|apply Permutation_refl].
Qed.

Lemma sort_order_dependent_without_H :
  perm_oracles id_oracles /\ perm_oracles rev_gkeys
  /\ sorted_power id_oracles = Ok (ids ["$b"; "$a"]%string)
  /\ sorted_power rev_gkeys = Ok (ids ["$a"; "$b"]%string)
  /\ match resolve st_h allow_all no_types id_oracles sets_h chains_h,
           resolve st_h allow_all no_types rev_gkeys sets_h chains_h with
     | Ok m1, Ok m2 => klookup k_jr m1 = Some (bytes_of_string "$a") /\ klookup k_jr m2 = Some (bytes_of_string "$b")
     | _, _ => False end.
Proof.
  split; [apply id_oracles_perm|]. split; [apply rev_gkeys_perm|]. exact sort_order_dependent_without_H_compute.
Qed.
