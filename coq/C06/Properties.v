(** C06.Properties — the theorems that decide C06 (model level), and nothing else.

    [perm2 l l']: [l'] is [l] with its elements reordered and every element itself reordered
    (the state sets / auth chains passed in another order, each map / set iterated in another
    order).  [perm_oracles o]: every internal hash-container enumeration is an arbitrary
    permutation, chosen independently per iteration site.  Maps are compared by lookup. *)
From Coq Require Import Permutation.
From Base Require Import Prelude.
From C07 Require Import Event Model Spec ProofsSort ProofsSets ProofsAuth ProofsGraph ProofsPower
  ProofsMainline ProofsClosure ProofsResolve Witness.
From C06 Require Import Proofs.

(** Under H_create (one create event, cited by every other event of the store) the resolved
    map does not depend on the order of the state sets, of the auth chains, of their entries,
    nor on any internal enumeration. *)
Theorem C06_resolve_order_independent :
  forall (st : store) (auth : event -> (key -> option event) -> bool) (auth_types : event -> option (list key))
         (rank : id -> nat),
  (forall i e a, fetch st i = Some e -> In a (e_auth e) -> (rank a < rank i)%nat) ->
  (forall i, known st i = true -> (rank i < List.length st)%nat) ->
  (forall i e a, fetch st i = Some e -> In a (e_auth e) -> known st a = true) ->
  all_state_events st ->
  (forall i e, fetch st i = Some e -> auth_keys_unique st e) ->
  auth_local auth auth_types ->
  forall (c : id) (ce : event) (cr : str), h_create st c ce cr -> pl_wf st ->
  (forall i e, fetch st i = Some e -> i <> c -> In c (e_auth e)) ->
  forall (o o' : oracles) sets sets' chains chains',
  perm_oracles o -> perm_oracles o' ->
  maps sets -> (forall ch, In ch chains -> NoDup ch) ->
  (forall s k i, In s sets -> In (k, i) s -> known st i = true) ->
  (conflicted_events sets = [] -> auth_difference chains = []) ->
  perm2 sets sets' -> perm2 chains chains' ->
  exists m m', resolve st auth auth_types o sets chains = Ok m
               /\ resolve st auth auth_types o' sets' chains' = Ok m'
               /\ smap_equiv m m'.
Proof. exact resolve_order_independent. Qed.
Eval compute in "PA:C06_resolve_order_independent"%string.
Print Assumptions C06_resolve_order_independent.

(** Every stage up to the sort is order-independent without any hypothesis on the store:
    the full conflicted set is the same set ... *)
Theorem C06_full_conflicted_order_independent :
  forall (st : store) (o o' : oracles) sets sets' chains chains',
  perm_oracles o -> perm_oracles o' -> maps sets -> (forall c, In c chains -> NoDup c) ->
  perm2 sets sets' -> perm2 chains chains' ->
  forall x, In x (all_conflicted st o chains (snd (separate o sets)))
            <-> In x (all_conflicted st o' chains' (snd (separate o' sets'))).
Proof. exact full_conflicted_order_independent. Qed.
Eval compute in "PA:C06_full_conflicted_order_independent"%string.
Print Assumptions C06_full_conflicted_order_independent.

(** ... and the exposed sort is independent of the enumeration of its graph. *)
Theorem C06_sort_order_independent :
  forall (o o' : oracles) key_fn g g', perm_oracles o -> perm_oracles o' -> NoDup (map fst g) ->
  Permutation (map fst g) (map fst g') ->
  (forall n d, In d (edges_of g n) <-> In d (edges_of g' n)) ->
  lexico_topo_sort o key_fn g = lexico_topo_sort o' key_fn g'.
Proof. exact sort_enumeration_independent. Qed.
Eval compute in "PA:C06_sort_order_independent"%string.
Print Assumptions C06_sort_order_independent.

(** One state set, or several identical ones, come back unchanged — for every store, every
    auth function, every auth chains and every enumeration (no hypothesis on the store). *)
Theorem C06_single_or_identical_sets_unchanged :
  forall (st : store) auth auth_types (o : oracles), perm_oracles o ->
  forall sets chains s0, sets <> [] -> maps sets -> (forall s, In s sets -> smap_equiv s s0) ->
  exists m, resolve st auth auth_types o sets chains = Ok m /\ smap_equiv m s0.
Proof. exact single_or_identical_sets_unchanged. Qed.
Eval compute in "PA:C06_single_or_identical_sets_unchanged"%string.
Print Assumptions C06_single_or_identical_sets_unchanged.

(** The sender's power level used by the reverse topological power ordering does not depend on
    whether the room creator is already cached (the cache is filled in hash-iteration order,
    lib.rs:241-260) - for EVERY event that cites the create event, including one that cites several
    power-levels events: no uniqueness hypothesis on the auth events.  Before the repair 2da10dd of
    /repo the scan of the auth events stopped as soon as it had a power-levels event and knew the
    creator, and this statement was false of the model of that code (found on the real code: 400
    identical calls of [resolve], two different results). *)
Theorem C06_sender_level_independent_of_creator_cache :
  forall (st : store) (c : id) (ce : event) (cr : str),
  h_create st c ce cr ->
  forall n e, fetch st n = Some e -> In c (e_auth e) ->
  level_of (power_level_for_sender st None n) = level_of (power_level_for_sender st (Some cr) n).
Proof. exact plfs_cache_independent. Qed.
Eval compute in "PA:C06_sender_level_independent_of_creator_cache"%string.
Print Assumptions C06_sender_level_independent_of_creator_cache.

(** When an event cites several auth events for one state slot (the specification rejects such an
    event, ruma leaves that to the caller), the map [iterative_auth_check] builds from the event's
    own auth events holds the one listed LAST: a function of the event's list, which is input, and
    of no enumeration of a hash container.  No uniqueness hypothesis. *)
Theorem C06_duplicate_auth_slot_last_listed_decides :
  forall (st : store) (auths : list id) (acc m : list (key * event)),
  own_auth_map st auths acc = Ok m ->
  forall k, klookup k m = match own_last_from st k auths None with Some x => Some x | None => klookup k acc end.
Proof. exact own_auth_map_last_wins. Qed.
Eval compute in "PA:C06_duplicate_auth_slot_last_listed_decides"%string.
Print Assumptions C06_duplicate_auth_slot_last_listed_decides.

(** The boundary: without H_create (the power event [$b] does not cite the create event) two
    enumerations of [graph.keys()] give different sorted lists, and with a permissive auth
    function different resolved maps.  (ruma's own [auth_check] rejects an event that does not
    cite the create event, so on the real code [$b] never enters the resolved state itself.) *)
Theorem C06_sort_order_dependent_without_H :
  perm_oracles id_oracles /\ perm_oracles rev_gkeys
  /\ sorted_power id_oracles = Ok (ids ["$b"; "$a"]%string)
  /\ sorted_power rev_gkeys = Ok (ids ["$a"; "$b"]%string)
  /\ match resolve st_h allow_all no_types id_oracles sets_h chains_h,
           resolve st_h allow_all no_types rev_gkeys sets_h chains_h with
     | Ok m1, Ok m2 => klookup k_jr m1 = Some (bytes_of_string "$a") /\ klookup k_jr m2 = Some (bytes_of_string "$b")
     | _, _ => False end.
Proof. exact sort_order_dependent_without_H. Qed.
Eval compute in "PA:C06_sort_order_dependent_without_H"%string.
Print Assumptions C06_sort_order_dependent_without_H.
