(** C17.NonVacuity — the models compute the expected results on concrete inputs (so "returns" is
    not satisfied by a model that rejects everything), and the side conditions are satisfiable. *)
From Base Require Import Prelude Sx.
From C17 Require Import Model Spec Proofs1.

(** The examples of the crate's own tests (content_disposition.rs, mod tests). *)
Example cd_inline : cd_parse s!"inline" = Ok (Inline, None).
Proof. vm_compute. reflexivity. Qed.

Example cd_spaces : cd_parse s!"  INLINE   ;FILENAME =   my_file   " = Ok (Inline, Some s!"my_file").
Proof. vm_compute. reflexivity. Qed.

Example cd_ext_value :
  cd_parse s!"attachment; filename*=UTF-8'en'%e2%82%ac%20rates; filename=""EURO rates"""
  = Ok (Attachment, Some [226; 130; 172; 32; 114; 97; 116; 101; 115]).
Proof. vm_compute. reflexivity. Qed.

Example cd_fallback :
  cd_parse s!"attachment; filename*=iso-8859-1''foo-%E4.html; filename=""foo-a.html"
  = Ok (Attachment, Some s!"foo-a.html").
Proof. vm_compute. reflexivity. Qed.

Example cd_quoted_escape :
  cd_parse s!"attachment; filename=""a \""b\"" \\c.txt""; x=y" = Ok (Attachment, Some s!"a ""b"" \c.txt").
Proof. vm_compute. reflexivity. Qed.

Example cd_custom : cd_parse s!"form-data; name=upload" = Ok (Custom s!"form-data", None).
Proof. vm_compute. reflexivity. Qed.

Example cd_missing : cd_parse s!"   " = Err 1.
Proof. vm_compute. reflexivity. Qed.

Example cd_invalid_type : cd_parse s!"a/b; filename=x" = Err 2.
Proof. vm_compute. reflexivity. Qed.

(** Invalid UTF-8 in a value is replaced, one U+FFFD per maximal invalid part. *)
Example lossy_example : lossy [97; 255; 226; 130; 98; 240; 159; 145; 141] = [97] ++ REPL ++ REPL ++ [98; 240; 159; 145; 141].
Proof. vm_compute. reflexivity. Qed.

(** ring-compat: the witness that made the unrepaired code assert is now handed on unchanged ... *)
Example ring_sentinel_only : from_bytes [161; 35; 3; 33] = Ok (WellFormed [161; 35; 3; 33]).
Proof. vm_compute. reflexivity. Qed.

(** ... and a document of ring's shape is rewritten: sentinel replaced by 81 21, length adjusted. *)
Example ring_rewrite :
  from_bytes [48; 7; 2; 161; 35; 3; 33; 0; 9] = Ok (CleanedFromRing [48; 5; 2; 129; 33; 0; 9]).
Proof. vm_compute. reflexivity. Qed.

Example ring_is_bytes : is_bytes [48; 7; 2; 161; 35; 3; 33; 0; 9].
Proof. repeat constructor. Qed.

(** matrix.to: the identifier of the witness of /repo fe84b08 is rejected, a user id is accepted. *)
Example matrix_to_empty_segment : matrix_to_parse s!"https://matrix.to/#/!x///" = Err 0.
Proof. vm_compute. reflexivity. Qed.

Example matrix_to_user : matrix_to_parse s!"https://matrix.to/#/@jplatte:notareal.hs" = Ok tt.
Proof. vm_compute. reflexivity. Qed.
