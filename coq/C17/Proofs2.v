(** C17.Proofs2 — no [Panic] outcome is reachable in the models owned by other properties where
    the owning property did not state it: redaction (C04), hashes (C05), signing and verification
    (C02, C03), X-Matrix parsing and the Authorization header (C16), typed events (C18). *)
From Base Require Import Prelude Sx Json JsonText Rules Base64.
From Coq Require Import ZifyBool ZifyNat ZifyN.
From C02 Require Model Proofs.
From C03 Require Model.
From C04 Require Model Proofs.
From C05 Require Model.
From C16 Require Model Spec ProofsXMatrix.
From C18 Require Model.
From C14 Require Dom Model.
From C17 Require Import Spec.

Lemma obind_returns {A B} (o : outcome A) (f : A -> outcome B) :
  Returns o -> (forall a, Returns (f a)) -> Returns (obind o f).
Proof.
  intros Ho Hf p. destruct o; cbn [obind]; try discriminate; [apply Hf|exfalso; eapply Ho; reflexivity].
Qed.

Ltac ret := let p := fresh "p" in intros p; discriminate.

(* ------------------------------------------------------------------------------------- *)
(** * C04: [redact], [redact_content_in_place] *)
Section Redact.
Import C04.Model.

Lemma apply_dec_returns d old : forall acc, Returns (apply_dec d old acc).
Proof.
  induction old as [|[k v] old IH]; intros acc; cbn [apply_dec]; [ret|].
  pose proof (C04.Proofs.retain_value_no_panic (d k) v) as Hrv.
  destruct (retain_value (d k) v) as [[v'|]|e|s]; [apply IH|apply IH|ret|].
  exfalso; eapply Hrv; reflexivity.
Qed.

Lemma apply_keys_returns r ks o : Returns (apply_keys r ks o).
Proof.
  induction ks as [arms| | |f a IHa b IHb]; cbn [apply_keys]; try ret.
  - apply apply_dec_returns.
  - destruct (f r); assumption.
Qed.

Lemma redact_content_returns r ty c : Returns (redact_content r ty c).
Proof. apply apply_keys_returns. Qed.

Theorem redact_returns r ev because : Returns (redact r ev because).
Proof.
  unfold redact. destruct (lookup k_type ev) as [[]|]; try ret.
  apply obind_returns.
  - destruct (lookup k_content ev) as [[]|]; try ret.
    apply obind_returns; [apply redact_content_returns|intros; ret].
  - intros ev1. apply obind_returns; [apply apply_dec_returns|].
    intros ev2. destruct because; ret.
Qed.
End Redact.

(* ------------------------------------------------------------------------------------- *)
(** * C05: [content_hash], [reference_hash] *)
Theorem content_hash_returns H o : Returns (C05.Model.content_hash H o).
Proof. unfold C05.Model.content_hash. destruct (C05.Model.too_big _); ret. Qed.

Theorem reference_hash_returns H R o : Returns (C05.Model.reference_hash H R o).
Proof.
  unfold C05.Model.reference_hash.
  pose proof (redact_returns (redaction R) o None) as Hr.
  destruct (C04.Model.redact (redaction R) o None); [|ret|exfalso; eapply Hr; reflexivity].
  destruct (C05.Model.too_big _); ret.
Qed.

(* ------------------------------------------------------------------------------------- *)
(** * C02: [sign_json], [verify_json] *)
Section Sign.
Import C02.Model.
Variable key : Type.
Variable sign : key -> str -> str.
Variable key_version : key -> str.
Variable verify : str -> str -> str -> bool.

Theorem sign_json_returns e k o : Returns (fst (sign_json key sign key_version e k o)).
Proof.
  unfold sign_json. destruct (lookup k_signatures o) as [[| | | | |sm]|]; cbn [fst]; try ret.
  destruct (lookup e sm) as [[]|]; cbn [fst]; ret.
Qed.

(** On success the signed object has a `signatures` member (what [hash_and_sign_event] unwraps). *)
Lemma sign_json_has_signatures e k o o' o2 :
  sign_json key sign key_version e k o = (Ok o', o2) -> lookup k_signatures o' <> None.
Proof.
  unfold sign_json. intros H.
  assert (Hins : forall m x, lookup k_signatures
                   (match lookup k_unsigned o with
                    | Some u => insert k_unsigned u (insert k_signatures x m)
                    | None => insert k_signatures x m
                    end) <> None).
  { intros m x. destruct (lookup k_unsigned o).
    - rewrite !lookup_insert.
      replace (str_eqb k_signatures k_unsigned) with false by reflexivity.
      rewrite str_eqb_refl. discriminate.
    - rewrite lookup_insert, str_eqb_refl. discriminate. }
  destruct (lookup k_signatures o) as [[| | | | |sm]|]; try discriminate.
  - destruct (lookup e sm) as [[]|]; try discriminate; injection H as <- _; apply Hins.
  - cbn [lookup] in H. injection H as <- _; apply Hins.
Qed.

Lemma check_set_returns pks msg set : forall c, Returns (check_set verify pks msg set c).
Proof.
  induction set as [|[kid sg] rest IH]; intros c; cbn [check_set]; [ret|].
  destruct (supported_key_id kid); [|apply IH].
  destruct (lookup kid pks) as [pk|]; [|ret]. destruct sg as [| | |sgs| |]; try ret.
  destruct (b64_decode false sgs); [|ret]. destruct (verify _ _ _); [apply IH|ret].
Qed.

Lemma verify_entity_returns pkm sigmap msg e : Returns (verify_entity verify pkm sigmap msg e).
Proof.
  unfold verify_entity. destruct (lookup e sigmap) as [[| | | | |set]|]; try ret.
  destruct (lookup e pkm) as [pks|]; [|ret].
  pose proof (check_set_returns pks msg set false) as Hc.
  destruct (check_set verify pks msg set false) as [[]| |]; try ret. exfalso; eapply Hc; reflexivity.
Qed.

Lemma verify_all_returns pkm sigmap msg es : Returns (verify_all verify pkm sigmap msg es).
Proof.
  induction es as [|e rest IH]; cbn [verify_all]; [ret|].
  pose proof (verify_entity_returns pkm sigmap msg e) as He.
  destruct (verify_entity verify pkm sigmap msg e); [exact IH|ret|exfalso; eapply He; reflexivity].
Qed.

Theorem verify_json_returns pkm o : Returns (verify_json verify pkm o).
Proof.
  unfold verify_json. destruct (lookup k_signatures o) as [[]|]; try ret. apply verify_all_returns.
Qed.
End Sign.

(* ------------------------------------------------------------------------------------- *)
(** * C03: [verify_event], [hash_and_sign_event] *)
Section Event.
Import C03.Model.
Variable user_server : str -> option str.
Variable event_server : str -> option str.
Variable H : str -> str.
Variable verify : str -> str -> str -> bool.
Variable key : Type.
Variable sign : key -> str -> str.
Variable key_version : key -> str.

Lemma tpi_returns o : Returns (is_invite_via_third_party_id o).
Proof.
  unfold is_invite_via_third_party_id.
  destruct (lookup k_type o) as [[]|]; try ret.
  destruct (negb _); [ret|].
  destruct (lookup k_content o) as [[]|]; try ret.
  destruct (lookup k_membership m) as [[]|]; try ret.
  destruct (negb _); [ret|].
  destruct (lookup k_tpi m) as [[]|]; ret.
Qed.

Lemma servers_to_check_returns sr o : Returns (servers_to_check user_server event_server sr o).
Proof.
  unfold servers_to_check.
  apply obind_returns; [apply tpi_returns|intros tpi].
  apply obind_returns.
  { destruct tpi; [ret|]. destruct (lookup k_sender o) as [[]|]; try ret. destruct (user_server s); ret. }
  intros s1. apply obind_returns.
  { destruct (check_event_id_server sr); [|ret].
    destruct (lookup k_event_id o) as [[]|]; try ret. destruct (event_server s); ret. }
  intros s2. destruct (check_join_authorised_via_users_server sr); [|ret].
  destruct (lookup k_content o) as [[]|]; try ret.
  destruct (lookup k_jav m) as [[]|]; try ret. destruct (user_server s); ret.
Qed.

Theorem verify_event_returns pkm o R :
  Returns (verify_event user_server event_server H verify pkm o R).
Proof.
  unfold verify_event.
  pose proof (redact_returns (redaction R) o None) as Hr.
  destruct (C04.Model.redact (redaction R) o None) as [red| |]; [|ret|exfalso; eapply Hr; reflexivity].
  apply obind_returns.
  { unfold stored_hash. destruct (lookup C05.Model.k_hashes o) as [[]|]; try ret.
    destruct (lookup k_sha256 m) as [[]|]; ret. }
  intros hash. destruct (lookup _ o) as [[| | | | |sigmap]|]; try ret.
  apply obind_returns; [apply servers_to_check_returns|intros servers].
  apply obind_returns; [apply verify_all_returns|intros _].
  pose proof (content_hash_returns H o) as Hc.
  destruct (C05.Model.content_hash H o); [|ret|exfalso; eapply Hc; reflexivity].
  destruct (b64_decode false hash); [|ret]. destruct (str_eqb _ _); ret.
Qed.

(** The [unwrap] of functions.rs after signing the redacted event is unreachable. *)
Theorem hash_and_sign_event_returns e k o rr :
  Returns (hash_and_sign_event H key sign key_version e k o rr).
Proof.
  unfold hash_and_sign_event.
  pose proof (content_hash_returns H o) as Hc.
  destruct (C05.Model.content_hash H o) as [h| |]; [|ret|exfalso; eapply Hc; reflexivity].
  apply obind_returns.
  { destruct (lookup C05.Model.k_hashes o) as [[]|]; ret. }
  intros m.
  match goal with |- context [C04.Model.redact rr ?o1 None] =>
    pose proof (redact_returns rr o1 None) as Hr;
    destruct (C04.Model.redact rr o1 None) as [red| |]; [|ret|exfalso; eapply Hr; reflexivity]
  end.
  pose proof (sign_json_returns key sign key_version e k red) as Hs.
  pose proof (sign_json_has_signatures key sign key_version e k red) as Hh.
  destruct (C02.Model.sign_json key sign key_version e k red) as [[red'| |] o2]; cbn [fst] in *;
    [|ret|exfalso; eapply Hs; reflexivity].
  specialize (Hh red' o2 eq_refl).
  destruct (lookup _ red'); [ret|]. exfalso; apply Hh. reflexivity.
Qed.
End Event.

(* ------------------------------------------------------------------------------------- *)
(** * C16: the Authorization header and [XMatrix::parse] *)
Theorem authorization_header_returns a s : Returns (C16.Model.authorization_header a s).
Proof.
  rewrite C16.ProofsXMatrix.authorization_header_eq_spec.
  unfold C16.ProofsXMatrix.outcome_of_req.
  destruct (C16.Spec.spec_auth _ _ _); try ret. destruct (C16.Spec.field_value_ok _); ret.
Qed.

Section XMatrix.
Import C16.Model.

(** How many more calls of [Iterator::next] a parser state can answer with a challenge,
    beyond one per remaining input byte. *)
Definition rank (s : pstate) : nat :=
  match s with
  | SDone => 1
  | SPreToken None _ => 1
  | SPreToken (Some _) _ => 2
  | SToken None _ _ _ _ => 2
  | SToken (Some _) _ _ _ _ => 3
  | SPostEquals _ _ => 2
  | SUnquoted _ _ _ => 2
  | SQuoted _ _ _ _ _ => 2
  end.

Lemma next_item_measure : forall input s c s' rest,
  next_item s input = ItemOk c s' rest ->
  (List.length rest + rank s' + 1 <= List.length input + rank s)%nat.
Proof.
  induction input as [|b input IH]; intros s c s' rest Hn; cbn [next_item] in Hn.
  - unfold at_eof in Hn. destruct s as [|ch next|ch tok ws cs ck|ch k|ch k v|ch k v e bs].
    + discriminate.
    + destruct (negb (p_eof next)); [discriminate|]. destruct ch; [|discriminate].
      injection Hn as <- <- <-. cbn [rank List.length]. lia.
    + destruct (negb cs); [discriminate|].
      destruct (negb (is_nil ws) && negb (str_eqb ws [SPACE])); [discriminate|].
      destruct ch; injection Hn as <- <- <-; cbn [rank List.length]; lia.
    + discriminate.
    + injection Hn as <- <- <-. cbn [rank List.length]. lia.
    + discriminate.
  - destruct (step s b) as [s1|c1 s1| |] eqn:Es; try discriminate.
    + (* Next: the rank grows by at most one per consumed byte *)
      apply IH in Hn. cbn [List.length].
      assert (Hr : (rank s1 <= rank s + 1)%nat).
      { clear Hn IH. unfold step in Es.
        destruct s as [|ch next|ch tok ws cs ck|ch k|ch k v|ch k v e bs]; try discriminate.
        - destruct (is_ows b && p_ws next); [injection Es as <-; destruct ch; cbn [rank]; lia|].
          destruct (b =? COMMA)%N; [injection Es as <-; destruct ch; cbn [rank]; lia|].
          destruct (is_tchar b); [injection Es as <-; destruct ch; cbn [rank]; lia|discriminate].
        - destruct (is_tchar b).
          { destruct (is_nil ws); [injection Es as <-; destruct ch; cbn [rank]; lia|].
            destruct (negb cs || negb (str_eqb ws [SPACE])); [discriminate|].
            unfold yield_or_next in Es. destruct ch; [discriminate|].
            injection Es as <-. cbn [rank]. lia. }
          destruct ((b =? COMMA)%N && cs).
          { unfold yield_or_next in Es. destruct ch; [discriminate|].
            injection Es as <-. cbn [rank]. lia. }
          destruct ((b =? EQUALS)%N && ck).
          { destruct ch; [|discriminate]. injection Es as <-. cbn [rank]. lia. }
          destruct ((b =? SPACE)%N || (b =? HTAB)%N); [|discriminate].
          injection Es as <-. destruct ch; cbn [rank]; lia.
        - destruct (is_ows b); [injection Es as <-; cbn [rank]; lia|].
          destruct (b =? DQUOTE)%N; [injection Es as <-; cbn [rank]; lia|].
          destruct (is_tchar b); [injection Es as <-; cbn [rank]; lia|discriminate].
        - destruct (is_tchar b); [injection Es as <-; cbn [rank]; lia|].
          destruct (is_ows b); [injection Es as <-; cbn [rank]; lia|].
          destruct (b =? COMMA)%N; [injection Es as <-; cbn [rank]; lia|discriminate].
        - destruct bs.
          { destruct (is_escapable b); [injection Es as <-; cbn [rank]; lia|discriminate]. }
          destruct (b =? BACKSLASH)%N; [injection Es as <-; cbn [rank]; lia|].
          destruct (b =? DQUOTE)%N; [injection Es as <-; cbn [rank]; lia|].
          destruct (is_qdtext b); [injection Es as <-; cbn [rank]; lia|discriminate]. }
      lia.
    + (* Yield: only from a token state that already holds a challenge *)
      injection Hn as <- <- <-. cbn [List.length].
      assert (Hr : (rank s1 <= rank s)%nat).
      { unfold step in Es.
        destruct s as [|ch next|ch tok ws cs ck|ch k|ch k v|ch k v e bs]; try discriminate.
        - destruct (is_ows b && p_ws next); [discriminate|].
          destruct (b =? COMMA)%N; [discriminate|]. destruct (is_tchar b); discriminate.
        - destruct (is_tchar b).
          { destruct (is_nil ws); [discriminate|].
            destruct (negb cs || negb (str_eqb ws [SPACE])); [discriminate|].
            unfold yield_or_next in Es. destruct ch; [|discriminate].
            injection Es as _ <-. cbn [rank]. lia. }
          destruct ((b =? COMMA)%N && cs).
          { unfold yield_or_next in Es. destruct ch; [|discriminate].
            injection Es as _ <-. cbn [rank]. lia. }
          destruct ((b =? EQUALS)%N && ck); [destruct ch; discriminate|].
          destruct ((b =? SPACE)%N || (b =? HTAB)%N); discriminate.
        - destruct (is_ows b); [discriminate|]. destruct (b =? DQUOTE)%N; [discriminate|].
          destruct (is_tchar b); discriminate.
        - destruct (is_tchar b); [discriminate|]. destruct (is_ows b); [discriminate|].
          destruct (b =? COMMA)%N; discriminate.
        - destruct bs; [destruct (is_escapable b); discriminate|].
          destruct (b =? BACKSLASH)%N; [discriminate|]. destruct (b =? DQUOTE)%N; [discriminate|].
          destruct (is_qdtext b); discriminate. }
      lia.
Qed.

Lemma find_scheme_fuel : forall fuel s input,
  (List.length input + rank s <= fuel)%nat -> Returns (find_scheme fuel s input).
Proof.
  induction fuel as [|fuel IH]; intros s input Hf.
  - destruct s as [|[]|[]| | |]; cbn [rank] in Hf; lia.
  - cbn [find_scheme]. destruct (next_item s input) as [c s' rest| |] eqn:En; try ret.
    destruct (eq_ignore_case (c_scheme c) _); [ret|].
    apply IH. apply next_item_measure in En. lia.
Qed.

Variable valid_server_name : str -> bool.
Variable valid_key_id : str -> bool.
Variable b64_decode : str -> option str.

Lemma xm_fields_returns ps : forall a, Returns (xm_fields valid_server_name valid_key_id b64_decode ps a).
Proof.
  induction ps as [|[name v] rest IH]; intros a; cbn [xm_fields]; [ret|].
  destruct (field_tag name =? 1)%N.
  { destruct (a_origin a); [ret|]. destruct (valid_server_name v); [apply IH|ret]. }
  destruct (field_tag name =? 2)%N.
  { destruct (a_destination a); [ret|]. destruct (valid_server_name v); [apply IH|ret]. }
  destruct (field_tag name =? 3)%N.
  { destruct (a_key a); [ret|]. destruct (valid_key_id v); [apply IH|ret]. }
  destruct (field_tag name =? 4)%N.
  { destruct (a_sig a); [ret|]. destruct (b64_decode v); [apply IH|ret]. }
  apply IH.
Qed.

(** [XMatrix::parse] returns for every input, whatever the identifier validators and the base64
    decoder answer; in particular the challenge iterator is exhausted within [len + 2] items. *)
Theorem xm_parse_returns input :
  Returns (xm_parse valid_server_name valid_key_id b64_decode input).
Proof.
  unfold xm_parse. apply obind_returns.
  - apply find_scheme_fuel. cbn [initial_state rank]. lia.
  - intros c. apply obind_returns; [apply xm_fields_returns|].
    intros a. destruct (a_origin a); [|ret]. destruct (a_key a); [|ret]. destruct (a_sig a); ret.
Qed.
End XMatrix.

(* ------------------------------------------------------------------------------------- *)
(** * C18: deserialization of the [Any*Event] enums *)
Section Events.
Import C18.Model.

Lemma get_str_returns k ev : Returns (get_str k ev).
Proof. unfold get_str. destruct (lookup k ev) as [[]|]; ret. Qed.

Lemma get_ts_returns ev : Returns (get_ts ev).
Proof.
  unfold get_ts. destruct (lookup k_ts ev) as [[]|]; try ret.
  repeat match goal with |- Returns (if ?c then _ else _) => destruct c end; ret.
Qed.

Lemma opt_field_returns need k ev : Returns (opt_field need k ev).
Proof.
  unfold opt_field. destruct need; [|ret].
  apply obind_returns; [apply get_str_returns|intros; ret].
Qed.

Lemma redaction_state_returns ev : Returns (redaction_state ev).
Proof.
  unfold redaction_state. destruct (lookup k_unsigned ev) as [[]|]; try ret.
  destruct (lookup k_redacted_because m) as [[]|]; ret.
Qed.

Lemma deser_kind_returns tables group k f ev : Returns (deser_kind tables group k f ev).
Proof.
  unfold deser_kind.
  apply obind_returns; [apply get_str_returns|intros ty].
  apply obind_returns; [destruct (maybe_redacted k f); [apply redaction_state_returns|ret]|intros red].
  destruct (negb _); [ret|]. destruct (_ && _); [ret|].
  apply obind_returns; [apply opt_field_returns|intros sender].
  apply obind_returns; [apply opt_field_returns|intros event_id].
  apply obind_returns.
  { destruct (has_ids k f); [|ret]. apply obind_returns; [apply get_ts_returns|intros; ret]. }
  intros ts. apply obind_returns; [apply opt_field_returns|intros room_id].
  apply obind_returns; [|intros; ret].
  destruct (has_state_key_field k); [|ret].
  assert (Hg : Returns (obind (get_str k_state_key ev) (fun s => Ok (Some s))))
    by (apply obind_returns; [apply get_str_returns|intros; ret]).
  destruct f; try exact Hg. destruct (lookup k_state_key ev); [exact Hg|ret].
Qed.

(** The dispatch model of the [Any*Event] deserializers (kind, format, variant, required
    members) has no reachable panic.  The serde layer underneath is not modelled. *)
Theorem deser_returns tg ev : Returns (deser tg ev).
Proof.
  unfold deser, deser_in. destruct tg; try apply deser_kind_returns.
  all: destruct (has_state_key ev); apply deser_kind_returns.
Qed.
End Events.

(* ------------------------------------------------------------------------------------- *)
(** * C01 / C14: total functions into panic-free types *)
Lemma canon_text_returns text :
  Returns (match canon_text text with Some r => Ok r | None => Err 0 end).
Proof. destruct (canon_text text); ret. Qed.

Lemma clean_returns T cfg f : Returns (Ok (C14.Model.clean T cfg f)).
Proof. ret. Qed.
