(** C17.Model — byte-level models of the entry points for untrusted data that no other
    property models:

    1. [ruma_common::http_headers::content_disposition] ([ContentDisposition::try_from(&[u8])],
       [from_str], [ContentDispositionType], [TokenString]) and [rfc8187::decode];
    2. [ruma_signatures::keys::compat] ([CompatibleDocument::from_bytes], [fix_ring_doc]; feature
       [ring-compat]) — the repaired code (/repo 1ca9769);
    3. [MatrixId::parse_with_sigil] (matrix_uri.rs:48-88), the part of [MatrixToUri::parse] that
       indexes into the decoded identifier.

    Strings are byte strings ([str] = list of bytes < 256).  Positions are [nat] (they are
    lengths).  Every index expression [bytes[i]], every slice [&bytes[a..b]], every
    [expect]/[unwrap] and every checked subtraction of the Rust code is an explicit [Panic]
    site here; the numbers are the sites' names:

      1 content_disposition.rs:234  bytes[*pos]            2  :241  &bytes[name_start..*pos]
      3 :266  bytes[*pos]                                   4  :293  &bytes[value_start..*pos]
      5 :304  bytes[*pos]                                   6  :157  bytes[*pos]
      7 :482  from_utf8(value).expect(..)                   8  :97   &value[disposition_type_start..pos]
      20 compat.rs doc.len() - 2                            21 doc.split_off(idx)
      22 &suffix[4..]   23 doc.len() as u8 - 2              24 doc[1] = ..
      30 matrix_uri.rs:80  id.as_bytes()[0]
      99 the [while pos != value.len()] loop of content_disposition.rs:106 ran out of fuel
         (= it would not terminate within [len + 1] iterations)

    No proofs in this file. *)
From Base Require Import Prelude Sx.
From C10 Require Model.
From C16 Require Model.

Definition len (s : str) : nat := List.length s.
Definition is_nil {A} (l : list A) : bool := match l with [] => true | _ => false end.

(** [bytes[i]] *)
Definition index (b : str) (i : nat) (site : N) : outcome N :=
  match nth_error b i with Some c => Ok c | None => Panic site end.

(** [&bytes[a..e]] *)
Definition slice (b : str) (a e : nat) (site : N) : outcome str :=
  if ((a <=? e) && (e <=? len b))%nat then Ok (firstn (e - a) (skipn a b)) else Panic site.

(** [u8::is_ascii_whitespace]: SP, HT, LF, FF, CR. *)
Definition is_ws (c : N) : bool := (c =? 32) || (c =? 9) || (c =? 10) || (c =? 12) || (c =? 13).

Definition is_tchar : N -> bool := C16.Model.is_tchar.
Definition eq_ignore_case : str -> str -> bool := C16.Model.eq_ignore_case.
Definition percent_decode : str -> str := C16.Model.percent_decode.
Definition is_cont : N -> bool := C10.Model.is_cont.
Definition valid_utf8 : str -> bool := C10.Model.valid_utf8.

(** [while let Some(byte) = bytes.get(pos) { if !p(byte) { break; } pos += 1; }] where [l] is
    the input from [pos] on. *)
Fixpoint scan (p : N -> bool) (l : str) (pos : nat) : nat :=
  match l with
  | [] => pos
  | c :: r => if p c then scan p r (S pos) else pos
  end.
Definition scan_from (p : N -> bool) (b : str) (pos : nat) : nat := scan p (skipn pos b) pos.

(** content_disposition.rs:196-204 *)
Definition skip_ws (b : str) (pos : nat) : nat := scan_from is_ws b pos.

(* ------------------------------------------------------------------------------------- *)
(** * [String::from_utf8_lossy] (core::str::lossy::Utf8Chunks): every maximal invalid prefix
      of a sequence becomes one U+FFFD. *)
Definition REPL : str := [239; 191; 189].

Definition width (b : N) : N :=
  if (194 <=? b) && (b <=? 223) then 2
  else if (224 <=? b) && (b <=? 239) then 3
  else if (240 <=? b) && (b <=? 244) then 4
  else 0.

Definition second_ok (lead c : N) : bool :=
  if lead =? 224 then (160 <=? c) && (c <=? 191)
  else if lead =? 237 then (128 <=? c) && (c <=? 159)
  else if lead =? 240 then (144 <=? c) && (c <=? 191)
  else if lead =? 244 then (128 <=? c) && (c <=? 143)
  else is_cont c.

Fixpoint lossy (s : str) : str :=
  match s with
  | [] => []
  | b0 :: r0 =>
      if b0 <? 128 then b0 :: lossy r0
      else if width b0 =? 2 then
        match r0 with
        | b1 :: r1 => if is_cont b1 then b0 :: b1 :: lossy r1 else REPL ++ lossy r0
        | [] => REPL
        end
      else if width b0 =? 3 then
        match r0 with
        | b1 :: r1 =>
            if second_ok b0 b1 then
              match r1 with
              | b2 :: r2 => if is_cont b2 then b0 :: b1 :: b2 :: lossy r2 else REPL ++ lossy r1
              | [] => REPL
              end
            else REPL ++ lossy r0
        | [] => REPL
        end
      else if width b0 =? 4 then
        match r0 with
        | b1 :: r1 =>
            if second_ok b0 b1 then
              match r1 with
              | b2 :: r2 =>
                  if is_cont b2 then
                    match r2 with
                    | b3 :: r3 =>
                        if is_cont b3 then b0 :: b1 :: b2 :: b3 :: lossy r3 else REPL ++ lossy r2
                    | [] => REPL
                    end
                  else REPL ++ lossy r1
              | [] => REPL
              end
            else REPL ++ lossy r0
        | [] => REPL
        end
      else REPL ++ lossy r0
  end.

(* ------------------------------------------------------------------------------------- *)
(** * rfc8187.rs:37-57 [decode].  Errors: 1 Empty, 2 WrongPartsCount, 3 NotUtf8. *)
Definition rfc8187_decode (b : str) : outcome str :=
  if is_nil b then Err 1
  else match C16.Model.split_on 39 b with
       | [charset; _lang; encoded] =>
           if eq_ignore_case charset s!"utf-8" then Ok (lossy (percent_decode encoded)) else Err 3
       | _ => Err 2
       end.

(** http_headers.rs:95-104 [unescape_string]: a backslash that is not itself escaped is
    dropped. *)
Fixpoint unescape_go (s : str) (esc : bool) : str :=
  match s with
  | [] => []
  | c :: r =>
      let esc' := (c =? 92) && negb esc in
      if esc' then unescape_go r esc' else c :: unescape_go r esc'
  end.
Definition unescape_string (s : str) : str := unescape_go s false.

(* ------------------------------------------------------------------------------------- *)
(** * content_disposition.rs *)

(** :211-250 [parse_param_name]: the name, if any, and the new position. *)
Definition parse_param_name (b : str) (pos : nat) : outcome (option str * nat) :=
  let pos := skip_ws b pos in
  if (pos =? len b)%nat then Ok (None, pos)
  else
    let name_start := pos in
    let pos := scan_from is_tchar b pos in
    if (pos =? len b)%nat then Ok (None, pos)
    else
      obind (index b pos 1) (fun c =>
      if c =? 59 then Ok (None, S pos)
      else
        obind (slice b name_start pos 2) (fun name =>
        if is_nil name then Ok (None, len b) else Ok (Some name, pos))).

(** The value loop of :279-291; [esc] is [escape_next]. *)
Fixpoint scan_value (quoted : bool) (l : str) (pos : nat) (esc : bool) : nat :=
  match l with
  | [] => pos
  | c :: r =>
      if negb quoted && (is_ws c || (c =? 59)) then pos
      else if quoted && (c =? 34) && negb esc then pos
      else scan_value quoted r (S pos) ((c =? 92) && negb esc)
  end.

(** :258-317 [parse_param_value] *)
Definition parse_param_value (b : str) (pos : nat) : outcome (option (str * bool) * nat) :=
  let pos := skip_ws b pos in
  if (pos =? len b)%nat then Ok (None, pos)
  else
    obind (index b pos 3) (fun c =>
    let quoted := c =? 34 in
    let pos := if quoted then S pos else pos in
    let value_start := pos in
    let pos := scan_value quoted (skipn pos b) pos false in
    obind (slice b value_start pos 4) (fun value =>
    let pos := if quoted && negb (pos =? len b)%nat then S pos else pos in
    let pos := skip_ws b pos in
    if negb (pos =? len b)%nat then
      obind (index b pos 5) (fun c2 =>
      if c2 =? 59 then Ok (Some (value, quoted), S pos) else Ok (None, len b))
    else Ok (Some (value, quoted), pos))).

Record raw_param := { rp_name : str; rp_value : str; rp_quoted : bool }.

(** :148-173 [RawParam::parse_next] *)
Definition parse_next (b : str) (pos : nat) : outcome (option raw_param * nat) :=
  obind (parse_param_name b pos) (fun r =>
  match fst r with
  | None => Ok (None, snd r)
  | Some name =>
      let pos := skip_ws b (snd r) in
      if (pos =? len b)%nat then Ok (None, pos)
      else
        obind (index b pos 6) (fun c =>
        if negb (c =? 61) then Ok (None, len b)
        else
          let pos := skip_ws b (S pos) in
          obind (parse_param_value b pos) (fun v =>
          match fst v with
          | None => Ok (None, snd v)
          | Some (value, q) => Ok (Some {| rp_name := name; rp_value := value; rp_quoted := q |}, snd v)
          end))
  end).

Fixpoint ends_with_byte (c : N) (s : str) : bool :=
  match s with
  | [] => false
  | [x] => x =? c
  | _ :: r => ends_with_byte c r
  end.
Definition ends_with_star (name : str) : bool := ends_with_byte 42 name.

(** :178-190 [RawParam::decode_value] *)
Definition decode_value (p : raw_param) : option str :=
  if ends_with_star (rp_name p) then
    match rfc8187_decode (rp_value p) with Ok s => Some s | _ => None end
  else
    let s := lossy (rp_value p) in
    if rp_quoted p then Some (unescape_string s) else Some s.

Inductive disp := Inline | Attachment | Custom (s : str).

(** :477-487 [TokenString::try_from(&[u8])].  Errors: 1 Empty, 2 InvalidCharacter. *)
Definition token_string (v : str) : outcome str :=
  if is_nil v then Err 1
  else if forallb is_tchar v then (if valid_utf8 v then Ok v else Panic 7)
  else Err 2.

(** :388-399 [ContentDispositionType::try_from(&[u8])] *)
Definition disposition_type (v : str) : outcome disp :=
  if eq_ignore_case v s!"inline" then Ok Inline
  else if eq_ignore_case v s!"attachment" then Ok Attachment
  else obind (token_string v) (fun t => Ok (Custom t)).

(** The loop of :106-120.  Result: (filename_ext, filename). *)
Fixpoint params_loop (fuel : nat) (b : str) (pos : nat) (filename : option str)
  : outcome (option str * option str) :=
  if (pos =? len b)%nat then Ok (None, filename)
  else
    match fuel with
    | O => Panic 99
    | S fuel' =>
        obind (parse_next b pos) (fun r =>
        match fst r with
        | Some p =>
            if eq_ignore_case (rp_name p) s!"filename*" then
              match decode_value p with
              | Some v => Ok (Some v, filename)                    (* break *)
              | None => params_loop fuel' b (snd r) filename
              end
            else if eq_ignore_case (rp_name p) s!"filename" then
              match decode_value p with
              | Some v => params_loop fuel' b (snd r) (Some v)
              | None => params_loop fuel' b (snd r) filename
              end
            else params_loop fuel' b (snd r) filename
        | None => params_loop fuel' b (snd r) filename
        end)
    end.

(** :73-124 [ContentDisposition::try_from(&[u8])] ([from_str] is the same on [s.as_bytes()]).
    Errors: 1 MissingDispositionType, 2 InvalidDispositionType. *)
Definition cd_parse (b : str) : outcome (disp * option str) :=
  let pos := skip_ws b 0 in
  if (pos =? len b)%nat then Err 1
  else
    let start := pos in
    let pos := scan_from (fun c => negb (is_ws c || (c =? 59))) b pos in
    obind (slice b start pos 8) (fun ty =>
    match disposition_type ty with
    | Ok d =>
        obind (params_loop (S (len b)) b pos None) (fun r =>
        Ok (d, match fst r with Some e => Some e | None => snd r end))
    | Err _ => Err 2
    | Panic s => Panic s
    end).

Definition disp_str (d : disp) : str :=
  match d with Inline => s!"inline" | Attachment => s!"attachment" | Custom s => s end.

(* ------------------------------------------------------------------------------------- *)
(** * keys/compat.rs (feature ring-compat), the repaired code *)
Definition RING_TEMPLATE : str := [161; 35; 3; 33].
Definition WELL_FORMED_PREFIX : str := [129; 33].

(** [subslice::SubsliceExt::find]: index of the first occurrence. *)
Fixpoint find_sub (pat s : str) (i : nat) : option nat :=
  if starts_with pat s then Some i
  else match s with
       | [] => None
       | _ :: r => find_sub pat r (S i)
       end.

Fixpoint set_nth (i : nat) (v : N) (l : str) : str :=
  match l, i with
  | [], _ => []
  | _ :: r, O => v :: r
  | x :: r, S i' => x :: set_nth i' v r
  end.

(** [fix_ring_doc]: [Ok None] = not ring's template, leave the document alone. *)
Definition fix_ring_doc (doc : str) : outcome (option str) :=
  match doc with
  | 48 :: _ =>
      if (len doc <? 2)%nat then Panic 20                          (* doc.len() - 2 *)
      else
        match nth_error doc 1 with
        | Some l =>
            if (N.to_nat l =? len doc - 2)%nat then
              match find_sub RING_TEMPLATE doc 0 with
              | None => Ok None
              | Some idx =>
                  if (len doc <? idx)%nat then Panic 21            (* split_off(idx) *)
                  else
                    let suffix := skipn idx doc in
                    let doc1 := firstn idx doc ++ WELL_FORMED_PREFIX in
                    if (len suffix <? 4)%nat then Panic 22         (* &suffix[4..] *)
                    else
                      let doc2 := doc1 ++ skipn 4 suffix in
                      let l8 := N.of_nat (len doc2) mod 256 in     (* as u8 *)
                      if l8 <? 2 then Panic 23                     (* - 2 *)
                      else if (len doc2 <? 2)%nat then Panic 24    (* doc[1] = *)
                      else Ok (Some (set_nth 1 (l8 - 2) doc2))
              end
            else Ok None
        | None => Ok None
        end
  | _ => Ok None
  end.

Inductive compat_doc := WellFormed (b : str) | CleanedFromRing (b : str).

(** [CompatibleDocument::from_bytes] *)
Definition from_bytes (b : str) : outcome compat_doc :=
  match find_sub RING_TEMPLATE b 0 with
  | Some _ =>
      obind (fix_ring_doc b) (fun o =>
      match o with Some d => Ok (CleanedFromRing d) | None => Ok (WellFormed b) end)
  | None => Ok (WellFormed b)
  end.

(* ------------------------------------------------------------------------------------- *)
(** * matrix_uri.rs:48-88 [MatrixId::parse_with_sigil] as far as panics go: which validator is
      reached, on which bytes.  The validators are C10's models.  Errors are not told apart
      (code 0). *)
Definition strip_prefix1 (c : N) (s : str) : str :=
  match s with x :: r => if x =? c then r else s | [] => s end.
Fixpoint strip_suffix1 (c : N) (s : str) : str :=
  match s with
  | [] => []
  | [x] => if x =? c then [] else [x]
  | x :: r => x :: strip_suffix1 c r
  end.

(** [percent_decode_str(s).decode_utf8()] *)
Definition decode_utf8 (s : str) : option str :=
  let d := percent_decode s in if valid_utf8 d then Some d else None.

Definition forget {A} (o : outcome A) : outcome unit :=
  match o with Ok _ => Ok tt | Err _ => Err 0 | Panic p => Panic p end.

Fixpoint split_once (c : N) (s : str) : option (str * str) :=
  match s with
  | [] => None
  | x :: r =>
      if x =? c then Some ([], r)
      else match split_once c r with Some (a, b) => Some (x :: a, b) | None => None end
  end.

Definition count_byte (c : N) (s : str) : nat := len (filter (fun x => x =? c) s).

Definition parse_with_sigil (s0 : str) : outcome unit :=
  let s := strip_suffix1 47 (strip_prefix1 47 s0) in
  if is_nil s then Err 0
  else if (1 <? count_byte 47 s)%nat then Err 0
  else
    match split_once 47 s with
    | Some (first_raw, second_raw) =>
        match decode_utf8 first_raw, decode_utf8 second_raw with
        | Some first, Some second =>
            match hd_error first, hd_error second with
            | Some f, Some g =>
                if ((f =? 33) || (f =? 35)) && (g =? 36) then
                  obind (forget (C10.Model.validate_room_or_alias_id first)) (fun _ =>
                  forget (C10.Model.validate_event_id second))
                else if (f =? 36) && ((g =? 33) || (g =? 35)) then
                  obind (forget (C10.Model.validate_room_or_alias_id second)) (fun _ =>
                  forget (C10.Model.validate_event_id first))
                else Err 0
            | _, _ => Err 0
            end
        | _, _ => Err 0
        end
    | None =>
        match decode_utf8 s with
        | None => Err 0
        | Some id =>
            obind (index id 0 30) (fun c =>                        (* id.as_bytes()[0] *)
            if c =? 64 then forget (C10.Model.validate_user_id id)
            else if c =? 33 then forget (C10.Model.validate_room_id id)
            else if c =? 35 then forget (C10.Model.validate_room_alias_id id)
            else Err 0)
        end
    end.

(** [MatrixToUri::parse] up to the identifier: strip the base URL and one trailing slash, take
    the text before the first `?`.  What follows (form_urlencoded, [ServerName::parse]) has no
    panic site of ruma's. *)
Definition MATRIX_TO_BASE : str := s!"https://matrix.to/#/".
Fixpoint strip_prefix (p s : str) : option str :=
  match p, s with
  | [], _ => Some s
  | x :: p', y :: s' => if x =? y then strip_prefix p' s' else None
  | _ :: _, [] => None
  end.
Fixpoint before (c : N) (s : str) : str :=
  match s with [] => [] | x :: r => if x =? c then [] else x :: before c r end.

Definition matrix_to_parse (s : str) : outcome unit :=
  match strip_prefix MATRIX_TO_BASE s with
  | None => Err 0
  | Some r => parse_with_sigil (before 63 (strip_suffix1 47 r))
  end.
