(** C17.Properties — the theorems that decide the modelled part of C17, and nothing else.

    [Returns o] (Spec.v): the outcome [o] of a model function is [Ok] or [Err], never a [Panic]
    site.  The models are Gallina functions, so a result also means termination: every modelled
    function is structurally recursive, except
      - the parameter loop of [ContentDisposition::try_from] ([params_loop], fuel [len + 1]),
      - the challenge iterator behind [XMatrix::parse] ([find_scheme], fuel [len + 2]),
    whose out-of-fuel result is a [Panic] site of its own (99) and is proved unreachable by the
    same theorems ([C17_content_disposition_total], [C17_xmatrix_parse_total]), and
      - C12's [get_match] / [cond_applies] / [matches_word], whose out-of-fuel result is [None]
        and is excluded in the statements ([<> None]).
    Side conditions are what the Rust types guarantee: [valid_utf8 s] for a [&str], [is_bytes b]
    (every element below 256) for a [&[u8]].

    Part 1: the entry points modelled by C17 itself (Model.v).  Part 2: the entry points whose
    models belong to other properties; a theorem closed by [exact <their lemma>] restates their
    result, the others are proved in Proofs2.v.  The unmodelled layers (serde_json, serde-derive,
    html5ever, http, url, pkcs8 / ed25519) are not the subject of any theorem: for them the check
    only searches (harness/src/c17.rs). *)
From Base Require Import Prelude Sx Json JsonText Rules.
From C10 Require Model Proofs.
From C12 Require Types Model Proofs7.
From C13 Require Types Model Proofs3.
From C14 Require Dom Model.
From C16 Require Model ProofsTables.
From C02 Require Model Proofs.
From C03 Require Model.
From C04 Require Model.
From C05 Require Model.
From C18 Require Model.
From C17 Require Import Model Spec Proofs1 Proofs2.

(* ===================================================================================== *)
(** * Part 1 — entry points modelled here *)

(** [ContentDisposition::try_from(&[u8])] and [from_str]: for EVERY list of bytes the parser
    returns a value or an error; none of its eight index / slice / expect sites is reachable
    and its parameter loop ends within [len + 1] iterations. *)
Theorem C17_content_disposition_total :
  forall b, Returns (cd_parse b).
Proof. exact cd_parse_returns. Qed.
Eval compute in "PA:C17_content_disposition_total"%string.
Print Assumptions C17_content_disposition_total.

(** [TokenString::try_from], [ContentDispositionType::try_from] (the [expect] on
    [str::from_utf8] is unreachable: token characters are ASCII) and [rfc8187::decode]. *)
Theorem C17_header_tokens_total :
  forall v, Returns (token_string v) /\ Returns (disposition_type v) /\ Returns (rfc8187_decode v).
Proof.
  exact (fun v => conj (token_string_returns v) (conj (disposition_type_returns v) (rfc8187_decode_returns v))).
Qed.
Eval compute in "PA:C17_header_tokens_total"%string.
Print Assumptions C17_header_tokens_total.

(** [CompatibleDocument::from_bytes] / [fix_ring_doc] (feature ring-compat, repaired code): no
    assertion, index, [split_off], slice or [u8] subtraction can fail, for every byte string. *)
Theorem C17_ring_compat_total :
  forall b, is_bytes b -> Returns (from_bytes b).
Proof. exact from_bytes_returns. Qed.
Eval compute in "PA:C17_ring_compat_total"%string.
Print Assumptions C17_ring_compat_total.

(** [MatrixId::parse_with_sigil] and [MatrixToUri::parse] up to the identifier: the first byte of
    the decoded identifier exists wherever it is read, and the validators reached do not panic. *)
Theorem C17_matrix_to_id_total :
  forall s, Returns (parse_with_sigil s) /\ Returns (matrix_to_parse s).
Proof. exact (fun s => conj (parse_with_sigil_returns s) (matrix_to_parse_returns s)). Qed.
Eval compute in "PA:C17_matrix_to_id_total"%string.
Print Assumptions C17_matrix_to_id_total.

(* ===================================================================================== *)
(** * Part 2 — entry points modelled by other properties *)

(** C10: no identifier validator (and no [MxcUri::parts]) panics on a Rust string. *)
Theorem C17_identifiers_total :
  forall s, C10.Model.valid_utf8 s = true ->
  (forall p, C10.Model.validate_user_id s <> Panic p) /\
  (forall p, C10.Model.validate_room_id s <> Panic p) /\
  (forall p, C10.Model.validate_room_alias_id s <> Panic p) /\
  (forall p, C10.Model.validate_event_id s <> Panic p) /\
  (forall p, C10.Model.validate_room_or_alias_id s <> Panic p) /\
  (forall p, C10.Model.validate_server_name s <> Panic p) /\
  (forall k p, C10.Model.validate_key_id k s <> Panic p) /\
  (forall p, C10.Model.validate_mxc s <> Panic p) /\
  (forall p, C10.Model.mxc_parts s <> Panic p) /\
  (forall p, C10.Model.validate_user_id_strict s <> Panic p) /\
  (forall p, C10.Model.localpart_fully_conforming s <> Panic p) /\
  (forall p, C10.Model.validate_room_version_id s <> Panic p) /\
  (forall p, C10.Model.validate_client_secret s <> Panic p) /\
  (forall k p, C10.Model.validate_key_name k s <> Panic p).
Proof. exact C10.Proofs.validate_total_all. Qed.
Eval compute in "PA:C17_identifiers_total"%string.
Print Assumptions C17_identifiers_total.

(** C12: [Ruleset::get_match] / [get_actions] return — no panic, fuel always sufficient — for
    every ruleset, every event (parseable or not), every context, whatever the external functions
    ([str::to_lowercase], "the regex crate accepts this pattern", user-id validity) answer. *)
Theorem C17_push_get_match_total :
  forall lowercase regex_fits valid_user_id rs ev c,
  (C12.Model.get_match lowercase regex_fits valid_user_id rs ev c <> None /\
   forall s, C12.Model.get_match lowercase regex_fits valid_user_id rs ev c <> Some (Panic s)) /\
  (C12.Model.get_actions lowercase regex_fits valid_user_id rs ev c <> None /\
   forall s, C12.Model.get_actions lowercase regex_fits valid_user_id rs ev c <> Some (Panic s)).
Proof.
  exact (fun l r v rs ev c => conj (C12.Proofs7.get_match_no_panic l r v rs ev c)
                                   (C12.Proofs7.get_actions_no_panic l r v rs ev c)).
Qed.
Eval compute in "PA:C17_push_get_match_total"%string.
Print Assumptions C17_push_get_match_total.

(** C12: [FlattenedJson::from_raw] followed by [PushCondition::applies], and the word matcher
    with hostile patterns. *)
Theorem C17_push_condition_total :
  forall lowercase regex_fits valid_user_id cd ev c,
  C12.Model.cond_applies lowercase regex_fits valid_user_id cd (C12.Model.from_raw ev) c <> None /\
  forall s, C12.Model.cond_applies lowercase regex_fits valid_user_id cd (C12.Model.from_raw ev) c
            <> Some (Panic s).
Proof. exact C12.Proofs7.cond_applies_no_panic. Qed.
Eval compute in "PA:C17_push_condition_total"%string.
Print Assumptions C17_push_condition_total.

Theorem C17_push_pattern_total :
  forall regex_fits v p,
  C12.Model.matches_word regex_fits (S (List.length v)) v p <> None /\
  forall s, C12.Model.matches_word regex_fits (S (List.length v)) v p <> Some (Panic s).
Proof. exact C12.Proofs7.matches_word_no_panic. Qed.
Eval compute in "PA:C17_push_pattern_total"%string.
Print Assumptions C17_push_pattern_total.

(** C13: [Ruleset::{insert, remove, set_enabled, set_actions}] on any ruleset: no panic ... *)
Theorem C17_ruleset_edit_total :
  forall s o p, snd (C13.Model.step s o) <> Panic p.
Proof. exact C13.Proofs3.step_no_panic. Qed.
Eval compute in "PA:C17_ruleset_edit_total"%string.
Print Assumptions C17_ruleset_edit_total.

(** ... and a rejected edit has no effect. *)
Theorem C17_ruleset_edit_error_no_effect :
  forall s o, ErrorKeepsState s (fst (C13.Model.step s o)) (snd (C13.Model.step s o)).
Proof. exact (fun s o e => C13.Proofs3.step_error_atomic s o e). Qed.
Eval compute in "PA:C17_ruleset_edit_error_no_effect"%string.
Print Assumptions C17_ruleset_edit_error_no_effect.

(** C16: none of the [expect] / [unreachable!] sites of [VersionHistory::select_path] is reachable. *)
Theorem C17_select_path_total :
  forall h, C16.ProofsTables.wf_history h -> forall vs, is_panic (C16.Model.select_path h vs) = false.
Proof. exact C16.ProofsTables.select_path_no_panic. Qed.
Eval compute in "PA:C17_select_path_total"%string.
Print Assumptions C17_select_path_total.

(** C16: a token that is not a legal header value gives an error, not a panic. *)
Theorem C17_authorization_header_total :
  forall a s, Returns (C16.Model.authorization_header a s).
Proof. exact authorization_header_returns. Qed.
Eval compute in "PA:C17_authorization_header_total"%string.
Print Assumptions C17_authorization_header_total.

(** C16: [XMatrix::parse] on any text, whatever the identifier validators and the base64 decoder
    answer; the http-auth challenge iterator is exhausted within [len + 2] items. *)
Theorem C17_xmatrix_parse_total :
  forall valid_server_name valid_key_id b64_decode input,
  Returns (C16.Model.xm_parse valid_server_name valid_key_id b64_decode input).
Proof. exact xm_parse_returns. Qed.
Eval compute in "PA:C17_xmatrix_parse_total"%string.
Print Assumptions C17_xmatrix_parse_total.

(** C04: [redact] / [redact_in_place] / [redact_content_in_place] on any object, any rules. *)
Theorem C17_redact_total :
  forall r ev because ty c,
  Returns (C04.Model.redact r ev because) /\ Returns (C04.Model.redact_content r ty c).
Proof. exact (fun r ev b ty c => conj (redact_returns r ev b) (redact_content_returns r ty c)). Qed.
Eval compute in "PA:C17_redact_total"%string.
Print Assumptions C17_redact_total.

(** C05: [content_hash], [reference_hash], whatever the hash function. *)
Theorem C17_hashes_total :
  forall H R o, Returns (C05.Model.content_hash H o) /\ Returns (C05.Model.reference_hash H R o).
Proof. exact (fun H R o => conj (content_hash_returns H o) (reference_hash_returns H R o)). Qed.
Eval compute in "PA:C17_hashes_total"%string.
Print Assumptions C17_hashes_total.

(** C02: [sign_json] and [verify_json] with hostile objects, whatever the key pair and the
    signature verifier. *)
Theorem C17_sign_verify_json_total :
  forall key sign key_version verify e k o pkm,
  Returns (fst (C02.Model.sign_json key sign key_version e k o)) /\
  Returns (C02.Model.verify_json verify pkm o).
Proof.
  exact (fun key sign kv verify e k o pkm =>
           conj (sign_json_returns key sign kv e k o) (verify_json_returns verify pkm o)).
Qed.
Eval compute in "PA:C17_sign_verify_json_total"%string.
Print Assumptions C17_sign_verify_json_total.

(** C02: a signing call that reports an error leaves the caller's object as it was. *)
Theorem C17_sign_json_error_no_effect :
  forall key sign key_version e k o r o2,
  C02.Model.sign_json key sign key_version e k o = (r, o2) -> (forall x, r <> Ok x) -> o2 = o.
Proof. exact C02.Proofs.sign_error_atomic. Qed.
Eval compute in "PA:C17_sign_json_error_no_effect"%string.
Print Assumptions C17_sign_json_error_no_effect.

(** C03: [verify_event] and [hash_and_sign_event]: in particular the [unwrap] of the
    `signatures` member after signing the redacted copy cannot fail. *)
Theorem C17_event_signing_total :
  forall user_server event_server H verify key sign key_version pkm o R e k rr,
  Returns (C03.Model.verify_event user_server event_server H verify pkm o R) /\
  Returns (C03.Model.hash_and_sign_event H key sign key_version e k o rr).
Proof.
  exact (fun us es H v key sign kv pkm o R e k rr =>
           conj (verify_event_returns us es H v pkm o R)
                (hash_and_sign_event_returns H key sign kv e k o rr)).
Qed.
Eval compute in "PA:C17_event_signing_total"%string.
Print Assumptions C17_event_signing_total.

(** C18: the dispatch model of the [Any*Event] deserializers (serde underneath: search only). *)
Theorem C17_event_dispatch_total :
  forall tg ev, Returns (C18.Model.deser tg ev).
Proof. exact deser_returns. Qed.
Eval compute in "PA:C17_event_dispatch_total"%string.
Print Assumptions C17_event_dispatch_total.

(** C01 and C14 by type: the models of canonical-JSON parsing / canonicalisation / printing
    ([canon_text : str -> option (json * str)]) and of the sanitizer
    ([clean : tables -> config -> forest -> forest]) are total functions into types that have no
    panic outcome at all; wrapped into [outcome] they trivially return.  (Stated for the record:
    no [Panic] constructor occurs in these models because the modelled Rust has no
    unwrap / index / slice on input-derived values.) *)
Theorem C17_canonical_json_and_sanitizer_total_by_type :
  forall text T cfg f,
  Returns (match canon_text text with Some r => Ok r | None => Err 0 end) /\
  Returns (Ok (C14.Model.clean T cfg f)).
Proof. exact (fun text T cfg f => conj (canon_text_returns text) (clean_returns T cfg f)). Qed.
Eval compute in "PA:C17_canonical_json_and_sanitizer_total_by_type"%string.
Print Assumptions C17_canonical_json_and_sanitizer_total_by_type.
