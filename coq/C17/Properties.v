From Base Require Import Prelude Sx.
From C17 Require Import Model Spec.
Theorem C17_stub : True.
Proof. exact I. Qed.
Eval compute in "PA:C17_stub"%string.
Print Assumptions C17_stub.
