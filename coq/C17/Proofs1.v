(** C17.Proofs1 — totality (no [Panic] site reachable, the fuelled loop never runs out of fuel)
    of the models of C17.Model: Content-Disposition parsing, ring-compat, matrix.to identifiers. *)
From Base Require Import Prelude Sx.
From Coq Require Import ZifyBool ZifyNat ZifyN.
From C10 Require Model Lemmas Proofs.
From C16 Require Model.
From C17 Require Import Model Spec.

Local Open Scope nat_scope.

(* ------------------------------------------------------------------------------------- *)
(** * Positions stay inside the input *)
Lemma scan_bounds p l pos : pos <= scan p l pos <= pos + List.length l.
Proof.
  revert pos; induction l as [|c r IH]; intros pos; cbn [scan List.length]; [lia|].
  destruct (p c); [specialize (IH (S pos)); lia|lia].
Qed.

Lemma scan_from_bounds p b pos : pos <= len b -> pos <= scan_from p b pos <= len b.
Proof.
  unfold scan_from, len; intros H. pose proof (scan_bounds p (skipn pos b) pos) as B.
  rewrite skipn_length in B. lia.
Qed.

Lemma skip_ws_bounds b pos : pos <= len b -> pos <= skip_ws b pos <= len b.
Proof. apply scan_from_bounds. Qed.

Lemma scan_value_bounds q l : forall pos esc,
  pos <= scan_value q l pos esc <= pos + List.length l.
Proof.
  induction l as [|c r IH]; intros pos esc; cbn [scan_value List.length]; [lia|].
  destruct (negb q && (is_ws c || (c =? 59)%N)); [lia|].
  destruct (q && (c =? 34)%N && negb esc); [lia|].
  specialize (IH (S pos) ((c =? 92)%N && negb esc)). lia.
Qed.

Lemma index_ok b i site : i < len b -> exists c, index b i site = Ok c.
Proof.
  unfold index, len; intros H. destruct (nth_error b i) eqn:E; [eauto|].
  apply nth_error_None in E. lia.
Qed.

Lemma slice_ok b a e site : a <= e -> e <= len b -> slice b a e site = Ok (firstn (e - a) (skipn a b)).
Proof.
  unfold slice; intros H1 H2.
  destruct (Nat.leb_spec a e), (Nat.leb_spec e (len b)); cbn [andb]; try lia; reflexivity.
Qed.

Lemma eqb_len_false (x y : nat) : x <> y -> (x =? y) = false.
Proof. intros H; destruct (Nat.eqb_spec x y); congruence. Qed.

(* ------------------------------------------------------------------------------------- *)
(** * Every parsing step returns and makes progress *)
Lemma parse_param_name_ok b pos : pos < len b ->
  exists o pos', parse_param_name b pos = Ok (o, pos') /\ pos < pos' <= len b.
Proof.
  intros Hpos. unfold parse_param_name.
  pose proof (skip_ws_bounds b pos ltac:(lia)) as B1.
  set (p1 := skip_ws b pos) in *.
  destruct (Nat.eqb_spec p1 (len b)) as [E1|N1]; [exists None, p1; split; [reflexivity|lia]|].
  pose proof (scan_from_bounds is_tchar b p1 ltac:(lia)) as B2.
  set (p2 := scan_from is_tchar b p1) in *.
  destruct (Nat.eqb_spec p2 (len b)) as [E2|N2]; [exists None, p2; split; [reflexivity|lia]|].
  destruct (index_ok b p2 1 ltac:(lia)) as [c ->]. cbn [obind].
  destruct (c =? 59)%N; [exists None, (S p2); split; [reflexivity|lia]|].
  rewrite (slice_ok b p1 p2 2) by lia. cbn [obind].
  destruct (firstn (p2 - p1) (skipn p1 b)) as [|x name] eqn:En; cbn [is_nil].
  - exists None, (len b); split; [reflexivity|lia].
  - exists (Some (x :: name)), p2; split; [reflexivity|].
    assert (p2 - p1 <> 0) by (intros Z; rewrite Z in En; discriminate). lia.
Qed.

Lemma parse_param_value_ok b pos : pos <= len b ->
  exists o pos', parse_param_value b pos = Ok (o, pos') /\ pos <= pos' <= len b.
Proof.
  intros Hpos. unfold parse_param_value.
  pose proof (skip_ws_bounds b pos Hpos) as B1.
  set (p1 := skip_ws b pos) in *.
  destruct (Nat.eqb_spec p1 (len b)) as [E1|N1]; [exists None, p1; split; [reflexivity|lia]|].
  destruct (index_ok b p1 3 ltac:(lia)) as [c ->]. cbn [obind].
  set (q := (c =? 34)%N).
  set (p2 := if q then S p1 else p1).
  assert (B2 : p1 <= p2 <= len b) by (subst p2; destruct q; lia).
  pose proof (scan_value_bounds q (skipn p2 b) p2 false) as B3.
  rewrite skipn_length in B3. fold (len b) in B3.
  set (p3 := scan_value q (skipn p2 b) p2 false) in *.
  rewrite (slice_ok b p2 p3 4) by lia. cbn [obind].
  set (p4 := if q && negb (p3 =? len b) then S p3 else p3).
  assert (B4 : p3 <= p4 <= len b).
  { subst p4. destruct q; cbn [andb]; [|lia].
    destruct (Nat.eqb_spec p3 (len b)); cbn [negb]; lia. }
  pose proof (skip_ws_bounds b p4 ltac:(lia)) as B5.
  set (p5 := skip_ws b p4) in *.
  destruct (Nat.eqb_spec p5 (len b)) as [E5|N5]; cbn [negb].
  - eexists _, p5; split; [reflexivity|lia].
  - destruct (index_ok b p5 5 ltac:(lia)) as [c2 ->]. cbn [obind].
    destruct (c2 =? 59)%N; eexists _, _; (split; [reflexivity|lia]).
Qed.

Lemma parse_next_ok b pos : pos < len b ->
  exists o pos', parse_next b pos = Ok (o, pos') /\ pos < pos' <= len b.
Proof.
  intros Hpos. unfold parse_next.
  destruct (parse_param_name_ok b pos Hpos) as (o & p1 & -> & B1). cbn [obind fst snd].
  destruct o as [name|]; [|exists None, p1; split; [reflexivity|lia]].
  pose proof (skip_ws_bounds b p1 ltac:(lia)) as B2.
  set (p2 := skip_ws b p1) in *.
  destruct (Nat.eqb_spec p2 (len b)) as [E2|N2]; [exists None, p2; split; [reflexivity|lia]|].
  destruct (index_ok b p2 6 ltac:(lia)) as [c ->]. cbn [obind].
  destruct (negb (c =? 61)%N); [exists None, (len b); split; [reflexivity|lia]|].
  pose proof (skip_ws_bounds b (S p2) ltac:(lia)) as B3.
  set (p3 := skip_ws b (S p2)) in *.
  destruct (parse_param_value_ok b p3 ltac:(lia)) as (ov & p4 & -> & B4). cbn [obind fst snd].
  destruct ov as [[v q]|]; eexists _, p4; (split; [reflexivity|lia]).
Qed.

(** The loop of content_disposition.rs:106 terminates: [len b - pos + 1] iterations are enough. *)
Lemma params_loop_ok b : forall fuel pos fn,
  pos <= len b -> len b - pos < fuel -> exists r, params_loop fuel b pos fn = Ok r.
Proof.
  induction fuel as [|fuel IH]; intros pos fn Hle Hfuel; [lia|].
  cbn [params_loop].
  destruct (Nat.eqb_spec pos (len b)) as [E|N]; [eauto|].
  destruct (parse_next_ok b pos ltac:(lia)) as (o & pos' & -> & B). cbn [obind fst snd].
  assert (Hrec : forall fn', exists r, params_loop fuel b pos' fn' = Ok r)
    by (intros fn'; apply IH; lia).
  destruct o as [p|]; [|apply Hrec].
  destruct (eq_ignore_case (rp_name p) _).
  - destruct (decode_value p); [eauto|apply Hrec].
  - destruct (eq_ignore_case (rp_name p) _); [|apply Hrec].
    destruct (decode_value p); apply Hrec.
Qed.

(* ------------------------------------------------------------------------------------- *)
(** * Token strings are ASCII, so [from_utf8(..).expect(..)] cannot fail *)
Lemma tchar_ascii c : is_tchar c = true -> (c < 128)%N.
Proof.
  unfold is_tchar, C16.Model.is_tchar, C16.Model.is_alnum, C16.Model.is_digit, C16.Model.is_upper,
    C16.Model.is_lower. cbn [existsb]. lia.
Qed.

Lemma token_string_returns v : Returns (token_string v).
Proof.
  intros p. unfold token_string.
  destruct (is_nil v); [discriminate|].
  destruct (forallb is_tchar v) eqn:E; [|discriminate].
  assert (H : valid_utf8 v = true).
  { apply C10.Lemmas.ascii_valid_utf8. apply Forall_forall. intros c Hc.
    apply tchar_ascii. rewrite forallb_forall in E. auto. }
  rewrite H. discriminate.
Qed.

Lemma disposition_type_returns v : Returns (disposition_type v).
Proof.
  intros p. unfold disposition_type.
  destruct (eq_ignore_case v _); [discriminate|].
  destruct (eq_ignore_case v _); [discriminate|].
  pose proof (token_string_returns v) as H.
  destruct (token_string v); cbn [obind]; try discriminate. exfalso; eapply H; reflexivity.
Qed.

(** [ContentDisposition::try_from(&[u8])] / [from_str] return for every byte string; the
    parameter loop never needs more than [len + 1] iterations. *)
Theorem cd_parse_returns b : Returns (cd_parse b).
Proof.
  intros p. unfold cd_parse.
  pose proof (skip_ws_bounds b 0 ltac:(lia)) as B0.
  set (p0 := skip_ws b 0) in *.
  destruct (Nat.eqb_spec p0 (len b)); [discriminate|].
  pose proof (scan_from_bounds (fun c => negb (is_ws c || (c =? 59)%N)) b p0 ltac:(lia)) as B1.
  set (p1 := scan_from _ b p0) in *.
  rewrite (slice_ok b p0 p1 8) by lia. cbn [obind].
  pose proof (disposition_type_returns (firstn (p1 - p0) (skipn p0 b))) as Hd.
  destruct (disposition_type _) as [d|e|s]; [|discriminate|exfalso; eapply Hd; reflexivity].
  destruct (params_loop_ok b (S (len b)) p1 None ltac:(lia) ltac:(lia)) as [r ->].
  cbn [obind]. discriminate.
Qed.

(** rfc8187.rs [decode] and [RawParam::decode_value] have no panic site at all. *)
Lemma rfc8187_decode_returns b : Returns (rfc8187_decode b).
Proof.
  intros p. unfold rfc8187_decode. destruct (is_nil b); [discriminate|].
  destruct (C16.Model.split_on 39 b) as [|c [|l [|e [|x r]]]]; try discriminate.
  destruct (eq_ignore_case c _); discriminate.
Qed.

(* ------------------------------------------------------------------------------------- *)
(** * keys/compat.rs *)
Lemma starts_with_len p s : starts_with p s = true -> List.length p <= List.length s.
Proof.
  intros H. apply starts_with_spec in H as [r ->]. rewrite app_length. lia.
Qed.

Lemma find_sub_bounds pat : forall s i idx,
  find_sub pat s i = Some idx -> i <= idx /\ (idx - i) + List.length pat <= List.length s.
Proof.
  induction s as [|x r IH]; intros i idx H; cbn [find_sub] in H.
  - destruct (starts_with pat []) eqn:E; [|discriminate].
    injection H as <-. apply starts_with_len in E. lia.
  - destruct (starts_with pat (x :: r)) eqn:E.
    + injection H as <-. apply starts_with_len in E. lia.
    + apply IH in H. cbn [List.length]. lia.
Qed.

Definition is_bytes (s : str) : Prop := Forall (fun c => (c < 256)%N) s.

Lemma set_nth_length i v l : List.length (set_nth i v l) = List.length l.
Proof.
  revert i; induction l as [|x r IH]; intros [|i]; cbn [set_nth List.length]; auto.
Qed.

(** [CompatibleDocument::from_bytes] (and with it [fix_ring_doc]) returns for every byte string:
    the index arithmetic is protected by the sentinel having been found and by the length
    byte having been checked. *)
Theorem from_bytes_returns b : is_bytes b -> Returns (from_bytes b).
Proof.
  intros Hb p. unfold from_bytes.
  destruct (find_sub RING_TEMPLATE b 0) as [idx|] eqn:Ef; [|discriminate].
  pose proof (find_sub_bounds _ _ _ _ Ef) as [_ Hidx]. cbn [RING_TEMPLATE List.length] in Hidx.
  unfold fix_ring_doc. rewrite Ef.
  destruct b as [|b0 b']; [cbn in Hidx; lia|].
  destruct b0 as [|b0p]; [discriminate|].
  destruct (N.eqb_spec (N.pos b0p) 48) as [E48|N48].
  2:{ (* not a SEQUENCE: left alone *)
      destruct b0p as [q|q|]; try discriminate;
      repeat (destruct q as [q|q|]; try discriminate); exfalso; apply N48; reflexivity. }
  injection E48 as ->.
  set (doc := 48%N :: b') in *.
  assert (Hlen : 4 <= len doc) by (unfold len; lia).
  destruct (Nat.ltb_spec (len doc) 2); [lia|].
  destruct (nth_error doc 1) as [l|] eqn:El; [|discriminate].
  destruct (Nat.eqb_spec (N.to_nat l) (len doc - 2)) as [Hl|]; [|discriminate].
  destruct (Nat.ltb_spec (len doc) idx); [unfold len in *; lia|].
  assert (Hsuf : len (skipn idx doc) = len doc - idx) by (unfold len; apply skipn_length).
  destruct (Nat.ltb_spec (len (skipn idx doc)) 4); [unfold len in *; lia|].
  set (doc2 := (firstn idx doc ++ WELL_FORMED_PREFIX) ++ skipn 4 (skipn idx doc)).
  assert (Hd2 : len doc2 = len doc - 2).
  { unfold doc2, len. rewrite !app_length, firstn_length, !skipn_length.
    cbn [WELL_FORMED_PREFIX List.length]. unfold len in *. lia. }
  assert (Hl256 : (l < 256)%N).
  { apply nth_error_In in El. unfold is_bytes in Hb. rewrite Forall_forall in Hb. auto. }
  assert (Hmod : (N.of_nat (len doc2) mod 256 = l)%N).
  { rewrite Hd2, <- Hl, N2Nat.id. apply N.mod_small. exact Hl256. }
  rewrite Hmod.
  destruct (N.ltb_spec l 2); [lia|].
  destruct (Nat.ltb_spec (len doc2) 2); [lia|].
  cbn [obind]. discriminate.
Qed.

(* ------------------------------------------------------------------------------------- *)
(** * matrix_uri.rs [MatrixId::parse_with_sigil] *)
Lemma percent_decode_nonempty s : s <> [] -> percent_decode s <> [].
Proof.
  destruct s as [|c t]; [congruence|]. intros _. unfold percent_decode. cbn [C16.Model.percent_decode].
  destruct (c =? C16.Model.PERCENT)%N; [|discriminate].
  destruct t as [|h [|l r]]; try discriminate.
  destruct (C16.Model.hex_val h), (C16.Model.hex_val l); discriminate.
Qed.

Lemma forget_returns {A} (o : outcome A) : Returns o -> Returns (forget o).
Proof. intros H p. destruct o; cbn [forget]; try discriminate. exfalso; eapply H; reflexivity. Qed.

Lemma obind_returns {A B} (o : outcome A) (f : A -> outcome B) :
  Returns o -> (forall a, Returns (f a)) -> Returns (obind o f).
Proof.
  intros Ho Hf p. destruct o; cbn [obind]; try discriminate; [apply Hf|exfalso; eapply Ho; reflexivity].
Qed.

Lemma decode_utf8_valid s d : decode_utf8 s = Some d -> C10.Model.valid_utf8 d = true.
Proof.
  unfold decode_utf8, valid_utf8. destruct (C10.Model.valid_utf8 (percent_decode s)) eqn:E; [|discriminate].
  intros H; injection H as <-. exact E.
Qed.

Theorem parse_with_sigil_returns s0 : Returns (parse_with_sigil s0).
Proof.
  unfold parse_with_sigil.
  set (s := strip_suffix1 47 (strip_prefix1 47 s0)).
  destruct s as [|c0 s'] eqn:Es; cbn [is_nil]; [intros p; discriminate|].
  destruct (1 <? count_byte 47 (c0 :: s')); [intros p; discriminate|].
  destruct (split_once 47 (c0 :: s')) as [[fr sr]|].
  - destruct (decode_utf8 fr) as [first|] eqn:E1; [|intros p; discriminate].
    destruct (decode_utf8 sr) as [second|] eqn:E2; [|intros p; discriminate].
    apply decode_utf8_valid in E1, E2.
    pose proof (C10.Proofs.validate_total_all first E1) as T1.
    pose proof (C10.Proofs.validate_total_all second E2) as T2.
    destruct T1 as (_ & _ & _ & T1e & T1r & _). destruct T2 as (_ & _ & _ & T2e & T2r & _).
    assert (R1 : Returns (obind (forget (C10.Model.validate_room_or_alias_id first))
                               (fun _ => forget (C10.Model.validate_event_id second))))
      by (apply obind_returns; [apply forget_returns; exact T1r|intros _; apply forget_returns; exact T2e]).
    assert (R2 : Returns (obind (forget (C10.Model.validate_room_or_alias_id second))
                               (fun _ => forget (C10.Model.validate_event_id first))))
      by (apply obind_returns; [apply forget_returns; exact T2r|intros _; apply forget_returns; exact T1e]).
    destruct (hd_error first) as [f|]; [|intros p; discriminate].
    destruct (hd_error second) as [g|]; [|intros p; discriminate].
    destruct (((f =? 33)%N || (f =? 35)%N) && (g =? 36)%N); [exact R1|].
    destruct ((f =? 36)%N && ((g =? 33)%N || (g =? 35)%N)); [exact R2|intros p; discriminate].
  - destruct (decode_utf8 (c0 :: s')) as [id|] eqn:E; [|intros p; discriminate].
    assert (Hne : id <> []).
    { unfold decode_utf8 in E. destruct (valid_utf8 (percent_decode (c0 :: s'))); [|discriminate].
      assert (Hid : id = percent_decode (c0 :: s')) by congruence.
      rewrite Hid. apply percent_decode_nonempty. discriminate. }
    apply decode_utf8_valid in E.
    destruct (C10.Proofs.validate_total_all id E) as (Tu & Tr & Ta & _).
    destruct id as [|c r]; [congruence|]. unfold index. cbn [nth_error obind].
    destruct (c =? 64)%N; [apply forget_returns; exact Tu|].
    destruct (c =? 33)%N; [apply forget_returns; exact Tr|].
    destruct (c =? 35)%N; [apply forget_returns; exact Ta|intros p; discriminate].
Qed.

Theorem matrix_to_parse_returns s : Returns (matrix_to_parse s).
Proof.
  unfold matrix_to_parse. destruct (strip_prefix MATRIX_TO_BASE s); [|intros p; discriminate].
  apply parse_with_sigil_returns.
Qed.
