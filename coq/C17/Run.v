(** C17.Run — case decoding, the model run where there is a model, and the Spec predicate
    evaluated on the implementation's outcome.

    case = ( N<entry> S<part> ... )  (entry table: harness/src/c17_seeds.rs);
    implementation outcome: see harness/src/c17.rs.

    Three classes of entry points:
    - FULL model (30 ContentDisposition, 31 ContentDispositionType, 32 TokenString): the model
      outcome is the complete result (type, filename / Ok / Err kind / Panic);
    - PANIC-EXACT model (identifiers 1-14 and 16 via C10's models, 21 MatrixToUri::parse up to the
      identifier, 33 XMatrix::parse via C16's model, 76 Ed25519KeyPair::from_der via the model of
      keys/compat.rs): the model decides panic / no panic; when it says "no panic" the
      expected outcome is whatever value or error the implementation returned, and a panic,
      hang, abort or effect of the implementation is a disagreement;
    - SEARCH ONLY (all others: serde, html5ever, http, pkcs8, ... are not modelled): the
      expectation is "returned a value or an error".
    In every class [spec_ok] = [Spec.returned impl]: the implementation returned. *)
From Base Require Import Prelude Sx.
From C10 Require Model Run.
From C16 Require Model.
From C17 Require Import Model Spec.

Definition no_panic_expected : sx := SL [SN 0; SL []].

Definition echo (impl : sx) : sx := if returned impl then impl else no_panic_expected.

Definition panic_exact {A} (o : outcome A) (impl : sx) : sx :=
  match o with Panic _ => SL [SN 2] | _ => echo impl end.

(** A model outcome given as the harness of another property encodes it: panic = ( 2 ). *)
Definition panic_exact_sx (m : option sx) (impl : sx) : sx :=
  match m with
  | Some (SL [SN 2%Z]) => SL [SN 2]
  | _ => echo impl
  end.

Definition unit_outcome {A} (o : outcome A) : sx :=
  match o with
  | Ok _ => SL [SN 0; SL []]
  | Err _ => SL [SN 1; SN 0]
  | Panic _ => SL [SN 2]
  end.

Definition cd_outcome (b : str) : sx :=
  match cd_parse b with
  | Ok (d, f) => SL [SN 0; SL [SS (disp_str d); sx_opt SS f]]
  | Err e => SL [SN 1; sx_N e]
  | Panic _ => SL [SN 2]
  end.

(** C17 entry -> C10.Run parse kind *)
Definition c10_kind (entry : Z) : option N :=
  match entry with
  | 1%Z => Some 0 | 2%Z => Some 1 | 3%Z => Some 2 | 4%Z => Some 3 | 5%Z => Some 4 | 6%Z => Some 5
  | 7%Z => Some 6 | 8%Z => Some 7 | 9%Z => Some 10 | 10%Z => Some 11 | 11%Z => Some 12
  | 12%Z => Some 13 | 13%Z => Some 8 | 14%Z => Some 9 | 16%Z => Some 14
  | _ => None
  end.

Definition model_outcome (entry : Z) (parts : list str) (impl : sx) : sx :=
  let p0 := match parts with p :: _ => p | [] => [] end in
  match c10_kind entry with
  | Some k =>
      (* a [&str] API: the harness replaces invalid UTF-8 before the call *)
      let s := lossy p0 in
      let m := C10.Run.model_parse k s in
      if (entry =? 1)%Z then
        (* the UserId entry also calls validate_strict on an accepted id *)
        match m with
        | Some (SL (SN 0%Z :: _)) => panic_exact_sx (C10.Run.model_parse 15 s) impl
        | _ => panic_exact_sx m impl
        end
      else panic_exact_sx m impl
  | None =>
      match entry with
      | 21%Z => panic_exact (matrix_to_parse (lossy p0)) impl
      | 30%Z =>
          (* the index-based model re-walks the input from the start for every parameter
             (quadratic): inputs above 3000 bytes are search-only *)
          if (3000 <? List.length p0)%nat then echo impl else cd_outcome p0
      | 31%Z => unit_outcome (disposition_type p0)
      | 32%Z => unit_outcome (token_string p0)
      | 33%Z =>
          (* C16's transliteration of http-auth appends byte by byte (quadratic): inputs above
             2000 bytes are search-only *)
          if (2000 <? List.length p0)%nat then echo impl
          else panic_exact (C16.Model.xm_parse (fun _ => true) (fun _ => true) (fun _ => Some [])
                                               (lossy p0)) impl
      | 76%Z => panic_exact (from_bytes p0) impl
      | _ => echo impl
      end
  end.

Definition run (x : sx) : sx :=
  match x with
  | SL [SL (SN entry :: parts); impl] =>
      match map_opt as_str parts with
      | Some ps => SL [model_outcome entry ps impl; sx_bool (returned impl)]
      | None => sx_bad
      end
  | _ => sx_bad
  end.
