(** C17.Spec — the property as its text states it, independent of every model:

    "Every entry point that consumes data controlled by a remote party returns a value or an
     error for every input of bounded size and nesting.  It never panics, aborts, exhausts the
     stack or fails to terminate, and a rejected input has no effect on later calls."

    On a model ([outcome]): the call [Returns] — it is [Ok] or [Err], not [Panic] (the models
    are total Gallina functions, so a value of type [outcome] also means termination; where a
    model needs fuel, running out of it is a [Panic] site of its own and therefore excluded by
    the same statement).  For a stateful entry point, [ErrorKeepsState]: an error leaves the
    state as it was.

    On the implementation (what the supervised worker reports for a case, see
    harness/src/c17.rs): the outcome is "returned a value" or "returned an error" — not a
    panic (2), a hang (3), a dead worker (4), or an effect of a rejected input (5). *)
From Base Require Import Prelude Sx.

Definition Returns {A} (o : outcome A) : Prop := forall p, o <> Panic p.

Definition ErrorKeepsState {S A} (before : S) (after : S) (o : outcome A) : Prop :=
  forall e, o = Err e -> after = before.

Lemma Returns_iff {A} (o : outcome A) : Returns o <-> is_panic o = false.
Proof.
  unfold Returns; destruct o; cbn; split; intros H; try reflexivity; try congruence.
  exfalso; exact (H site eq_refl).
Qed.

(** The implementation's outcome for one case: head 0 = value, 1 = error. *)
Definition returned (impl : sx) : bool :=
  match impl with
  | SL (SN 0%Z :: _) => true
  | SL (SN 1%Z :: _) => true
  | _ => false
  end.
