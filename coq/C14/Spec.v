(** C14.Spec — what sanitized HTML must look like, written from the property text and the
    Matrix specification's list of permitted HTML (DESIGN.md Appendix A.9), independently of
    the code's structure: the *effective* allow-lists a configuration denotes (the mode's
    Matrix lists, extended or replaced by the builder's lists), the predicate [Allowed] on
    forests, and the account of what is kept ([survive]).  No reference to the generated
    tables or to the model.  Strings are scalar strings (see [Dom]). *)
From Base Require Import Prelude.
From C14 Require Import Dom.

(** * The Matrix allow-lists (client-server API, m.room.message msgtypes; A.9), sorted. *)
Definition matrix_elements : list str :=
  [s!"a"; s!"b"; s!"blockquote"; s!"br"; s!"caption"; s!"code"; s!"del"; s!"details"; s!"div";
   s!"em"; s!"h1"; s!"h2"; s!"h3"; s!"h4"; s!"h5"; s!"h6"; s!"hr"; s!"i"; s!"img"; s!"li";
   s!"mx-reply"; s!"ol"; s!"p"; s!"pre"; s!"s"; s!"span"; s!"strong"; s!"sub"; s!"summary";
   s!"sup"; s!"table"; s!"tbody"; s!"td"; s!"th"; s!"thead"; s!"tr"; s!"u"; s!"ul"].

Definition matrix_attributes : props :=
  [(s!"a", [s!"href"; s!"target"]);
   (s!"code", [s!"class"]);
   (s!"div", [s!"data-mx-maths"]);
   (s!"img", [s!"alt"; s!"height"; s!"src"; s!"title"; s!"width"]);
   (s!"ol", [s!"start"]);
   (s!"span", [s!"data-mx-bg-color"; s!"data-mx-color"; s!"data-mx-maths"; s!"data-mx-spoiler"])].

Definition matrix_href_schemes : list str := [s!"ftp"; s!"http"; s!"https"; s!"magnet"; s!"mailto"].
Definition matrix_src_schemes : list str := [s!"mxc"].

Definition matrix_tables : tables :=
  mk_tables
    matrix_elements
    s!"mx-reply"
    [(s!"font", s!"span"); (s!"strike", s!"s")]                (* deprecated elements *)
    matrix_attributes
    [(s!"font", [(s!"color", s!"data-mx-color")])]             (* deprecated attributes *)
    [(s!"a", [(s!"href", matrix_href_schemes)]); (s!"img", [(s!"src", matrix_src_schemes)])]
    [(s!"a", [(s!"href", [s!"matrix"])])]                       (* ruma's compat mode *)
    [(s!"code", [s!"language-*"])]
    100.

Section Spec.
Variable T : tables.      (* [matrix_tables] in every theorem *)
Variable cfg : config.

(** * Effective lists *)
Definition mode_on : bool := match c_mode cfg with Some _ => true | None => false end.
Definition compat_on : bool := match c_mode cfg with Some Compat => true | _ => false end.

(** The mode's list takes part unless the builder's list says Override. *)
Definition defaults_apply {A} (l : option (blist A)) : bool :=
  mode_on && negb (match l with Some b => bl_override b | None => false end).

Definition custom {A} (l : option (blist (list (str * A)))) (k : str) : option A :=
  match l with Some b => assoc k (bl_content b) | None => None end.

Definition olist {A} (o : option (list A)) : list A := match o with Some l => l | None => [] end.

Definition eff_max_depth : option N :=
  match c_max_depth cfg with
  | Some d => Some d
  | None => if mode_on then Some (t_max_depth T) else None
  end.

(** Deprecated names and their replacements. *)
Definition elem_rename (e : str) : option str :=
  match custom (c_replace_elements cfg) e with
  | Some r => Some r
  | None => if defaults_apply (c_replace_elements cfg) then assoc e (t_dep_elements T) else None
  end.
Definition renamed_elem (e : str) : str := match elem_rename e with Some r => r | None => e end.

Definition attr_rename_custom (e : str) : option (list (str * str)) := custom (c_replace_attrs cfg) e.
Definition attr_rename_default (e : str) : option (list (str * str)) :=
  if defaults_apply (c_replace_attrs cfg) then assoc e (t_dep_attrs T) else None.
Definition renamed_attr (e an : str) : str :=
  match oassoc an (attr_rename_custom e) with
  | Some r => r
  | None => match oassoc an (attr_rename_default e) with Some r => r | None => an end
  end.
Definition renamed_attrs (e : str) (attrs : list attr) : list attr :=
  map (fun a => with_name a (renamed_attr e (a_name a))) attrs.

(** An element is dropped together with its content when it is on the remove list, is the
    reply fallback under fallback removal, or sits at nesting level >= the maximum. *)
Definition elem_dropped (e : str) (depth : N) : bool :=
  omem e (c_remove_elements cfg)
  || (c_remove_reply_fallback cfg && str_eqb e (t_reply T))
  || match eff_max_depth with Some m => m <=? depth | None => false end.

Definition elem_allowed (e : str) : bool :=
  negb (is_some (c_allow_elements cfg) || mode_on)
  || match c_allow_elements cfg with Some b => mem_str e (bl_content b) | None => false end
  || (defaults_apply (c_allow_elements cfg) && mem_str e (t_elements T)).

(** URI schemes: [None] = the attribute is not scheme-checked. *)
Definition scheme_list (e an : str) : option (list str) :=
  if negb (is_some (c_allow_schemes cfg) || mode_on) then None
  else
    let l := oassoc an (custom (c_allow_schemes cfg) e) in
    let s := if defaults_apply (c_allow_schemes cfg) then oassoc an (assoc e (t_schemes_strict T)) else None in
    let c := if defaults_apply (c_allow_schemes cfg) && compat_on
             then oassoc an (assoc e (t_schemes_compat T)) else None in
    match l, s, c with
    | None, None, None => None
    | _, _, _ => Some (olist l ++ olist s ++ olist c)
    end.

Definition scheme_denied (e an v : str) : bool :=
  existsb (has_scheme v) (olist (oassoc an (oassoc e (c_deny_schemes cfg)))).

Definition attr_scheme_ok (e : str) (a : attr) : bool :=
  negb (scheme_denied e (a_name a) (a_val a))
  && match scheme_list e (a_name a) with
     | None => true
     | Some l => existsb (has_scheme (a_val a)) l
     end.

(** An element stays (is not unwrapped) when it is not on the ignore list, is allowed, and
    every one of its attributes passes the scheme checks. *)
Definition elem_kept (e : str) (attrs : list attr) : bool :=
  negb (omem e (c_ignore_elements cfg)) && elem_allowed e && forallb (attr_scheme_ok e) attrs.

(** The allow-lists name HTML attributes: an attribute in a namespace (which a serializer
    writes with a prefix, [xlink:href]) is none of them. *)
Definition attr_name_allowed (e : str) (a : attr) : bool :=
  negb (omem (a_name a) (oassoc e (c_remove_attrs cfg)))
  && (negb (is_some (c_allow_attrs cfg) || mode_on)
      || (match a_ns a with [] => true | _ => false end
          && (omem (a_name a) (custom (c_allow_attrs cfg) e)
              || (defaults_apply (c_allow_attrs cfg) && omem (a_name a) (assoc e (t_attrs T)))))).

Definition class_ok (e c : str) : bool :=
  negb (any_glob (olist (oassoc e (c_remove_classes cfg))) c)
  && (negb (is_some (c_allow_classes cfg) || mode_on)
      || any_glob (olist (custom (c_allow_classes cfg) e)
                   ++ (if defaults_apply (c_allow_classes cfg) then olist (assoc e (t_classes T)) else [])) c).

Definition attr_ok (e : str) (a : attr) : bool :=
  attr_name_allowed e a
  && (if str_eqb (a_name a) s!"class" then forallb (class_ok e) (split_ws (a_val a)) else true).

(** * [Allowed]: the forest contains only what the configuration allows.
    [d] is the nesting level of the forest's roots. *)
Fixpoint allowed_node (d : N) (n : node) : bool :=
  match n with
  | Other => false                                  (* no comments or other node kinds *)
  | Text _ => true
  | Elem _ e attrs kids =>
      negb (elem_dropped e d)                       (* not removed, no mx-reply, depth < max *)
      && elem_kept e attrs                          (* element allowed, schemes of all attributes *)
      && forallb (attr_ok e) attrs                  (* attribute names, classes *)
      && forallb (allowed_node (d + 1)) kids
  end.

Definition allowedb (f : forest) : bool := forallb (allowed_node 0) f.
Definition Allowed (f : forest) : Prop := allowedb f = true.

(** * What is kept: the document's skeleton (open/close/text events in document order)
    after dropping the dropped subtrees and unwrapping the elements that are merely not
    allowed.  Text and the allowed descendants of unwrapped elements stay, in order. *)
Inductive event := EvOpen (name : str) | EvClose | EvText (s : str).

Fixpoint survive (d : N) (n : node) : list event :=
  match n with
  | Other => []
  | Text s => [EvText s]
  | Elem _ e attrs kids =>
      let e' := renamed_elem e in
      if elem_dropped e' d then []
      else
        let inner := flat_map (survive (d + 1)) kids in
        if elem_kept e' (renamed_attrs e attrs) then EvOpen e' :: inner ++ [EvClose] else inner
  end.

(** * Documents the sanitizer has nothing to rename in. *)
Definition has_replacement (e : str) : bool :=
  is_some (elem_rename e) || is_some (attr_rename_custom e) || is_some (attr_rename_default e).

Fixpoint rename_free (n : node) : bool :=
  match n with
  | Elem _ e _ kids => negb (has_replacement e) && forallb rename_free kids
  | _ => true
  end.

End Spec.

(** Events of a forest as it stands. *)
Fixpoint events (n : node) : list event :=
  match n with
  | Other => []
  | Text s => [EvText s]
  | Elem _ e _ kids => EvOpen e :: flat_map events kids ++ [EvClose]
  end.

(** Descendant-or-self elements of a forest. *)
Fixpoint subnodes (n : node) : list node :=
  n :: match n with Elem _ _ _ kids => flat_map subnodes kids | _ => [] end.

(** Number of nested element levels. *)
Fixpoint height (n : node) : N :=
  match n with
  | Elem _ _ _ kids => 1 + fold_right (fun k m => N.max (height k) m) 0 kids
  | _ => 0
  end.
Definition forest_height (f : forest) : N := fold_right (fun k m => N.max (height k) m) 0 f.

(** No scheme list of the configuration or the tables speaks about the [class] attribute
    (whose value the class filter rewrites).  Hypothesis of the scheme clause. *)
Definition schemes_avoid_class (T : tables) (cfg : config) : bool :=
  let no_class (m : props) := negb (is_some (assoc s!"class" m)) in
  forallb (fun em => no_class (snd em)) (match c_deny_schemes cfg with Some l => l | None => [] end)
  && forallb (fun em => no_class (snd em)) (match c_allow_schemes cfg with Some b => bl_content b | None => [] end)
  && forallb (fun em => no_class (snd em)) (t_schemes_strict T)
  && forallb (fun em => no_class (snd em)) (t_schemes_compat T).

(** Replacement targets are not themselves replaced, and attribute replacements exist only
    for elements that are replaced: sanitized output then has nothing left to rename. *)
Definition rename_closed (T : tables) (cfg : config) : bool :=
  let ekeys := map fst (match c_replace_elements cfg with Some b => bl_content b | None => [] end)
               ++ map fst (t_dep_elements T) in
  let akeys := map fst (match c_replace_attrs cfg with Some b => bl_content b | None => [] end)
               ++ map fst (t_dep_attrs T) in
  forallb (fun k => negb (has_replacement T cfg k) || is_some (elem_rename T cfg k)) akeys
  && forallb (fun k => match elem_rename T cfg k with
                       | Some r => negb (has_replacement T cfg r)
                       | None => true
                       end) ekeys.
