(** C14.Proofs3 — the cleaned forest is [Allowed]; its skeleton is [survive] of the input. *)
From Base Require Import Prelude.
From C14 Require Import Dom Model Spec Proofs1 Proofs2.

Lemma assoc_In_pair {A} k (m : list (str * A)) v : assoc k m = Some v -> In (k, v) m.
Proof.
  induction m as [|[k' v'] m IH]; cbn [assoc]; [discriminate|].
  dse k k'; [intros [= ->]; left; reflexivity|]. intros H; right; apply IH, H.
Qed.

Lemma forallb_flat_map {A B} (p : B -> bool) (f : A -> list B) l :
  forallb p (flat_map f l) = forallb (fun x => forallb p (f x)) l.
Proof.
  induction l as [|x l IH]; cbn [flat_map forallb]; [reflexivity|].
  rewrite forallb_app, IH. reflexivity.
Qed.

Lemma flat_map_flat_map {A B C} (f : B -> list C) (g : A -> list B) l :
  flat_map f (flat_map g l) = flat_map (fun x => flat_map f (g x)) l.
Proof.
  induction l as [|x l IH]; cbn [flat_map]; [reflexivity|].
  rewrite flat_map_app, IH. reflexivity.
Qed.

Lemma flat_map_ext_in {A B} (f g : A -> list B) l :
  (forall x, In x l -> f x = g x) -> flat_map f l = flat_map g l.
Proof.
  induction l as [|x l IH]; intros H; cbn [flat_map]; [reflexivity|].
  rewrite (H x (or_introl eq_refl)), IH; [reflexivity|]. intros y Hy; apply H; right; exact Hy.
Qed.

Section Main.
Variable T : tables.
Variable cfg : config.

(** ** The scheme clause survives the class filter when no scheme list names [class]. *)
Lemma avoid_lookup (l : schemes) e m :
  forallb (fun em : str * props => negb (is_some (assoc s!"class" (snd em)))) l = true ->
  assoc e l = Some m -> assoc s!"class" m = None.
Proof.
  intros H E. apply assoc_In_pair in E. rewrite forallb_forall in H. specialize (H _ E).
  cbn [snd] in H. destruct (assoc s!"class" m); [discriminate|reflexivity].
Qed.

Lemma class_scheme_ok e a :
  schemes_avoid_class T cfg = true -> a_name a = s!"class" -> attr_scheme_ok T cfg e a = true.
Proof.
  unfold schemes_avoid_class. intros H Ec.
  apply andb_true_iff in H as [H H4]. apply andb_true_iff in H as [H H3]. apply andb_true_iff in H as [H1 H2].
  unfold attr_scheme_ok. rewrite Ec. apply andb_true_iff. split.
  - unfold scheme_denied. destruct (c_deny_schemes cfg) as [l|]; cbn [oassoc olist existsb]; [|reflexivity].
    destruct (assoc e l) as [m|] eqn:E; cbn [oassoc olist existsb]; [|reflexivity].
    rewrite (avoid_lookup _ _ _ H1 E). reflexivity.
  - unfold scheme_list. destruct (negb (is_some (c_allow_schemes cfg) || mode_on cfg)); [reflexivity|].
    assert (E1 : oassoc s!"class" (custom (c_allow_schemes cfg) e) = None).
    { unfold custom. destruct (c_allow_schemes cfg) as [[o l]|]; cbn [bl_content oassoc]; [|reflexivity].
      cbn [bl_content] in H2. destruct (assoc e l) as [m|] eqn:E; cbn [oassoc]; [|reflexivity].
      apply (avoid_lookup _ _ _ H2 E). }
    assert (E2 : oassoc s!"class" (assoc e (t_schemes_strict T)) = None).
    { destruct (assoc e (t_schemes_strict T)) as [m|] eqn:E; cbn [oassoc]; [|reflexivity].
      apply (avoid_lookup _ _ _ H3 E). }
    assert (E3 : oassoc s!"class" (assoc e (t_schemes_compat T)) = None).
    { destruct (assoc e (t_schemes_compat T)) as [m|] eqn:E; cbn [oassoc]; [|reflexivity].
      apply (avoid_lookup _ _ _ H4 E). }
    rewrite E1, E2, E3.
    destruct (defaults_apply cfg (c_allow_schemes cfg)); cbn [andb];
      [destruct (compat_on cfg)|]; reflexivity.
Qed.

(** ** [clean_element_attributes]: every attribute that is left is allowed *)
Definition attr_good (e : str) (a : attr) : bool := attr_ok T cfg e a && attr_scheme_ok T cfg e a.

Lemma clean_attrs_inv e :
  schemes_avoid_class T cfg = true ->
  forall acts S,
  (forall p, In p acts -> snd p = attribute_action T cfg e (fst p)) ->
  (forall a, In a S -> attr_good e a = true \/ exists p, In p acts /\ fst p = a /\ snd p <> AKeep) ->
  forall a, In a (fold_left apply_action acts S) -> attr_good e a = true.
Proof.
  intros Hav. induction acts as [|[x act] acts IH]; intros S Hact HS a Ha; cbn [fold_left] in Ha.
  - destruct (HS a Ha) as [H|[p [[] _]]]. exact H.
  - apply (IH (apply_action S (x, act))); [intros p Hp; apply Hact; right; exact Hp| |exact Ha].
    clear a Ha. intros a Ha.
    pose proof (Hact (x, act) (or_introl eq_refl)) as Hx. cbn [fst snd] in Hx.
    unfold apply_action in Ha. cbn [fst snd] in Ha.
    assert (Hold : In a S -> a <> x ->
                   attr_good e a = true \/ exists p, In p acts /\ fst p = a /\ snd p <> AKeep).
    { intros HaS Hne. destruct (HS a HaS) as [H|[p [[Hp|Hp] [Hf Hs]]]]; [left; exact H| |right; exists p; auto].
      subst p. cbn [fst] in Hf. congruence. }
    destruct act as [| |v].
    + destruct (HS a Ha) as [H|[p [[Hp|Hp] [Hf Hs]]]]; [left; exact H| |right; exists p; auto].
      subst p. cbn [snd] in Hs. congruence.
    + apply set_remove_In in Ha as [HaS Hne]. apply Hold; assumption.
    + destruct (set_mem x S) eqn:Em.
      * apply set_insert_In in Ha as [->|Ha].
        -- left. symmetry in Hx. apply attribute_action_replace in Hx as [Hc Hok].
           unfold attr_good. rewrite Hok. apply class_scheme_ok; [exact Hav|exact Hc].
        -- apply set_remove_In in Ha as [HaS Hne]. apply Hold; assumption.
      * apply Hold; [exact Ha|]. intros ->. apply set_mem_In in Ha. congruence.
Qed.

Lemma clean_attrs_good e attrs :
  schemes_avoid_class T cfg = true ->
  forallb (attr_scheme_ok T cfg e) attrs = true ->
  forall a, In a (clean_attrs T cfg e attrs) -> attr_good e a = true.
Proof.
  intros Hav Hs. unfold clean_attrs. apply (clean_attrs_inv e Hav).
  - intros p Hp. apply in_map_iff in Hp as [a [<- _]]. reflexivity.
  - intros a Ha. destruct (attribute_action T cfg e a) eqn:E.
    + left. unfold attr_good. apply attribute_action_keep in E. rewrite E.
      rewrite forallb_forall in Hs. apply Hs, Ha.
    + right. exists (a, ADrop). split; [|split; [reflexivity|discriminate]].
      apply in_map_iff. exists a. rewrite E. auto.
    + right. exists (a, AReplace v). split; [|split; [reflexivity|discriminate]].
      apply in_map_iff. exists a. rewrite E. auto.
Qed.

(** ** [clean_node] produces an allowed forest.  [k] is the depth the code counts (the depth
    in the input), [r] the nesting level at which the result ends up (children of unwrapped
    elements move up, so r <= k). *)
Lemma elem_dropped_mono e r k : r <= k -> elem_dropped T cfg e k = false -> elem_dropped T cfg e r = false.
Proof.
  unfold elem_dropped. intros Hle H.
  apply orb_false_iff in H as [H H3]. rewrite H. cbn [orb].
  destruct (eff_max_depth T cfg) as [m|]; [|reflexivity].
  apply N.leb_gt in H3. apply N.leb_gt. lia.
Qed.

Lemma clean_node_allowed :
  schemes_avoid_class T cfg = true ->
  forall n k r, r <= k -> forallb (allowed_node T cfg r) (clean_node T cfg k n) = true.
Proof.
  intros Hav n. induction n as [ns e attrs kids IH|s|] using node_ind'; intros k r Hle; [|reflexivity|reflexivity].
  cbn [clean_node]. rewrite elem_action_spec.
  set (e1 := new_elem_name T cfg e). set (attrs1 := replace_attrs_of T cfg e attrs).
  assert (Hkids : forall r', r' <= k + 1 ->
            forallb (allowed_node T cfg r') (flat_map (clean_node T cfg (k + 1)) kids) = true).
  { intros r' Hr'. rewrite forallb_flat_map. apply forallb_forall. intros x Hx.
    rewrite Forall_forall in IH. apply IH; [exact Hx|exact Hr']. }
  destruct (elem_dropped T cfg e1 k) eqn:Ed; [reflexivity|].
  destruct (elem_kept T cfg e1 attrs1) eqn:Ek.
  - cbn [forallb allowed_node]. rewrite andb_true_r.
    rewrite (elem_dropped_mono _ _ _ Hle Ed). cbn [negb andb].
    unfold elem_kept in Ek. apply andb_true_iff in Ek as [Ek Hs].
    pose proof (clean_attrs_good e1 attrs1 Hav Hs) as Hgood.
    rewrite Hkids by lia. rewrite andb_true_r.
    apply andb_true_iff. split.
    + unfold elem_kept. rewrite Ek. cbn [andb]. apply forallb_forall. intros a Ha.
      specialize (Hgood a Ha). unfold attr_good in Hgood. apply andb_true_iff in Hgood. tauto.
    + apply forallb_forall. intros a Ha.
      specialize (Hgood a Ha). unfold attr_good in Hgood. apply andb_true_iff in Hgood. tauto.
  - apply Hkids. lia.
Qed.

Theorem clean_allowed_gen f :
  schemes_avoid_class T cfg = true -> allowedb T cfg (clean T cfg f) = true.
Proof.
  intros Hav. unfold allowedb, clean. rewrite forallb_flat_map. apply forallb_forall.
  intros n _. apply clean_node_allowed; [exact Hav|lia].
Qed.

(** ** What is kept *)
Lemma elem_kept_In_equiv e l1 l2 :
  (forall a, In a l1 <-> In a l2) -> elem_kept T cfg e l1 = elem_kept T cfg e l2.
Proof. intros H. unfold elem_kept. rewrite (forallb_In_equiv _ _ _ H). reflexivity. Qed.

Lemma clean_node_events n : forall k, flat_map events (clean_node T cfg k n) = survive T cfg k n.
Proof.
  induction n as [ns e attrs kids IH|s|] using node_ind'; intros k; [|reflexivity|reflexivity].
  cbn [clean_node survive]. rewrite elem_action_spec, new_elem_name_bridge.
  rewrite (elem_kept_In_equiv _ _ _ (replace_attrs_In T cfg e attrs)).
  assert (Hkids : flat_map events (flat_map (clean_node T cfg (k + 1)) kids)
                  = flat_map (survive T cfg (k + 1)) kids).
  { rewrite flat_map_flat_map. apply flat_map_ext_in. intros x Hx.
    rewrite Forall_forall in IH. apply IH, Hx. }
  destruct (elem_dropped T cfg (renamed_elem T cfg e) k); [reflexivity|].
  destruct (elem_kept T cfg (renamed_elem T cfg e) (renamed_attrs T cfg e attrs)).
  - cbn [flat_map events]. rewrite app_nil_r, Hkids. reflexivity.
  - exact Hkids.
Qed.

Theorem clean_events f : flat_map events (clean T cfg f) = flat_map (survive T cfg 0) f.
Proof.
  unfold clean. rewrite flat_map_flat_map. apply flat_map_ext_in. intros n _. apply clean_node_events.
Qed.

End Main.
