(** C14.Wire — decoding of cases and encoding of trees (shared by C14 and C15 [Run]).
    The wire carries UTF-8 byte strings; the model works on scalar strings.  The harness only
    ever sends valid UTF-8 (Rust [String]s); [utf8_dec] is total and maps anything else to
    some scalar string (truncated sequences are dropped).  Unverified, exercised by every
    correspondence case (each string of a tree is decoded and re-encoded). *)
From Base Require Import Prelude Sx.
From C14 Require Import Dom.

Fixpoint utf8_dec (s : list N) (need : nat) (acc : N) : list N :=
  match s with
  | [] => []
  | b :: r =>
      match need with
      | S k =>
          let acc' := acc * 64 + (b mod 64) in
          match k with O => acc' :: utf8_dec r O 0 | _ => utf8_dec r k acc' end
      | O =>
          if b <? 128 then b :: utf8_dec r O 0
          else if b <? 224 then utf8_dec r 1 (b - 192)
          else if b <? 240 then utf8_dec r 2 (b - 224)
          else utf8_dec r 3 (b - 240)
      end
  end.

Definition utf8_enc1 (c : N) : list N :=
  if c <? 128 then [c]
  else if c <? 2048 then [192 + c / 64; 128 + c mod 64]
  else if c <? 65536 then [224 + c / 4096; 128 + (c / 64) mod 64; 128 + c mod 64]
  else [240 + c / 262144; 128 + (c / 4096) mod 64; 128 + (c / 64) mod 64; 128 + c mod 64].

Definition dec (s : list N) : str := utf8_dec s O 0.
Definition enc (s : str) : list N := flat_map utf8_enc1 s.

Definition as_ustr (x : sx) : option str := match x with SS s => Some (dec s) | _ => None end.
Definition sx_ustr (s : str) : sx := SS (enc s).

(** ** Trees *)
Definition attr_of_sx (x : sx) : option attr :=
  match x with
  | SL [SS p; SS n; SS l; SS v] => Some (mk_attr (dec p) (dec n) (dec l) (dec v))
  | _ => None
  end.

Fixpoint node_of_sx (x : sx) : option node :=
  match x with
  | SL [SN 0%Z; SS ns; SS name; SL attrs; SL kids] =>
      match map_opt attr_of_sx attrs,
            (fix go (l : list sx) : option (list node) :=
               match l with
               | [] => Some []
               | y :: l' => match node_of_sx y, go l' with
                            | Some n, Some r => Some (n :: r)
                            | _, _ => None
                            end
               end) kids with
      | Some a, Some k => Some (Elem (dec ns) (dec name) a k)
      | _, _ => None
      end
  | SL [SN 1%Z; SS s] => Some (Text (dec s))
  | SL [SN 2%Z] => Some Other
  | _ => None
  end.

Definition forest_of_sx (x : sx) : option forest :=
  match x with SL l => map_opt node_of_sx l | _ => None end.

Definition sx_of_attr (a : attr) : sx :=
  SL [sx_ustr (a_pfx a); sx_ustr (a_ns a); sx_ustr (a_name a); sx_ustr (a_val a)].

Fixpoint sx_of_node (n : node) : sx :=
  match n with
  | Elem ns name attrs kids =>
      SL [SN 0; sx_ustr ns; sx_ustr name; SL (map sx_of_attr attrs); SL (map sx_of_node kids)]
  | Text s => SL [SN 1; sx_ustr s]
  | Other => SL [SN 2]
  end.

Definition sx_of_forest (f : forest) : sx := SL (map sx_of_node f).

(** ** Configurations *)
Definition strs_of_sx : sx -> option (list str) := as_list_of as_ustr.
Definition pair_of_sx {A} (f : sx -> option A) (x : sx) : option (str * A) :=
  match x with
  | SL [SS k; v] => match f v with Some a => Some (dec k, a) | None => None end
  | _ => None
  end.
Definition pairs_of_sx : sx -> option (list (str * str)) := as_list_of (pair_of_sx as_ustr).
Definition props_of_sx : sx -> option props := as_list_of (pair_of_sx strs_of_sx).
Definition schemes_of_sx : sx -> option schemes := as_list_of (pair_of_sx props_of_sx).
Definition blist_of_sx {A} (f : sx -> option A) (x : sx) : option (blist A) :=
  match x with
  | SL [SN o; c] => match f c with Some a => Some (mk_blist (negb (o =? 0)%Z) a) | None => None end
  | _ => None
  end.

Definition config_of_sx (x : sx) : option config :=
  match x with
  | SL [SN m; SN reply; re; rme; ie; ae; ra; rma; aa; ds; als; rc; ac; md] =>
      match as_opt (blist_of_sx pairs_of_sx) re, as_opt strs_of_sx rme, as_opt strs_of_sx ie,
            as_opt (blist_of_sx strs_of_sx) ae,
            as_opt (blist_of_sx (as_list_of (pair_of_sx pairs_of_sx))) ra,
            as_opt props_of_sx rma, as_opt (blist_of_sx props_of_sx) aa,
            as_opt schemes_of_sx ds, as_opt (blist_of_sx schemes_of_sx) als,
            as_opt props_of_sx rc, as_opt (blist_of_sx props_of_sx) ac, as_opt as_N md with
      | Some re, Some rme, Some ie, Some ae, Some ra, Some rma, Some aa, Some ds, Some als,
        Some rc, Some ac, Some md =>
          Some (mk_config (if (m =? 1)%Z then Some Strict else if (m =? 2)%Z then Some Compat else None)
                          (negb (reply =? 0)%Z) re rme ie ae ra rma aa ds als rc ac md)
      | _, _, _, _, _, _, _, _, _, _, _, _ => None
      end
  | _ => None
  end.
