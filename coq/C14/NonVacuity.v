(** C14.NonVacuity — the hypotheses are satisfiable by non-trivial inputs, the excluded
    configurations really are exceptions, and the two defects found in the unrepaired code are
    visible to the specification. *)
From Base Require Import Prelude.
From C14 Require Import Dom Tables Model Spec.

Definition at_ (n v : string) : attr := mk_attr [] [] (bytes_of_string n) (bytes_of_string v).
Definition strict := preset Strict false.

(** The witness of DESIGN.md section 11, [<a data-x="1" href="javascript:alert(1)">l</a>]:
    the repaired code unwraps the link. *)
Definition w_link : node :=
  Elem [] s!"a" [at_ "data-x" "1"; at_ "href" "javascript:alert(1)"] [Text s!"l"].

Example repaired_link : clean html_tables strict [w_link] = [Text s!"l"].
Proof. vm_compute. reflexivity. Qed.

(** The loop as it was (clean.rs before the fix: [return NodeAction::None] at the first
    attribute without scheme list) kept the element with its [javascript:] link — which the
    specification rejects. *)
Fixpoint allow_loop_unrepaired (le se ce : option props) (attrs : list attr) : action :=
  match attrs with
  | [] => ANone
  | a :: r =>
      match oassoc (a_name a) le, oassoc (a_name a) se, oassoc (a_name a) ce with
      | None, None, None => ANone
      | la, sa, ca =>
          if existsb (has_scheme (a_val a))
               (match la with Some l => l | None => [] end ++ match sa with Some l => l | None => [] end
                ++ match ca with Some l => l | None => [] end)
          then allow_loop_unrepaired le se ce r else AIgnore
      end
  end.

Example unrepaired_link_kept :
  allow_loop_unrepaired None (assoc s!"a" (t_schemes_strict html_tables)) None
    [at_ "data-x" "1"; at_ "href" "javascript:alert(1)"] = ANone
  /\ allowedb matrix_tables strict
       [Elem [] s!"a" [at_ "href" "javascript:alert(1)"] [Text s!"l"]] = false.
Proof. split; vm_compute; reflexivity. Qed.

(** Second defect: [<svg><a xlink:href="https://a">]; an attribute in the xlink namespace whose
    local name is on the list is not allowed by the specification, and is dropped by the
    repaired code. *)
Definition w_xlink : node :=
  Elem s!"http://www.w3.org/2000/svg" s!"a"
    [mk_attr (1 :: s!"xlink") s!"http://www.w3.org/1999/xlink" s!"href" s!"https://a"] [Text s!"l"].

Example xlink_not_allowed : allowedb matrix_tables strict [w_xlink] = false.
Proof. vm_compute. reflexivity. Qed.

Example repaired_xlink :
  clean html_tables strict [w_xlink] = [Elem s!"http://www.w3.org/2000/svg" s!"a" [] [Text s!"l"]].
Proof. vm_compute. reflexivity. Qed.

(** A non-trivial document that is kept, rewritten and filtered at once. *)
Example mixed :
  clean html_tables (preset Compat true)
    [Elem [] s!"mx-reply" [] [Text s!"quoted"];
     Elem [] s!"font" [at_ "color" "red"; at_ "size" "3"] [Text s!"x"; Other];
     Elem [] s!"x-foo" [] [Elem [] s!"code" [at_ "class" "a language-rust  b"] []];
     Elem [] s!"a" [at_ "href" "matrix:u/a:b"; at_ "onclick" "x"] []]
  = [Elem [] s!"span" [at_ "data-mx-color" "red"] [Text s!"x"];
     Elem [] s!"code" [at_ "class" "language-rust"] [];
     Elem [] s!"a" [at_ "href" "matrix:u/a:b"] []].
Proof. vm_compute. reflexivity. Qed.

(** The hypothesis of [C14_clean_allowed] is needed: with a scheme list on [class], filtering the
    classes can expose a denied scheme. *)
Definition cfg_class_scheme : config :=
  mk_config (Some Strict) false None None None None None None
    (Some (mk_blist false [(s!"a", [s!"class"])]))
    (Some [(s!"a", [(s!"class", [s!"javascript"])])]) None
    (Some [(s!"a", [s!"foo"])]) (Some (mk_blist false [(s!"a", [s!"*"])])) None.

Example excluded_config_is_an_exception :
  schemes_avoid_class matrix_tables cfg_class_scheme = false
  /\ allowedb matrix_tables cfg_class_scheme
       (clean html_tables cfg_class_scheme [Elem [] s!"a" [at_ "class" "foo javascript:x"] []]) = false.
Proof. split; vm_compute; reflexivity. Qed.
