(** C14.Run — case decoding, model run, and the spec predicates evaluated on the
    implementation's outcome (the failing-input search).

    case    = ( cfg html-bytes parsed-tree )
    outcome = ok ( cleaned-tree reparsed-output-tree ( entry-points-agree ) )
    The reparsed tree (html5ever's parser applied to the serialized output) is not modelled:
    it is echoed into the model outcome, and the specification is evaluated on it.  The flag
    says that the string entry points ([sanitize_html], [remove_html_reply_fallback],
    [Html::sanitize]) returned the serialization of the cleaned tree; echoed and required. *)
From Base Require Import Prelude Sx.
From C14 Require Import Dom Tables Model Spec Wire.

Definition event_eqb (a b : event) : bool :=
  match a, b with
  | EvOpen x, EvOpen y => str_eqb x y
  | EvClose, EvClose => true
  | EvText x, EvText y => str_eqb x y
  | _, _ => false
  end.

Fixpoint events_eqb (a b : list event) : bool :=
  match a, b with
  | [], [] => true
  | x :: a', y :: b' => event_eqb x y && events_eqb a' b'
  | _, _ => false
  end.

(** The property speaks about the reparsed output only for configurations that keep the
    mode's element lists (an added element such as [style] changes how its content parses). *)
Definition reparse_constrained (cfg : config) : bool :=
  is_some (c_mode cfg) && negb (is_some (c_allow_elements cfg)) && negb (is_some (c_replace_elements cfg)).

Definition spec_ok (cfg : config) (input out reparsed : forest) : bool :=
  (* what is kept, in order — all configurations *)
  events_eqb (flat_map events out) (flat_map (survive matrix_tables cfg 0) input)
  (* only allow-listed content — configurations covered by the theorem *)
  && (negb (schemes_avoid_class matrix_tables cfg)
      || (allowedb matrix_tables cfg out
          && (negb (reparse_constrained cfg) || allowedb matrix_tables cfg reparsed))).

Definition run (x : sx) : sx :=
  match x with
  | SL [SL [c; SS _; t]; impl] =>
      match config_of_sx c, forest_of_sx t with
      | Some cfg, Some f =>
          let m := sx_of_forest (clean html_tables cfg f) in
          match impl with
          | SL [SN 0%Z; SL [out; re; SL [SN entry]]] =>
              SL [SL [SN 0; SL [m; re; SL [SN entry]]];
                  sx_bool (match forest_of_sx out, forest_of_sx re with
                           | Some o, Some r => spec_ok cfg f o r && negb (entry =? 0)%Z
                           | _, _ => false
                           end)]
          | _ => SL [SL [SN 0; SL [m; SL []; SL []]]; sx_bool false]   (* the sanitizer must not panic *)
          end
      | _, _ => sx_bad
      end
  | _ => sx_bad
  end.
