(** C14.Proofs2 — the model's decisions, read off the code's control flow, coincide with the
    specification's effective-list predicates (for the same tables [T]). *)
From Base Require Import Prelude.
From C14 Require Import Dom Model Spec Proofs1.

Section Bridge.
Variable T : tables.
Variable cfg : config.

Lemma use_strict_mode_on : use_strict cfg = mode_on cfg.
Proof. unfold use_strict, mode_on, is_some. destruct (c_mode cfg); reflexivity. Qed.

Lemma use_compat_on : use_compat cfg = compat_on cfg.
Proof. reflexivity. Qed.

Lemma compat_on_mode_on : compat_on cfg = true -> mode_on cfg = true.
Proof. unfold compat_on, mode_on. destruct (c_mode cfg) as [[|]|]; congruence. Qed.

Lemma defaults_bridge {A} (l : option (blist A)) :
  negb (is_override l) && use_strict cfg = defaults_apply cfg l.
Proof.
  unfold defaults_apply, is_override. rewrite use_strict_mode_on.
  destruct l as [[o c]|]; cbn [bl_override]; destruct (mode_on cfg); try destruct o; reflexivity.
Qed.

Lemma defaults_compat_bridge {A} (l : option (blist A)) :
  negb (is_override l) && use_compat cfg = defaults_apply cfg l && compat_on cfg.
Proof.
  rewrite use_compat_on. unfold defaults_apply, is_override.
  destruct (compat_on cfg) eqn:E; [rewrite (compat_on_mode_on E)|];
    destruct l as [[o c]|]; cbn [bl_override]; try destruct o; try destruct (mode_on cfg); reflexivity.
Qed.

Lemma max_depth_bridge : max_depth_value T cfg = eff_max_depth T cfg.
Proof. unfold max_depth_value, eff_max_depth. rewrite use_strict_mode_on. reflexivity. Qed.

Lemma elem_replacement_bridge e : elem_replacement T cfg e = elem_rename T cfg e.
Proof. unfold elem_replacement, elem_rename, custom. rewrite defaults_bridge. reflexivity. Qed.

Lemma new_elem_name_bridge e : new_elem_name T cfg e = renamed_elem T cfg e.
Proof. unfold new_elem_name, renamed_elem. rewrite elem_replacement_bridge. reflexivity. Qed.

Lemma list_attr_repl_bridge e : list_attr_repl cfg e = attr_rename_custom cfg e.
Proof. reflexivity. Qed.

Lemma mode_attr_repl_bridge e : mode_attr_repl T cfg e = attr_rename_default T cfg e.
Proof. unfold mode_attr_repl, attr_rename_default. rewrite defaults_bridge. reflexivity. Qed.

Lemma with_name_same a : with_name a (a_name a) = a.
Proof. destruct a; reflexivity. Qed.

Lemma replaced_attr_bridge e a :
  match attr_new_name (list_attr_repl cfg e) (mode_attr_repl T cfg e) (a_name a) with
  | Some n => with_name a n
  | None => a
  end = with_name a (renamed_attr T cfg e (a_name a)).
Proof.
  unfold attr_new_name, renamed_attr. rewrite list_attr_repl_bridge, mode_attr_repl_bridge.
  destruct (oassoc (a_name a) (attr_rename_custom cfg e)); [reflexivity|].
  destruct (oassoc (a_name a) (attr_rename_default T cfg e)); [reflexivity|].
  symmetry; apply with_name_same.
Qed.

Lemma replace_attrs_In e attrs a :
  In a (replace_attrs_of T cfg e attrs) <-> In a (renamed_attrs T cfg e attrs).
Proof.
  unfold replace_attrs_of, renamed_attrs.
  destruct (is_some (list_attr_repl cfg e) || is_some (mode_attr_repl T cfg e)) eqn:E.
  - rewrite set_of_list_In. erewrite map_ext; [reflexivity|]. intros x. apply replaced_attr_bridge.
  - apply orb_false_iff in E as [E1 E2].
    erewrite (map_ext _ (fun x => x)); [rewrite map_id; reflexivity|].
    intros x. unfold renamed_attr. rewrite <- list_attr_repl_bridge, <- mode_attr_repl_bridge.
    destruct (list_attr_repl cfg e); [discriminate|]. destruct (mode_attr_repl T cfg e); [discriminate|].
    cbn [oassoc]. apply with_name_same.
Qed.

(** ** [node_action] *)
Lemma elem_not_allowed_bridge e : elem_not_allowed T cfg e = negb (elem_allowed T cfg e).
Proof.
  unfold elem_not_allowed, elem_allowed. rewrite defaults_bridge, use_strict_mode_on.
  destruct (is_some (c_allow_elements cfg) || mode_on cfg),
    (match c_allow_elements cfg with Some l => mem_str e (bl_content l) | None => false end),
    (defaults_apply cfg (c_allow_elements cfg) && mem_str e (t_elements T)) eqn:E3;
    cbn [negb andb orb]; try reflexivity;
    try (rewrite <- andb_assoc in *; rewrite E3; reflexivity).
Qed.

Lemma deny_loop_spec deny attrs :
  deny_loop deny attrs =
  existsb (fun a => existsb (has_scheme (a_val a)) (olist (assoc (a_name a) deny))) attrs.
Proof.
  induction attrs as [|a r IH]; cbn [deny_loop existsb]; [reflexivity|].
  destruct (assoc (a_name a) deny) as [l|]; cbn [olist existsb orb]; [|exact IH].
  destruct (existsb (has_scheme (a_val a)) l); cbn [orb]; [reflexivity|exact IH].
Qed.

Lemma elem_denied_bridge e attrs :
  elem_denied cfg e attrs = existsb (fun a => scheme_denied cfg e (a_name a) (a_val a)) attrs.
Proof.
  unfold elem_denied, scheme_denied.
  destruct (oassoc e (c_deny_schemes cfg)) as [deny|]; cbn [oassoc olist].
  - apply deny_loop_spec.
  - induction attrs as [|a r IH]; cbn [existsb]; [reflexivity|]. exact IH.
Qed.

Definition attr_scheme_allowed (le se ce : option props) (a : attr) : bool :=
  match oassoc (a_name a) le, oassoc (a_name a) se, oassoc (a_name a) ce with
  | None, None, None => true
  | l, s, c => existsb (has_scheme (a_val a)) (olist l ++ olist s ++ olist c)
  end.

Lemma allow_loop_spec le se ce attrs :
  allow_loop le se ce attrs = if forallb (attr_scheme_allowed le se ce) attrs then ANone else AIgnore.
Proof.
  induction attrs as [|a r IH]; cbn [allow_loop forallb]; [reflexivity|].
  unfold attr_scheme_allowed at 1.
  destruct (oassoc (a_name a) le) as [l|], (oassoc (a_name a) se) as [s|], (oassoc (a_name a) ce) as [c|];
    cbn [olist andb];
    try (destruct (existsb (has_scheme (a_val a)) _); cbn [andb]; [exact IH|reflexivity]).
  exact IH.
Qed.

Lemma scheme_list_bridge e a :
  match scheme_list T cfg e (a_name a) with
  | None => true
  | Some l => existsb (has_scheme (a_val a)) l
  end =
  if negb (is_some (c_allow_schemes cfg)) && negb (use_strict cfg) then true
  else attr_scheme_allowed (list_elem_schemes cfg e) (strict_elem_schemes T cfg e) (compat_elem_schemes T cfg e) a.
Proof.
  unfold scheme_list, attr_scheme_allowed, list_elem_schemes, strict_elem_schemes, compat_elem_schemes.
  rewrite defaults_bridge, defaults_compat_bridge, use_strict_mode_on, <- negb_orb. unfold custom.
  destruct (negb (is_some (c_allow_schemes cfg) || mode_on cfg)); [reflexivity|].
  generalize (defaults_apply cfg (c_allow_schemes cfg)); intros da.
  destruct (c_allow_schemes cfg) as [[o sc]|]; cbn [bl_content oassoc];
    destruct da; cbn [andb]; destruct (compat_on cfg); cbn [oassoc];
    repeat match goal with |- context [oassoc ?k ?m] => destruct (oassoc k m) end; reflexivity.
Qed.

Lemma scheme_action_spec e attrs :
  scheme_action T cfg e attrs =
  if forallb (fun a => match scheme_list T cfg e (a_name a) with
                       | None => true
                       | Some l => existsb (has_scheme (a_val a)) l
                       end) attrs
  then ANone else AIgnore.
Proof.
  erewrite forallb_ext_in; [|intros a _; apply scheme_list_bridge].
  unfold scheme_action.
  destruct (negb (is_some (c_allow_schemes cfg)) && negb (use_strict cfg)).
  - rewrite forallb_all_true; [reflexivity|intros; reflexivity].
  - destruct (list_elem_schemes cfg e) as [l|] eqn:El, (strict_elem_schemes T cfg e) as [s|] eqn:Es,
      (compat_elem_schemes T cfg e) as [c|] eqn:Ec; try apply allow_loop_spec.
    rewrite forallb_all_true; [reflexivity|intros; reflexivity].
Qed.

Lemma elem_action_spec e attrs d :
  elem_action T cfg e attrs d =
  if elem_dropped T cfg e d then ARemove
  else if elem_kept T cfg e attrs then ANone else AIgnore.
Proof.
  unfold elem_action, elem_dropped. rewrite max_depth_bridge.
  destruct (omem e (c_remove_elements cfg)); [reflexivity|].
  destruct (c_remove_reply_fallback cfg && str_eqb e (t_reply T)); [reflexivity|]. cbn [orb].
  destruct (match eff_max_depth T cfg with Some m => m <=? d | None => false end); [reflexivity|].
  unfold elem_kept.
  destruct (omem e (c_ignore_elements cfg)); [reflexivity|]. cbn [negb andb].
  rewrite elem_not_allowed_bridge. destruct (elem_allowed T cfg e); cbn [negb andb]; [|reflexivity].
  unfold attr_scheme_ok. rewrite forallb_and, forallb_negb_existsb, <- elem_denied_bridge.
  destruct (elem_denied cfg e attrs); cbn [negb andb]; [reflexivity|].
  apply scheme_action_spec.
Qed.

(** ** [clean_element_attributes] *)
Lemma attr_not_allowed_bridge e a :
  omem (a_name a) (oassoc e (c_remove_attrs cfg)) = false ->
  attr_not_allowed T cfg e a = negb (attr_name_allowed T cfg e a).
Proof.
  intros Hr. unfold attr_not_allowed, attr_name_allowed, is_html_attr, custom.
  rewrite Hr, defaults_bridge, use_strict_mode_on. cbn [negb andb].
  generalize (defaults_apply cfg (c_allow_attrs cfg)); intros da.
  destruct (c_allow_attrs cfg) as [[o al]|]; cbn [bl_content is_some orb];
    destruct (mode_on cfg), (a_ns a), da; cbn [negb andb orb omem];
    repeat match goal with |- context [omem ?k ?m] => destruct (omem k m) end; reflexivity.
Qed.

Lemma filter_classes_spec e classes :
  filter_classes T cfg e classes = filter (class_ok T cfg e) classes.
Proof.
  unfold filter_classes, class_ok. rewrite defaults_bridge, use_strict_mode_on. unfold custom.
  set (rm := oassoc e (c_remove_classes cfg)).
  set (al := olist (match c_allow_classes cfg with Some b => assoc e (bl_content b) | None => None end)
             ++ (if defaults_apply cfg (c_allow_classes cfg) then olist (assoc e (t_classes T)) else [])).
  assert (E1 : match rm with Some rc => filter (fun c => negb (any_glob rc c)) classes | None => classes end
               = filter (fun c => negb (any_glob (olist rm) c)) classes).
  { destruct rm; cbn [olist]; [reflexivity|]. symmetry. apply filter_all.
    apply forallb_forall. intros; reflexivity. }
  rewrite E1.
  assert (E2 : (match (match c_allow_classes cfg with Some l => assoc e (bl_content l) | None => None end) with
                | Some l => l | None => [] end
                ++ match (if defaults_apply cfg (c_allow_classes cfg) then assoc e (t_classes T) else None) with
                   | Some l => l | None => [] end) = al).
  { subst al. unfold olist. destruct (defaults_apply cfg (c_allow_classes cfg)); reflexivity. }
  rewrite E2. clear E1 E2.
  destruct (is_some (c_allow_classes cfg) || mode_on cfg); cbn [negb orb].
  - rewrite filter_filter. apply filter_ext. intros c. reflexivity.
  - apply filter_ext. intros c. destruct (any_glob (olist rm) c); reflexivity.
Qed.

(** The action on one attribute, in the specification's terms. *)
Lemma attribute_action_spec e a :
  attribute_action T cfg e a =
  if negb (attr_name_allowed T cfg e a) then ADrop
  else if str_eqb (a_name a) s!"class" then
    let classes := split_ws (a_val a) in
    let kept := filter (class_ok T cfg e) classes in
    if Nat.eqb (List.length kept) (List.length classes) then AKeep
    else match kept with [] => ADrop | _ => AReplace (join_sp kept) end
  else AKeep.
Proof.
  unfold attribute_action.
  destruct (omem (a_name a) (oassoc e (c_remove_attrs cfg))) eqn:Hr.
  - unfold attr_name_allowed. rewrite Hr. reflexivity.
  - rewrite (attr_not_allowed_bridge _ _ Hr).
    destruct (attr_name_allowed T cfg e a); cbn [negb]; [|reflexivity].
    unfold k_class. rewrite filter_classes_spec. reflexivity.
Qed.

Lemma attribute_action_keep e a : attribute_action T cfg e a = AKeep <-> attr_ok T cfg e a = true.
Proof.
  rewrite attribute_action_spec. unfold attr_ok.
  destruct (attr_name_allowed T cfg e a); cbn [negb andb]; [|split; discriminate].
  destruct (str_eqb (a_name a) s!"class"); [|tauto]. cbv zeta.
  destruct (Nat.eqb_spec (List.length (filter (class_ok T cfg e) (split_ws (a_val a)))) (List.length (split_ws (a_val a)))) as [E|E].
  - split; [intros _; apply filter_length_eq, E|reflexivity].
  - split.
    + destruct (filter _ _); discriminate.
    + intros H. rewrite (filter_all _ _ H) in E. congruence.
Qed.

Lemma attr_name_allowed_with_val e a v :
  attr_name_allowed T cfg e (with_val a v) = attr_name_allowed T cfg e a.
Proof. reflexivity. Qed.

Lemma attribute_action_replace e a v :
  attribute_action T cfg e a = AReplace v ->
  a_name a = s!"class" /\ attr_ok T cfg e (with_val a v) = true.
Proof.
  rewrite attribute_action_spec. unfold attr_ok.
  destruct (attr_name_allowed T cfg e a) eqn:Hn; cbn [negb]; [|discriminate].
  destruct (str_eqb_spec (a_name a) s!"class") as [Ec|Ec]; [|discriminate]. cbv zeta.
  destruct (Nat.eqb _ _); [discriminate|].
  destruct (filter (class_ok T cfg e) (split_ws (a_val a))) as [|w ws] eqn:Ef; [discriminate|].
  remember (join_sp (w :: ws)) as j eqn:Ej. intros [= <-]. split; [exact Ec|].
  rewrite attr_name_allowed_with_val, Hn. cbn [with_val a_name a_val andb]. rewrite Ec, str_eqb_refl.
  rewrite Ej, split_join.
  - rewrite <- Ef. apply forallb_forall. intros c Hc. apply filter_In in Hc. tauto.
  - rewrite <- Ef. apply Forall_filter, split_ws_words.
Qed.

End Bridge.
