(** C14.Tables — the generated tables of clean.rs packed into the [tables] record the model
    is parametric in.  Everything here is regenerated data (coq/Gen/HtmlTables.v). *)
From Base Require Import Prelude.
From Gen Require Import HtmlTables.
From C14 Require Import Dom.

Definition html_tables : tables :=
  mk_tables allowed_elements_strict rich_reply_element_name deprecated_elements
            allowed_attributes_strict deprecated_attrs allowed_schemes_strict
            allowed_schemes_compat allowed_classes_strict max_depth_strict.
