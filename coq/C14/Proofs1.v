(** C14.Proofs1 — facts about the library functions of [Dom]: attribute sets,
    whitespace splitting, wildcard matching, filters. *)
From Base Require Import Prelude.
From C14 Require Import Dom.

(** * Booleans and lists *)
Lemma forallb_and {A} (f g : A -> bool) l :
  forallb (fun x => f x && g x) l = forallb f l && forallb g l.
Proof.
  induction l as [|x l IH]; cbn [forallb]; [reflexivity|]. rewrite IH.
  destruct (f x), (g x), (forallb f l), (forallb g l); reflexivity.
Qed.

Lemma forallb_negb_existsb {A} (f : A -> bool) l :
  forallb (fun x => negb (f x)) l = negb (existsb f l).
Proof.
  induction l as [|x l IH]; cbn [forallb existsb]; [reflexivity|]. rewrite IH.
  destruct (f x), (existsb f l); reflexivity.
Qed.

Lemma forallb_all_true {A} (f : A -> bool) l : (forall x, f x = true) -> forallb f l = true.
Proof. intros H. induction l as [|x l IH]; cbn [forallb]; [reflexivity|]. now rewrite H, IH. Qed.

Lemma forallb_ext_in {A} (f g : A -> bool) l :
  (forall x, In x l -> f x = g x) -> forallb f l = forallb g l.
Proof.
  induction l as [|x l IH]; intros H; cbn [forallb]; [reflexivity|].
  rewrite (H x (or_introl eq_refl)), IH; [reflexivity|]. intros y Hy; apply H; right; exact Hy.
Qed.

Lemma forallb_In_equiv {A} (f : A -> bool) l1 l2 :
  (forall x, In x l1 <-> In x l2) -> forallb f l1 = forallb f l2.
Proof.
  intros H. destruct (forallb f l1) eqn:E1, (forallb f l2) eqn:E2; try reflexivity.
  - rewrite forallb_forall in E1. assert (forallb f l2 = true) as X; [|congruence].
    apply forallb_forall. intros x Hx. apply E1, H, Hx.
  - rewrite forallb_forall in E2. assert (forallb f l1 = true) as X; [|congruence].
    apply forallb_forall. intros x Hx. apply E2, H, Hx.
Qed.

Lemma filter_length_le {A} (f : A -> bool) l : (List.length (filter f l) <= List.length l)%nat.
Proof.
  induction l as [|x l IH]; cbn [filter List.length]; [lia|]. destruct (f x); cbn [List.length]; lia.
Qed.

Lemma filter_length_eq {A} (f : A -> bool) l :
  List.length (filter f l) = List.length l -> forallb f l = true.
Proof.
  induction l as [|x l IH]; cbn [filter List.length forallb]; [reflexivity|].
  destruct (f x); cbn [List.length andb]; intros H.
  - apply IH; lia.
  - pose proof (filter_length_le f l). lia.
Qed.

Lemma filter_all {A} (f : A -> bool) l : forallb f l = true -> filter f l = l.
Proof.
  induction l as [|x l IH]; cbn [filter forallb]; [reflexivity|].
  intros H; apply andb_true_iff in H as [H1 H2]. rewrite H1, (IH H2). reflexivity.
Qed.

Lemma filter_filter {A} (f g : A -> bool) l :
  filter g (filter f l) = filter (fun x => f x && g x) l.
Proof.
  induction l as [|x l IH]; cbn [filter]; [reflexivity|].
  destruct (f x); cbn [filter andb]; [destruct (g x); [f_equal|]; exact IH|exact IH].
Qed.

Lemma flat_map_singleton {A} (f : A -> list A) l :
  (forall x, In x l -> f x = [x]) -> flat_map f l = l.
Proof.
  induction l as [|x l IH]; intros H; cbn [flat_map]; [reflexivity|].
  rewrite (H x (or_introl eq_refl)), IH; [reflexivity|]. intros y Hy; apply H; right; exact Hy.
Qed.

Lemma assoc_In {A} k (m : list (str * A)) v : assoc k m = Some v -> In k (map fst m).
Proof.
  induction m as [|[k' v'] m IH]; cbn [assoc map fst]; [discriminate|].
  dse k k'; [left; reflexivity|]. intros H; right; apply IH, H.
Qed.

(** * Attribute sets *)
Lemma attr_eqb_eq a b : attr_eqb a b = true <-> a = b.
Proof.
  unfold attr_eqb. destruct a as [p n l v], b as [p' n' l' v']; cbn [a_pfx a_ns a_name a_val].
  rewrite !andb_true_iff, !str_eqb_eq. split.
  - intros [[[-> ->] ->] ->]. reflexivity.
  - intros E; inversion E; subst; auto.
Qed.

Lemma attr_eqb_refl a : attr_eqb a a = true.
Proof. apply attr_eqb_eq; reflexivity. Qed.

Lemma set_insert_In x y l : In x (set_insert y l) <-> x = y \/ In x l.
Proof.
  induction l as [|z l IH]; cbn [set_insert In].
  - intuition congruence.
  - destruct (attr_ltb y z); cbn [In]; [intuition congruence|].
    destruct (attr_eqb y z) eqn:E; cbn [In].
    + apply attr_eqb_eq in E; subst z. intuition congruence.
    + rewrite IH. intuition congruence.
Qed.

Lemma set_of_list_In x l : In x (set_of_list l) <-> In x l.
Proof.
  unfold set_of_list. assert (G : forall acc, In x (fold_left (fun s y => set_insert y s) l acc) <-> In x l \/ In x acc).
  { induction l as [|y l IH]; intros acc; cbn [fold_left In]; [tauto|].
    rewrite IH, set_insert_In. split; [intros [H|[H|H]]; auto|intros [[H|H]|H]; auto]. }
  rewrite G. cbn [In]. tauto.
Qed.

Lemma set_remove_In x y l : In x (set_remove y l) <-> In x l /\ x <> y.
Proof.
  unfold set_remove. rewrite filter_In. split; intros [H1 H2]; split; auto.
  - intros ->. rewrite attr_eqb_refl in H2. discriminate.
  - destruct (attr_eqb y x) eqn:E; [|reflexivity]. apply attr_eqb_eq in E. congruence.
Qed.

Lemma set_mem_In x l : set_mem x l = true <-> In x l.
Proof.
  unfold set_mem. rewrite existsb_exists. split.
  - intros [y [Hy E]]. apply attr_eqb_eq in E. subst; exact Hy.
  - intros H. exists x. split; [exact H|apply attr_eqb_refl].
Qed.

(** * [split_ws] / [join_sp] *)
Definition is_word (w : str) : Prop := w <> [] /\ forallb (fun c => negb (is_ws c)) w = true.

Lemma split_ws_words s : Forall is_word (split_ws s).
Proof.
  induction s as [|c s IH]; cbn [split_ws]; [constructor|].
  destruct (is_ws c) eqn:Ec; [exact IH|].
  destruct s as [|d s']; [constructor; [|constructor]; split; [discriminate|cbn; now rewrite Ec]|].
  destruct (is_ws d) eqn:Ed.
  - constructor; [split; [discriminate|cbn; now rewrite Ec]|exact IH].
  - destruct (split_ws (d :: s')) as [|w ws] eqn:E.
    + constructor; [|constructor]. split; [discriminate|cbn; now rewrite Ec].
    + inversion IH as [|? ? [Hw1 Hw2] Hws]; subst. constructor; [|exact Hws].
      split; [discriminate|]. cbn [forallb]. now rewrite Ec, Hw2.
Qed.

Lemma split_ws_word_sep w r :
  is_word w -> split_ws (w ++ 32 :: r) = w :: split_ws r.
Proof.
  intros [Hne Hw]. induction w as [|c w IH]; [congruence|].
  cbn [forallb] in Hw. apply andb_true_iff in Hw as [Hc Hw]. apply negb_true_iff in Hc.
  cbn [app]. cbn [split_ws]. rewrite Hc. destruct w as [|d w'].
  - cbn [app]. change (is_ws 32) with true. cbn iota. reflexivity.
  - cbn [app]. pose proof Hw as Hw'. cbn [forallb] in Hw'. apply andb_true_iff in Hw' as [Hd _].
    apply negb_true_iff in Hd. rewrite Hd.
    change (d :: w' ++ 32 :: r) with ((d :: w') ++ 32 :: r). rewrite IH; [reflexivity|discriminate|exact Hw].
Qed.

Lemma split_ws_word w : is_word w -> split_ws w = [w].
Proof.
  intros [Hne Hw]. induction w as [|c w IH]; [congruence|].
  cbn [forallb] in Hw. apply andb_true_iff in Hw as [Hc Hw]. apply negb_true_iff in Hc.
  cbn [split_ws]. rewrite Hc. destruct w as [|d w']; [reflexivity|].
  pose proof Hw as Hw'. cbn [forallb] in Hw'. apply andb_true_iff in Hw' as [Hd _].
  apply negb_true_iff in Hd. rewrite Hd. rewrite IH; [reflexivity|discriminate|exact Hw].
Qed.

Lemma split_join ws : Forall is_word ws -> split_ws (join_sp ws) = ws.
Proof.
  induction ws as [|w ws IH]; intros H; [reflexivity|].
  inversion H as [|? ? Hw Hws]; subst. destruct ws as [|w2 ws'].
  - cbn [join_sp]. apply split_ws_word, Hw.
  - change (join_sp (w :: w2 :: ws')) with (w ++ 32 :: join_sp (w2 :: ws')).
    rewrite (split_ws_word_sep _ _ Hw), (IH Hws). reflexivity.
Qed.

Lemma Forall_filter {A} (P : A -> Prop) f l : Forall P l -> Forall P (filter f l).
Proof.
  induction 1 as [|x l Hx Hl IH]; cbn [filter]; [constructor|]. destruct (f x); [constructor|]; auto.
Qed.

(** * [glob]: a pattern [literal*] is a prefix test — the Matrix rule "classes starting with
    [language-]" is the pattern [language-*]. *)
Lemma glob_star_any s : glob [42] s = true.
Proof.
  cbn [glob]. change (42 =? 42) with true. cbn iota.
  induction s as [|d s IH]; [reflexivity|]. cbn [orb]. exact IH.
Qed.

Definition plain (p : str) : Prop := forallb (fun c => negb (c =? 42) && negb (c =? 63)) p = true.

Lemma glob_prefix_star p s : plain p -> glob (p ++ [42]) s = starts_with p s.
Proof.
  unfold plain. revert s; induction p as [|c p IH]; intros s H.
  - cbn [app starts_with]. apply glob_star_any.
  - cbn [forallb] in H. apply andb_true_iff in H as [Hc H]. apply andb_true_iff in Hc as [H1 H2].
    apply negb_true_iff in H1, H2. cbn [app glob]. rewrite H1.
    destruct s as [|d s]; cbn [starts_with]; [reflexivity|]. rewrite H2. cbn [orb].
    rewrite (IH s H). reflexivity.
Qed.
