(** C14.Dom — data shared by the model and the specification of the HTML sanitizer:
    the DOM tree, the sanitizer configuration (one field per builder option of
    [SanitizerConfig], sanitizer_config.rs:11-68), the shape of the static tables of
    clean.rs:6-93, and the two string functions the sanitizer takes from libraries
    ([str::split_whitespace], [wildmatch::WildMatch]).

    Strings in this development are *scalar strings*: lists of Unicode scalar values
    (Rust [char]s).  The wire carries UTF-8 bytes; [Wire.v] decodes and encodes.  Rust
    compares [str]s by bytes, which for UTF-8 is code-point order, so [str_ltb] on scalar
    strings is the order of [BTreeSet<Attribute>]. *)
From Base Require Import Prelude.

(** * Association lists (first match) — [HashMap]/[phf::Map] lookups. *)
Fixpoint assoc {A} (k : str) (m : list (str * A)) : option A :=
  match m with
  | [] => None
  | (k', v) :: m' => if str_eqb k k' then Some v else assoc k m'
  end.

Definition oassoc {A} (k : str) (m : option (list (str * A))) : option A :=
  match m with Some m => assoc k m | None => None end.

(** [Option<&Set>::is_some_and(|s| s.contains(k))] *)
Definition omem (k : str) (s : option (list str)) : bool :=
  match s with Some s => mem_str k s | None => false end.

Definition is_some {A} (o : option A) : bool := match o with Some _ => true | None => false end.

(** * DOM (html.rs:294-320) *)
Record attr := mk_attr {
  a_pfx : str;    (* [] for [None], 1 :: prefix for [Some prefix] *)
  a_ns : str;
  a_name : str;   (* name.local *)
  a_val : str }.

Inductive node :=
| Elem (ns name : str) (attrs : list attr) (kids : list node)
| Text (s : str)
| Other.        (* comment, doctype, processing instruction *)

Definition forest := list node.

(** Nested induction principle. *)
Section NodeInd.
Variable P : node -> Prop.
Hypothesis HE : forall ns name attrs kids, Forall P kids -> P (Elem ns name attrs kids).
Hypothesis HT : forall s, P (Text s).
Hypothesis HO : P Other.
Fixpoint node_ind' (n : node) : P n :=
  match n with
  | Elem ns name attrs kids =>
      HE ns name attrs kids
        ((fix go (l : list node) : Forall P l :=
            match l with [] => Forall_nil P | x :: l' => Forall_cons x (node_ind' x) (go l') end) kids)
  | Text s => HT s
  | Other => HO
  end.
End NodeInd.

(** Derived order of [Attribute] = (QualName {prefix, ns, local}, value), all compared as
    strings ([Atom::cmp], [Tendril::cmp] compare the string contents). *)
Definition attr_eqb (a b : attr) : bool :=
  str_eqb (a_pfx a) (a_pfx b) && str_eqb (a_ns a) (a_ns b) && str_eqb (a_name a) (a_name b)
  && str_eqb (a_val a) (a_val b).

Definition attr_ltb (a b : attr) : bool :=
  if str_ltb (a_pfx a) (a_pfx b) then true else if negb (str_eqb (a_pfx a) (a_pfx b)) then false else
  if str_ltb (a_ns a) (a_ns b) then true else if negb (str_eqb (a_ns a) (a_ns b)) then false else
  if str_ltb (a_name a) (a_name b) then true else if negb (str_eqb (a_name a) (a_name b)) then false else
  str_ltb (a_val a) (a_val b).

(** [BTreeSet::insert]: no-op when an equal element is present. *)
Fixpoint set_insert (x : attr) (l : list attr) : list attr :=
  match l with
  | [] => [x]
  | y :: r => if attr_ltb x y then x :: y :: r else if attr_eqb x y then y :: r else y :: set_insert x r
  end.

(** [BTreeSet::remove] *)
Definition set_remove (x : attr) (l : list attr) : list attr :=
  filter (fun y => negb (attr_eqb x y)) l.

Definition set_mem (x : attr) (l : list attr) : bool := existsb (attr_eqb x) l.

(** [iter.collect::<BTreeSet<_>>()] *)
Definition set_of_list (l : list attr) : list attr := fold_left (fun s x => set_insert x s) l [].

Definition with_name (a : attr) (n : str) : attr := mk_attr (a_pfx a) (a_ns a) n (a_val a).
Definition with_val (a : attr) (v : str) : attr := mk_attr (a_pfx a) (a_ns a) (a_name a) v.

(** * Configuration (sanitizer_config.rs:11-68) *)
Inductive smode := Strict | Compat.

(** [List<T>]: content + [ListBehavior] *)
Record blist (A : Type) := mk_blist { bl_override : bool; bl_content : A }.
Arguments mk_blist {A}.
Arguments bl_override {A}.
Arguments bl_content {A}.

Definition props := list (str * list str).            (* parent -> names *)
Definition schemes := list (str * props).             (* element -> attribute -> schemes *)

Record config := mk_config {
  c_mode : option smode;
  c_remove_reply_fallback : bool;
  c_replace_elements : option (blist (list (str * str)));
  c_remove_elements : option (list str);
  c_ignore_elements : option (list str);
  c_allow_elements : option (blist (list str));
  c_replace_attrs : option (blist (list (str * list (str * str))));
  c_remove_attrs : option props;
  c_allow_attrs : option (blist props);
  c_deny_schemes : option schemes;
  c_allow_schemes : option (blist schemes);
  c_remove_classes : option props;
  c_allow_classes : option (blist props);
  c_max_depth : option N }.

Definition is_override {A} (o : option (blist A)) : bool :=
  match o with Some l => bl_override l | None => false end.

Definition use_strict (c : config) : bool := is_some (c_mode c).
Definition use_compat (c : config) : bool :=
  match c_mode c with Some Compat => true | _ => false end.

(** The four presets of the property: strict / compat, with or without reply-fallback removal
    ([SanitizerConfig::strict()], [::compat()], [.remove_reply_fallback()]). *)
Definition preset (m : smode) (reply : bool) : config :=
  mk_config (Some m) reply None None None None None None None None None None None None.

(** * Static tables (clean.rs:6-93) *)
Record tables := mk_tables {
  t_elements : list str;                 (* ALLOWED_ELEMENTS_STRICT *)
  t_reply : str;                         (* RICH_REPLY_ELEMENT_NAME *)
  t_dep_elements : list (str * str);     (* DEPRECATED_ELEMENTS *)
  t_attrs : props;                       (* ALLOWED_ATTRIBUTES_STRICT *)
  t_dep_attrs : list (str * list (str * str));   (* DEPRECATED_ATTRS *)
  t_schemes_strict : schemes;            (* ALLOWED_SCHEMES_STRICT *)
  t_schemes_compat : schemes;            (* ALLOWED_SCHEMES_COMPAT *)
  t_classes : props;                     (* ALLOWED_CLASSES_STRICT *)
  t_max_depth : N }.                     (* MAX_DEPTH_STRICT *)

(** * [str::split_whitespace]: maximal runs of non-White_Space characters. *)
Definition is_ws (c : N) : bool :=
  ((9 <=? c) && (c <=? 13)) || (c =? 32) || (c =? 133) || (c =? 160) || (c =? 5760)
  || ((8192 <=? c) && (c <=? 8202)) || (c =? 8232) || (c =? 8233) || (c =? 8239) || (c =? 8287)
  || (c =? 12288).

Fixpoint split_ws (s : str) : list str :=
  match s with
  | [] => []
  | c :: s' =>
      if is_ws c then split_ws s'
      else match s' with
           | [] => [[c]]
           | d :: _ =>
               if is_ws d then [c] :: split_ws s'
               else match split_ws s' with
                    | w :: ws => (c :: w) :: ws
                    | [] => [[c]]
                    end
           end
  end.

(** [classes.join(" ")] *)
Fixpoint join_sp (l : list str) : str :=
  match l with
  | [] => []
  | [w] => w
  | w :: l' => w ++ 32 :: join_sp l'
  end.

(** * [WildMatch::new(p).matches(s)]: [*] = any run of characters, [?] = exactly one character,
    everything else literal; the whole input must match. *)
Fixpoint glob (p s : str) : bool :=
  match p with
  | [] => match s with [] => true | _ => false end
  | c :: p' =>
      if c =? 42 then
        (fix star (s : str) : bool :=
           glob p' s || match s with [] => false | _ :: s' => star s' end) s
      else match s with
           | [] => false
           | d :: s' => ((c =? 63) || (c =? d)) && glob p' s'
           end
  end.

Definition any_glob (pats : list str) (c : str) : bool := existsb (fun p => glob p c) pats.

(** [value.starts_with(&format!("{scheme}:"))] *)
Definition has_scheme (v scheme : str) : bool := starts_with (scheme ++ [58]) v.
