(** C14.Proofs4 — the generated tables against the Matrix lists, and what [Allowed] means
    for the four presets in plain terms (elements, attributes, schemes, classes, depth,
    reply fallback, node kinds). *)
From Base Require Import Prelude.
From C14 Require Import Dom Tables Model Spec Proofs1 Proofs2 Proofs3.

(** The tables of clean.rs (regenerated on every run) are the Matrix allow-lists. *)
Lemma tables_eq : html_tables = matrix_tables.
Proof. vm_compute. reflexivity. Qed.

Lemma clean_allowed cfg f :
  schemes_avoid_class matrix_tables cfg = true -> Allowed matrix_tables cfg (clean html_tables cfg f).
Proof. rewrite tables_eq. apply clean_allowed_gen. Qed.

Lemma preset_avoid m r : schemes_avoid_class matrix_tables (preset m r) = true.
Proof. destruct m, r; reflexivity. Qed.

Lemma clean_allowed_presets m r f :
  Allowed matrix_tables (preset m r) (clean html_tables (preset m r) f).
Proof. apply clean_allowed, preset_avoid. Qed.

Lemma kept_in_order cfg f :
  flat_map events (clean html_tables cfg f) = flat_map (survive matrix_tables cfg 0) f.
Proof. rewrite tables_eq. apply clean_events. Qed.

(** ** Reading [Allowed] *)
Section Read.
Variable T : tables.
Variable cfg : config.

Lemma allowed_subnode n : forall d x,
  allowed_node T cfg d n = true -> In x (subnodes n) -> exists d', allowed_node T cfg d' x = true.
Proof.
  induction n as [ns e attrs kids IH|s|] using node_ind'; intros d x H Hx; cbn [subnodes In] in Hx.
  - destruct Hx as [<-|Hx]; [exists d; exact H|].
    apply in_flat_map in Hx as [k [Hk Hx]]. cbn [allowed_node] in H.
    apply andb_true_iff in H as [_ H]. rewrite forallb_forall in H.
    rewrite Forall_forall in IH. apply (IH k Hk (d + 1) x); [apply H, Hk|exact Hx].
  - destruct Hx as [<-|[]]. exists d; exact H.
  - destruct Hx as [<-|[]]. exists d; exact H.
Qed.

Lemma allowed_forest_subnode f x :
  allowedb T cfg f = true -> In x (flat_map subnodes f) -> exists d, allowed_node T cfg d x = true.
Proof.
  unfold allowedb. intros H Hx. apply in_flat_map in Hx as [n [Hn Hx]].
  rewrite forallb_forall in H. eapply allowed_subnode; [apply H, Hn|exact Hx].
Qed.

Lemma fold_max_le (l : list node) b :
  (forall k, In k l -> height k <= b) -> fold_right (fun k m => N.max (height k) m) 0 l <= b.
Proof.
  induction l as [|k l IH]; intros H; cbn [fold_right]; [lia|].
  pose proof (H k (or_introl eq_refl)). assert (fold_right (fun k m => N.max (height k) m) 0 l <= b).
  { apply IH. intros; apply H; right; assumption. } lia.
Qed.

Lemma allowed_height m n : eff_max_depth T cfg = Some m ->
  forall d, allowed_node T cfg d n = true -> d <= m -> d + height n <= m.
Proof.
  intros Hm. induction n as [ns e attrs kids IH|s|] using node_ind'; intros d H Hd; cbn [height]; try lia.
  cbn [allowed_node] in H. apply andb_true_iff in H as [H Hk]. apply andb_true_iff in H as [H _].
  apply andb_true_iff in H as [H _]. apply negb_true_iff in H. unfold elem_dropped in H.
  rewrite Hm in H. apply orb_false_iff in H as [_ H]. apply N.leb_gt in H.
  assert (fold_right (fun k m => N.max (height k) m) 0 kids <= m - (d + 1)); [|lia].
  apply fold_max_le. intros k Hkk. rewrite forallb_forall in Hk. rewrite Forall_forall in IH.
  pose proof (IH k Hkk (d + 1) (Hk k Hkk)). lia.
Qed.

Lemma allowed_forest_height m f :
  eff_max_depth T cfg = Some m -> allowedb T cfg f = true -> forest_height f <= m.
Proof.
  intros Hm H. unfold forest_height. apply fold_max_le. intros k Hk.
  unfold allowedb in H. rewrite forallb_forall in H.
  pose proof (allowed_height m k Hm 0 (H k Hk)). lia.
Qed.

End Read.

(** ** The presets *)
Definition link_schemes (m : smode) : list str :=
  matrix_href_schemes ++ match m with Compat => [s!"matrix"] | Strict => [] end.

Section Presets.
Variable m : smode.
Variable r : bool.
Let cfg := preset m r.

Lemma preset_elem ns e attrs kids d :
  allowed_node matrix_tables cfg d (Elem ns e attrs kids) = true ->
  mem_str e matrix_elements = true
  /\ (r = true -> e <> s!"mx-reply")
  /\ d < 100
  /\ forallb (attr_scheme_ok matrix_tables cfg e) attrs = true
  /\ forallb (attr_ok matrix_tables cfg e) attrs = true.
Proof.
  cbn [allowed_node]. intros H. apply andb_true_iff in H as [H _].
  apply andb_true_iff in H as [H Hok]. apply andb_true_iff in H as [Hd Hk].
  apply negb_true_iff in Hd. unfold elem_kept in Hk. apply andb_true_iff in Hk as [Hk Hs].
  apply andb_true_iff in Hk as [_ Ha].
  assert (Ha' : mem_str e matrix_elements = true) by (subst cfg; destruct m, r; exact Ha).
  assert (Hd' : (r && str_eqb e s!"mx-reply") || (100 <=? d) = false) by (subst cfg; destruct m, r; exact Hd).
  apply orb_false_iff in Hd' as [Hr Hd']. apply N.leb_gt in Hd'.
  repeat split; try assumption.
  intros -> ->. rewrite str_eqb_refl in Hr. discriminate.
Qed.

Lemma preset_attr_name e a :
  attr_ok matrix_tables cfg e a = true ->
  a_ns a = [] /\ omem (a_name a) (assoc e matrix_attributes) = true.
Proof.
  unfold attr_ok. intros H. apply andb_true_iff in H as [H _].
  assert (H' : match a_ns a with [] => true | _ => false end
               && omem (a_name a) (assoc e matrix_attributes) = true)
    by (subst cfg; destruct m, r; exact H).
  apply andb_true_iff in H' as [H1 H2]. split; [|exact H2]. destruct (a_ns a); [reflexivity|discriminate].
Qed.

Lemma preset_href a :
  attr_scheme_ok matrix_tables cfg s!"a" a = true -> a_name a = s!"href" ->
  existsb (has_scheme (a_val a)) (link_schemes m) = true.
Proof.
  unfold attr_scheme_ok. intros H Hn. apply andb_true_iff in H as [_ H]. rewrite Hn in H.
  assert (E : scheme_list matrix_tables cfg s!"a" s!"href" = Some (link_schemes m))
    by (subst cfg; destruct m, r; reflexivity).
  rewrite E in H. exact H.
Qed.

Lemma preset_src a :
  attr_scheme_ok matrix_tables cfg s!"img" a = true -> a_name a = s!"src" ->
  existsb (has_scheme (a_val a)) matrix_src_schemes = true.
Proof.
  unfold attr_scheme_ok. intros H Hn. apply andb_true_iff in H as [_ H]. rewrite Hn in H.
  assert (E : scheme_list matrix_tables cfg s!"img" s!"src" = Some matrix_src_schemes)
    by (subst cfg; destruct m, r; reflexivity).
  rewrite E in H. exact H.
Qed.

Lemma language_glob c : glob s!"language-*" c = starts_with s!"language-" c.
Proof. apply (glob_prefix_star s!"language-"). reflexivity. Qed.

Lemma preset_code_class a :
  attr_ok matrix_tables cfg s!"code" a = true -> a_name a = s!"class" ->
  forallb (starts_with s!"language-") (split_ws (a_val a)) = true.
Proof.
  unfold attr_ok. intros H Hn. apply andb_true_iff in H as [_ H]. rewrite Hn in H.
  change (str_eqb s!"class" s!"class") with true in H. cbv iota in H.
  erewrite forallb_ext_in; [exact H|]. intros c _.
  transitivity (any_glob [s!"language-*"] c).
  - unfold any_glob. cbn [existsb]. rewrite orb_false_r. symmetry. apply language_glob.
  - subst cfg; destruct m, r; reflexivity.
Qed.

End Presets.

(** The plain reading of [Allowed] for a preset: every element of the sanitized document. *)
Theorem presets_output_shape m r f ns e attrs kids :
  In (Elem ns e attrs kids) (flat_map subnodes (clean html_tables (preset m r) f)) ->
  (* element on the Matrix list, not the reply fallback under removal *)
  mem_str e matrix_elements = true
  /\ (r = true -> e <> s!"mx-reply")
  (* attributes: none in a namespace, each on the element's Matrix list *)
  /\ (forall a, In a attrs -> a_ns a = [] /\ omem (a_name a) (assoc e matrix_attributes) = true)
  (* link and image sources carry an allowed scheme, whatever else is on the element *)
  /\ (e = s!"a" -> forall a, In a attrs -> a_name a = s!"href" ->
        existsb (has_scheme (a_val a)) (link_schemes m) = true)
  /\ (e = s!"img" -> forall a, In a attrs -> a_name a = s!"src" ->
        existsb (has_scheme (a_val a)) matrix_src_schemes = true)
  (* classes on code start with language- *)
  /\ (e = s!"code" -> forall a, In a attrs -> a_name a = s!"class" ->
        forallb (starts_with s!"language-") (split_ws (a_val a)) = true).
Proof.
  intros Hin.
  destruct (allowed_forest_subnode _ _ _ _ (clean_allowed_presets m r f) Hin) as [d Hd].
  destruct (preset_elem m r _ _ _ _ _ Hd) as [He [Hr [_ [Hs Hok]]]].
  rewrite forallb_forall in Hs, Hok.
  split; [exact He|]. split; [exact Hr|]. split; [|split; [|split]].
  - intros a Ha. apply (preset_attr_name m r), Hok, Ha.
  - intros -> a Ha. apply (preset_href m r), Hs, Ha.
  - intros -> a Ha. apply (preset_src m r), Hs, Ha.
  - intros -> a Ha. apply (preset_code_class m r), Hok, Ha.
Qed.

Theorem presets_no_other m r f : ~ In Other (flat_map subnodes (clean html_tables (preset m r) f)).
Proof.
  intros Hin.
  destruct (allowed_forest_subnode _ _ _ _ (clean_allowed_presets m r f) Hin) as [d Hd]. discriminate.
Qed.

Theorem presets_depth m r f : forest_height (clean html_tables (preset m r) f) <= 100.
Proof.
  apply (allowed_forest_height matrix_tables (preset m r)); [destruct m, r; reflexivity|].
  apply clean_allowed_presets.
Qed.
