(** C14.Model — executable model of [SanitizerConfig::clean] (ruma-html
    sanitizer_config/clean.rs, line numbers of the repaired source), parametric in the static
    tables [T] (instantiated with the generated [Gen.HtmlTables.html_tables] in [Run.v] and
    in the theorems).  Same order of checks and early returns as the Rust code.  The DOM
    mutation (re-parenting the children of an ignored node before it, detaching) is modelled
    by returning the list of nodes that replaces the cleaned node in its parent. *)
From Base Require Import Prelude.
From C14 Require Import Dom.

Section Model.
Variable T : tables.
Variable cfg : config.

(** clean.rs:102-104 [max_depth_value] *)
Definition max_depth_value : option N :=
  match c_max_depth cfg with
  | Some d => Some d
  | None => if use_strict cfg then Some (t_max_depth T) else None
  end.

(** ** [apply_replacements] (clean.rs:138-200) *)

(** 145-151: the two replacement maps for attributes of element [ename] *)
Definition list_attr_repl (ename : str) : option (list (str * str)) :=
  match c_replace_attrs cfg with Some l => assoc ename (bl_content l) | None => None end.
Definition mode_attr_repl (ename : str) : option (list (str * str)) :=
  if negb (is_override (c_replace_attrs cfg)) && use_strict cfg then assoc ename (t_dep_attrs T)
  else None.

(** 161-168: new name of one attribute *)
Definition attr_new_name (lr mr : option (list (str * str))) (aname : str) : option str :=
  match oassoc aname lr with
  | Some r => Some r
  | None => oassoc aname mr
  end.

(** 153-173: the attribute set is rebuilt (re-sorted, de-duplicated) only when one of the
    maps exists for this element *)
Definition replace_attrs_of (ename : str) (attrs : list attr) : list attr :=
  let lr := list_attr_repl ename in
  let mr := mode_attr_repl ename in
  if is_some lr || is_some mr then
    set_of_list (map (fun a => match attr_new_name lr mr (a_name a) with
                               | Some n => with_name a n
                               | None => a
                               end) attrs)
  else attrs.

(** 176-192: element replacement, list first, then the mode's deprecated elements *)
Definition elem_replacement (ename : str) : option str :=
  match (match c_replace_elements cfg with Some l => assoc ename (bl_content l) | None => None end) with
  | Some r => Some r
  | None =>
      if negb (is_override (c_replace_elements cfg)) && use_strict cfg
      then assoc ename (t_dep_elements T) else None
  end.

Definition new_elem_name (ename : str) : str :=
  match elem_replacement ename with Some r => r | None => ename end.

(** ** [node_action] for an element (clean.rs:204-319) *)
Inductive action := ANone | AIgnore | ARemove.

(** 245-260: a denied scheme on any attribute *)
Fixpoint deny_loop (deny : props) (attrs : list attr) : bool :=
  match attrs with
  | [] => false
  | a :: r =>
      match assoc (a_name a) deny with
      | Some schemes => if existsb (has_scheme (a_val a)) schemes then true else deny_loop deny r
      | None => deny_loop deny r
      end
  end.

(** 287-317 (repaired: an attribute without scheme list is skipped, the loop goes on) *)
Fixpoint allow_loop (le se ce : option props) (attrs : list attr) : action :=
  match attrs with
  | [] => ANone
  | a :: r =>
      let la := oassoc (a_name a) le in
      let sa := oassoc (a_name a) se in
      let ca := oassoc (a_name a) ce in
      match la, sa, ca with
      | None, None, None => allow_loop le se ce r                    (* 297-303: continue *)
      | _, _, _ =>
          let chain := match la with Some l => l | None => [] end
                       ++ match sa with Some l => l | None => [] end
                       ++ match ca with Some l => l | None => [] end in
          if existsb (has_scheme (a_val a)) chain then allow_loop le se ce r
          else AIgnore                                                (* 314-316 *)
      end
  end.

(** 225-242: an allow-list is in force and the element is on neither list *)
Definition elem_not_allowed (ename : str) : bool :=
  (is_some (c_allow_elements cfg) || use_strict cfg)
  && negb (match c_allow_elements cfg with Some l => mem_str ename (bl_content l) | None => false end)
  && negb (negb (is_override (c_allow_elements cfg)) && use_strict cfg && mem_str ename (t_elements T)).

(** 245-260 *)
Definition elem_denied (ename : str) (attrs : list attr) : bool :=
  match oassoc ename (c_deny_schemes cfg) with
  | Some deny => deny_loop deny attrs
  | None => false
  end.

(** 268-277: the three scheme maps of the element *)
Definition list_elem_schemes (ename : str) : option props :=
  match c_allow_schemes cfg with Some l => assoc ename (bl_content l) | None => None end.
Definition strict_elem_schemes (ename : str) : option props :=
  if negb (is_override (c_allow_schemes cfg)) && use_strict cfg then assoc ename (t_schemes_strict T) else None.
Definition compat_elem_schemes (ename : str) : option props :=
  if negb (is_override (c_allow_schemes cfg)) && use_compat cfg then assoc ename (t_schemes_compat T) else None.

(** 262-319 *)
Definition scheme_action (ename : str) (attrs : list attr) : action :=
  (* 262-265 *)
  if negb (is_some (c_allow_schemes cfg)) && negb (use_strict cfg) then ANone
  else
    let le := list_elem_schemes ename in
    let se := strict_elem_schemes ename in
    let ce := compat_elem_schemes ename in
    match le, se, ce with
    | None, None, None => ANone                                       (* 279-285 *)
    | _, _, _ => allow_loop le se ce attrs
    end.

Definition elem_action (ename : str) (attrs : list attr) (depth : N) : action :=
  (* 209-211 *)
  if omem ename (c_remove_elements cfg) then ARemove
  (* 212-214 *)
  else if c_remove_reply_fallback cfg && str_eqb ename (t_reply T) then ARemove
  (* 215-217 *)
  else if match max_depth_value with Some m => m <=? depth | None => false end then ARemove
  (* 220-222 *)
  else if omem ename (c_ignore_elements cfg) then AIgnore
  (* 225-242 *)
  else if elem_not_allowed ename then AIgnore
  (* 245-260 *)
  else if elem_denied ename attrs then AIgnore
  (* 262-319 *)
  else scheme_action ename attrs.

(** ** [clean_element_attributes] (clean.rs:326-453) *)
Inductive attr_action := AKeep | ADrop | AReplace (v : str).

Definition k_class : str := s!"class".

(** [attr.name.ns.is_empty()] *)
Definition is_html_attr (a : attr) : bool := match a_ns a with [] => true | _ => false end.

(** 365-379: an allow-list is in force and the attribute is on neither list; only attributes
    without namespace can be on the lists (367-374) *)
Definition attr_not_allowed (ename : str) (a : attr) : bool :=
  (is_some (c_allow_attrs cfg) || use_strict cfg)
  && negb (is_html_attr a
           && omem (a_name a) (match c_allow_attrs cfg with Some l => assoc ename (bl_content l) | None => None end))
  && negb (is_html_attr a
           && omem (a_name a) (if negb (is_override (c_allow_attrs cfg)) && use_strict cfg
                               then assoc ename (t_attrs T) else None)).

(** 386-418: the classes that stay *)
Definition filter_classes (ename : str) (classes : list str) : list str :=
  let c1 := match oassoc ename (c_remove_classes cfg) with
            | Some rc => filter (fun c => negb (any_glob rc c)) classes
            | None => classes
            end in
  if is_some (c_allow_classes cfg) || use_strict cfg then
    let la := match c_allow_classes cfg with Some l => assoc ename (bl_content l) | None => None end in
    let ma := if negb (is_override (c_allow_classes cfg)) && use_strict cfg
              then assoc ename (t_classes T) else None in
    filter (any_glob (match la with Some l => l | None => [] end
                      ++ match ma with Some l => l | None => [] end)) c1
  else c1.

Definition attribute_action (ename : str) (a : attr) : attr_action :=
  (* 360-363 *)
  if omem (a_name a) (oassoc ename (c_remove_attrs cfg)) then ADrop
  (* 365-379 *)
  else if attr_not_allowed ename a then ADrop
  (* 381-434 *)
  else if str_eqb (a_name a) k_class then
    let classes := split_ws (a_val a) in
    let c2 := filter_classes ename classes in
    if Nat.eqb (List.length c2) (List.length classes) then AKeep   (* 420-423 *)
    else match c2 with
         | [] => ADrop                                          (* 425-426 *)
         | _ => AReplace (join_sp c2)                           (* 427-433 *)
         end
  else AKeep.

(** 440-452: the collected actions are applied to the set one after the other *)
Definition apply_action (s : list attr) (p : attr * attr_action) : list attr :=
  match snd p with
  | AKeep => s
  | ADrop => set_remove (fst p) s
  | AReplace v =>
      if set_mem (fst p) s then set_insert (with_val (fst p) v) (set_remove (fst p) s) else s
  end.

Definition clean_attrs (ename : str) (attrs : list attr) : list attr :=
  fold_left apply_action (map (fun a => (a, attribute_action ename a)) attrs) attrs.

(** ** [clean_node] (clean.rs:113-133): the nodes that take the place of [n] in its parent *)
Fixpoint clean_node (depth : N) (n : node) : list node :=
  match n with
  | Elem ns name attrs kids =>
      let attrs1 := replace_attrs_of name attrs in       (* 114: apply_replacements *)
      let name1 := new_elem_name name in
      match elem_action name1 attrs1 depth with          (* 116 *)
      | ARemove => []                                     (* 128-129 *)
      | AIgnore => flat_map (clean_node (depth + 1)) kids          (* 119-125, 129 *)
      | ANone => [Elem ns name1 (clean_attrs name1 attrs1) (flat_map (clean_node (depth + 1)) kids)]
      end
  | Text s => [Text s]                                    (* 321: NodeAction::None *)
  | Other => []                                           (* 322: NodeAction::Remove *)
  end.

(** [clean] (clean.rs:107-111) *)
Definition clean (f : forest) : forest := flat_map (clean_node 0) f.

End Model.
