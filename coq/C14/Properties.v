(** C14.Properties — the theorems that decide C14, and nothing else.
    [html_tables] are the tables of clean.rs, regenerated from the source on every run;
    [matrix_tables] are the Matrix allow-lists written by hand in [Spec]; [clean] is the model
    of [SanitizerConfig::clean]; [Allowed]/[survive] are the specification. *)
From Base Require Import Prelude.
From C14 Require Import Dom Tables Model Spec Proofs1 Proofs2 Proofs3 Proofs4.
From C14 Require Run NonVacuity.  (* compile order only: Properties.v is built last, so that no other
                                    file's progress line interleaves with the Print Assumptions reports *)

(** The allow-lists, deprecated-name maps, scheme and class lists and the depth limit compiled
    into ruma are exactly those of the Matrix specification (plus [matrix:] links in compat). *)
Theorem C14_strict_tables_eq_matrix_spec : html_tables = matrix_tables.
Proof. exact tables_eq. Qed.
Eval compute in "PA:C14_strict_tables_eq_matrix_spec"%string.
Print Assumptions C14_strict_tables_eq_matrix_spec.

(** Every configuration the builder can produce — any mode (strict, compat, none), any
    combination of replace/remove/ignore/allow elements, replace/remove/allow attributes,
    deny/allow schemes, remove/allow classes with either list behaviour, any max depth, with or
    without reply-fallback removal — yields, for every input tree, a forest in which every
    element is allowed, is not removed/ignored, is within the depth limit, carries only allowed
    attributes whose values pass every scheme list, and only allowed classes, and in which no
    comment/doctype/PI node remains.  Covered: all configurations whose scheme lists do not
    name the [class] attribute (the class filter rewrites that value after the scheme check). *)
Theorem C14_clean_allowed :
  forall cfg t, schemes_avoid_class matrix_tables cfg = true ->
  Allowed matrix_tables cfg (clean html_tables cfg t).
Proof. exact clean_allowed. Qed.
Eval compute in "PA:C14_clean_allowed"%string.
Print Assumptions C14_clean_allowed.

(** In particular the four presets of the property, unconditionally. *)
Theorem C14_clean_allowed_presets :
  forall m reply t, Allowed matrix_tables (preset m reply) (clean html_tables (preset m reply) t).
Proof. exact clean_allowed_presets. Qed.
Eval compute in "PA:C14_clean_allowed_presets"%string.
Print Assumptions C14_clean_allowed_presets.

(** Text and allowed descendants of elements that are merely not allowed are kept, in order:
    the open/close/text skeleton of the output is that of the input with dropped subtrees
    (removed elements, reply fallback, depth >= max, comments) deleted and not-allowed elements
    unwrapped.  All configurations. *)
Theorem C14_ignored_content_kept_in_order :
  forall cfg t, flat_map events (clean html_tables cfg t) = flat_map (survive matrix_tables cfg 0) t.
Proof. exact kept_in_order. Qed.
Eval compute in "PA:C14_ignored_content_kept_in_order"%string.
Print Assumptions C14_ignored_content_kept_in_order.

(** What that means for strict / compat output, element by element: name on the Matrix list;
    no mx-reply under fallback removal; attributes un-namespaced and on the element's list;
    every [href] of an [a] and every [src] of an [img] starts with an allowed [scheme:] whatever
    other attributes accompany it; classes of [code] start with [language-]. *)
Theorem C14_presets_output_shape :
  forall m reply t ns e attrs kids,
  In (Elem ns e attrs kids) (flat_map subnodes (clean html_tables (preset m reply) t)) ->
  mem_str e matrix_elements = true
  /\ (reply = true -> e <> s!"mx-reply")
  /\ (forall a, In a attrs -> a_ns a = [] /\ omem (a_name a) (assoc e matrix_attributes) = true)
  /\ (e = s!"a" -> forall a, In a attrs -> a_name a = s!"href" ->
        existsb (has_scheme (a_val a)) (link_schemes m) = true)
  /\ (e = s!"img" -> forall a, In a attrs -> a_name a = s!"src" ->
        existsb (has_scheme (a_val a)) matrix_src_schemes = true)
  /\ (e = s!"code" -> forall a, In a attrs -> a_name a = s!"class" ->
        forallb (starts_with s!"language-") (split_ws (a_val a)) = true).
Proof. exact presets_output_shape. Qed.
Eval compute in "PA:C14_presets_output_shape"%string.
Print Assumptions C14_presets_output_shape.

(** No comments or other node kinds. *)
Theorem C14_presets_no_other_nodes :
  forall m reply t, ~ In Other (flat_map subnodes (clean html_tables (preset m reply) t)).
Proof. exact presets_no_other. Qed.
Eval compute in "PA:C14_presets_no_other_nodes"%string.
Print Assumptions C14_presets_no_other_nodes.

(** Nesting no deeper than 100 levels. *)
Theorem C14_presets_depth_le_100 :
  forall m reply t, forest_height (clean html_tables (preset m reply) t) <= 100.
Proof. exact presets_depth. Qed.
Eval compute in "PA:C14_presets_depth_le_100"%string.
Print Assumptions C14_presets_depth_le_100.

(** The wildcard pattern of the class list is the specification's prefix rule. *)
Theorem C14_language_class_is_prefix :
  forall c, glob s!"language-*" c = starts_with s!"language-" c.
Proof. exact language_glob. Qed.
Eval compute in "PA:C14_language_class_is_prefix"%string.
Print Assumptions C14_language_class_is_prefix.
