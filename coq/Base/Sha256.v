(** Base.Sha256 — FIPS 180-4 SHA-256 over byte strings, executable.  Used concretely in the
    correspondence runs; theorems about hashing are stated over an abstract hash function. *)
From Base Require Import Prelude.

Definition w32 : N := 4294967296.
Definition mask32 (x : N) : N := N.land x 4294967295.
Definition add32 (a b : N) : N := mask32 (a + b).
Definition rotr (n x : N) : N := N.lor (N.shiftr x n) (mask32 (N.shiftl x (32 - n))).
Definition not32 (x : N) : N := N.lxor x 4294967295.
Definition ch (x y z : N) : N := N.lxor (N.land x y) (N.land (not32 x) z).
Definition maj (x y z : N) : N := N.lxor (N.lxor (N.land x y) (N.land x z)) (N.land y z).
Definition bsig0 x := N.lxor (N.lxor (rotr 2 x) (rotr 13 x)) (rotr 22 x).
Definition bsig1 x := N.lxor (N.lxor (rotr 6 x) (rotr 11 x)) (rotr 25 x).
Definition ssig0 x := N.lxor (N.lxor (rotr 7 x) (rotr 18 x)) (N.shiftr x 3).
Definition ssig1 x := N.lxor (N.lxor (rotr 17 x) (rotr 19 x)) (N.shiftr x 10).

Definition K256 : list N :=
  [1116352408; 1899447441; 3049323471; 3921009573; 961987163; 1508970993; 2453635748; 2870763221;
   3624381080; 310598401; 607225278; 1426881987; 1925078388; 2162078206; 2614888103; 3248222580;
   3835390401; 4022224774; 264347078; 604807628; 770255983; 1249150122; 1555081692; 1996064986;
   2554220882; 2821834349; 2952996808; 3210313671; 3336571891; 3584528711; 113926993; 338241895;
   666307205; 773529912; 1294757372; 1396182291; 1695183700; 1986661051; 2177026350; 2456956037;
   2730485921; 2820302411; 3259730800; 3345764771; 3516065817; 3600352804; 4094571909; 275423344;
   430227734; 506948616; 659060556; 883997877; 958139571; 1322822218; 1537002063; 1747873779;
   1955562222; 2024104815; 2227730452; 2361852424; 2428436474; 2756734187; 3204031479; 3329325298].

Definition H0 : list N :=
  [1779033703; 3144134277; 1013904242; 2773480762; 1359893119; 2600822924; 528734635; 1541459225].

(** big-endian bytes *)
Definition be32 (a b c d : N) : N := a * 16777216 + b * 65536 + c * 256 + d.
Definition bytes_of_w32 (x : N) : list N :=
  [x / 16777216; (x / 65536) mod 256; (x / 256) mod 256; x mod 256].
Definition bytes_of_w64 (x : N) : list N :=
  bytes_of_w32 (x / w32) ++ bytes_of_w32 (x mod w32).

Fixpoint words_of_bytes (fuel : nat) (s : list N) : list N :=
  match fuel with
  | O => []
  | S f => match s with
           | a :: b :: c :: d :: r => be32 a b c d :: words_of_bytes f r
           | _ => []
           end
  end.

Definition pad (msg : list N) : list N :=
  let l := N.of_nat (List.length msg) in
  let k := (64 - ((l + 9) mod 64)) mod 64 in
  msg ++ 128 :: repeat 0 (N.to_nat k) ++ bytes_of_w64 (l * 8).

(** message schedule: [rev_w] holds w[t-1], w[t-2], ... *)
Fixpoint schedule (n : nat) (rev_w : list N) : list N :=
  match n with
  | O => rev_w
  | S n' =>
      let w := add32 (add32 (ssig1 (nth 1 rev_w 0)) (nth 6 rev_w 0))
                     (add32 (ssig0 (nth 14 rev_w 0)) (nth 15 rev_w 0)) in
      schedule n' (w :: rev_w)
  end.

Definition round (st : list N) (kw : N * N) : list N :=
  match st with
  | [a; b; c; d; e; f; g; h] =>
      let t1 := add32 (add32 (add32 h (bsig1 e)) (add32 (ch e f g) (fst kw))) (snd kw) in
      let t2 := add32 (bsig0 a) (maj a b c) in
      [add32 t1 t2; a; b; c; add32 d t1; e; f; g]
  | _ => st
  end.

Definition compress (h : list N) (block : list N) : list N :=
  let w := rev (schedule 48 (rev block)) in
  let st := fold_left round (combine K256 w) h in
  List.map (fun p => add32 (fst p) (snd p)) (combine h st).

Fixpoint blocks (fuel : nat) (ws : list N) (h : list N) : list N :=
  match fuel with
  | O => h
  | S f => match ws with
           | [] => h
           | _ => blocks f (skipn 16 ws) (compress h (firstn 16 ws))
           end
  end.

Definition sha256 (msg : list N) : list N :=
  let p := pad msg in
  let ws := words_of_bytes (List.length p) p in
  flat_map bytes_of_w32 (blocks (List.length ws) ws H0).

(** FIPS 180-4 / NIST example vectors. *)
Example sha256_abc :
  sha256 s!"abc" =
  [186;120;22;191;143;1;207;234;65;65;64;222;93;174;34;35;176;3;97;163;150;23;122;156;180;16;255;97;242;0;21;173].
Proof. vm_compute. reflexivity. Qed.

Example sha256_empty :
  sha256 [] =
  [227;176;196;66;152;252;28;20;154;251;244;200;153;111;185;36;39;174;65;228;100;155;147;76;164;149;153;27;120;82;184;85].
Proof. vm_compute. reflexivity. Qed.

Example sha256_two_blocks :
  sha256 s!"abcdbcdecdefdefgefghfghighijhijkijkljklmklmnlmnomnopnopq" =
  [36;141;106;97;210;6;56;184;229;192;38;147;12;62;96;57;163;60;228;89;100;255;33;103;246;236;237;212;25;219;6;193].
Proof. vm_compute. reflexivity. Qed.
