(** Base.Prelude — byte strings, literals, lexicographic order, outcomes.

    [str] is [list N].  Two readings are used and named in each module header:
    byte strings (every element < 256; Rust [&str]/[String] as UTF-8 bytes) and scalar
    strings (Unicode scalar values).  [BTreeMap<String,_>] orders keys by the byte
    reading, lexicographically; that is [str_ltb]. *)
From Coq Require Export List NArith ZArith Bool Lia String Ascii.
From Coq Require Import ZifyBool ZifyNat ZifyN.
Export ListNotations.
Open Scope N_scope.

Global Arguments N.add : simpl never.
Global Arguments N.sub : simpl never.
Global Arguments N.mul : simpl never.
Global Arguments N.eqb : simpl never.
Global Arguments N.ltb : simpl never.
Global Arguments N.leb : simpl never.
Global Arguments N.div : simpl never.
Global Arguments N.modulo : simpl never.

Definition str := list N.

(** Literal: [s!"abc"] is the byte list of an ASCII Coq string. *)
Definition bytes_of_string (x : string) : str :=
  List.map N_of_ascii (list_ascii_of_string x).
Notation "'s!' x" := (bytes_of_string x) (at level 0, x at level 0, only parsing).

Fixpoint str_eqb (a b : str) : bool :=
  match a, b with
  | [], [] => true
  | x :: a', y :: b' => N.eqb x y && str_eqb a' b'
  | _, _ => false
  end.

Lemma str_eqb_spec a b : reflect (a = b) (str_eqb a b).
Proof.
  revert b; induction a as [|x a IH]; intros [|y b]; cbn [str_eqb]; try (constructor; congruence).
  destruct (N.eqb_spec x y) as [->|Hne]; cbn [andb].
  - destruct (IH b) as [->|Hne]; constructor; congruence.
  - constructor; congruence.
Qed.

Lemma str_eqb_refl a : str_eqb a a = true.
Proof. destruct (str_eqb_spec a a); congruence. Qed.

Lemma str_eqb_eq a b : str_eqb a b = true <-> a = b.
Proof. destruct (str_eqb_spec a b); split; congruence. Qed.

Lemma str_eqb_neq a b : str_eqb a b = false <-> a <> b.
Proof. destruct (str_eqb_spec a b); split; congruence. Qed.

Lemma str_eqb_sym a b : str_eqb a b = str_eqb b a.
Proof.
  destruct (str_eqb_spec a b) as [->|H]; [now rewrite str_eqb_refl|].
  symmetry; apply str_eqb_neq; congruence.
Qed.

(** [dse a b]: case split on [str_eqb a b], substituting in the equal case (the
    intro pattern [->] fails when the left variable is newer than the right one). *)
Ltac dse a b :=
  destruct (str_eqb_spec a b) as [?Heq|?Hne];
  [first [subst a | subst b | idtac]|].

(** Strict lexicographic order (byte order = Rust's [Ord for str]). *)
Fixpoint str_ltb (a b : str) : bool :=
  match a, b with
  | [], [] => false
  | [], _ :: _ => true
  | _ :: _, [] => false
  | x :: a', y :: b' => if N.ltb x y then true else if N.eqb x y then str_ltb a' b' else false
  end.

Lemma str_ltb_irrefl a : str_ltb a a = false.
Proof. induction a as [|x a IH]; cbn [str_ltb]; [reflexivity|].
  rewrite N.ltb_irrefl, N.eqb_refl; exact IH. Qed.

Lemma str_ltb_trans a b c : str_ltb a b = true -> str_ltb b c = true -> str_ltb a c = true.
Proof.
  revert b c; induction a as [|x a IH]; intros [|y b] [|z c]; cbn [str_ltb]; try congruence.
  destruct (N.ltb_spec x y), (N.eqb_spec x y), (N.ltb_spec y z), (N.eqb_spec y z),
    (N.ltb_spec x z), (N.eqb_spec x z); try congruence; try lia; intros; eauto.
Qed.

Lemma str_ltb_asym a b : str_ltb a b = true -> str_ltb b a = false.
Proof.
  intros H; destruct (str_ltb b a) eqn:E; [|reflexivity].
  pose proof (str_ltb_trans _ _ _ H E) as T. now rewrite str_ltb_irrefl in T.
Qed.

Lemma str_ltb_total a b : str_ltb a b = false -> str_ltb b a = false -> a = b.
Proof.
  revert b; induction a as [|x a IH]; intros [|y b]; cbn [str_ltb]; try congruence.
  destruct (N.ltb_spec x y), (N.eqb_spec x y), (N.ltb_spec y x), (N.eqb_spec y x);
    try congruence; try lia; intros; f_equal; eauto.
Qed.

Lemma str_ltb_neq a b : str_ltb a b = true -> a <> b.
Proof. intros H ->. now rewrite str_ltb_irrefl in H. Qed.

(** Three outcomes of a Rust call that may fail or panic. *)
Inductive outcome (A : Type) : Type :=
| Ok (a : A)
| Err (e : N)
| Panic (site : N).
Arguments Ok {A} a.
Arguments Err {A} e.
Arguments Panic {A} site.

Definition obind {A B} (x : outcome A) (f : A -> outcome B) : outcome B :=
  match x with Ok a => f a | Err e => Err e | Panic s => Panic s end.

Definition is_ok {A} (x : outcome A) : bool := match x with Ok _ => true | _ => false end.
Definition is_panic {A} (x : outcome A) : bool := match x with Panic _ => true | _ => false end.

(** Generic list helpers. *)
Fixpoint mem_str (k : str) (l : list str) : bool :=
  match l with [] => false | x :: l' => str_eqb k x || mem_str k l' end.

Lemma mem_str_In k l : mem_str k l = true <-> In k l.
Proof.
  induction l as [|x l IH]; cbn [mem_str In]; [split; [congruence|tauto]|].
  rewrite orb_true_iff, IH, str_eqb_eq. split; intros [H|H]; auto.
Qed.

Fixpoint starts_with (p s : str) : bool :=
  match p, s with
  | [], _ => true
  | x :: p', y :: s' => N.eqb x y && starts_with p' s'
  | _ :: _, [] => false
  end.

Lemma starts_with_app p s : starts_with p (p ++ s) = true.
Proof. induction p as [|x p IH]; cbn; [reflexivity|]. now rewrite N.eqb_refl. Qed.

Lemma starts_with_spec p s : starts_with p s = true <-> exists r, s = p ++ r.
Proof.
  split.
  - revert s; induction p as [|x p IH]; intros s H; [now exists s|].
    destruct s as [|y s]; cbn in H; [discriminate|].
    apply andb_true_iff in H as [H1 H2]. apply N.eqb_eq in H1 as ->.
    destruct (IH _ H2) as [r ->]. now exists r.
  - intros [r ->]. apply starts_with_app.
Qed.
