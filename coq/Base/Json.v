(** Base.Json — canonical JSON values ([CanonicalJsonValue]) with objects as association
    lists.  A [BTreeMap<String, _>] is an association list whose keys are strictly
    increasing in byte order ([sorted]); [insert]/[remove]/[lookup] are the BTreeMap
    operations.  Strings are byte strings (UTF-8). *)
From Base Require Import Prelude Sx.

Section Maps.
Context {A : Type}.
Definition amap := list (str * A).

Fixpoint lookup (k : str) (m : amap) : option A :=
  match m with
  | [] => None
  | (k', v) :: m' => if str_eqb k k' then Some v else lookup k m'
  end.

(** BTreeMap::insert: keep order, replace on equal key. *)
Fixpoint insert (k : str) (v : A) (m : amap) : amap :=
  match m with
  | [] => [(k, v)]
  | (k', v') :: m' =>
      if str_ltb k k' then (k, v) :: (k', v') :: m'
      else if str_eqb k k' then (k, v) :: m'
      else (k', v') :: insert k v m'
  end.

Fixpoint remove (k : str) (m : amap) : amap :=
  match m with
  | [] => []
  | (k', v') :: m' => if str_eqb k k' then m' else (k', v') :: remove k m'
  end.

Definition keys (m : amap) : list str := List.map fst m.

Definition kfilter (f : str -> A -> bool) (m : amap) : amap :=
  List.filter (fun kv => f (fst kv) (snd kv)) m.

Definition all_gt (k : str) (m : amap) : Prop :=
  forall k' v', In (k', v') m -> str_ltb k k' = true.

Fixpoint sorted (m : amap) : Prop :=
  match m with
  | [] => True
  | (k, _) :: m' => all_gt k m' /\ sorted m'
  end.

Fixpoint sortedb (m : amap) : bool :=
  match m with
  | [] => true
  | (k, _) :: m' =>
      match m' with [] => true | (k', _) :: _ => str_ltb k k' end && sortedb m'
  end.

Lemma sortedb_sorted m : sortedb m = true -> sorted m.
Proof.
  induction m as [|[k v] m IH]; cbn [sortedb sorted]; [trivial|].
  intros H; apply andb_true_iff in H as [H1 H2]. specialize (IH H2). split; [|exact IH].
  destruct m as [|[k' v'] m]; [intros ? ? []|].
  intros k2 v2 [E|Hin]; [inversion E; subst; exact H1|].
  cbn [sorted] in IH. destruct IH as [Hgt _].
  eapply str_ltb_trans; [exact H1|]. eapply Hgt; eauto.
Qed.

Lemma sorted_sortedb m : sorted m -> sortedb m = true.
Proof.
  induction m as [|[k v] m IH]; cbn [sortedb sorted]; [trivial|].
  intros [Hgt Hs]. rewrite (IH Hs), andb_true_r.
  destruct m as [|[k' v'] m]; [reflexivity|]. eapply Hgt; left; reflexivity.
Qed.

Lemma lookup_all_gt k m : all_gt k m -> lookup k m = None.
Proof.
  induction m as [|[k' v'] m IH]; intros H; cbn [lookup]; [reflexivity|].
  assert (Hlt : str_ltb k k' = true) by (eapply H; left; reflexivity).
  dse k k'; [now rewrite str_ltb_irrefl in Hlt|].
  apply IH. intros k2 v2 Hin; eapply H; right; exact Hin.
Qed.

Lemma lookup_In k v m : lookup k m = Some v -> In (k, v) m.
Proof.
  induction m as [|[k' v'] m IH]; cbn [lookup]; [discriminate|].
  dse k k'; [intros [= ->]; now left|].
  intros H; right; auto.
Qed.

Lemma In_lookup k v m : sorted m -> In (k, v) m -> lookup k m = Some v.
Proof.
  induction m as [|[k' v'] m IH]; intros Hs Hin; [destruct Hin|].
  cbn [sorted] in Hs. destruct Hs as [Hgt Hs]. cbn [lookup].
  destruct Hin as [E|Hin].
  - inversion E; subst. now rewrite str_eqb_refl.
  - dse k k'; [|auto].
    pose proof (Hgt _ _ Hin) as Hlt. now rewrite str_ltb_irrefl in Hlt.
Qed.

(** Extensionality for sorted maps. *)
Lemma sorted_ext m1 m2 :
  sorted m1 -> sorted m2 -> (forall k, lookup k m1 = lookup k m2) -> m1 = m2.
Proof.
  revert m2; induction m1 as [|[k1 v1] m1 IH]; intros [|[k2 v2] m2] H1 H2 Hext.
  - reflexivity.
  - specialize (Hext k2). cbn [lookup] in Hext. now rewrite str_eqb_refl in Hext.
  - specialize (Hext k1). cbn [lookup] in Hext. now rewrite str_eqb_refl in Hext.
  - cbn [sorted] in H1, H2. destruct H1 as [G1 S1], H2 as [G2 S2].
    assert (k1 = k2) as ->.
    { apply str_ltb_total.
      - destruct (str_ltb k1 k2) eqn:E; [|reflexivity].
        pose proof (Hext k1) as Hx. cbn [lookup] in Hx. rewrite str_eqb_refl in Hx.
        dse k1 k2; [now rewrite str_ltb_irrefl in E|].
        rewrite lookup_all_gt in Hx; [discriminate|].
        intros k' v' Hin. eapply str_ltb_trans; [exact E|eauto].
      - destruct (str_ltb k2 k1) eqn:E; [|reflexivity].
        pose proof (Hext k2) as Hx. cbn [lookup] in Hx. rewrite str_eqb_refl in Hx.
        dse k2 k1; [now rewrite str_ltb_irrefl in E|].
        rewrite lookup_all_gt in Hx; [discriminate|].
        intros k' v' Hin. eapply str_ltb_trans; [exact E|eauto]. }
    pose proof (Hext k2) as Hx. cbn [lookup] in Hx. rewrite str_eqb_refl in Hx.
    injection Hx as ->. f_equal. apply IH; auto.
    intros k. specialize (Hext k). cbn [lookup] in Hext.
    destruct (str_eqb_spec k k2) as [Ek|_]; [|exact Hext].
    subst k. now rewrite !lookup_all_gt.
Qed.

Lemma lookup_insert k v m k' :
  lookup k' (insert k v m) = if str_eqb k' k then Some v else lookup k' m.
Proof.
  induction m as [|[k2 v2] m IH]; cbn [insert lookup]; [reflexivity|].
  destruct (str_ltb k k2) eqn:Elt; cbn [lookup]; [reflexivity|].
  dse k k2; cbn [lookup].
  - destruct (str_eqb k' k2); reflexivity.
  - rewrite IH. dse k' k2; [|reflexivity].
    dse k2 k; [congruence|reflexivity].
Qed.

Lemma In_insert k v m k' v' :
  In (k', v') (insert k v m) -> (k' = k /\ v' = v) \/ In (k', v') m.
Proof.
  induction m as [|[k2 v2] m IH]; cbn [insert].
  - intros [E|[]]; inversion E; auto.
  - destruct (str_ltb k k2).
    + intros [E|H]; [inversion E; auto|auto].
    + destruct (str_eqb k k2).
      * intros [E|H]; [inversion E; auto|right; right; exact H].
      * intros [E|H]; [right; left; exact E|].
        destruct (IH H) as [?|?]; [auto|right; right; assumption].
Qed.

Lemma sorted_insert k v m : sorted m -> sorted (insert k v m).
Proof.
  induction m as [|[k2 v2] m IH]; cbn [insert sorted]; [intros _; split; [intros ? ? []|trivial]|].
  intros [G S]. destruct (str_ltb k k2) eqn:Elt.
  - cbn [sorted]. split; [|split; assumption].
    intros k' v' [E|Hin]; [inversion E; subst; exact Elt|].
    eapply str_ltb_trans; [exact Elt|eauto].
  - dse k k2; cbn [sorted]; [split; assumption|].
    split; [|auto].
    intros k' v' Hin. apply In_insert in Hin as [[Ek Ev]|Hin]; [subst k' v'|eauto].
    destruct (str_ltb k2 k) eqn:E2; [reflexivity|]. exfalso; apply Hne.
    now apply str_ltb_total.
Qed.

Lemma lookup_remove k m k' :
  sorted m -> lookup k' (remove k m) = if str_eqb k' k then None else lookup k' m.
Proof.
  induction m as [|[k2 v2] m IH]; cbn [remove lookup sorted].
  - now destruct (str_eqb k' k).
  - intros [G S]. dse k k2; cbn [lookup].
    + dse k' k2; [now apply lookup_all_gt|reflexivity].
    + rewrite (IH S). dse k' k2; [|reflexivity].
      dse k2 k; [congruence|reflexivity].
Qed.

Lemma In_remove k m k' v' : In (k', v') (remove k m) -> In (k', v') m.
Proof.
  induction m as [|[k2 v2] m IH]; cbn [remove]; [tauto|].
  destruct (str_eqb k k2); [now right|]. intros [E|H]; [now left|right; auto].
Qed.

Lemma sorted_remove k m : sorted m -> sorted (remove k m).
Proof.
  induction m as [|[k2 v2] m IH]; cbn [remove sorted]; [trivial|].
  intros [G S]. destruct (str_eqb k k2); [exact S|]. cbn [sorted]. split; [|auto].
  intros k' v' Hin. apply In_remove in Hin. eauto.
Qed.

Lemma sorted_kfilter f m : sorted m -> sorted (kfilter f m).
Proof.
  induction m as [|[k v] m IH]; cbn [kfilter filter sorted]; [trivial|].
  intros [G S]. fold (kfilter f m). destruct (f (fst (k, v)) (snd (k, v))); [|auto].
  cbn [sorted]. split; [|auto].
  intros k' v' Hin. unfold kfilter in Hin. apply filter_In in Hin as [Hin _]. eauto.
Qed.

Lemma lookup_kfilter f m k :
  sorted m ->
  lookup k (kfilter f m) =
  match lookup k m with Some v => if f k v then Some v else None | None => None end.
Proof.
  induction m as [|[k2 v2] m IH]; cbn [kfilter filter lookup sorted]; [reflexivity|].
  intros [G S]. fold (kfilter f m). cbn [fst snd].
  dse k k2.
  - destruct (f k2 v2) eqn:Ef; cbn [lookup]; [now rewrite str_eqb_refl|].
    rewrite (IH S), lookup_all_gt; [reflexivity|assumption].
  - destruct (f k2 v2); cbn [lookup]; [|auto].
    destruct (str_eqb_spec k k2); [congruence|auto].
Qed.

(** Rebuilding a map by inserting its entries one by one (what [RetainedKeys::apply]
    does) is the identity on sorted maps. *)
Definition rebuild (m : amap) : amap :=
  fold_left (fun acc kv => insert (fst kv) (snd kv) acc) m [].

Lemma fold_insert_sorted (l acc : amap) :
  sorted acc -> sorted (fold_left (fun a kv => insert (fst kv) (snd kv) a) l acc).
Proof. revert acc; induction l as [|[k v] l IH]; intros acc H; cbn; [exact H|].
  apply IH, sorted_insert, H. Qed.

Lemma lookup_fold_insert (l acc : amap) k :
  sorted (acc ++ l) ->
  lookup k (fold_left (fun a kv => insert (fst kv) (snd kv) a) l acc) =
  match lookup k acc with Some v => Some v | None => lookup k l end.
Proof.
  revert acc; induction l as [|[k2 v2] l IH]; intros acc Hs; cbn [fold_left lookup fst snd].
  - now destruct (lookup k acc).
  - assert (Hs' : sorted ((acc ++ [(k2, v2)]) ++ l)) by now rewrite <- app_assoc.
    (* inserting a key greater than everything in acc appends it *)
    assert (Hins : insert k2 v2 acc = acc ++ [(k2, v2)]).
    { clear IH Hs'. induction acc as [|[k3 v3] acc IHa]; [reflexivity|].
      cbn [app sorted] in Hs. destruct Hs as [G S]. cbn [insert].
      assert (Hlt : str_ltb k3 k2 = true) by (eapply G; apply in_or_app; right; left; reflexivity).
      rewrite (str_ltb_asym _ _ Hlt).
      dse k2 k3; [now rewrite str_ltb_irrefl in Hlt|].
      cbn [app]. f_equal. apply IHa, S. }
    rewrite Hins, (IH _ Hs').
    assert (Hl : lookup k (acc ++ [(k2, v2)]) =
                 match lookup k acc with Some v => Some v
                                    | None => if str_eqb k k2 then Some v2 else None end).
    { clear. induction acc as [|[k3 v3] acc IHa]; cbn [app lookup]; [reflexivity|].
      destruct (str_eqb k k3); [reflexivity|exact IHa]. }
    rewrite Hl. destruct (lookup k acc); [reflexivity|].
    dse k k2; [reflexivity|reflexivity].
Qed.

Lemma rebuild_sorted_id m : sorted m -> rebuild m = m.
Proof.
  intros Hs. apply sorted_ext; [apply fold_insert_sorted; exact I|exact Hs|].
  intros k. unfold rebuild. now rewrite lookup_fold_insert.
Qed.

(** Order-preserving filter-map. *)
Fixpoint fmap_obj {B} (f : str -> A -> option B) (m : amap) : list (str * B) :=
  match m with
  | [] => []
  | (k, x) :: m' => match f k x with
                    | Some y => (k, y) :: fmap_obj f m'
                    | None => fmap_obj f m'
                    end
  end.

Lemma insert_append k v m : sorted (m ++ [(k, v)]) -> insert k v m = m ++ [(k, v)].
Proof.
  induction m as [|[k3 v3] m IHa]; [reflexivity|].
  cbn [app sorted]. intros [G S]. cbn [insert].
  assert (Hlt : str_ltb k3 k = true) by (eapply G; apply in_or_app; right; left; reflexivity).
  rewrite (str_ltb_asym _ _ Hlt).
  dse k k3; [now rewrite str_ltb_irrefl in Hlt|].
  cbn [app]. f_equal. apply IHa, S.
Qed.

Lemma sorted_app_inv m1 m2 : sorted (m1 ++ m2) -> sorted m1 /\ sorted m2.
Proof.
  induction m1 as [|[k v] m1 IH]; cbn [app sorted]; [tauto|].
  intros [G S]. destruct (IH S) as [S1 S2]. repeat split; [|assumption|assumption].
  intros k' v' Hin. eapply G. apply in_or_app; left; exact Hin.
Qed.

Lemma sorted_app_gt m1 m2 k1 v1 k2 v2 :
  sorted (m1 ++ m2) -> In (k1, v1) m1 -> In (k2, v2) m2 -> str_ltb k1 k2 = true.
Proof.
  induction m1 as [|[k v] m1 IH]; cbn [app sorted]; [intros _ []|].
  intros [G S] [E|Hin] H2.
  - inversion E; subst. eapply G. apply in_or_app; right; exact H2.
  - eauto.
Qed.

Lemma sorted_snoc m k v :
  sorted m -> (forall k' v', In (k', v') m -> str_ltb k' k = true) -> sorted (m ++ [(k, v)]).
Proof.
  induction m as [|[k2 v2] m IH]; cbn [app sorted]; intros Hs Hlt.
  - split; [intros ? ? []|trivial].
  - destruct Hs as [G S]. split.
    + intros k' v' Hin. apply in_app_or in Hin as [Hin|[E|[]]]; [eauto|].
      inversion E; subst. eapply Hlt; left; reflexivity.
    + apply IH; [exact S|]. intros k' v' Hin. eapply Hlt; right; exact Hin.
Qed.

End Maps.
Arguments amap A : clear implicits.

Section FmapLemmas.
Context {A B : Type}.

Lemma In_fmap_obj (f : str -> A -> option B) m k y :
  In (k, y) (fmap_obj f m) -> exists x, In (k, x) m /\ f k x = Some y.
Proof.
  induction m as [|[k2 x2] m IH]; cbn [fmap_obj]; [intros []|].
  destruct (f k2 x2) eqn:Ef.
  - intros [E|Hin].
    + inversion E; subst. exists x2. split; [now left|exact Ef].
    + destruct (IH Hin) as [x [H1 H2]]. exists x. split; [now right|exact H2].
  - intros Hin. destruct (IH Hin) as [x [H1 H2]]. exists x. split; [now right|exact H2].
Qed.

Lemma sorted_fmap_obj (f : str -> A -> option B) m : sorted m -> sorted (fmap_obj f m).
Proof.
  induction m as [|[k x] m IH]; cbn [fmap_obj sorted]; [trivial|].
  intros [G S]. destruct (f k x); [|auto]. cbn [sorted]. split; [|auto].
  intros k' y' Hin. apply In_fmap_obj in Hin as [x' [Hin _]]. eauto.
Qed.

Lemma lookup_fmap_obj (f : str -> A -> option B) m k :
  sorted m ->
  lookup k (fmap_obj f m) = match lookup k m with Some x => f k x | None => None end.
Proof.
  induction m as [|[k2 x2] m IH]; cbn [fmap_obj lookup sorted]; [reflexivity|].
  intros [G S]. dse k k2.
  - destruct (f k2 x2) eqn:Ef; cbn [lookup]; [now rewrite str_eqb_refl|].
    rewrite (IH S), lookup_all_gt; [reflexivity|assumption].
  - destruct (f k2 x2); cbn [lookup]; [|auto].
    dse k k2; [congruence|auto].
Qed.

Lemma fmap_obj_ext (f g : str -> A -> option B) m :
  (forall k x, In (k, x) m -> f k x = g k x) -> fmap_obj f m = fmap_obj g m.
Proof.
  induction m as [|[k x] m IH]; intros H; cbn [fmap_obj]; [reflexivity|].
  rewrite (H k x) by now left. rewrite IH; [reflexivity|]. intros; apply H; now right.
Qed.
End FmapLemmas.

Lemma kfilter_single {A} (s : str) (m : amap A) :
  sorted m ->
  kfilter (fun k _ => str_eqb k s) m = match lookup s m with Some x => [(s, x)] | None => [] end.
Proof.
  induction m as [|[k x] m IH]; cbn [kfilter filter lookup sorted fst snd]; [reflexivity|].
  intros [G S]. fold (kfilter (fun k _ => str_eqb k s) m). rewrite (IH S).
  rewrite (str_eqb_sym s k). dse k s; [|reflexivity].
  now rewrite lookup_all_gt.
Qed.

(** ** JSON values *)
Inductive json : Type :=
| JNull
| JBool (b : bool)
| JInt (z : Z)
| JStr (s : str)
| JArr (l : list json)
| JObj (m : list (str * json)).

Definition obj := amap json.

Section JsonInd.
  Variable P : json -> Prop.
  Hypothesis Hnull : P JNull.
  Hypothesis Hbool : forall b, P (JBool b).
  Hypothesis Hint : forall z, P (JInt z).
  Hypothesis Hstr : forall s, P (JStr s).
  Hypothesis Harr : forall l, Forall P l -> P (JArr l).
  Hypothesis Hobj : forall m, Forall (fun kv => P (snd kv)) m -> P (JObj m).
  Fixpoint json_ind' (j : json) : P j :=
    match j with
    | JNull => Hnull
    | JBool b => Hbool b
    | JInt z => Hint z
    | JStr s => Hstr s
    | JArr l => Harr l ((fix go (l : list json) : Forall P l :=
                  match l with [] => Forall_nil _ | x :: l' => Forall_cons _ (json_ind' x) (go l') end) l)
    | JObj m => Hobj m ((fix go (m : list (str * json)) : Forall (fun kv => P (snd kv)) m :=
                  match m with [] => Forall_nil _ | kv :: m' => Forall_cons _ (json_ind' (snd kv)) (go m') end) m)
    end.
End JsonInd.

(** Deep well-formedness: what the Rust type [CanonicalJsonValue] guarantees by
    construction (BTreeMap keys sorted and unique at every depth). *)
Fixpoint wfb (j : json) : bool :=
  match j with
  | JArr l => forallb wfb l
  | JObj m => sortedb m && forallb (fun kv => wfb (snd kv)) m
  | _ => true
  end.
Definition wf (j : json) : Prop := wfb j = true.
Definition wf_obj (m : obj) : Prop := wfb (JObj m) = true.

Lemma wf_obj_sorted m : wf_obj m -> sorted m.
Proof. unfold wf_obj; cbn [wfb]; intros H; apply andb_true_iff in H as [H _]; now apply sortedb_sorted. Qed.

Lemma wf_obj_lookup m k v : wf_obj m -> lookup k m = Some v -> wf v.
Proof.
  unfold wf_obj; cbn [wfb]; intros H Hl. apply andb_true_iff in H as [_ H].
  rewrite forallb_forall in H. apply lookup_In in Hl. exact (H _ Hl).
Qed.

Lemma wf_obj_intro m : sorted m -> (forall k v, In (k, v) m -> wf v) -> wf_obj m.
Proof.
  intros Hs Hv. unfold wf_obj; cbn [wfb]. rewrite (sorted_sortedb _ Hs). cbn [andb].
  apply forallb_forall. intros [k v] Hin. exact (Hv _ _ Hin).
Qed.

Lemma wf_obj_In m k v : wf_obj m -> In (k, v) m -> wf v.
Proof.
  unfold wf_obj; cbn [wfb]; intros H Hin. apply andb_true_iff in H as [_ H].
  rewrite forallb_forall in H. exact (H _ Hin).
Qed.

Lemma wf_obj_kfilter f m : wf_obj m -> wf_obj (kfilter f m).
Proof.
  intros H. apply wf_obj_intro; [apply sorted_kfilter, wf_obj_sorted, H|].
  intros k v Hin. unfold kfilter in Hin. apply filter_In in Hin as [Hin _].
  eapply wf_obj_In; eauto.
Qed.

Lemma wf_obj_insert k v m : wf_obj m -> wf v -> wf_obj (insert k v m).
Proof.
  intros H Hv. apply wf_obj_intro; [apply sorted_insert, wf_obj_sorted, H|].
  intros k' v' Hin. apply In_insert in Hin as [[Ek Ev]|Hin]; [subst k' v'; exact Hv|]. eapply wf_obj_In; eauto.
Qed.

Lemma wf_obj_remove k m : wf_obj m -> wf_obj (remove k m).
Proof.
  intros H. apply wf_obj_intro; [apply sorted_remove, wf_obj_sorted, H|].
  intros k' v' Hin. apply In_remove in Hin. eapply wf_obj_In; eauto.
Qed.

(** Decidable equality (used by the runners to compare results). *)
Fixpoint json_eqb (a b : json) : bool :=
  match a, b with
  | JNull, JNull => true
  | JBool x, JBool y => Bool.eqb x y
  | JInt x, JInt y => (x =? y)%Z
  | JStr x, JStr y => str_eqb x y
  | JArr x, JArr y =>
      (fix go (x y : list json) : bool :=
         match x, y with
         | [], [] => true
         | a :: x', b :: y' => json_eqb a b && go x' y'
         | _, _ => false
         end) x y
  | JObj x, JObj y =>
      (fix go (x y : list (str * json)) : bool :=
         match x, y with
         | [], [] => true
         | (k, a) :: x', (k', b) :: y' => str_eqb k k' && json_eqb a b && go x' y'
         | _, _ => false
         end) x y
  | _, _ => false
  end.

(** ** Sx encoding of JSON: (0) null, (1 b), (2 z), (3 s), (4 v...), (5 (k v)...) *)
Fixpoint sx_of_json (j : json) : sx :=
  match j with
  | JNull => SL [SN 0]
  | JBool b => SL [SN 1; sx_bool b]
  | JInt z => SL [SN 2; SN z]
  | JStr s => SL [SN 3; SS s]
  | JArr l => SL (SN 4 :: List.map sx_of_json l)
  | JObj m => SL (SN 5 :: List.map (fun kv => SL [SS (fst kv); sx_of_json (snd kv)]) m)
  end.

(** Decoding builds objects with [insert], so the result is sorted whatever the order
    on the wire (the harness sends BTreeMap order anyway). *)
Fixpoint json_of_sx (x : sx) : option json :=
  match x with
  | SL (SN 0 :: []) => Some JNull
  | SL (SN 1 :: SN b :: []) => Some (JBool (negb (b =? 0)%Z))
  | SL (SN 2 :: SN z :: []) => Some (JInt z)
  | SL (SN 3 :: SS s :: []) => Some (JStr s)
  | SL (SN 4 :: l) =>
      (fix go (l : list sx) : option json :=
         match l with
         | [] => Some (JArr [])
         | y :: l' => match json_of_sx y, go l' with
                      | Some v, Some (JArr r) => Some (JArr (v :: r))
                      | _, _ => None
                      end
         end) l
  | SL (SN 5 :: l) =>
      (fix go (l : list sx) : option json :=
         match l with
         | [] => Some (JObj [])
         | SL (SS k :: y :: []) :: l' =>
             match json_of_sx y, go l' with
             | Some v, Some (JObj r) => Some (JObj (insert k v r))
             | _, _ => None
             end
         | _ => None
         end) l
  | _ => None
  end.

Definition obj_of_sx (x : sx) : option obj :=
  match json_of_sx x with Some (JObj m) => Some m | _ => None end.

Definition as_jstr (j : json) : option str := match j with JStr s => Some s | _ => None end.
Definition as_jobj (j : json) : option obj := match j with JObj m => Some m | _ => None end.
Definition as_jint (j : json) : option Z := match j with JInt z => Some z | _ => None end.
