(** Base.Sx — the wire format shared by the Rust harness, the OCaml driver and the
    models: an s-expression of integers, byte strings and lists.  Every property's
    [Run.v] exposes [run : sx -> sx]; decoding and encoding of cases is done in Gallina,
    so the OCaml driver is generic (parse a line, call [run], print a line). *)
From Base Require Import Prelude.

Inductive sx : Type :=
| SN (z : Z)
| SS (s : str)
| SL (l : list sx).

Definition sx_bool (b : bool) : sx := SN (if b then 1 else 0)%Z.
Definition sx_N (n : N) : sx := SN (Z.of_N n).
Definition sx_opt {A} (f : A -> sx) (o : option A) : sx :=
  match o with None => SL [] | Some a => SL [f a] end.
Definition sx_list {A} (f : A -> sx) (l : list A) : sx := SL (List.map f l).

(** Canonical outcome encoding: (0 v) | (1 e) | (2).  Panic sites are not compared. *)
Definition sx_outcome {A} (f : A -> sx) (o : outcome A) : sx :=
  match o with
  | Ok a => SL [SN 0; f a]
  | Err e => SL [SN 1; sx_N e]
  | Panic _ => SL [SN 2]
  end.

Definition sx_bad : sx := SL [SN (-1)].

Definition as_N (x : sx) : option N :=
  match x with SN z => if (z <? 0)%Z then None else Some (Z.to_N z) | _ => None end.
Definition as_Z (x : sx) : option Z := match x with SN z => Some z | _ => None end.
Definition as_bool (x : sx) : option bool :=
  match x with SN z => Some (negb (z =? 0)%Z) | _ => None end.
Definition as_str (x : sx) : option str := match x with SS s => Some s | _ => None end.
Definition as_list (x : sx) : option (list sx) := match x with SL l => Some l | _ => None end.

Fixpoint map_opt {A B} (f : A -> option B) (l : list A) : option (list B) :=
  match l with
  | [] => Some []
  | x :: l' => match f x, map_opt f l' with
               | Some y, Some r => Some (y :: r)
               | _, _ => None
               end
  end.

Definition as_opt {A} (f : sx -> option A) (x : sx) : option (option A) :=
  match x with
  | SL [] => Some None
  | SL [y] => match f y with Some a => Some (Some a) | None => None end
  | _ => None
  end.

Definition as_list_of {A} (f : sx -> option A) (x : sx) : option (list A) :=
  match x with SL l => map_opt f l | _ => None end.
