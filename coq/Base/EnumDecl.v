(** Base.EnumDecl — the shape of ruma's string-enum declarations.  The *values* (every
    [#[derive(StringEnum)]] enum, the [*EventType] enums and the [Any*Event] dispatch
    tables of [event_enum!]) are generated into [Gen/StringEnums.v] on every run. *)
From Base Require Import Prelude.

(** [ruma-macros/src/serde/case.rs]: [RenameRule] ([RNone] = no [rename_all] attribute). *)
Inductive rename_rule :=
| RNone | LowerCase | Uppercase | PascalCase | CamelCase | SnakeCase | ScreamingSnakeCase
| KebabCase | ScreamingKebabCase | MatrixErrorCase | MatrixLowerCase | MatrixSnakeCase
| MatrixDottedCase | MatrixRuleSnakeCase | MatrixRoleSnakeCase.

(** How [==] and [cmp] are implemented for the type, read off its derive list:
    [ByStr] = [PartialEqAsRefStr] / [OrdAsRefStr] (compare the string forms),
    [Derived] = std's structural derive (variant position, then payload),
    [NoImpl] = none derived. *)
Inductive cmp_impl := NoImpl | ByStr | Derived.

(** One variant as written in the source of a [StringEnum]: identifier,
    [#[ruma_enum(rename = ..)]], [#[ruma_enum(alias = ..)]]s, and whether it is the
    data-carrying fallback ([_Custom(PrivOwnedStr)]). *)
Record src_variant := {
  sv_ident : str;
  sv_rename : option str;
  sv_aliases : list str;
  sv_fallback : bool }.

Record enum_src := {
  es_name : str;                 (* Rust path; the key the harness uses *)
  es_rule : rename_rule;
  es_variants : list src_variant;
  es_eq : cmp_impl;
  es_ord : cmp_impl }.

(** The declaration the conversion functions are generated from, strings resolved.
    [VExact]: unit variant; [VPrefix]: variant with a [String] payload for a `.*` event type
    (arm strings are prefixes); [VFallback]: the custom variant.
    [v_out] is the spelling [as_ref]/[to_cow_str] writes; [v_arms] are the strings the
    [From<&str>] match accepts for the variant, in the order the macro emits them. *)
Inductive vkind := VExact | VPrefix | VFallback.

Record variant := {
  v_kind : vkind;
  v_out : str;
  v_arms : list str }.

Record decl := {
  d_name : str;
  d_variants : list variant;
  d_eq : cmp_impl;
  d_ord : cmp_impl }.
