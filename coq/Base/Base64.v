(** Base.Base64 — RFC 4648 base64 as the `base64` crate is configured by ruma:
    unpadded encoding in the standard or URL-safe alphabet; decoding that is indifferent to
    padding and tolerates non-zero trailing bits ([Base64<C>::parse]). *)
From Base Require Import Prelude.

Definition b64_char (url : bool) (v : N) : N :=
  if v <? 26 then 65 + v
  else if v <? 52 then 97 + (v - 26)
  else if v <? 62 then 48 + (v - 52)
  else if v =? 62 then (if url then 45 else 43)
  else (if url then 95 else 47).

Definition b64_val (url : bool) (c : N) : option N :=
  if (65 <=? c) && (c <=? 90) then Some (c - 65)
  else if (97 <=? c) && (c <=? 122) then Some (c - 97 + 26)
  else if (48 <=? c) && (c <=? 57) then Some (c - 48 + 52)
  else if c =? (if url then 45 else 43) then Some 62
  else if c =? (if url then 95 else 47) then Some 63
  else None.

Fixpoint b64_encode (url : bool) (s : list N) : list N :=
  match s with
  | a :: b :: c :: r =>
      b64_char url (a / 4) :: b64_char url ((a mod 4) * 16 + b / 16)
      :: b64_char url ((b mod 16) * 4 + c / 64) :: b64_char url (c mod 64) :: b64_encode url r
  | [a; b] =>
      [b64_char url (a / 4); b64_char url ((a mod 4) * 16 + b / 16); b64_char url ((b mod 16) * 4)]
  | [a] => [b64_char url (a / 4); b64_char url ((a mod 4) * 16)]
  | [] => []
  end.

(** Decoding.  Complete quads first; the tail is 0, 2 or 3 symbols (1 is invalid), optionally
    followed by at most the canonical number of '=' signs. *)
Fixpoint b64_quads (fuel : nat) (url : bool) (s : list N) : option (list N * list N) :=
  match fuel with
  | O => Some ([], s)
  | S f =>
      match s with
      | a :: b :: c :: d :: r =>
          match b64_val url a, b64_val url b, b64_val url c, b64_val url d with
          | Some a, Some b, Some c, Some d =>
              match b64_quads f url r with
              | Some (bytes, tail) =>
                  Some (a * 4 + b / 16 :: (b mod 16) * 16 + c / 4 :: (c mod 4) * 64 + d :: bytes, tail)
              | None => None
              end
          | _, _, _, _ => Some ([], s)
          end
      | _ => Some ([], s)
      end
  end.

Definition is_pad (c : N) : bool := c =? 61.

Definition b64_decode (url : bool) (s : list N) : option (list N) :=
  match b64_quads (List.length s) url s with
  | None => None
  | Some (bytes, tail) =>
      match tail with
      | [] => Some bytes
      | [a; b] | [a; b; 61] | [a; b; 61; 61] =>
          match b64_val url a, b64_val url b with
          | Some a, Some b => Some (bytes ++ [a * 4 + b / 16])
          | _, _ => None
          end
      | [a; b; c] | [a; b; c; 61] =>
          match b64_val url a, b64_val url b, b64_val url c with
          | Some a, Some b, Some c => Some (bytes ++ [a * 4 + b / 16; (b mod 16) * 16 + c / 4])
          | _, _, _ => None
          end
      | _ => None
      end
  end.
