(** Base.JsonText — model of serde_json 1.0's text layer as ruma uses it:
    [parse_text] (RFC 8259 tokenizer of [serde_json::from_str::<Value>], byte level, with the
    default recursion limit 128 and UTF-8-validating escapes), [to_canonical]
    ([TryFrom<serde_json::Value> for CanonicalJsonValue]: number classification through
    [as_i64] + [js_int::Int]; objects folded with [Map::insert], later duplicates win) and
    [print] (compact serializer: `,` `:` no whitespace; escapes for quote, backslash, \b \f \n \r \t and
    \u00xx lower-case for the other C0 controls; everything else raw; shortest decimal
    integers).  Modelled, not verified: see DESIGN.md section 7. *)
From Base Require Import Prelude Sx Json.

(** A number literal as written: sign, integer digits (values 0-9, no leading zero unless
    the single digit 0), optional fraction digits, optional exponent (sign, digits). *)
Record numlit := { nl_neg : bool; nl_int : list N; nl_frac : option (list N);
                   nl_exp : option (bool * list N) }.

Inductive raw : Type :=
| RNull | RBool (b : bool) | RNum (n : numlit) | RStr (s : str)
| RArr (l : list raw) | RObj (m : list (str * raw)).

Definition is_ws (b : N) : bool := (b =? 32) || (b =? 9) || (b =? 10) || (b =? 13).
Fixpoint skip_ws (s : str) : str :=
  match s with b :: s' => if is_ws b then skip_ws s' else s | [] => [] end.

(** [hd_is c s]: the rest of [s] when its first byte is [c]. *)
Definition hd_is (c : N) (s : str) : option str :=
  match s with b :: r => if b =? c then Some r else None | [] => None end.

Definition is_digit (b : N) : bool := (48 <=? b) && (b <=? 57).

Definition hexval (b : N) : option N :=
  if (48 <=? b) && (b <=? 57) then Some (b - 48)
  else if (97 <=? b) && (b <=? 102) then Some (b - 87)
  else if (65 <=? b) && (b <=? 70) then Some (b - 55)
  else None.

Definition hex4 (s : str) : option (N * str) :=
  match s with
  | a :: b :: c :: d :: r =>
      match hexval a, hexval b, hexval c, hexval d with
      | Some a, Some b, Some c, Some d => Some (a * 4096 + b * 256 + c * 16 + d, r)
      | _, _, _, _ => None
      end
  | _ => None
  end.

(** UTF-8 encoding of a scalar value (callers never pass surrogates). *)
Definition utf8_encode (c : N) : str :=
  if c <? 128 then [c]
  else if c <? 2048 then [192 + c / 64; 128 + c mod 64]
  else if c <? 65536 then [224 + c / 4096; 128 + (c / 64) mod 64; 128 + c mod 64]
  else [240 + c / 262144; 128 + (c / 4096) mod 64; 128 + (c / 64) mod 64; 128 + c mod 64].

(** String body after the opening quote.  [acc] is reversed. *)
Fixpoint pstring (fuel : nat) (s : str) (acc : str) : option (str * str) :=
  match fuel with
  | O => None
  | S f =>
      match s with
      | [] => None
      | b :: s' =>
          if b =? 34 then Some (rev acc, s')
          else if b =? 92 then
            match s' with
            | [] => None
            | e :: s'' =>
                if e =? 117 (* u *) then
                  match hex4 s'' with
                  | None => None
                  | Some (n, s3) =>
                      if (56320 <=? n) && (n <=? 57343) then None
                      else if (55296 <=? n) && (n <=? 56319) then
                        match hd_is 92 s3 with
                        | Some t =>
                            match hd_is 117 t with
                            | Some s4 =>
                                match hex4 s4 with
                                | Some (n2, s5) =>
                                    if (56320 <=? n2) && (n2 <=? 57343) then
                                      pstring f s5
                                        (rev (utf8_encode (65536 + (n - 55296) * 1024 + (n2 - 56320))) ++ acc)
                                    else None
                                | None => None
                                end
                            | None => None
                            end
                        | None => None
                        end
                      else pstring f s3 (rev (utf8_encode n) ++ acc)
                  end
                else
                  match (if e =? 34 then Some 34 else if e =? 92 then Some 92
                         else if e =? 47 then Some 47 else if e =? 98 then Some 8
                         else if e =? 102 then Some 12 else if e =? 110 then Some 10
                         else if e =? 114 then Some 13 else if e =? 116 then Some 9
                         else None) with
                  | Some c => pstring f s'' (c :: acc)
                  | None => None
                  end
            end
          else if b <? 32 then None
          else pstring f s' (b :: acc)
      end
  end.

(** Digits: longest prefix of ASCII digits, as values. *)
Fixpoint take_digits (s : str) : list N * str :=
  match s with
  | b :: s' => if is_digit b then let '(d, r) := take_digits s' in ((b - 48) :: d, r) else ([], s)
  | [] => ([], [])
  end.

Fixpoint digits_value (ds : list N) (acc : N) : N :=
  match ds with [] => acc | d :: ds' => digits_value ds' (acc * 10 + d) end.

Fixpoint strip_zeros (ds : list N) : list N :=
  match ds with 0 :: ds' => strip_zeros ds' | _ => ds end.

Fixpoint take_pad (n : nat) (ds : list N) : list N :=
  match n with
  | O => []
  | S n' => match ds with [] => 0 :: take_pad n' [] | d :: ds' => d :: take_pad n' ds' end
  end.

(** serde_json reports "number out of range" (a parse error) for a literal whose f64 value
    overflows.  Decided here on the decimal form: the exponent of the leading significant digit
    exceeds 308, or equals 308 with leading digits >= 1.7976931348623158 (f64::MAX is
    1.7976931348623157e308).  serde_json's own conversion is an inexact fast path; literals
    with magnitude in [1.797693134862315e308, 1e309) are outside what this model claims. *)
Definition num_overflows (n : numlit) : bool :=
  let fr := match nl_frac n with Some f => f | None => [] end in
  let sig := strip_zeros (nl_int n ++ fr) in
  match sig with
  | [] => false
  | _ =>
      let e := match nl_exp n with
               | Some (eneg, ed) => let v := Z.of_N (digits_value ed 0) in if eneg then (- v)%Z else v
               | None => 0%Z
               end in
      let int_sig := strip_zeros (nl_int n) in
      let lead := match int_sig with
                  | [] => (- Z.of_nat (S (List.length fr - List.length (strip_zeros fr))))%Z
                  | _ => (Z.of_nat (List.length int_sig) - 1)%Z
                  end in
      let le := (lead + e)%Z in
      (308 <? le)%Z || ((le =? 308)%Z && (17976931348623158 <=? digits_value (take_pad 17 sig) 0))
  end.

(** Number literal starting at [s] (the optional '-' included). *)
Definition pnumber_body (neg : bool) (s1 : str) : option (numlit * str) :=
  match s1 with
  | [] => None
  | b :: r =>
      let int_part :=
        if b =? 48 then
          match r with
          | c :: _ => if is_digit c then None else Some ([0], r)
          | [] => Some ([0], r)
          end
        else if is_digit b then let '(d, r') := take_digits r in Some ((b - 48) :: d, r')
        else None in
      match int_part with
      | None => None
      | Some (ds, s2) =>
          let frac_part :=
            match hd_is 46 s2 with
            | Some r2 =>
                let '(fd, r3) := take_digits r2 in
                match fd with [] => None | _ => Some (Some fd, r3) end
            | None => Some (None, s2)
            end in
          match frac_part with
          | None => None
          | Some (fr, s3) =>
              let exp_part :=
                match s3 with
                | e :: r3 =>
                    if (e =? 101) || (e =? 69) then
                      let '(eneg, r4) := match hd_is 43 r3 with
                                         | Some r' => (false, r')
                                         | None => match hd_is 45 r3 with
                                                   | Some r' => (true, r')
                                                   | None => (false, r3)
                                                   end
                                         end in
                      let '(ed, r5) := take_digits r4 in
                      match ed with [] => None | _ => Some (Some (eneg, ed), r5) end
                    else Some (None, s3)
                | [] => Some (None, s3)
                end in
              match exp_part with
              | None => None
              | Some (ex, s4) =>
                  let n := {| nl_neg := neg; nl_int := ds; nl_frac := fr; nl_exp := ex |} in
                  if num_overflows n then None else Some (n, s4)
              end
          end
      end
  end.

Definition pnumber (s : str) : option (numlit * str) :=
  match hd_is 45 s with Some r => pnumber_body true r | None => pnumber_body false s end.

Definition lit_true : str := [114; 117; 101].     (* "rue" *)
Definition lit_false : str := [97; 108; 115; 101]. (* "alse" *)
Definition lit_null : str := [117; 108; 108].      (* "ull" *)

Fixpoint strip_prefix (p s : str) : option str :=
  match p, s with
  | [], _ => Some s
  | x :: p', y :: s' => if x =? y then strip_prefix p' s' else None
  | _ :: _, [] => None
  end.

(** [pvalue fuel depth s]: [s] starts at the first byte of a value (whitespace already
    skipped).  [depth] is serde_json's [remaining_depth]. *)
Fixpoint pvalue (fuel : nat) (depth : N) (s : str) {struct fuel} : option (raw * str) :=
  match fuel with
  | O => None
  | S f =>
      match s with
      | [] => None
      | b :: r =>
          if b =? 110 then option_map (fun r' => (RNull, r')) (strip_prefix lit_null r)
          else if b =? 116 then option_map (fun r' => (RBool true, r')) (strip_prefix lit_true r)
          else if b =? 102 then option_map (fun r' => (RBool false, r')) (strip_prefix lit_false r)
          else if b =? 34 then
            match pstring (S (List.length r)) r [] with
            | Some (x, r') => Some (RStr x, r')
            | None => None
            end
          else if b =? 91 then
            if depth <=? 1 then None
            else
              match hd_is 93 (skip_ws r) with
              | Some r' => Some (RArr [], r')
              | None => parr f (depth - 1) (skip_ws r) []
              end
          else if b =? 123 then
            if depth <=? 1 then None
            else
              match hd_is 125 (skip_ws r) with
              | Some r' => Some (RObj [], r')
              | None => pobj f (depth - 1) (skip_ws r) []
              end
          else if (b =? 45) || is_digit b then
            match pnumber s with
            | Some (n, r') => Some (RNum n, r')
            | None => None
            end
          else None
      end
  end
(** elements of an array; [s] at the start of an element *)
with parr (fuel : nat) (depth : N) (s : str) (acc : list raw) {struct fuel} : option (raw * str) :=
  match fuel with
  | O => None
  | S f =>
      match pvalue f depth s with
      | None => None
      | Some (v, r) =>
          match hd_is 44 (skip_ws r) with
          | Some r' => parr f depth (skip_ws r') (v :: acc)
          | None =>
              match hd_is 93 (skip_ws r) with
              | Some r' => Some (RArr (rev (v :: acc)), r')
              | None => None
              end
          end
      end
  end
(** members of an object; [s] at the start of a key *)
with pobj (fuel : nat) (depth : N) (s : str) (acc : list (str * raw)) {struct fuel} : option (raw * str) :=
  match fuel with
  | O => None
  | S f =>
      match hd_is 34 s with
      | Some r =>
          match pstring (S (List.length r)) r [] with
          | None => None
          | Some (k, r1) =>
              match hd_is 58 (skip_ws r1) with
              | Some r2 =>
                  match pvalue f depth (skip_ws r2) with
                  | None => None
                  | Some (v, r3) =>
                      match hd_is 44 (skip_ws r3) with
                      | Some r4 => pobj f depth (skip_ws r4) ((k, v) :: acc)
                      | None =>
                          match hd_is 125 (skip_ws r3) with
                          | Some r4 => Some (RObj (rev ((k, v) :: acc)), r4)
                          | None => None
                          end
                      end
                  end
              | None => None
              end
          end
      | None => None
      end
  end.

Definition parse_text (s : str) : option raw :=
  match pvalue (S (S (List.length s))) 128 (skip_ws s) with
  | Some (v, r) => match skip_ws r with [] => Some v | _ => None end
  | None => None
  end.

(** ** serde_json::Value -> CanonicalJsonValue *)

Definition max_int : Z := 9007199254740991.   (* 2^53 - 1, js_int::MAX_SAFE_INT *)

(** serde_json keeps a literal as u64 / i64 when it has neither fraction nor exponent and
    fits, as f64 otherwise ([-0] is the float -0.0); [as_i64] then [Int::try_from] accept
    exactly the integers of magnitude <= 2^53-1. *)
Definition classify_number (n : numlit) : option Z :=
  match nl_frac n, nl_exp n with
  | None, None =>
      let m := Z.of_N (digits_value (nl_int n) 0) in
      if nl_neg n then
        if (m =? 0)%Z then None                      (* -0 -> f64 -> as_i64 = None *)
        else if (m <=? max_int)%Z then Some (- m)%Z else None
      else if (m <=? max_int)%Z then Some m else None
  | _, _ => None
  end.

Fixpoint all_some (m : list (str * option json)) : option obj :=
  match m with
  | [] => Some []
  | (k, Some v) :: m' => option_map (cons (k, v)) (all_some m')
  | (_, None) :: _ => None
  end.

Fixpoint to_canonical (r : raw) : option json :=
  match r with
  | RNull => Some JNull
  | RBool b => Some (JBool b)
  | RNum n => option_map JInt (classify_number n)
  | RStr s => Some (JStr s)
  | RArr l =>
      option_map JArr
        ((fix go (l : list raw) : option (list json) :=
            match l with
            | [] => Some []
            | x :: l' => match to_canonical x, go l' with
                         | Some v, Some vs => Some (v :: vs)
                         | _, _ => None
                         end
            end) l)
  | RObj m =>
      (* serde_json builds its Map first (later duplicates replace earlier ones, whatever their
         value); only the surviving members are converted.  Here: convert every member to an
         optional value, deduplicate, then require the survivors to be defined. *)
      let conv := (fix go (m : list (str * raw)) : list (str * option json) :=
                     match m with
                     | [] => []
                     | (k, x) :: m' => (k, to_canonical x) :: go m'
                     end) m in
      option_map JObj (all_some (fold_left (fun acc kv => insert (fst kv) (snd kv) acc) conv []))
  end.

(** ** Compact serializer *)

Definition hexdigit (n : N) : N := if n <? 10 then 48 + n else 87 + n.

Definition escape_byte (b : N) : str :=
  if b =? 34 then [92; 34]
  else if b =? 92 then [92; 92]
  else if b =? 8 then [92; 98]
  else if b =? 9 then [92; 116]
  else if b =? 10 then [92; 110]
  else if b =? 12 then [92; 102]
  else if b =? 13 then [92; 114]
  else if b <? 32 then [92; 117; 48; 48; hexdigit (b / 16); hexdigit (b mod 16)]
  else [b].

Definition print_string (s : str) : str := 34 :: flat_map escape_byte s ++ [34].

(** decimal digits of a positive number, most significant first (fuel = bit length) *)
Fixpoint dec_digits (fuel : nat) (n : N) (acc : str) : str :=
  match fuel with
  | O => acc
  | S f => if n <? 10 then (48 + n) :: acc else dec_digits f (n / 10) ((48 + n mod 10) :: acc)
  end.
Definition print_N (n : N) : str := dec_digits (S (N.to_nat (N.log2 n))) n [].
Definition print_Z (z : Z) : str :=
  match z with
  | Z0 => [48]
  | Zpos p => print_N (Npos p)
  | Zneg p => 45 :: print_N (Npos p)
  end.

Fixpoint join_with (sep : N) (l : list str) : str :=
  match l with
  | [] => []
  | [x] => x
  | x :: l' => x ++ sep :: join_with sep l'
  end.

Fixpoint print (j : json) : str :=
  match j with
  | JNull => [110; 117; 108; 108]
  | JBool true => [116; 114; 117; 101]
  | JBool false => [102; 97; 108; 115; 101]
  | JInt z => print_Z z
  | JStr s => print_string s
  | JArr l => 91 :: join_with 44 (List.map print l) ++ [93]
  | JObj m => 123 :: join_with 44 (List.map (fun kv => print_string (fst kv) ++ 58 :: print (snd kv)) m) ++ [125]
  end.

Definition canon_text (t : str) : option (json * str) :=
  match parse_text t with
  | Some r => match to_canonical r with Some v => Some (v, print v) | None => None end
  | None => None
  end.
