(** Base.Rules — record types mirroring [ruma_common::room_version_rules] and the shape of
    the redaction tables.  The *values* are generated into [Gen/] on every run. *)
From Base Require Import Prelude.

Record auth_rules := {
  special_case_room_redaction : bool;
  special_case_room_aliases : bool;
  strict_canonical_json : bool;
  limit_notifications_power_levels : bool;
  knocking : bool;
  restricted_join_rule : bool;
  knock_restricted_join_rule : bool;
  integer_power_levels : bool;
  use_room_create_sender : bool }.

Record redaction_rules := {
  keep_room_aliases_aliases : bool;
  keep_room_join_rules_allow : bool;
  keep_room_member_join_authorised_via_users_server : bool;
  keep_origin_membership_prev_state : bool;
  keep_room_create_content : bool;
  keep_room_redaction_redacts : bool;
  keep_room_power_levels_invite : bool;
  keep_room_member_third_party_invite_signed : bool }.

Record sig_rules := {
  check_event_id_server : bool;
  check_join_authorised_via_users_server : bool }.

Inductive eid_format := EidV1 | EidV2 | EidV3.
Inductive sres_version := SresV1 | SresV2.

Record room_rules := {
  stable : bool;
  event_id_format : eid_format;
  state_res : sres_version;
  enforce_key_validity : bool;
  authorization : auth_rules;
  redaction : redaction_rules;
  signatures : sig_rules }.

(** Shape of [canonical_json.rs]'s key tables. *)
Inductive cond :=
| CTrue
| CFalse
| CRule (f : redaction_rules -> bool).

(** [Arm keys c special]: `"k1" | "k2" => c`; [special] marks the
    `third_party_invite` arm that keeps only the `signed` member. *)
Inductive arm := Arm (keys : list str) (c : cond) (special : bool).

Inductive keyspec :=
| KSome (arms : list arm)
| KAll
| KNone
| KIf (f : redaction_rules -> bool) (a b : keyspec).
