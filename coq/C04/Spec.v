(** C04.Spec — redaction as the Matrix specification states it, per room version *number*
    (DESIGN.md Appendix A.2); no reference to ruma's rule booleans or tables. *)
From Base Require Import Prelude Sx Json.

Definition top_always : list str :=
  [s!"event_id"; s!"type"; s!"room_id"; s!"sender"; s!"state_key"; s!"content"; s!"hashes";
   s!"signatures"; s!"depth"; s!"prev_events"; s!"auth_events"; s!"origin_server_ts"].
Definition top_until_v10 : list str := [s!"origin"; s!"membership"; s!"prev_state"].

Definition keeps_top (v : N) (k : str) : bool :=
  mem_str k top_always || ((v <=? 10) && mem_str k top_until_v10).

(** Content keys kept by type and version; [None] = keep every key. The
    `third_party_invite` member of v11 member events is handled by [content_value]. *)
Definition content_keys (v : N) (ty : str) : option (list str) :=
  if str_eqb ty s!"m.room.member" then
    Some ([s!"membership"]
          ++ (if 9 <=? v then [s!"join_authorised_via_users_server"] else [])
          ++ (if 11 <=? v then [s!"third_party_invite"] else []))
  else if str_eqb ty s!"m.room.create" then
    (if 11 <=? v then None else Some [s!"creator"])
  else if str_eqb ty s!"m.room.join_rules" then
    Some ([s!"join_rule"] ++ (if 8 <=? v then [s!"allow"] else []))
  else if str_eqb ty s!"m.room.power_levels" then
    Some ([s!"ban"; s!"events"; s!"events_default"; s!"kick"; s!"redact"; s!"state_default";
           s!"users"; s!"users_default"] ++ (if 11 <=? v then [s!"invite"] else []))
  else if str_eqb ty s!"m.room.aliases" then
    Some (if v <=? 5 then [s!"aliases"] else [])
  else if str_eqb ty s!"m.room.history_visibility" then Some [s!"history_visibility"]
  else if str_eqb ty s!"m.room.redaction" then
    Some (if 11 <=? v then [s!"redacts"] else [])
  else Some [].

(** v11 `m.room.member`: `third_party_invite` is reduced to its `signed` member and dropped
    when nothing is left.  Every other kept value is untouched. *)
Definition is_tpi (v : N) (ty k : str) : bool :=
  (11 <=? v) && str_eqb ty s!"m.room.member" && str_eqb k s!"third_party_invite".

Definition content_value (v : N) (ty k : str) (x : json) : option json :=
  if is_tpi v ty k then
    match x with
    | JObj t => match lookup s!"signed" t with
                | Some sg => Some (JObj [(s!"signed", sg)])
                | None => None
                end
    | _ => None
    end
  else Some x.

Definition spec_content (v : N) (ty : str) (c : obj) : obj :=
  match content_keys v ty with
  | None => c
  | Some ks => fmap_obj (fun k x => if mem_str k ks then content_value v ty k x else None) c
  end.

(** The inputs redaction is defined on: `type` is a string, `content` (if present) an
    object, and — where the version keeps part of it — `third_party_invite` an object. *)
Definition tpi_ok (v : N) (ty : str) (c : obj) : bool :=
  if is_tpi v ty s!"third_party_invite" then
    match lookup s!"third_party_invite" c with
    | Some (JObj _) | None => true
    | Some _ => false
    end
  else true.

Definition well_typed (v : N) (ev : obj) : bool :=
  match lookup s!"type" ev with
  | Some (JStr ty) =>
      match lookup s!"content" ev with
      | None => true
      | Some (JObj c) => tpi_ok v ty c
      | Some _ => false
      end
  | _ => false
  end.

Definition spec_redact (v : N) (ev : obj) : obj :=
  match lookup s!"type" ev with
  | Some (JStr ty) =>
      fmap_obj (fun k x =>
                  if keeps_top v k then
                    if str_eqb k s!"content" then
                      match x with JObj c => Some (JObj (spec_content v ty c)) | _ => Some x end
                    else Some x
                  else None) ev
  | _ => []
  end.

Definition with_because (b : obj) (ev : obj) : obj :=
  insert s!"unsigned" (JObj [(s!"redacted_because", JObj b)]) ev.
