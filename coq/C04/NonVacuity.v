(** C04.NonVacuity — the hypotheses of the C04 theorems are satisfiable by non-trivial inputs,
    and the theorems say something on them. *)
From Base Require Import Prelude Sx Json Rules.
From Gen Require Import RoomRules RedactTables.
From C04 Require Import Model Spec Proofs.

Definition member_event : obj :=
  fold_right (fun kv acc => insert (fst kv) (snd kv) acc) []
    [(s!"type", JStr s!"m.room.member"); (s!"sender", JStr s!"@a:b"); (s!"origin", JStr s!"b");
     (s!"unsigned", JObj [(s!"age", JInt 1)]);
     (s!"content", JObj (fold_right (fun kv acc => insert (fst kv) (snd kv) acc) []
        [(s!"membership", JStr s!"invite"); (s!"displayname", JStr s!"x");
         (s!"join_authorised_via_users_server", JStr s!"@c:d");
         (s!"third_party_invite", JObj [(s!"display_name", JStr s!"n"); (s!"signed", JObj [(s!"token", JStr s!"t")])])]))].

Example member_event_wf : wf_obj member_event.
Proof. vm_compute. reflexivity. Qed.

Example member_event_well_typed_everywhere : forallb (fun v => well_typed v member_event) all_versions = true.
Proof. vm_compute. reflexivity. Qed.

(** v8 drops the authorising user, v9 keeps it, v11 drops `origin` and reduces third_party_invite. *)
Example redact_v8_v9_v11_differ :
  match redact (redaction rules_v8) member_event None, redact (redaction rules_v9) member_event None,
        redact (redaction rules_v11) member_event None with
  | Ok e8, Ok e9, Ok e11 =>
      negb (json_eqb (JObj e8) (JObj e9)) && negb (json_eqb (JObj e9) (JObj e11)) &&
      match lookup s!"origin" e9, lookup s!"origin" e11 with Some _, None => true | _, _ => false end
  | _, _, _ => false
  end = true.
Proof. vm_compute. reflexivity. Qed.

Example ill_typed_is_an_error :
  redact (redaction rules_v11) [(s!"content", JInt 1); (s!"type", JStr s!"m.room.member")] None = Err 3.
Proof. vm_compute. reflexivity. Qed.
