(** C04.Properties — the theorems that decide C04, and nothing else.
    Each is closed by [exact], pinned by [Check] and followed by [Print Assumptions]. *)
From Base Require Import Prelude Sx Json Rules.
From Gen Require Import RoomRules RedactTables.
From C04 Require Import Model Spec Proofs.

(** For every room version 1-11 and every event on which redaction is defined, the model
    of ruma's [redact] keeps exactly the keys the specification lists for that version,
    with their values untouched (third_party_invite reduced to `signed` in v11). *)
Theorem C04_redact_eq_spec :
  forall v R ev, rules_of v = Some R -> wf_obj ev -> well_typed v ev = true ->
  redact (redaction R) ev None = Ok (spec_redact v ev).
Proof. exact redact_eq_spec. Qed.
Eval compute in "PA:C04_redact_eq_spec"%string.
Print Assumptions C04_redact_eq_spec.

(** Outside those inputs the result is an error, never an altered event. *)
Theorem C04_redact_ill_typed :
  forall v R ev b, rules_of v = Some R -> wf_obj ev -> well_typed v ev = false ->
  exists e, redact (redaction R) ev b = Err e.
Proof. exact redact_ill_typed. Qed.
Eval compute in "PA:C04_redact_ill_typed"%string.
Print Assumptions C04_redact_ill_typed.

(** The content-only entry point. *)
Theorem C04_redact_content_eq_spec :
  forall v R ty c, rules_of v = Some R -> wf_obj c -> tpi_ok v ty c = true ->
  redact_content (redaction R) ty c = Ok (spec_content v ty c).
Proof. exact redact_content_eq_spec. Qed.
Eval compute in "PA:C04_redact_content_eq_spec"%string.
Print Assumptions C04_redact_content_eq_spec.

(** Redaction adds nothing: every entry of the result is an entry of the input (content
    entries likewise, the reduced third_party_invite being the one rewritten value). *)
Theorem C04_adds_nothing :
  forall v ev k x, wf_obj ev -> lookup k (spec_redact v ev) = Some x ->
  (k <> s!"content" /\ lookup k ev = Some x) \/
  (k = s!"content" /\ exists x0, lookup k ev = Some x0 /\
     match x0, x with
     | JObj c0, JObj c => forall k' y, lookup k' c = Some y ->
          exists y0, lookup k' c0 = Some y0 /\
            (y = y0 \/ exists t sg, y0 = JObj t /\ lookup s!"signed" t = Some sg /\ y = JObj [(s!"signed", sg)])
     | _, _ => x = x0
     end).
Proof. exact spec_redact_adds_nothing. Qed.
Eval compute in "PA:C04_adds_nothing"%string.
Print Assumptions C04_adds_nothing.

(** `redacted_because` is attached after redaction and is the only datum added. *)
Theorem C04_redacted_because :
  forall r ev b, redact r ev (Some b) = obind (redact r ev None) (fun e => Ok (with_because b e)).
Proof. exact redact_because. Qed.
Eval compute in "PA:C04_redacted_because"%string.
Print Assumptions C04_redacted_because.

(** Redacting twice equals redacting once. *)
Theorem C04_redact_idem :
  forall v R ev ev', rules_of v = Some R -> wf_obj ev ->
  redact (redaction R) ev None = Ok ev' -> redact (redaction R) ev' None = Ok ev'.
Proof. exact redact_idem. Qed.
Eval compute in "PA:C04_redact_idem"%string.
Print Assumptions C04_redact_idem.

(** The content-only entry point computes the `content` member of the full redaction. *)
Theorem C04_entry_points_agree :
  forall r ev ty c ev', sorted ev -> lookup k_type ev = Some (JStr ty) ->
  lookup k_content ev = Some (JObj c) -> decide r top_arms k_content = DKeep ->
  redact r ev None = Ok ev' ->
  exists c', redact_content r ty c = Ok c' /\ lookup k_content ev' = Some (JObj c').
Proof. exact content_entry_point_agrees. Qed.
Eval compute in "PA:C04_entry_points_agree"%string.
Print Assumptions C04_entry_points_agree.
