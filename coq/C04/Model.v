(** C04.Model — executable model of [ruma_common::canonical_json::{redact, redact_in_place,
    redact_content_in_place}] (canonical_json.rs:163-309).  The key tables come from
    [Gen.RedactTables] (regenerated from the source on every run), the rule booleans from
    [Gen.RoomRules]. *)
From Base Require Import Prelude Sx Json Rules.
From Gen Require Import RoomRules RedactTables.

Definition eval_cond (r : redaction_rules) (c : cond) : bool :=
  match c with CTrue => true | CFalse => false | CRule f => f r end.

(** `match key { arms… , _ => false }`: first arm whose pattern (and guard) matches. *)
Inductive decision := DKeep | DDrop | DSpecial.

Fixpoint decide (r : redaction_rules) (arms : list arm) (k : str) : decision :=
  match arms with
  | [] => DDrop
  | Arm keys c sp :: rest =>
      if mem_str k keys then
        if sp then (if eval_cond r c then DSpecial else decide r rest k)
        else (if eval_cond r c then DKeep else DDrop)
      else decide r rest k
  end.

Definition k_signed : str := s!"signed".

(** The `third_party_invite` arm (canonical_json.rs:322-331): must be an object
    (error 4 otherwise), keep only `signed`, keep the field only if that is non-empty. *)
Definition retain_value (d : decision) (v : json) : outcome (option json) :=
  match d with
  | DKeep => Ok (Some v)
  | DDrop => Ok None
  | DSpecial =>
      match v with
      | JObj t =>
          match kfilter (fun k _ => str_eqb k k_signed) t with
          | [] => Ok None
          | t' => Ok (Some (JObj t'))
          end
      | _ => Err 4
      end
  end.

(** [RetainedKeys::Some(f).apply]: take the old map, re-insert retained entries. *)
Fixpoint apply_dec (d : str -> decision) (old acc : obj) : outcome obj :=
  match old with
  | [] => Ok acc
  | (k, v) :: old' =>
      match retain_value (d k) v with
      | Ok (Some v') => apply_dec d old' (insert k v' acc)
      | Ok None => apply_dec d old' acc
      | Err e => Err e
      | Panic s => Panic s
      end
  end.
Definition apply_some (r : redaction_rules) (arms : list arm) (old acc : obj) : outcome obj :=
  apply_dec (decide r arms) old acc.

Fixpoint apply_keys (r : redaction_rules) (ks : keyspec) (o : obj) : outcome obj :=
  match ks with
  | KAll => Ok o
  | KNone => Ok []
  | KSome arms => apply_some r arms o []
  | KIf f a b => if f r then apply_keys r a o else apply_keys r b o
  end.

(** `match event_type { "m.room.member" => …, _ => RetainedKeys::None }` *)
Fixpoint content_spec_in (tbl : list (str * keyspec)) (ty : str) : keyspec :=
  match tbl with
  | [] => KNone
  | (t, ks) :: rest => if str_eqb ty t then ks else content_spec_in rest ty
  end.
Definition content_spec (ty : str) : keyspec := content_spec_in content_table ty.

Definition k_type : str := s!"type".
Definition k_content : str := s!"content".
Definition k_unsigned : str := s!"unsigned".
Definition k_redacted_because : str := s!"redacted_because".

(** Error codes: 1 `type` missing, 2 `type` not a string, 3 `content` not an object,
    4 `third_party_invite` not an object. *)
Definition redact_content (r : redaction_rules) (ty : str) (content : obj) : outcome obj :=
  apply_keys r (content_spec ty) content.

Definition redact (r : redaction_rules) (ev : obj) (because : option obj) : outcome obj :=
  match lookup k_type ev with
  | None => Err 1
  | Some (JStr ty) =>
      obind
        (match lookup k_content ev with
         | None => Ok ev
         | Some (JObj c) =>
             obind (redact_content r ty c) (fun c' => Ok (insert k_content (JObj c') ev))
         | Some _ => Err 3
         end)
        (fun ev1 =>
           obind (apply_some r top_arms ev1 [])
             (fun ev2 =>
                match because with
                | None => Ok ev2
                | Some b => Ok (insert k_unsigned (JObj [(k_redacted_because, JObj b)]) ev2)
                end))
  | Some _ => Err 2
  end.
