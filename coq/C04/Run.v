(** C04.Run — case decoding, model run, and the spec predicate evaluated on the
    implementation's outcome (the failing-input search). *)
From Base Require Import Prelude Sx Json Rules.
From Gen Require Import RoomRules.
From C04 Require Import Model Spec.

Definition sx_res (o : outcome obj) : sx := sx_outcome (fun m => sx_of_json (JObj m)) o.

Definition model_out (v op : N) (ty : str) (o : obj) (because : option obj) : outcome obj :=
  match rules_of v with
  | None => Panic 0
  | Some R =>
      let r := redaction R in
      if op <? 2 then redact r o None
      else if op =? 2 then redact r o because
      else redact_content r ty o
  end.

(** What the specification says the outcome must be, independently of the model:
    [None] = the spec does not define a result (ill-typed input: any error is fine). *)
Definition spec_out (v op : N) (ty : str) (o : obj) (because : option obj) : option obj :=
  if op <? 3 then
    if well_typed v o then
      let e := spec_redact v o in
      Some (match because, (op =? 2) with Some b, true => with_because b e | _, _ => e end)
    else None
  else if tpi_ok v ty o then Some (spec_content v ty o) else None.

Definition spec_ok (expected : option obj) (impl : sx) : bool :=
  match expected, impl with
  | Some e, SL [SN 0; j] =>
      match obj_of_sx j with Some m => json_eqb (JObj m) (JObj e) | None => false end
  | Some _, _ => false
  | None, SL [SN 1; _] => true
  | None, _ => false
  end.

Definition run (x : sx) : sx :=
  match x with
  | SL [SL [v; op; ty; o; b]; impl] =>
      match as_N v, as_N op, as_str ty, obj_of_sx o, as_opt obj_of_sx b with
      | Some v, Some op, Some ty, Some o, Some b =>
          SL [sx_res (model_out v op ty o b); sx_bool (spec_ok (spec_out v op ty o b) impl)]
      | _, _, _, _, _ => sx_bad
      end
  | _ => sx_bad
  end.
