(** C04.Proofs — the model of ruma's redaction meets the per-version specification. *)
From Base Require Import Prelude Sx Json Rules.
From Gen Require Import RoomRules RedactTables.
From C04 Require Import Model Spec.

(** * 1. [apply_dec] is an order-preserving filter-map (or the first error). *)

Definition rv_opt (d : str -> decision) (k : str) (v : json) : option json :=
  match retain_value (d k) v with Ok o => o | _ => None end.

Fixpoint first_err (d : str -> decision) (m : obj) : option N :=
  match m with
  | [] => None
  | (k, v) :: m' => match retain_value (d k) v with
                    | Err e => Some e
                    | _ => first_err d m'
                    end
  end.

Lemma retain_value_no_panic d v s : retain_value d v <> Panic s.
Proof.
  destruct d; cbn; try discriminate. destruct v; try discriminate.
  destruct (kfilter _ m); discriminate.
Qed.

Lemma apply_dec_spec d old : forall acc,
  sorted (acc ++ old) ->
  apply_dec d old acc =
  match first_err d old with
  | Some e => Err e
  | None => Ok (acc ++ fmap_obj (rv_opt d) old)
  end.
Proof.
  induction old as [|[k v] old IH]; intros acc Hs; cbn [apply_dec first_err fmap_obj].
  - now rewrite app_nil_r.
  - unfold rv_opt at 1. destruct (retain_value (d k) v) as [[v'|]|e|s] eqn:Er.
    + assert (Hs1 : sorted ((acc ++ [(k, v)]) ++ old)) by now rewrite <- app_assoc.
      assert (Hs2 : sorted (acc ++ [(k, v')])).
      { apply sorted_app_inv in Hs1 as [Hs1 _]. apply sorted_app_inv in Hs1 as [Ha _].
        apply sorted_snoc; [exact Ha|]. intros k' x' Hin.
        eapply sorted_app_gt; [exact Hs|exact Hin|left; reflexivity]. }
      rewrite (insert_append _ _ _ Hs2). rewrite IH.
      * destruct (first_err d old); [reflexivity|]. now rewrite <- app_assoc.
      * rewrite <- app_assoc. cbn [app].
        (* sortedness depends on keys only *)
        clear -Hs. induction acc as [|[ka xa] acc IHa]; cbn [app sorted] in *.
        -- destruct Hs as [G S]. split; [exact G|exact S].
        -- destruct Hs as [G S]. split; [|auto].
           intros k' x' Hin. apply in_app_or in Hin as [Hin|[E|Hin]].
           ++ eapply G. apply in_or_app; left; exact Hin.
           ++ inversion E; subst. eapply (G k' v). apply in_or_app; right; left; reflexivity.
           ++ eapply G. apply in_or_app; right; right; exact Hin.
    + apply IH. clear -Hs. induction acc as [|[ka xa] acc IHa]; cbn [app sorted] in *.
      * tauto.
      * destruct Hs as [G S]. split; [|auto].
        intros k' x' Hin. apply in_app_or in Hin as [Hin|Hin]; eapply G; apply in_or_app; [left|right; right]; exact Hin.
    + reflexivity.
    + exfalso. eapply retain_value_no_panic; exact Er.
Qed.

Corollary apply_dec_nil d old :
  sorted old ->
  apply_dec d old [] =
  match first_err d old with Some e => Err e | None => Ok (fmap_obj (rv_opt d) old) end.
Proof. intros Hs. now rewrite (apply_dec_spec d old [] Hs). Qed.

(** * 2. Decision tables: normal form, and a decidable equivalence. *)

Definition dec_eqb (a b : decision) : bool :=
  match a, b with DKeep, DKeep | DDrop, DDrop | DSpecial, DSpecial => true | _, _ => false end.
Lemma dec_eqb_eq a b : dec_eqb a b = true -> a = b.
Proof. destruct a, b; cbn; congruence. Qed.

Definition dtable := list (str * decision).
Fixpoint assoc_d (k : str) (t : dtable) : decision :=
  match t with
  | [] => DDrop
  | (k', d) :: t' => if str_eqb k k' then d else assoc_d k t'
  end.

Fixpoint norm (r : redaction_rules) (arms : list arm) : dtable :=
  match arms with
  | [] => []
  | Arm keys c sp :: rest =>
      (if sp then (if eval_cond r c then List.map (fun k => (k, DSpecial)) keys else [])
       else List.map (fun k => (k, if eval_cond r c then DKeep else DDrop)) keys)
      ++ norm r rest
  end.

Lemma assoc_d_app k t1 t2 :
  assoc_d k (t1 ++ t2) = if mem_str k (List.map fst t1) then assoc_d k t1 else assoc_d k t2.
Proof.
  induction t1 as [|[k' d] t1 IH]; cbn [app assoc_d List.map mem_str fst]; [reflexivity|].
  destruct (str_eqb k k'); cbn [orb]; [reflexivity|exact IH].
Qed.

Lemma assoc_d_const k keys d :
  assoc_d k (List.map (fun k => (k, d)) keys) = if mem_str k keys then d else DDrop.
Proof.
  induction keys as [|k' keys IH]; cbn [List.map assoc_d mem_str]; [reflexivity|].
  destruct (str_eqb k k'); cbn [orb]; [reflexivity|exact IH].
Qed.

Lemma map_fst_const (keys : list str) (d : decision) :
  List.map fst (List.map (fun k => (k, d)) keys) = keys.
Proof. induction keys as [|k keys IH]; cbn; [reflexivity|now rewrite IH]. Qed.

Lemma decide_norm r arms k : decide r arms k = assoc_d k (norm r arms).
Proof.
  induction arms as [|[keys c sp] rest IH]; cbn [decide norm]; [reflexivity|].
  rewrite assoc_d_app. destruct sp.
  - destruct (eval_cond r c).
    + rewrite map_fst_const, assoc_d_const. destruct (mem_str k keys); [reflexivity|exact IH].
    + cbn [List.map mem_str]. destruct (mem_str k keys); exact IH.
  - rewrite map_fst_const, assoc_d_const. destruct (mem_str k keys); [|exact IH].
    destruct (eval_cond r c); reflexivity.
Qed.

(** Two tables agree on every key iff they agree on the keys they mention. *)
Definition table_eqb (t1 t2 : dtable) : bool :=
  forallb (fun k => dec_eqb (assoc_d k t1) (assoc_d k t2)) (List.map fst t1 ++ List.map fst t2).

Lemma assoc_d_notin k t : mem_str k (List.map fst t) = false -> assoc_d k t = DDrop.
Proof.
  induction t as [|[k' d] t IH]; cbn [List.map mem_str assoc_d fst]; [reflexivity|].
  destruct (str_eqb k k'); cbn [orb]; [discriminate|exact IH].
Qed.

Lemma table_eqb_sound t1 t2 : table_eqb t1 t2 = true -> forall k, assoc_d k t1 = assoc_d k t2.
Proof.
  unfold table_eqb. rewrite forallb_forall. intros H k.
  destruct (mem_str k (List.map fst t1 ++ List.map fst t2)) eqn:E.
  - apply mem_str_In in E. apply dec_eqb_eq, H, E.
  - assert (E1 : mem_str k (List.map fst t1) = false /\ mem_str k (List.map fst t2) = false).
    { split; apply not_true_is_false; intros Hm; apply mem_str_In in Hm;
        assert (Hin : In k (List.map fst t1 ++ List.map fst t2)) by (apply in_or_app; auto);
        apply mem_str_In in Hin; congruence. }
    destruct E1 as [E1 E2]. now rewrite !assoc_d_notin.
Qed.

(** * 3. The specification as decision tables. *)

Definition spec_top_table (v : N) : dtable :=
  List.map (fun k => (k, DKeep)) top_always
  ++ (if v <=? 10 then List.map (fun k => (k, DKeep)) top_until_v10 else []).

Lemma keeps_top_table v k : assoc_d k (spec_top_table v) = if keeps_top v k then DKeep else DDrop.
Proof.
  unfold spec_top_table, keeps_top. rewrite assoc_d_app, map_fst_const, assoc_d_const.
  destruct (mem_str k top_always); cbn [orb]; [reflexivity|].
  destruct (v <=? 10); cbn [andb]; [apply assoc_d_const|reflexivity].
Qed.

Definition spec_content_table (v : N) (ty : str) (ks : list str) : dtable :=
  List.map (fun k => (k, if is_tpi v ty k then DSpecial else DKeep)) ks.

Lemma spec_content_table_assoc v ty ks k :
  assoc_d k (spec_content_table v ty ks) =
  if mem_str k ks then (if is_tpi v ty k then DSpecial else DKeep) else DDrop.
Proof.
  unfold spec_content_table.
  induction ks as [|k' ks IH]; cbn [List.map assoc_d mem_str]; [reflexivity|].
  dse k k'; cbn [orb]; [reflexivity|exact IH].
Qed.

(** Normal form of a [keyspec] under concrete rules: [None] = keep everything. *)
Fixpoint norm_ks (r : redaction_rules) (ks : keyspec) : option dtable :=
  match ks with
  | KAll => None
  | KNone => Some []
  | KSome arms => Some (norm r arms)
  | KIf f a b => if f r then norm_ks r a else norm_ks r b
  end.

Definition apply_tbl (t : option dtable) (o : obj) : outcome obj :=
  match t with None => Ok o | Some t => apply_dec (fun k => assoc_d k t) o [] end.

Lemma apply_dec_ext d1 d2 old acc :
  (forall k, d1 k = d2 k) -> apply_dec d1 old acc = apply_dec d2 old acc.
Proof.
  intros H. revert acc; induction old as [|[k v] old IH]; intros acc; cbn [apply_dec]; [reflexivity|].
  rewrite H. destruct (retain_value (d2 k) v) as [[?|]|?|?]; auto.
Qed.

Lemma apply_dec_drop (d : str -> decision) o acc :
  (forall k, d k = DDrop) -> apply_dec d o acc = Ok acc.
Proof.
  intros H. induction o as [|[k v] o IH]; cbn [apply_dec]; [reflexivity|].
  rewrite H. cbn [retain_value]. exact IH.
Qed.

Lemma apply_keys_norm r ks o : apply_keys r ks o = apply_tbl (norm_ks r ks) o.
Proof.
  induction ks as [arms| | |f a IHa b IHb]; cbn [apply_keys norm_ks apply_tbl].
  - unfold apply_some. apply apply_dec_ext. intros k. apply decide_norm.
  - reflexivity.
  - symmetry. apply apply_dec_drop. reflexivity.
  - destruct (f r); assumption.
Qed.

(** The per-(version, rules) table obligations, decidable by computation. *)
Definition content_ok (v : N) (r : redaction_rules) (ty : str) : bool :=
  match norm_ks r (content_spec ty), content_keys v ty with
  | None, None => true
  | Some t, Some ks => table_eqb t (spec_content_table v ty ks)
  | _, _ => false
  end.

Definition known_types : list str := List.map fst content_table ++
  [s!"m.room.member"; s!"m.room.create"; s!"m.room.join_rules"; s!"m.room.power_levels";
   s!"m.room.aliases"; s!"m.room.history_visibility"; s!"m.room.redaction"].

Definition tables_ok (v : N) (r : redaction_rules) : bool :=
  table_eqb (norm r top_arms) (spec_top_table v) && forallb (content_ok v r) known_types.

Lemma content_spec_in_notin tbl ty :
  mem_str ty (List.map fst tbl) = false -> content_spec_in tbl ty = KNone.
Proof.
  induction tbl as [|[t ks] tbl IH]; cbn [List.map mem_str content_spec_in fst]; [reflexivity|].
  destruct (str_eqb ty t); cbn [orb]; [discriminate|exact IH].
Qed.

Lemma content_keys_unknown v ty :
  mem_str ty [s!"m.room.member"; s!"m.room.create"; s!"m.room.join_rules"; s!"m.room.power_levels";
              s!"m.room.aliases"; s!"m.room.history_visibility"; s!"m.room.redaction"] = false ->
  content_keys v ty = Some [].
Proof.
  cbn [mem_str]. intros H. repeat (apply orb_false_iff in H as [?E H]).
  unfold content_keys. now rewrite E, E0, E1, E2, E3, E4, E5.
Qed.

Lemma content_ok_all v r : tables_ok v r = true -> forall ty, content_ok v r ty = true.
Proof.
  unfold tables_ok. intros H ty. apply andb_true_iff in H as [_ H]. rewrite forallb_forall in H.
  destruct (mem_str ty known_types) eqn:E; [apply H, mem_str_In, E|].
  assert (E1 : mem_str ty (List.map fst content_table) = false /\
               mem_str ty [s!"m.room.member"; s!"m.room.create"; s!"m.room.join_rules"; s!"m.room.power_levels";
                           s!"m.room.aliases"; s!"m.room.history_visibility"; s!"m.room.redaction"] = false).
  { unfold known_types in E. split; apply not_true_is_false; intros Hm; apply mem_str_In in Hm;
      match type of E with mem_str _ (?a ++ ?b) = _ =>
        assert (Hin : In ty (a ++ b)) by (apply in_or_app; auto) end;
      apply mem_str_In in Hin; congruence. }
  destruct E1 as [E1 E2]. unfold content_ok, content_spec.
  rewrite (content_spec_in_notin _ _ E1), (content_keys_unknown _ _ E2). reflexivity.
Qed.

(** * 4. Content redaction equals the spec. *)

Lemma is_tpi_key v ty k : is_tpi v ty k = true -> k = s!"third_party_invite".
Proof. unfold is_tpi. intros H. apply andb_true_iff in H as [_ H]. now apply str_eqb_eq. Qed.

Lemma is_tpi_key_indep v ty k :
  is_tpi v ty k = true -> is_tpi v ty s!"third_party_invite" = true.
Proof. intros H. now rewrite <- (is_tpi_key _ _ _ H). Qed.

Definition spec_fn (v : N) (ty : str) (ks : list str) (k : str) (x : json) : option json :=
  if mem_str k ks then content_value v ty k x else None.

Lemma first_err_none_iff (d : str -> decision) (c : obj) :
  first_err d c = None <->
  (forall k x, In (k, x) c -> d k = DSpecial -> exists t, x = JObj t).
Proof.
  induction c as [|[k x] c IH]; cbn [first_err].
  - split; [intros _ ? ? []|reflexivity].
  - destruct IH as [IH1 IH2]. split.
    + intros H k' x' [E|Hin] Hd.
      * inversion E; subst. rewrite Hd in H. cbn in H. destruct x'; try discriminate. eauto.
      * destruct (retain_value (d k) x); try discriminate; eapply IH1; eauto.
    + intros H. assert (Hx : forall e, retain_value (d k) x <> Err e).
      { intros e He. destruct (d k) eqn:Ed; cbn in He; try discriminate.
        destruct (H k x (or_introl eq_refl) Ed) as [t ->]. destruct (kfilter _ t); discriminate. }
      destruct (retain_value (d k) x) eqn:Er; [| exfalso; eapply Hx; eauto |];
        apply IH2; intros; eapply H; eauto; right; eauto.
Qed.

Lemma content_eq_spec v r ty c :
  tables_ok v r = true -> wf_obj c -> tpi_ok v ty c = true ->
  redact_content r ty c = Ok (spec_content v ty c).
Proof.
  intros Hok Hwf Htpi. pose proof (content_ok_all _ _ Hok ty) as Hc.
  unfold redact_content. rewrite apply_keys_norm. unfold content_ok in Hc. unfold spec_content.
  destruct (norm_ks r (content_spec ty)) as [t|], (content_keys v ty) as [ks|]; try discriminate;
    [|reflexivity].
  cbn [apply_tbl]. pose proof (table_eqb_sound _ _ Hc) as Heq.
  pose proof (wf_obj_sorted _ Hwf) as Hs.
  rewrite (apply_dec_nil _ _ Hs).
  (* no error *)
  assert (Hne : first_err (fun k => assoc_d k t) c = None).
  { apply first_err_none_iff. intros k x Hin Hd. rewrite Heq, spec_content_table_assoc in Hd.
    destruct (mem_str k ks); [|discriminate]. destruct (is_tpi v ty k) eqn:Et; [|discriminate].
    pose proof (is_tpi_key _ _ _ Et) as ->. unfold tpi_ok in Htpi. rewrite Et in Htpi.
    rewrite (In_lookup _ _ _ Hs Hin) in Htpi. destruct x; try discriminate. eauto. }
  rewrite Hne. cbv beta iota. apply f_equal. apply fmap_obj_ext. intros k x Hin. unfold rv_opt.
  rewrite Heq, spec_content_table_assoc. destruct (mem_str k ks); [|reflexivity].
  unfold content_value. destruct (is_tpi v ty k) eqn:Et; [|reflexivity].
  cbn [retain_value]. destruct x as [| | | | |t0]; try reflexivity.
  assert (Hwt : wf_obj t0) by (eapply wf_obj_In in Hin; eauto).
  unfold k_signed. rewrite (kfilter_single _ _ (wf_obj_sorted _ Hwt)).
  destruct (lookup s!"signed" t0); reflexivity.
Qed.

(** * 5. Whole-event redaction equals the spec. *)

Lemma top_decide v r k :
  tables_ok v r = true -> decide r top_arms k = if keeps_top v k then DKeep else DDrop.
Proof.
  intros H. unfold tables_ok in H. apply andb_true_iff in H as [H _].
  rewrite decide_norm, (table_eqb_sound _ _ H), keeps_top_table. reflexivity.
Qed.

Lemma keeps_top_content v : keeps_top v s!"content" = true.
Proof. reflexivity. Qed.

Theorem redact_eq_spec_gen v r ev :
  tables_ok v r = true -> wf_obj ev -> well_typed v ev = true ->
  redact r ev None = Ok (spec_redact v ev).
Proof.
  intros Hok Hwf Hwt. unfold redact, well_typed, spec_redact in *.
  change k_type with s!"type". change k_content with s!"content".
  destruct (lookup s!"type" ev) as [[| | |ty| |]|] eqn:Ety; try discriminate.
  pose proof (wf_obj_sorted _ Hwf) as Hs.
  assert (Htop : forall ev1, sorted ev1 ->
            apply_some r top_arms ev1 [] =
            Ok (fmap_obj (fun k x => if keeps_top v k then Some x else None) ev1)).
  { intros ev1 Hs1. unfold apply_some. rewrite (apply_dec_nil _ _ Hs1).
    assert (Hne : first_err (decide r top_arms) ev1 = None).
    { apply first_err_none_iff. intros k x _ Hd. rewrite (top_decide v) in Hd by assumption.
      destruct (keeps_top v k); discriminate. }
    rewrite Hne. cbv beta iota. apply f_equal. apply fmap_obj_ext. intros k x _. unfold rv_opt.
    rewrite (top_decide v) by assumption. destruct (keeps_top v k); reflexivity. }
  destruct (lookup s!"content" ev) as [[| | | | |c]|] eqn:Ec; try discriminate.
  - (* content is an object *)
    assert (Hwc : wf_obj c) by (eapply wf_obj_lookup in Ec; eauto).
    rewrite (content_eq_spec v r ty c Hok Hwc Hwt). cbn [obind].
    rewrite Htop by (apply sorted_insert; exact Hs). cbn [obind]. f_equal.
    apply sorted_ext.
    + apply sorted_fmap_obj, sorted_insert, Hs.
    + apply sorted_fmap_obj, Hs.
    + intros k. rewrite !lookup_fmap_obj by (try apply sorted_insert; exact Hs).
      rewrite lookup_insert. dse k s!"content".
      * rewrite Ec. reflexivity.
      * destruct (lookup k ev) as [x|]; [|reflexivity].
        destruct (keeps_top v k); [|reflexivity].
        destruct (str_eqb_spec k s!"content"); [congruence|reflexivity].
  - (* no content *)
    cbn [obind]. rewrite (Htop _ Hs). cbn [obind]. f_equal. apply fmap_obj_ext.
    intros k x Hin. destruct (keeps_top v k); [|reflexivity].
    dse k s!"content"; [|reflexivity].
    rewrite (In_lookup _ _ _ Hs Hin) in Ec. discriminate.
Qed.

(** Outside the inputs redaction is defined on, the model returns an error (never a value). *)
Theorem redact_ill_typed_gen v r ev b :
  tables_ok v r = true -> wf_obj ev -> well_typed v ev = false ->
  exists e, redact r ev b = Err e.
Proof.
  intros Hok Hwf Hwt. unfold redact, well_typed in *.
  change k_type with s!"type". change k_content with s!"content".
  destruct (lookup s!"type" ev) as [[| | |ty| |]|] eqn:Ety; try (eexists; reflexivity).
  destruct (lookup s!"content" ev) as [[| | | | |c]|] eqn:Ec; try discriminate; try (eexists; reflexivity).
  assert (Hwc : wf_obj c) by (eapply wf_obj_lookup in Ec; eauto).
  pose proof (wf_obj_sorted _ Hwc) as Hsc.
  pose proof (content_ok_all _ _ Hok ty) as Hc.
  unfold redact_content. rewrite apply_keys_norm. unfold content_ok in Hc.
  unfold tpi_ok in Hwt. destruct (is_tpi v ty s!"third_party_invite") eqn:Et; [|discriminate].
  destruct (lookup s!"third_party_invite" c) as [x|] eqn:El; [|discriminate].
  assert (Hmem : content_keys v ty = Some [s!"membership"; s!"join_authorised_via_users_server"; s!"third_party_invite"]).
  { unfold is_tpi in Et. apply andb_true_iff in Et as [Et _]. apply andb_true_iff in Et as [Ev Ety'].
    unfold content_keys. rewrite Ety'. replace (9 <=? v) with true by lia. now rewrite Ev. }
  rewrite Hmem in Hc.
  destruct (norm_ks r (content_spec ty)) as [t|]; [|discriminate].
  cbn [apply_tbl]. rewrite (apply_dec_nil _ _ Hsc).
  destruct (first_err (fun k => assoc_d k t) c) eqn:Ef; [eexists; reflexivity|].
  exfalso. rewrite first_err_none_iff in Ef.
  destruct (Ef _ _ (lookup_In _ _ _ El)) as [t0 ->]; [|discriminate].
  rewrite (table_eqb_sound _ _ Hc), spec_content_table_assoc. cbn [mem_str].
  rewrite str_eqb_refl, !orb_true_r. now rewrite Et.
Qed.

(** * 6. The regenerated tables satisfy the obligations for every room version. *)

Definition version_ok (v : N) : bool :=
  match rules_of v with Some R => tables_ok v (redaction R) | None => false end.

Lemma all_versions_ok : forallb version_ok all_versions = true.
Proof. vm_compute. reflexivity. Qed.

Lemma rules_of_versions v R : rules_of v = Some R -> In v all_versions.
Proof.
  unfold rules_of. intros H.
  repeat match type of H with
         | (if ?v =? ?n then _ else _) = _ =>
             destruct (N.eqb_spec v n) as [->|_]; [cbn; tauto|]
         end.
  discriminate.
Qed.

Theorem redact_eq_spec v R ev :
  rules_of v = Some R -> wf_obj ev -> well_typed v ev = true ->
  redact (redaction R) ev None = Ok (spec_redact v ev).
Proof.
  intros HR. apply redact_eq_spec_gen.
  pose proof all_versions_ok as H. rewrite forallb_forall in H.
  specialize (H v (rules_of_versions _ _ HR)). unfold version_ok in H. now rewrite HR in H.
Qed.

Theorem redact_ill_typed v R ev b :
  rules_of v = Some R -> wf_obj ev -> well_typed v ev = false ->
  exists e, redact (redaction R) ev b = Err e.
Proof.
  intros HR. apply redact_ill_typed_gen.
  pose proof all_versions_ok as H. rewrite forallb_forall in H.
  specialize (H v (rules_of_versions _ _ HR)). unfold version_ok in H. now rewrite HR in H.
Qed.

Theorem redact_content_eq_spec v R ty c :
  rules_of v = Some R -> wf_obj c -> tpi_ok v ty c = true ->
  redact_content (redaction R) ty c = Ok (spec_content v ty c).
Proof.
  intros HR. apply content_eq_spec.
  pose proof all_versions_ok as H. rewrite forallb_forall in H.
  specialize (H v (rules_of_versions _ _ HR)). unfold version_ok in H. now rewrite HR in H.
Qed.

(** * 7. `redacted_because` is the only datum ever added. *)

Theorem redact_because r ev b :
  redact r ev (Some b) =
  obind (redact r ev None) (fun e => Ok (with_because b e)).
Proof.
  unfold redact, with_because.
  change k_unsigned with s!"unsigned". change k_redacted_because with s!"redacted_because".
  destruct (lookup k_type ev) as [[| | |ty| |]|]; try reflexivity.
  destruct (match lookup k_content ev with
            | Some (JObj c) => _ | Some _ => _ | None => _ end) as [ev1|e|s]; try reflexivity.
  cbn [obind]. destruct (apply_some r top_arms ev1 []); reflexivity.
Qed.

(** Every entry of a redacted event is an entry of the original, except `content`, whose
    entries are entries of the original content or the reduced `third_party_invite`. *)
Theorem spec_redact_adds_nothing v ev k x :
  wf_obj ev -> lookup k (spec_redact v ev) = Some x ->
  (k <> s!"content" /\ lookup k ev = Some x) \/
  (k = s!"content" /\ exists x0, lookup k ev = Some x0 /\
     match x0, x with
     | JObj c0, JObj c => forall k' y, lookup k' c = Some y ->
          exists y0, lookup k' c0 = Some y0 /\
            (y = y0 \/ exists t sg, y0 = JObj t /\ lookup s!"signed" t = Some sg /\ y = JObj [(s!"signed", sg)])
     | _, _ => x = x0
     end).
Proof.
  intros Hwf. pose proof (wf_obj_sorted _ Hwf) as Hs. unfold spec_redact.
  destruct (lookup s!"type" ev) as [[| | |ty| |]|]; try discriminate.
  rewrite lookup_fmap_obj by exact Hs.
  destruct (lookup k ev) as [x0|] eqn:El; [|discriminate].
  destruct (keeps_top v k); [|discriminate].
  dse k s!"content".
  - intros Hx. right. split; [reflexivity|]. exists x0. split; [reflexivity|].
    destruct x0 as [| | | | |c0]; try (injection Hx as <-; reflexivity).
    injection Hx as <-. intros k' y Hy.
    assert (Hwc : wf_obj c0) by (eapply wf_obj_lookup in El; eauto).
    pose proof (wf_obj_sorted _ Hwc) as Hsc.
    unfold spec_content in Hy. destruct (content_keys v ty) as [ks|]; [|eauto].
    rewrite lookup_fmap_obj in Hy by exact Hsc.
    destruct (lookup k' c0) as [y0|]; [|discriminate]. exists y0. split; [reflexivity|].
    destruct (mem_str k' ks); [|discriminate]. unfold content_value in Hy.
    destruct (is_tpi v ty k'); [|injection Hy as <-; now left].
    destruct y0 as [| | | | |t]; try discriminate.
    destruct (lookup s!"signed" t) as [sg|] eqn:Esg; [|discriminate].
    injection Hy as <-. right. eauto.
  - intros [= <-]. left. split; [assumption|reflexivity].
Qed.

(** * 8. Idempotence (room versions 1-11). *)

Lemma content_value_idem v ty k x y :
  content_value v ty k x = Some y -> content_value v ty k y = Some y.
Proof.
  unfold content_value. destruct (is_tpi v ty k); [|congruence].
  destruct x as [| | | | |t]; try discriminate.
  destruct (lookup s!"signed" t) as [sg|]; [|discriminate]. intros [= <-].
  cbn. reflexivity.
Qed.

Lemma fmap_obj_idem (f : str -> json -> option json) (m : obj) :
  (forall k x y, f k x = Some y -> f k y = Some y) -> fmap_obj f (fmap_obj f m) = fmap_obj f m.
Proof.
  intros H. induction m as [|[k x] m IH]; cbn [fmap_obj]; [reflexivity|].
  destruct (f k x) as [y|] eqn:E; [|exact IH].
  cbn [fmap_obj]. rewrite (H _ _ _ E). now rewrite IH.
Qed.

Theorem spec_content_idem v ty c : spec_content v ty (spec_content v ty c) = spec_content v ty c.
Proof.
  unfold spec_content. destruct (content_keys v ty) as [ks|]; [|reflexivity].
  apply fmap_obj_idem. intros k x y. destruct (mem_str k ks); [apply content_value_idem|discriminate].
Qed.

Lemma spec_redact_type v ev ty :
  sorted ev -> lookup s!"type" ev = Some (JStr ty) -> lookup s!"type" (spec_redact v ev) = Some (JStr ty).
Proof.
  intros Hs Ety. unfold spec_redact. rewrite Ety, lookup_fmap_obj, Ety by exact Hs. reflexivity.
Qed.

Theorem spec_redact_idem v ev : wf_obj ev -> spec_redact v (spec_redact v ev) = spec_redact v ev.
Proof.
  intros Hwf. pose proof (wf_obj_sorted _ Hwf) as Hs.
  destruct (lookup s!"type" ev) as [[| | |ty| |]|] eqn:Ety;
    try (unfold spec_redact at 2 3; rewrite Ety; reflexivity).
  unfold spec_redact at 1. rewrite (spec_redact_type _ _ _ Hs Ety).
  unfold spec_redact. rewrite Ety. apply fmap_obj_idem.
  intros k x y. destruct (keeps_top v k); [|discriminate].
  destruct (str_eqb k s!"content"); [|congruence].
  destruct x; intros [= <-]; try reflexivity. now rewrite spec_content_idem.
Qed.

Lemma spec_content_wf v ty c : wf_obj c -> wf_obj (spec_content v ty c).
Proof.
  intros Hwf. unfold spec_content. destruct (content_keys v ty) as [ks|]; [|exact Hwf].
  apply wf_obj_intro; [apply sorted_fmap_obj, wf_obj_sorted, Hwf|].
  intros k y Hin. apply In_fmap_obj in Hin as [x [Hin Hf]].
  assert (Hwx : wf x) by (eapply wf_obj_In; eauto).
  destruct (mem_str k ks); [|discriminate]. unfold content_value in Hf.
  destruct (is_tpi v ty k); [|now injection Hf as <-].
  destruct x as [| | | | |t]; try discriminate.
  destruct (lookup s!"signed" t) as [sg|] eqn:Esg; [|discriminate]. injection Hf as <-.
  assert (Hw : wf sg) by (eapply (wf_obj_lookup t); eauto).
  unfold wf in *. cbn [wfb sortedb forallb snd andb]. now rewrite Hw.
Qed.

Lemma spec_redact_wf v ev : wf_obj ev -> wf_obj (spec_redact v ev).
Proof.
  intros Hwf. unfold spec_redact.
  destruct (lookup s!"type" ev) as [[| | |ty| |]|]; try reflexivity.
  apply wf_obj_intro; [apply sorted_fmap_obj, wf_obj_sorted, Hwf|].
  intros k y Hin. apply In_fmap_obj in Hin as [x [Hin Hf]].
  assert (Hwx : wf x) by (eapply wf_obj_In; eauto).
  destruct (keeps_top v k); [|discriminate].
  destruct (str_eqb k s!"content"); [|now injection Hf as <-].
  destruct x as [| | | | |c]; try (now injection Hf as <-).
  injection Hf as <-. apply (spec_content_wf v ty c). exact Hwx.
Qed.

Lemma spec_redact_well_typed v ev :
  wf_obj ev -> well_typed v ev = true -> well_typed v (spec_redact v ev) = true.
Proof.
  intros Hwf Hwt. pose proof (wf_obj_sorted _ Hwf) as Hs. unfold well_typed in *.
  destruct (lookup s!"type" ev) as [[| | |ty| |]|] eqn:Ety; try discriminate.
  rewrite (spec_redact_type _ _ _ Hs Ety).
  unfold spec_redact. rewrite Ety, lookup_fmap_obj by exact Hs.
  destruct (lookup s!"content" ev) as [[| | | | |c]|] eqn:Ec; try discriminate; [|reflexivity].
  cbn [keeps_top]. rewrite keeps_top_content, str_eqb_refl.
  (* tpi_ok of the redacted content *)
  unfold tpi_ok in *. destruct (is_tpi v ty s!"third_party_invite") eqn:Et; [|reflexivity].
  assert (Hwc : wf_obj c) by (eapply wf_obj_lookup in Ec; eauto).
  unfold spec_content. destruct (content_keys v ty) as [ks|]; [|exact Hwt].
  rewrite lookup_fmap_obj by (apply wf_obj_sorted, Hwc).
  destruct (lookup s!"third_party_invite" c) as [x|]; [|reflexivity].
  destruct (mem_str s!"third_party_invite" ks); [|reflexivity].
  unfold content_value. rewrite Et. destruct x as [| | | | |t]; try discriminate.
  destruct (lookup s!"signed" t); reflexivity.
Qed.

Theorem redact_idem v R ev ev' :
  rules_of v = Some R -> wf_obj ev ->
  redact (redaction R) ev None = Ok ev' -> redact (redaction R) ev' None = Ok ev'.
Proof.
  intros HR Hwf H. destruct (well_typed v ev) eqn:Hwt.
  - rewrite (redact_eq_spec v R ev HR Hwf Hwt) in H. injection H as <-.
    rewrite (redact_eq_spec v R _ HR (spec_redact_wf v ev Hwf) (spec_redact_well_typed v ev Hwf Hwt)).
    now rewrite spec_redact_idem.
  - destruct (redact_ill_typed v R ev None HR Hwf Hwt) as [e He]. congruence.
Qed.

(** * 9. The entry points agree (copy vs in-place is the same model function; the
    content-only entry point computes the `content` member of the full redaction). *)
Theorem content_entry_point_agrees r ev ty c ev' :
  sorted ev -> lookup k_type ev = Some (JStr ty) -> lookup k_content ev = Some (JObj c) ->
  decide r top_arms k_content = DKeep ->
  redact r ev None = Ok ev' ->
  exists c', redact_content r ty c = Ok c' /\ lookup k_content ev' = Some (JObj c').
Proof.
  intros Hs Ety Ec Hd H. unfold redact in H. rewrite Ety, Ec in H.
  destruct (redact_content r ty c) as [c'| |]; try discriminate. cbn [obind] in H.
  exists c'. split; [reflexivity|].
  assert (Hs1 : sorted (insert k_content (JObj c') ev)) by (apply sorted_insert, Hs).
  unfold apply_some in H. rewrite (apply_dec_nil _ _ Hs1) in H.
  destruct (first_err (decide r top_arms) (insert k_content (JObj c') ev)); try discriminate.
  cbn [obind] in H. injection H as <-.
  rewrite lookup_fmap_obj, lookup_insert, str_eqb_refl by exact Hs1.
  change (rv_opt (decide r top_arms) k_content (JObj c') = Some (JObj c')).
  unfold rv_opt. rewrite Hd. reflexivity.
Qed.
