(** C07.ProofsResolve — composition of the stage lemmas: the model of [resolve] equals the
    specification's algorithm with the two deviations of the open findings
    ([resolve_spec ... false false]); outside the classes of the findings that is the literal
    specification. *)
From Coq Require Import Permutation.
From Base Require Import Prelude.
From C07 Require Import Event Model Spec ProofsSort ProofsSets ProofsAuth ProofsGraph ProofsPower
  ProofsMainline ProofsClosure.
From Coq Require Import ZifyBool ZifyNat ZifyN.

(** * The iterative auth check only sees the state through lookups *)
Section IterAuthEquiv.
  Variable st : store.
  Variable auth : event -> (key -> option event) -> bool.
  Variable auth_types : event -> option (list key).
  Hypothesis Hlocal : auth_local auth auth_types.

  Lemma auth_env_equiv s s' e keys k : smap_equiv s s' ->
    auth_env st s e keys k = auth_env st s' e keys k.
  Proof. intros H. unfold auth_env. now rewrite (H k). Qed.

  Lemma allowed_in_equiv s s' e : smap_equiv s s' ->
    allowed_in st auth auth_types s e = allowed_in st auth auth_types s' e.
  Proof.
    intros H. unfold allowed_in. destruct (auth_types e) as [keys|] eqn:Et; [|reflexivity].
    apply (Hlocal e keys _ _ Et). intros k _. now apply auth_env_equiv.
  Qed.

  Lemma equiv_cons kv s s' : smap_equiv s s' -> smap_equiv (kv :: s) (kv :: s').
  Proof. intros H k. destruct kv as [k0 v]. cbn [klookup]. destruct (key_eqb k0 k); [reflexivity|apply H]. Qed.

  Lemma iterative_auth_prefix : forall L s s', smap_equiv s s' ->
    exists pre, iterative_auth st auth auth_types L s = pre ++ s
             /\ iterative_auth st auth auth_types L s' = pre ++ s'
             /\ forall k i, In (k, i) pre -> In i L.
  Proof.
    induction L as [|i L IH]; intros s s' He; cbn [iterative_auth].
    - exists []. split; [reflexivity|]. split; [reflexivity|]. intros k i [].
    - assert (Hskip : exists pre, iterative_auth st auth auth_types L s = pre ++ s
                 /\ iterative_auth st auth auth_types L s' = pre ++ s'
                 /\ forall k i', In (k, i') pre -> In i' (i :: L)).
      { destruct (IH s s' He) as (pre & H1 & H2 & H3). exists pre. split; [exact H1|]. split; [exact H2|].
        intros k i' H. right. eapply H3; eauto. }
      destruct (ev st i) as [e|]; [|exact Hskip].
      destruct (key_of e) as [k|]; [|exact Hskip].
      rewrite (allowed_in_equiv s s' e He).
      destruct (allowed_in st auth auth_types s' e); [|exact Hskip].
      destruct (IH ((k, i) :: s) ((k, i) :: s') (equiv_cons _ _ _ He)) as (pre & H1 & H2 & H3).
      exists (pre ++ [(k, i)]). rewrite <- !app_assoc. cbn [app]. split; [exact H1|]. split; [exact H2|].
      intros k' i' Hin. apply in_app_or in Hin as [Hin|[E|[]]]; [right; eapply H3; eauto|].
      inversion E; subst. now left.
  Qed.

  Lemma equiv_app pre s s' : smap_equiv s s' -> smap_equiv (pre ++ s) (pre ++ s').
  Proof. intros H k. rewrite !klookup_app. destruct (klookup k pre); [reflexivity|apply H]. Qed.
End IterAuthEquiv.

Lemma smap_equiv_refl s : smap_equiv s s.
Proof. intros k; reflexivity. Qed.

Lemma smap_equiv_sym a b : smap_equiv a b -> smap_equiv b a.
Proof. intros H k. symmetry. apply H. Qed.

Lemma smap_equiv_trans a b c : smap_equiv a b -> smap_equiv b c -> smap_equiv a c.
Proof. intros H1 H2 k. rewrite H1. apply H2. Qed.

(** * The mainline ordering is a function of the set of events *)
Lemma Permutation_flat_map_local {A B} (f : A -> list B) l l' :
  Permutation l l' -> Permutation (flat_map f l) (flat_map f l').
Proof.
  induction 1; cbn [flat_map].
  - constructor.
  - now apply Permutation_app_head.
  - rewrite !app_assoc. apply Permutation_app_tail. apply Permutation_app_comm.
  - eapply Permutation_trans; eauto.
Qed.

Lemma mainline_ordering_perm (st : store) (rank : id -> nat) ml l l' :
  (forall i e a, fetch st i = Some e -> In a (e_auth e) -> (rank a < rank i)%nat) ->
  (forall i, known st i = true -> (rank i < List.length st)%nat) ->
  (forall i e a, fetch st i = Some e -> In a (e_auth e) -> known st a = true) ->
  NoDup ml -> Permutation l l' ->
  mainline_ordering st false ml l = mainline_ordering st false ml l'.
Proof.
  intros Hrank Hbound Hak Hml Hp.
  assert (G : forall x, mainline_ordering st false ml x
                        = map snd (sort_okeys (map (keyf st ml) (evs st x)))).
  { intros x. rewrite (sort_corr st rank Hrank Hbound Hak ml Hml), map_map.
    unfold mainline_ordering, evs, ev. apply map_ext. reflexivity. }
  rewrite !G. f_equal. apply sort_okeys_perm. apply Permutation_map.
  unfold evs. now apply Permutation_flat_map_local.
Qed.

(** * Small facts used by the composition *)
Lemma klookup_functional_perm (l l' : smap) k :
  (forall v v', In (k, v) l -> In (k, v') l -> v = v') -> Permutation l l' ->
  klookup k l = klookup k l'.
Proof.
  intros Hf Hp. destruct (klookup k l) as [v|] eqn:E.
  - symmetry. apply klookup_unique.
    + intros v' Hv'. symmetry. apply Hf; [now apply klookup_In|].
      eapply Permutation_in; [apply Permutation_sym; exact Hp|exact Hv'].
    + eapply Permutation_in; [exact Hp|now apply klookup_In].
  - symmetry. apply klookup_None. apply klookup_None in E. intros H. apply E.
    eapply Permutation_in; [apply Permutation_map, Permutation_sym; exact Hp|exact H].
Qed.

Lemma mem_str_equiv x l l' : (forall y, In y l <-> In y l') -> mem_str x l = mem_str x l'.
Proof.
  intros H. destruct (mem_str x l) eqn:E1, (mem_str x l') eqn:E2; try reflexivity.
  - apply mem_str_In, H, mem_str_In in E1. congruence.
  - apply mem_str_In, H, mem_str_In in E2. congruence.
Qed.

Lemma is_power_event_id_eq st i : is_power_event_id st i = is_power_id st i.
Proof.
  unfold is_power_event_id, is_power_id, ev. destruct (fetch st i); [apply is_power_event_eq_spec|reflexivity].
Qed.

Lemma NoDup_filter_local {A} (f : A -> bool) l : NoDup l -> NoDup (filter f l).
Proof.
  induction 1 as [|x l Hx Hl IH]; cbn [filter]; [constructor|].
  destruct (f x); [|exact IH]. constructor; [|exact IH]. intros H. apply Hx. now apply filter_In in H as [H _].
Qed.

Lemma ml_insert_In st b ml x l y : In y (ml_insert st b ml x l) <-> y = x \/ In y l.
Proof.
  induction l as [|z l IH]; cbn [ml_insert In]; [intuition|].
  destruct (ml_before st b ml x z); cbn [In]; [intuition|]. rewrite IH. intuition.
Qed.

Lemma mainline_ordering_In st b ml l i :
  In i (mainline_ordering st b ml l) -> exists j e, In j l /\ fetch st j = Some e /\ e_id e = i.
Proof.
  unfold mainline_ordering. rewrite in_map_iff. intros (e & Ee & He).
  assert (G : forall evl, In e (fold_right (ml_insert st b ml) [] evl) -> In e evl).
  { induction evl as [|x evl IH]; cbn [fold_right]; [auto|]. rewrite ml_insert_In. intros [->|H]; [now left|right; auto]. }
  apply G in He. apply in_flat_map in He as (j & Hj & Hin). unfold ev in Hin.
  destruct (fetch st j) as [e'|] eqn:Ef; [|destruct Hin]. destruct Hin as [<-|[]]. eauto.
Qed.

(** * The composition *)
Section Resolve.
  Variable st : store.
  Variable auth : event -> (key -> option event) -> bool.
  Variable auth_types : event -> option (list key).
  (** the store is an acyclic auth graph whose cited events are all known *)
  Variable rank : id -> nat.
  Hypothesis Hrank : forall i e a, fetch st i = Some e -> In a (e_auth e) -> (rank a < rank i)%nat.
  Hypothesis Hbound : forall i, known st i = true -> (rank i < List.length st)%nat.
  Hypothesis Hak : forall i e a, fetch st i = Some e -> In a (e_auth e) -> known st a = true.
  Hypothesis Hstate : all_state_events st.
  Hypothesis Huniq : forall i e, fetch st i = Some e -> auth_keys_unique st e.
  Hypothesis Hlocal : auth_local auth auth_types.
  (** H_create *)
  Variable c : id.
  Variable ce : event.
  Variable cr : str.
  Hypothesis Hc : h_create st c ce cr.
  Hypothesis Hwf : pl_wf st.
  Hypothesis Hcite : forall i e, fetch st i = Some e -> i <> c -> In c (e_auth e).
  (** the fuel of the graph traversal suffices (it does; not proved here) *)
  Hypothesis Hfuel : forall full control, build_graph st full control <> None.
  (** the inputs *)
  Variable sets : list smap.
  Variable chains : list (list id).
  Hypothesis Hmaps : maps sets.
  Hypothesis Hch : forall ch, In ch chains -> NoDup ch.
  Hypothesis Hsk : forall s k i, In s sets -> In (k, i) s -> known st i = true.
  Hypothesis Hchains : conflicted_events sets = [] -> auth_difference chains = [].
  Variable o : oracles.
  Hypothesis Ho : perm_oracles o.

  Notation specdev := (resolve_spec st auth auth_types false false).

  Lemma good_nodes n : known st n = true -> good_node st c n.
  Proof.
    intros Hk. apply (known_fetch st) in Hk as (e & Ef). exists e. split; [exact Ef|].
    split; [eapply Huniq; eauto|]. intros Hn. eapply Hcite; eauto.
  Qed.

  Lemma power_key_some n : known st n = true -> exists k, power_key st n = Some k /\ snd k = n.
  Proof.
    intros Hk. apply (known_fetch st) in Hk as (e & Ef). unfold power_key, ev. rewrite Ef.
    destruct (sender_power st e) as [p|] eqn:Es; [eauto|]. exfalso. eapply sender_power_some; eauto.
  Qed.

  Lemma power_key_snd n k : power_key st n = Some k -> snd k = n.
  Proof.
    unfold power_key, ev. destruct (fetch st n) as [e|]; [|discriminate].
    destruct (sender_power st e); [intros [= <-]; reflexivity|discriminate].
  Qed.

  Theorem resolve_eq_spec_dev :
    exists m R, resolve st auth auth_types o sets chains = Ok m
                /\ specdev sets chains = Some R /\ smap_equiv m R.
  Proof.
    unfold resolve, resolve_spec.
    set (clean := fst (separate o sets)). set (conf := snd (separate o sets)).
    set (unc := unconflicted sets).
    assert (Hcu : smap_equiv clean unc).
    { intros k. unfold clean, unc. now rewrite (separate_clean_spec o Ho sets Hmaps), unconflicted_lookup. }
    set (full_s := full_conflicted st sets chains).
    destruct (is_nil conf) eqn:Enil.
    - (* nothing is conflicted *)
      apply is_nil_true in Enil.
      assert (Hce : conflicted_events sets = []).
      { destruct (conflicted_events sets) as [|x l] eqn:E; [reflexivity|exfalso].
        assert (H : In x (cvals conf)) by (apply (separate_conflicted_spec o Ho sets Hmaps); rewrite E; now left).
        rewrite Enil in H. destruct H. }
      assert (Hfs : full_s = []) by (unfold full_s, full_conflicted; now rewrite Hce, (Hchains Hce)).
      rewrite Hfs. exists clean, (unc ++ unc). split; [reflexivity|]. split; [reflexivity|].
      intros k. rewrite klookup_app, (Hcu k). destruct (klookup k unc); reflexivity.
    - (* the general case *)
      set (full_m := all_conflicted st o chains conf).
      assert (Hfull : forall x, In x full_m <-> In x full_s)
        by (intros x; apply (full_conflicted_eq_spec st o sets chains Ho Hmaps Hch)).
      assert (Hfm_nd : NoDup full_m) by apply all_conflicted_nodup.
      assert (Hfs_nd : NoDup full_s) by (apply NoDup_filter_local, dedup_NoDup).
      assert (Hfknown : forall x, In x full_m -> known st x = true) by (intros x; apply all_conflicted_known).
      assert (Hmem : forall a, mem_str a full_m = mem_str a full_s) by (intros a; now apply mem_str_equiv).
      set (control := filter (is_power_event_id st) (o s_ctrl id full_m)).
      assert (Hctl : forall n, In n control <-> In n full_m /\ is_power_id st n = true).
      { intros n. unfold control. rewrite filter_In, (o_In o Ho), is_power_event_id_eq. tauto. }
      destruct (build_graph st full_m control) as [g|] eqn:Eg; [|exfalso; eapply Hfuel; eauto].
      destruct (build_graph_spec st full_m control g Eg) as (Hnd & Hnodes & Hedges).
      assert (Hcf : incl control full_m) by (intros n Hn; now apply Hctl in Hn).
      assert (Hgn : forall n, In n (map fst g) -> In n full_m).
      { intros n Hn. eapply nodes_in_full; eauto. }
      (* the nodes of the graph are the power closure of the specification *)
      set (xs := power_closure st false full_s).
      assert (Hxs_in : forall n, In n xs <-> In n full_s /\ (is_power_id st n = true \/
                 exists p, In p full_s /\ is_power_id st p = true /\ reaches st (fun a => mem_str a full_s) p n)).
      { intros n. unfold xs, power_closure. rewrite filter_In, orb_true_iff, mem_str_In, in_flat_map.
        split; intros [Hn H]; (split; [exact Hn|]); destruct H as [H|(p & Hp & Hr)]; auto; right; exists p.
        - apply filter_In in Hp as [Hp1 Hp2]. split; [exact Hp1|]. split; [exact Hp2|].
          now apply (chain_within_correct st rank Hrank Hbound).
        - destruct Hr as [Hp2 Hr]. split; [apply filter_In; auto|]. now apply (chain_within_correct st rank Hrank Hbound). }
      assert (Hxs : forall n, In n (map fst g) <-> In n xs).
      { intros n. rewrite Hnodes, Hxs_in. split.
        - intros [Hn|(r & Hr & Hreach)].
          + apply Hctl in Hn as [Hn Hp]. split; [now apply Hfull|now left].
          + apply Hctl in Hr as [Hr Hp].
            assert (Hreach' : reaches st (fun a => mem_str a full_s) r n) by (eapply reaches_ext; [|exact Hreach]; apply Hmem).
            split; [apply mem_str_In; apply (reaches_allowed _ _ _ _ Hreach')|].
            right. exists r. split; [now apply Hfull|auto].
        - intros [Hn [Hp|(p & Hp & Hpp & Hreach)]].
          + left. apply Hctl. split; [now apply Hfull|exact Hp].
          + right. exists p. split; [apply Hctl; split; [now apply Hfull|exact Hpp]|].
            eapply reaches_ext; [|exact Hreach]. intros a. symmetry. apply Hmem. }
      assert (Hxs_nd : NoDup xs) by (apply NoDup_filter_local; exact Hfs_nd).
      assert (Hperm : Permutation (map fst g) xs) by (apply NoDup_Permutation; auto).
      assert (Hxs_full : forall n, In n xs -> In n full_s) by (intros n Hn; now apply Hxs_in in Hn).
      assert (Hxs_known : forall n, In n xs -> known st n = true).
      { intros n Hn. apply Hfknown, Hfull. now apply Hxs_full. }
      (* the sort *)
      rewrite (rtps_spec st c ce cr Hc Hwf o Ho full_m control g Eg).
      2:{ intros n Hn. apply good_nodes. apply Hfknown. now apply Hgn. }
      2:{ exact Hcf. }
      set (sedges := fun n => filter (fun a => mem_str a xs) (auths_of st n)).
      assert (Hsort : spec_sort (map fst g) (spec_edges st full_m) (power_key st) = power_ordering st xs).
      { unfold power_ordering. apply spec_sort_ext; [exact Hperm|].
        intros n d Hn. unfold spec_edges. rewrite !filter_In, !mem_str_In. split.
        - intros [Ha Hf]. split; [exact Ha|]. apply Hxs. apply Hnodes.
          apply Hnodes in Hn as [Hn|(r & Hr & Hreach)].
          + right. exists n. split; [exact Hn|]. apply reaches_step; [exact Ha|now apply mem_str_In].
          + right. exists r. split; [exact Hr|]. eapply reaches_trans; eauto. now apply mem_str_In.
        - intros [Ha Hx]. split; [exact Ha|]. apply Hfull. now apply Hxs_full. }
      rewrite Hsort.
      destruct (spec_sort_complete xs sedges (power_key st) power_key_snd Hxs_nd) with (rank := rank)
        as (L & EL & HLp & _).
      { intros n Hn. destruct (power_key_some n (Hxs_known n Hn)) as (k & Hk & _). congruence. }
      { intros n d _ Hd. unfold sedges in Hd. apply filter_In in Hd as [_ Hd]. now apply mem_str_In. }
      { intros n d Hn Hd. unfold sedges in Hd. apply filter_In in Hd as [Hd _].
        unfold auths_of, ev in Hd. destruct (fetch st n) as [e|] eqn:Ef; [|destruct Hd]. eapply Hrank; eauto. }
      fold sedges in EL. unfold power_ordering. fold sedges. rewrite EL.
      assert (HL_in : forall i, In i L <-> In i xs).
      { intros i; split; apply Permutation_in; [exact HLp|now apply Permutation_sym]. }
      assert (HL_nd : NoDup L) by (eapply Permutation_NoDup; [apply Permutation_sym; exact HLp|exact Hxs_nd]).
      (* first pass of the iterative auth check *)
      assert (Hiter : forall (evl : list id) s, (forall i, In i evl -> known st i = true) ->
                 iterative_auth_check st auth auth_types evl s = Ok (iterative_auth st auth auth_types evl s)).
      { intros evl s Hk. apply (iterative_auth_eq_spec st auth auth_types Hstate Hlocal).
        intros i Hi. pose proof (Hk i Hi) as Hki. apply (known_fetch st) in Hki as (e & Ef).
        exists e. split; [exact Ef|eapply Huniq; eauto]. }
      rewrite (Hiter L clean) by (intros i Hi; apply Hxs_known; now apply HL_in).
      destruct (iterative_auth_prefix st auth auth_types Hlocal L clean unc Hcu) as (pre1 & Ep1 & Ep1' & Hpre1).
      rewrite Ep1, Ep1'.
      set (rc := pre1 ++ clean). set (partial := pre1 ++ unc).
      assert (Hrc : smap_equiv rc partial) by (apply equiv_app; exact Hcu).
      (* what is left for the mainline pass *)
      set (to_resolve := filter (fun i => negb (mem_str i L)) (o s_left id full_m)).
      set (rest := filter (fun i => negb (mem_str i xs)) full_s).
      assert (Hleft : Permutation to_resolve rest).
      { apply NoDup_Permutation.
        - apply NoDup_filter_local. eapply Permutation_NoDup; [apply Permutation_sym, Ho|exact Hfm_nd].
        - now apply NoDup_filter_local.
        - intros i. unfold to_resolve, rest. rewrite !filter_In, (o_In o Ho), Hfull.
          rewrite (mem_str_equiv i L xs HL_in). tauto. }
      assert (Hrest_known : forall i, In i rest -> known st i = true).
      { intros i Hi. apply filter_In in Hi as [Hi _]. apply Hfknown. now apply Hfull. }
      assert (Htr_known : forall i, In i to_resolve -> known st i = true).
      { intros i Hi. apply Hrest_known. eapply Permutation_in; eauto. }
      assert (Htr_nd : NoDup to_resolve).
      { apply NoDup_filter_local. eapply Permutation_NoDup; [apply Permutation_sym, Ho|exact Hfm_nd]. }
      (* the resolved power-levels event *)
      rewrite (Hrc (t_power_levels, [])).
      set (pe := klookup (t_power_levels, []) partial).
      assert (Hpe : forall p, pe = Some p -> known st p = true).
      { intros p Hp. unfold pe, partial in Hp. rewrite klookup_app in Hp.
        destruct (klookup (t_power_levels, []) pre1) as [q|] eqn:Eq.
        - inversion Hp; subst q. apply klookup_In in Eq. apply Hxs_known, HL_in. eapply Hpre1; eauto.
        - unfold unc in Hp. rewrite unconflicted_lookup in Hp. apply same_everywhere_spec in Hp as [Hne Hall].
          destruct sets as [|s0 r0]; [congruence|]. eapply (Hsk s0); [now left|].
          apply klookup_In. apply Hall. now left. }
      rewrite (mainline_sort_eq st rank o to_resolve pe Hrank Hbound Hak Ho Htr_nd Htr_known Hpe).
      set (ml := mainline st pe).
      assert (Hml_nd : NoDup ml).
      { unfold ml, mainline. destruct pe as [p|]; [|constructor].
        assert (Hkp : known st p = true) by now apply Hpe. apply (known_fetch st) in Hkp as (e & Ef).
        eapply pl_walk_nodup; eauto. }
      rewrite (mainline_ordering_perm st rank ml to_resolve rest Hrank Hbound Hak Hml_nd Hleft).
      set (L2 := mainline_ordering st false ml rest).
      assert (HL2 : forall i, In i L2 -> known st i = true).
      { intros i Hi. apply mainline_ordering_In in Hi as (j & e & Hj & Ef & Eid).
        pose proof (fetch_id _ _ _ Ef) as Hid. rewrite <- Eid, Hid. now apply Hrest_known. }
      rewrite (Hiter L2 rc HL2).
      destruct (iterative_auth_prefix st auth auth_types Hlocal L2 rc partial Hrc) as (pre2 & Ep2 & Ep2' & _).
      rewrite Ep2, Ep2'.
      exists (o s_clean _ clean ++ pre2 ++ rc), (overlay unc (pre2 ++ partial)).
      split; [reflexivity|]. split; [reflexivity|].
      intros k. unfold overlay. rewrite !klookup_app.
      assert (Hoc : klookup k (o s_clean _ clean) = klookup k unc).
      { rewrite <- (Hcu k). symmetry. apply klookup_functional_perm; [|apply Permutation_sym, Ho].
        intros v v' Hv Hv'. apply (separate_clean_functional o Ho sets Hmaps) in Hv, Hv'. congruence. }
      rewrite Hoc. destruct (klookup k unc); [reflexivity|].
      destruct (klookup k pre2); [reflexivity|apply Hrc].
  Qed.
End Resolve.
