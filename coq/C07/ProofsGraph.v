(** C07.ProofsGraph — the graph built by [add_event_and_auth_chain_to_graph] for the power
    events is: nodes = the events reachable from them through the full conflicted set, edges =
    the auth events that lie in the full conflicted set.  No property of the enumeration order
    or of the order of the roots enters the characterisation. *)
From Coq Require Import Permutation.
From Base Require Import Prelude.
From C07 Require Import Event Model Spec ProofsSort ProofsSets ProofsAuth.

Definition has_edge (g : graph) (n d : id) : Prop := exists es, ilookup n g = Some es /\ In d es.

Lemma g_mem_In n g : g_mem n g = true <-> In n (map fst g).
Proof.
  unfold g_mem. destruct (ilookup n g) as [es|] eqn:E; cbn [is_some].
  - split; [intros _; eapply ilookup_Some_fst; eauto|reflexivity].
  - apply ilookup_None in E. split; [discriminate|contradiction].
Qed.

Lemma g_add_edge_fst n a g : map fst (g_add_edge n a g) = map fst g.
Proof.
  induction g as [|[m es] g IH]; cbn [g_add_edge map fst]; [reflexivity|].
  destruct (str_eqb m n); cbn [map fst]; [reflexivity|now rewrite IH].
Qed.

Definition add_id (a : id) (es : list id) : list id := if mem_str a es then es else es ++ [a].

Lemma add_id_In a es x : In x (add_id a es) <-> x = a \/ In x es.
Proof.
  unfold add_id. destruct (mem_str a es) eqn:E.
  - apply mem_str_In in E. split; [auto|intros [->|H]; auto].
  - rewrite in_app_iff. cbn [In]. intuition.
Qed.

Lemma g_add_edge_lookup n a g q :
  ilookup q (g_add_edge n a g) = if str_eqb n q then option_map (add_id a) (ilookup q g) else ilookup q g.
Proof.
  induction g as [|[m es] g IH]; cbn [g_add_edge ilookup].
  - destruct (str_eqb n q); reflexivity.
  - destruct (str_eqb_spec m n) as [E|E]; cbn [ilookup].
    + subst m. destruct (str_eqb_spec n q) as [E2|E2]; reflexivity.
    + destruct (str_eqb_spec m q) as [E2|E2].
      * subst q. destruct (str_eqb_spec n m); [congruence|reflexivity].
      * exact IH.
Qed.

Lemma ilookup_app_last {V} (g : list (id * V)) n v q :
  ilookup q (g ++ [(n, v)]) = match ilookup q g with Some x => Some x | None => if str_eqb n q then Some v else None end.
Proof.
  induction g as [|[m w] g IH]; cbn [app ilookup]; [reflexivity|]. destruct (str_eqb m q); [reflexivity|exact IH].
Qed.

Lemma g_entry_nodes n g x : In x (map fst (g_entry n g)) <-> x = n \/ In x (map fst g).
Proof.
  unfold g_entry. destruct (g_mem n g) eqn:E.
  - apply g_mem_In in E. split; [auto|intros [->|H]; auto].
  - rewrite map_app, in_app_iff. cbn [map fst In]. intuition.
Qed.

Lemma g_entry_nodup n g : NoDup (map fst g) -> NoDup (map fst (g_entry n g)).
Proof.
  intros H. unfold g_entry. destruct (g_mem n g) eqn:E; [exact H|].
  rewrite map_app. cbn [map fst]. apply NoDup_app_snoc; [exact H|].
  intros Hin. apply g_mem_In in Hin. congruence.
Qed.

Lemma g_entry_edge n g a d : has_edge (g_entry n g) a d <-> has_edge g a d.
Proof.
  unfold has_edge, g_entry. destruct (g_mem n g) eqn:E; [tauto|].
  split; intros (es & H1 & H2); rewrite ilookup_app_last in *.
  - destruct (ilookup a g) as [x|] eqn:El; [exists es; split; [congruence|exact H2]|].
    destruct (str_eqb n a); [inversion H1; subst; destruct H2|discriminate].
  - exists es. rewrite H1. auto.
Qed.

Section Graph.
  Variable st : store.
  Variable full : list id.

  Notation inF := (fun a => mem_str a full).
  Notation reach := (reaches st inF).

  Lemma auth_ids_eq i : auth_ids st i = auths_of st i.
  Proof. reflexivity. Qed.

  (** ** One visit *)
  Definition visit_step (eid : id) (sg : list id * graph) (aid : id) : list id * graph :=
    if mem_str aid full then
      (if g_mem aid (snd sg) then fst sg else aid :: fst sg, g_add_edge eid aid (snd sg))
    else sg.

  Lemma visit_fold eid : forall (auths stk : list id) (g : graph),
    In eid (map fst g) ->
    let r := fold_left (visit_step eid) auths (stk, g) in
    map fst (snd r) = map fst g
    /\ (forall q, q <> eid -> ilookup q (snd r) = ilookup q g)
    /\ (forall d, has_edge (snd r) eid d <-> has_edge g eid d \/ (In d auths /\ In d full))
    /\ (exists pushed, fst r = pushed ++ stk /\ forall x, In x pushed -> In x auths /\ In x full)
    /\ (forall d, In d auths -> In d full -> In d (map fst g) \/ In d (fst r)).
  Proof.
    induction auths as [|a auths IH]; intros stk g Heid; cbn [fold_left].
    - cbn [fst snd]. repeat split; auto.
      + intros [H|[[] _]]; exact H.
      + exists []. split; [reflexivity|intros x []].
      + intros d [].
    - destruct (mem_str a full) eqn:Ea.
      + assert (Hs : visit_step eid (stk, g) a
                     = (if g_mem a g then stk else a :: stk, g_add_edge eid a g))
          by (unfold visit_step; cbn [fst snd]; now rewrite Ea).
        rewrite Hs. clear Hs.
        set (stk1 := if g_mem a g then stk else a :: stk). set (g1 := g_add_edge eid a g).
        assert (Hfst1 : map fst g1 = map fst g) by apply g_add_edge_fst.
        destruct (IH stk1 g1) as (H1 & H2 & H3 & (pushed & Hp1 & Hp2) & H5); [now rewrite Hfst1|].
        cbn zeta in *. split; [rewrite H1; exact Hfst1|]. split; [|split; [|split]].
        * intros q Hq. rewrite H2 by exact Hq. unfold g1. rewrite g_add_edge_lookup.
          destruct (str_eqb_spec eid q); [congruence|reflexivity].
        * intros d. rewrite H3. unfold has_edge at 1. unfold g1. rewrite g_add_edge_lookup, str_eqb_refl.
          apply mem_str_In in Ea. split.
          -- intros [(es & He & Hd)|[Hd Hf]].
             ++ destruct (ilookup eid g) as [es0|] eqn:El; [|discriminate]. cbn [option_map] in He.
                inversion He; subst es. apply add_id_In in Hd as [->|Hd]; [right; split; [now left|exact Ea]|].
                left. exists es0. auto.
             ++ right. split; [now right|exact Hf].
          -- intros [(es & He & Hd)|[[<-|Hd] Hf]].
             ++ left. exists (add_id a es). rewrite He. split; [reflexivity|]. apply add_id_In. now right.
             ++ destruct (ilookup eid g) as [es0|] eqn:El.
                ** left. exists (add_id a es0). split; [reflexivity|]. apply add_id_In. now left.
                ** apply ilookup_None in El. contradiction.
             ++ right. auto.
        * unfold stk1 in *. clear stk1. destruct (g_mem a g) eqn:Eg.
          -- exists pushed. split; [exact Hp1|]. intros x Hx. destruct (Hp2 x Hx). split; [now right|auto].
          -- exists (pushed ++ [a]). split; [rewrite Hp1, <- app_assoc; reflexivity|].
             intros x Hx. apply in_app_or in Hx as [Hx|[<-|[]]].
             ++ destruct (Hp2 x Hx). split; [now right|auto].
             ++ split; [now left|now apply mem_str_In].
        * intros d [E|Hd] Hf.
          -- subst d. unfold stk1 in *. clear stk1. destruct (g_mem a g) eqn:Eg; [left; now apply g_mem_In|].
             right. rewrite Hp1. apply in_or_app. right. now left.
          -- rewrite <- Hfst1. now apply H5.
      + assert (Hs : visit_step eid (stk, g) a = (stk, g)) by (unfold visit_step; now rewrite Ea).
        rewrite Hs. clear Hs.
        destruct (IH stk g Heid) as (H1 & H2 & H3 & (pushed & Hp1 & Hp2) & H5). cbn zeta in *.
        split; [exact H1|]. split; [exact H2|]. split; [|split].
        * intros d. rewrite H3. split; [intros [H|[Hd Hf]]; [now left|right; split; [now right|exact Hf]]|].
          intros [H|[[<-|Hd] Hf]]; [now left| |right; auto].
          apply mem_str_In in Hf. congruence.
        * exists pushed. split; [exact Hp1|]. intros x Hx. destruct (Hp2 x Hx). split; [now right|auto].
        * intros d [<-|Hd] Hf; [apply mem_str_In in Hf; congruence|now apply H5].
  Qed.

  Lemma visit_eq eid stk g :
    visit st full eid stk g = fold_left (visit_step eid) (auth_ids st eid) (stk, g_entry eid g).
  Proof. reflexivity. Qed.

  (** ** The invariant of the traversal *)
  Record ginv (roots stack : list id) (g : graph) : Prop := {
    gi_nodup : NoDup (map fst g);
    gi_sound : forall n, In n (map fst g) \/ In n stack ->
                         In n roots \/ exists r, In r roots /\ reach r n;
    gi_edges : forall n d, has_edge g n d -> In d (auth_ids st n) /\ In d full;
    gi_full : forall n d, In n (map fst g) -> In d (auth_ids st n) -> In d full -> has_edge g n d;
    gi_closed : forall n d, has_edge g n d -> In d (map fst g) \/ In d stack
  }.

  Lemma has_edge_node g n d : has_edge g n d -> In n (map fst g).
  Proof. intros (es & H & _). eapply ilookup_Some_fst; eauto. Qed.

  Lemma ginv_visit roots eid rest g :
    ginv roots (eid :: rest) g ->
    ginv roots (fst (visit st full eid rest g)) (snd (visit st full eid rest g))
    /\ (forall n, In n (map fst g) \/ In n (eid :: rest) ->
                  In n (map fst (snd (visit st full eid rest g))) \/ In n (fst (visit st full eid rest g))).
  Proof.
    intros I. rewrite visit_eq.
    assert (Heid : In eid (map fst (g_entry eid g))) by (apply g_entry_nodes; now left).
    destruct (visit_fold eid (auth_ids st eid) rest (g_entry eid g) Heid)
      as (H1 & H2 & H3 & (pushed & Hp1 & Hp2) & H5).
    set (r := fold_left (visit_step eid) (auth_ids st eid) (rest, g_entry eid g)) in *. cbn zeta in *.
    assert (Hnodes : forall x, In x (map fst (snd r)) <-> x = eid \/ In x (map fst g)).
    { intros x. rewrite H1. apply g_entry_nodes. }
    assert (Hroot : In eid roots \/ exists r0, In r0 roots /\ reach r0 eid).
    { apply (gi_sound _ _ _ I). right. now left. }
    assert (Hedge_other : forall n d, n <> eid -> (has_edge (snd r) n d <-> has_edge g n d)).
    { intros n d Hn. unfold has_edge. rewrite (H2 n Hn). apply g_entry_edge. }
    split; [constructor|].
    - rewrite H1. apply g_entry_nodup. eapply gi_nodup; eauto.
    - intros n [Hn|Hn].
      + apply Hnodes in Hn as [->|Hn]; [exact Hroot|]. apply (gi_sound _ _ _ I). now left.
      + rewrite Hp1 in Hn. apply in_app_or in Hn as [Hn|Hn].
        * destruct (Hp2 n Hn) as [Ha Hf]. apply mem_str_In in Hf.
          destruct Hroot as [Hr|(r0 & Hr & Hreach)].
          -- right. exists eid. split; [exact Hr|]. now apply reaches_step.
          -- right. exists r0. split; [exact Hr|]. eapply reaches_trans; eauto.
        * apply (gi_sound _ _ _ I). right. now right.
    - intros n d He. destruct (str_eqb_spec n eid) as [E|E].
      + subst n. apply H3 in He as [He|[Ha Hf]]; [|split; assumption].
        apply (proj1 (g_entry_edge eid g eid d)) in He. exact (gi_edges _ _ _ I _ _ He).
      + apply (Hedge_other n d E) in He. exact (gi_edges _ _ _ I _ _ He).
    - intros n d Hn Ha Hf. destruct (str_eqb_spec n eid) as [E|E].
      + subst n. apply H3. right. auto.
      + apply (Hedge_other n d E). apply Hnodes in Hn as [Hn|Hn]; [congruence|]. eapply gi_full; eauto.
    - intros n d He. destruct (str_eqb_spec n eid) as [E|E].
      + subst n. apply H3 in He as [He|[Ha Hf]].
        * apply (proj1 (g_entry_edge eid g eid d)) in He. destruct (gi_closed _ _ _ I _ _ He) as [Hd|[<-|Hd]].
          -- left. apply Hnodes. now right.
          -- left. apply Hnodes. now left.
          -- right. rewrite Hp1. apply in_or_app. now right.
        * destruct (H5 d Ha Hf) as [Hd|Hd]; [left; now rewrite H1|right; exact Hd].
      + apply (Hedge_other n d E) in He. destruct (gi_closed _ _ _ I _ _ He) as [Hd|[<-|Hd]].
        * left. apply Hnodes. now right.
        * left. apply Hnodes. now left.
        * right. rewrite Hp1. apply in_or_app. now right.
    - intros n [Hn|[<-|Hn]].
      + left. apply Hnodes. now right.
      + left. apply Hnodes. now left.
      + right. rewrite Hp1. apply in_or_app. now right.
  Qed.

  Lemma dfs_inv roots : forall fuel stack g gf,
    ginv roots stack g -> dfs st fuel full stack g = Some gf ->
    ginv roots [] gf /\ forall n, In n (map fst g) \/ In n stack -> In n (map fst gf).
  Proof.
    induction fuel as [|f IH]; intros stack g gf I E.
    - destruct stack as [|eid rest]; cbn [dfs] in E; [|discriminate]. inversion E; subst gf.
      split; [exact I|]. intros n [H|[]]; exact H.
    - destruct stack as [|eid rest]; cbn [dfs] in E.
      + inversion E; subst gf. split; [exact I|]. intros n [H|[]]; exact H.
      + destruct (ginv_visit roots eid rest g I) as [I' Hmono].
        destruct (IH _ _ _ I' E) as [If Hf]. split; [exact If|].
        intros n Hn. apply Hf. now apply Hmono.
  Qed.

  Lemma build_graph_inv : forall events g0 gf roots,
    incl events roots -> ginv roots [] g0 ->
    fold_left (fun og i => match og with Some g => dfs st (dfs_fuel st) full [i] g | None => None end)
              events (Some g0) = Some gf ->
    ginv roots [] gf /\ (forall n, In n (map fst g0) \/ In n events -> In n (map fst gf)).
  Proof.
    induction events as [|i events IH]; intros g0 gf roots Hinc I E; cbn [fold_left] in E.
    - inversion E; subst gf. split; [exact I|]. intros n [H|[]]; exact H.
    - destruct (dfs st (dfs_fuel st) full [i] g0) as [g1|] eqn:Ed.
      2:{ exfalso. clear - E. induction events as [|j events IHe]; cbn [fold_left] in E; [discriminate|auto]. }
      assert (I0 : ginv roots [i] g0).
      { constructor; try (eapply gi_nodup || eapply gi_edges || eapply gi_full); eauto.
        - intros n [Hn|[<-|[]]]; [apply (gi_sound _ _ _ I); now left|left; apply Hinc; now left].
        - intros n d He. destruct (gi_closed _ _ _ I _ _ He) as [H|[]]. now left. }
      destruct (dfs_inv roots _ _ _ _ I0 Ed) as [I1 H1].
      destruct (IH g1 gf roots) as [If Hf]; [intros x Hx; apply Hinc; now right|exact I1|exact E|].
      split; [exact If|]. intros n [Hn|[<-|Hn]].
      + apply Hf. left. apply H1. now left.
      + apply Hf. left. apply H1. right. now left.
      + apply Hf. now right.
  Qed.

  (** ** Characterisation of the built graph *)
  Theorem build_graph_spec events g :
    build_graph st full events = Some g ->
    NoDup (map fst g)
    /\ (forall n, In n (map fst g) <-> In n events \/ exists r, In r events /\ reach r n)
    /\ (forall n d, In d (edges_of g n) <-> In n (map fst g) /\ In d (auth_ids st n) /\ In d full).
  Proof.
    intros E. unfold build_graph in E.
    assert (I0 : ginv events [] []).
    { constructor.
      - constructor.
      - intros n [[]|[]].
      - intros n d (es & H & _). discriminate.
      - intros n d [].
      - intros n d (es & H & _). discriminate. }
    destruct (build_graph_inv events [] g events (incl_refl _) I0 E) as [I Hroots].
    assert (Hedge : forall n d, In d (edges_of g n) <-> has_edge g n d).
    { intros n d. unfold edges_of, has_edge. destruct (ilookup n g) as [es|]; split.
      - intros H. exists es. auto.
      - intros (es' & H1 & H2). congruence.
      - intros [].
      - intros (es' & H1 & _). discriminate. }
    split; [eapply gi_nodup; eauto|]. split.
    - intros n. split.
      + intros Hn. apply (gi_sound _ _ _ I). now left.
      + intros [Hn|(r & Hr & Hreach)]; [apply Hroots; now right|].
        assert (Hrg : In r (map fst g)) by (apply Hroots; now right).
        induction Hreach as [i j Hj Hf|i j k Hij IHr Hk Hf].
        * apply mem_str_In in Hf.
          destruct (gi_closed _ _ _ I i j (gi_full _ _ _ I i j Hrg Hj Hf)) as [H|[]]. exact H.
        * specialize (IHr Hr Hrg). apply mem_str_In in Hf.
          destruct (gi_closed _ _ _ I j k (gi_full _ _ _ I j k IHr Hk Hf)) as [H|[]]. exact H.
    - intros n d. rewrite Hedge. split.
      + intros He. split; [eapply has_edge_node; eauto|]. eapply gi_edges; eauto.
      + intros (Hn & Ha & Hf). eapply gi_full; eauto.
  Qed.
End Graph.
